(** * Feat/FeaturesVldRules.v — C13 composed with C04's validator model, second part.

    1. Every slot of the document NewTypeInfo annotated holds only types visible to the request:
       [type_info_nodes_ok] (selection-set scopes, field definitions, expected types of values,
       variable types).
    2. On such a document the rule groups that follow pointers out of the slots — fields (with the
       field-merging rule), values, fragment spreads — answer alike on (S, F) and on the erased
       schema ([rule_fields_erase], [rule_values_erase], [rule_spreads_erase]).
    3. [validate_eq]: [validate_model q pi (verase S F) G D = validate_model q pi S F D].

    The spread rule needs that getPossibleTypes of a visible type lists the same types on both
    sides: the section hypothesis [PT].  With the feature filter in C04's model ([q_impl_features],
    on in [repaired]) it is a lemma, [possible_types_repaired], and [validate_eq_repaired] has no such
    hypothesis; for the pinned behaviour (filter off) it holds exactly when no implementation listed
    for a visible interface is gated ([validate_eq_no_gated_impls]) and fails otherwise
    ([FeaturesVld.spreads_refuted_before_fix]). *)
From Coq Require Import List NArith Bool String Lia.
From ApiFu Require Import Base.Sexp Vld.Ast Vld.AstInd Vld.Inspect Vld.InspectProofs Vld.TypeInfoModel
  Vld.ValidatorModel Vld.ProofsCommon Feat.FeaturesVld.
Import ListNotations.
Open Scope list_scope.

(** ** trees *)
Definition nodes_ok (P : node -> Prop) (t : tree) : Prop := forall n, In n (tree_nodes t) -> P n.

Lemma nodes_ok_T (P : node -> Prop) r cs : nodes_ok P (T r cs) <-> P r /\ Forall (nodes_ok P) cs.
Proof.
  unfold nodes_ok. cbn [tree_nodes]. split.
  - intro H. split; [apply H; left; reflexivity|]. apply Forall_forall. intros c Hc n Hn.
    apply H. right. apply in_flat_map. exists c. auto.
  - intros [Hr Hcs] n [Hn | Hn]; [subst; exact Hr|].
    apply in_flat_map in Hn as [c [Hc Hn]]. rewrite Forall_forall in Hcs. apply (Hcs c Hc n Hn).
Qed.

Lemma nodes_ok_leaf (P : node -> Prop) r : P r -> nodes_ok P (T r []).
Proof. intro H. apply nodes_ok_T. split; [exact H | constructor]. Qed.

(** [inspect] with two visitors that agree on the nodes of the tree, under a state invariant *)
Lemma inspect_ext_inv {St} (Inv : St -> Prop) (P : node -> Prop)
      (e1 e2 : St -> node -> St * bool) (leave : St -> St) :
  (forall st n, Inv st -> P n -> e1 st n = e2 st n) ->
  (forall st n, Inv st -> P n -> Inv (fst (e2 st n))) ->
  (forall st, Inv st -> Inv (leave st)) ->
  forall t, nodes_ok P t -> forall st, Inv st ->
  inspect e1 leave t st = inspect e2 leave t st /\ Inv (inspect e2 leave t st).
Proof.
  intros Heq Hinv Hleave t. induction t as [n cs IH] using tree_ind'. intros Hok st Hst.
  apply nodes_ok_T in Hok as [Hn Hcs]. cbn [inspect]. rewrite (Heq st n Hst Hn).
  pose proof (Hinv st n Hst Hn) as Hs1. destruct (e2 st n) as [s1 [|]]; cbn [fst] in Hs1; [|auto].
  assert (K : forall s, Inv s ->
            fold_left (fun acc c => inspect e1 leave c acc) cs s = fold_left (fun acc c => inspect e2 leave c acc) cs s /\
            Inv (fold_left (fun acc c => inspect e2 leave c acc) cs s)).
  { clear Hs1. induction cs as [|c r IHr]; intros s Hs; [auto|]. cbn [fold_left].
    inversion IH as [|x l Hc Hr]; subst. inversion Hcs as [|x l Oc Or]; subst.
    destruct (Hc Oc s Hs) as [E1 I1]. rewrite E1. apply IHr; auto. }
  destruct (K s1 Hs1) as [E I]. rewrite E. auto.
Qed.

Section Rules.
  Variable S : schema.
  Variables F G : features.
  Hypothesis Hok : vok S = true.
  Hypothesis HFG : subset F G = true.
  Local Notation alive := (vvisible S F).
  Local Notation E := (verase S F).
  Local Notation vsc := (vis_scope S F).
  Local Notation vfd := (vis_field S F).
  Local Notation vty := (vis_osty S F).

  Definition vis_ofield (a : option field_def) : Prop := match a with Some fd => vfd fd | None => True end.

  (** what a slot may hold *)
  Definition wa_node (n : node) : Prop :=
    match n with
    | NSelSet ss => vsc (ss_ann ss)
    | NSel (SField a _ _ _ _ _ _) => vis_ofield a
    | NValue v => vty (va_expected (v_ann v))
    | NVarDef v => vty (vd_ann v)
    | _ => True
    end.
  Local Notation ok := (nodes_ok wa_node).

  Lemma ok_name np : ok (name_tree np).
  Proof. apply nodes_ok_leaf. exact I. Qed.

  Lemma Forall_map_ok {A} (f : A -> tree) l : (forall x, In x l -> ok (f x)) -> Forall ok (map f l).
  Proof. intro H. apply Forall_forall. intros t Ht. apply in_map_iff in Ht as [x [Ex Hx]]. subst. auto. Qed.

  Lemma va_expected_set a v : va_expected (v_ann (set_ann a v)) = va_expected a.
  Proof. destruct v; reflexivity. Qed.

  (** *** the output of NewTypeInfo *)
  Lemma ti_value_ok q v : forall sc e d, vty e -> ok (tree_value (ti_value_in q S sc e d v)).
  Proof.
    induction v using value_ind'; intros sc e dd V;
      try (cbn [ti_value_in set_ann tree_value]; apply nodes_ok_T; split; [exact V | repeat constructor; apply ok_name]).
    - (* list *)
      cbn [ti_value_in tree_value]. apply nodes_ok_T. split; [exact V|].
      rewrite map_map. apply Forall_map_ok. intros x Hx. rewrite Forall_forall in H. apply (H x Hx).
      destruct e as [t|]; [|exact I]. destruct (nullable t) as [n | t' | t'] eqn:N; try exact I.
      simpl. unfold vis_sty. simpl in V. unfold vis_sty in V.
      pose proof (unwrapped_nullable t) as U. rewrite N in U. simpl in U. rewrite U. exact V.
    - (* object *)
      cbn [ti_value_in tree_value]. apply nodes_ok_T. split; [exact V|].
      destruct (object_fields_erase S F Hok q e V) as [_ OV].
      rewrite map_map. apply Forall_map_ok. intros [[n np] x] Hx.
      rewrite Forall_forall in H. specialize (H _ Hx). cbn [snd] in H.
      destruct (object_fields q S e) as [l|] eqn:OF.
      + destruct (assoc n l) as [def|] eqn:A; apply nodes_ok_T; (split; [exact I|]);
          (constructor; [apply ok_name | constructor; [|constructor]]); apply H.
        * simpl. apply (OV l eq_refl (n, def)). apply vassoc_In. exact A.
        * exact I.
      + apply nodes_ok_T. split; [exact I|]. constructor; [apply ok_name | constructor; [|constructor]].
        apply H. exact I.
  Qed.

  Lemma ti_args_ok q defs dn args :
    (forall l, defs = Some l -> forall a, In a l -> vis_sty S F (in_type (snd a))) ->
    Forall ok (map tree_arg (ti_args q S defs dn args)).
  Proof.
    intro V. unfold ti_args. rewrite map_map. apply Forall_map_ok. intros a Ha.
    unfold tree_arg. apply nodes_ok_T. split; [exact I|]. constructor; [apply ok_name|]. constructor; [|constructor].
    destruct defs as [l|]; [|cbn [a_value]; unfold ti_value; apply ti_value_ok; exact I].
    destruct (assoc (a_name a) l) as [def|] eqn:A; cbn [a_value]; unfold ti_value; apply ti_value_ok.
    - simpl. apply (V l eq_refl (a_name a, def)). apply vassoc_In. exact A.
    - exact I.
  Qed.

  Lemma ti_dir_ok q d : ok (tree_dir (ti_dir q S d)).
  Proof.
    unfold tree_dir, ti_dir. cbn [d_name d_npos d_args]. apply nodes_ok_T. split; [exact I|].
    constructor; [apply ok_name|]. apply ti_args_ok.
    intros l Hl a Ha. destruct (assoc (d_name d) (s_directives S)) as [dd|] eqn:A; [|discriminate].
    inversion Hl; subst l.
    destruct (vok_parts S Hok) as [_ [_ [_ [_ [_ [D _]]]]]]. rewrite forallb_forall in D.
    specialize (D (d_name d, dd) (vassoc_In _ _ _ A)). cbn [snd] in D. rewrite forallb_forall in D.
    eapply (ref_ok_visible S F); [apply D; exact Ha | apply subset_nil].
  Qed.

  Lemma ti_dirs_ok q ds : Forall ok (map tree_dir (map (ti_dir q S) ds)).
  Proof. rewrite map_map. apply Forall_map_ok. intros d _. apply ti_dir_ok. Qed.

  Lemma Forall_app_ok (a b : list tree) : Forall ok a -> Forall ok b -> Forall ok (a ++ b).
  Proof. intros. apply Forall_app. auto. Qed.

  Lemma opt_tree_ok {A} (f : A -> tree) (o : option A) : (forall x, o = Some x -> ok (f x)) -> Forall ok (opt_tree f o).
  Proof. destruct o as [x|]; intro H; [constructor; [apply H; reflexivity | constructor] | constructor]. Qed.

  Lemma seq_opt_Forall2 {A} (l : list (option A)) : forall r, seq_opt l = Some r -> Forall2 (fun o a => o = Some a) l r.
  Proof.
    induction l as [|o l' IH]; intros r H.
    - inversion H; subst. constructor.
    - cbn [seq_opt fold_right] in H. fold (seq_opt l') in H.
      destruct o as [x|]; [|discriminate]. destruct (seq_opt l') as [r'|] eqn:R; [|discriminate].
      inversion H; subst r. constructor; [reflexivity | apply IH; reflexivity].
  Qed.

  Lemma ti_sel_field_eq q stack a al n np args dirs sub :
    ti_sel q S F stack (SField a al n np args dirs sub) =
    match stack with
    | [] => None
    | top :: _ =>
        let fd := field_of_scope S F top n in
        let sc : scope := match fd with Some f => Some (unwrapped (f_type f)) | None => None end in
        let args' := ti_args q S (match fd with Some f => Some (f_args f) | None => None end) dflt_not_nil args in
        match sub with
        | None => Some (SField fd al n np args' (map (ti_dir q S) dirs) None)
        | Some ss => match ti_ss q S F (sc :: stack) ss with
                     | Some ss' => Some (SField fd al n np args' (map (ti_dir q S) dirs) (Some ss'))
                     | None => None
                     end
        end
    end.
  Proof. reflexivity. Qed.

  Lemma ti_sel_inline_eq q stack cond dirs sub e :
    ti_sel q S F stack (SInline cond dirs sub e) =
    let osc : option scope :=
      match cond with
      | None => match stack with [] => None | top :: _ => Some top end
      | Some (tn, _) => Some (match named_type S F tn with Some _ => Some tn | None => None end)
      end in
    match osc with
    | None => None
    | Some sc => match ti_ss q S F (sc :: stack) sub with
                 | Some ss' => Some (SInline cond (map (ti_dir q S) dirs) ss' e)
                 | None => None
                 end
    end.
  Proof. reflexivity. Qed.

  Lemma ti_ss_eq q stack a sels p :
    ti_ss q S F stack (SelSet a sels p) =
    match stack with
    | [] => None
    | top :: _ => match seq_opt (map (ti_sel q S F (top :: stack)) sels) with
                  | Some sels' => Some (SelSet top sels' p)
                  | None => None
                  end
    end.
  Proof. reflexivity. Qed.

  Lemma ti_sel_ss_ok q :
    (forall s stack s', Forall vsc stack -> ti_sel q S F stack s = Some s' -> ok (tree_sel s')) /\
    (forall ss stack ss', Forall vsc stack -> ti_ss q S F stack ss = Some ss' -> ok (tree_ss ss')).
  Proof.
    apply sel_ss_ind.
    - (* field *)
      intros a al n np args dirs sub IH stack s' VS. rewrite ti_sel_field_eq.
      destruct stack as [|top rest]; [discriminate|]. cbv zeta.
      inversion VS as [|x l Vtop Vrest]; subst.
      destruct (field_of_scope_erase S F G Hok HFG top n Vtop) as [_ FV].
      set (fd := field_of_scope S F top n) in *.
      assert (Vfd : vis_ofield fd) by (destruct fd as [f|] eqn:Efd; [apply (FV f eq_refl) | exact I]).
      assert (AO : Forall ok (map tree_arg (ti_args q S (match fd with Some f => Some (f_args f) | None => None end) dflt_not_nil args))).
      { apply ti_args_ok. intros l Hl x Hx. destruct fd as [f|]; [|discriminate].
        inversion Hl; subst l. apply (proj2 Vfd). exact Hx. }
      assert (Common : forall sub', (forall ss', sub' = Some ss' -> ok (tree_ss ss')) ->
                ok (tree_sel (SField fd al n np
                       (ti_args q S (match fd with Some f => Some (f_args f) | None => None end) dflt_not_nil args)
                       (map (ti_dir q S) dirs) sub'))).
      { intros sub' Hsub. cbn [tree_sel]. apply nodes_ok_T. split; [exact Vfd|].
        apply Forall_app_ok; [apply opt_tree_ok; intros; apply ok_name|].
        apply Forall_app_ok; [constructor; [apply ok_name | constructor]|].
        apply Forall_app_ok; [exact AO|].
        apply Forall_app_ok; [apply ti_dirs_ok | apply opt_tree_ok; exact Hsub]. }
      destruct sub as [ss|].
      + match goal with |- context [ti_ss q S F ?st0 ss] => destruct (ti_ss q S F st0 ss) as [ss'|] eqn:TS end; [|discriminate].
        intro H; inversion H; subst s'. apply Common. intros ss0 E0. inversion E0; subst ss0.
        eapply (IH ss eq_refl); [|exact TS]. constructor; [|exact VS].
        destruct fd as [f|]; [simpl; apply (proj1 Vfd) | exact I].
      + intro H; inversion H; subst s'. apply Common. intros ss0 E0. discriminate.
    - (* spread *)
      intros n np dirs e stack s' VS. cbn [ti_sel]. intro H; inversion H; subst s'.
      cbn [tree_sel]. apply nodes_ok_T. split; [exact I|]. constructor; [apply ok_name | apply ti_dirs_ok].
    - (* inline *)
      intros cond dirs sub e IH stack s' VS. rewrite ti_sel_inline_eq. cbv zeta.
      assert (Fin : forall sc ss', Forall vsc (sc :: stack) -> ti_ss q S F (sc :: stack) sub = Some ss' ->
                ok (tree_sel (SInline cond (map (ti_dir q S) dirs) ss' e))).
      { intros sc ss' VS' TS. cbn [tree_sel]. apply nodes_ok_T. split; [exact I|].
        apply Forall_app_ok; [apply opt_tree_ok; intros x _; unfold tree_named_type; apply nodes_ok_T; split; [exact I|]; constructor; [apply ok_name | constructor]|].
        apply Forall_app_ok; [apply ti_dirs_ok|]. constructor; [|constructor]. apply (IH _ ss' VS' TS). }
      destruct cond as [[tn tp]|].
      + destruct (named_type S F tn) as [b|] eqn:NT.
        * match goal with |- context [ti_ss q S F ?st0 sub] => destruct (ti_ss q S F st0 sub) as [ss'|] eqn:TS end; [|discriminate]. intro H; inversion H; subst s'.
          eapply Fin; [|exact TS]. constructor; [|exact VS]. simpl. eapply named_type_visible; eauto.
        * match goal with |- context [ti_ss q S F ?st0 sub] => destruct (ti_ss q S F st0 sub) as [ss'|] eqn:TS end; [|discriminate]. intro H; inversion H; subst s'.
          eapply Fin; [|exact TS]. constructor; [exact I | exact VS].
      + destruct stack as [|top rest]; [discriminate|].
        match goal with |- context [ti_ss q S F ?st0 sub] => destruct (ti_ss q S F st0 sub) as [ss'|] eqn:TS end; [|discriminate]. intro H; inversion H; subst s'.
        eapply Fin; [|exact TS]. constructor; [inversion VS; assumption | exact VS].
    - (* selection set *)
      intros a sels p IH stack ss' VS. rewrite ti_ss_eq.
      destruct stack as [|top rest]; [discriminate|].
      destruct (seq_opt (map (ti_sel q S F (top :: top :: rest)) sels)) as [sels'|] eqn:SO; [|discriminate].
      intro H; inversion H; subst ss'. cbn [tree_ss]. apply nodes_ok_T.
      split; [cbn [wa_node ss_ann]; inversion VS; assumption|].
      apply seq_opt_Forall2 in SO. apply Forall_map_ok. intros s' Hs'.
      assert (VS2 : Forall vsc (top :: top :: rest)) by (constructor; [inversion VS; assumption | exact VS]).
      clear H. revert sels' SO Hs'. induction sels as [|s0 r IHr]; intros sels' SO Hs'.
      + inversion SO; subst. contradiction.
      + cbn [map] in SO. inversion SO as [|o a0 l l' Ho Hl]; subst.
        inversion IH as [|x l0 P0 Pr]; subst.
        destruct Hs' as [Hs' | Hs'].
        * subst. apply (P0 _ _ VS2 Ho).
        * apply (IHr Pr l' Hl Hs').
  Qed.

  Lemma ty_ok t : ok (tree_ty t).
  Proof.
    induction t; cbn [tree_ty]; apply nodes_ok_T; (split; [exact I|]);
      (constructor; [|constructor]); auto; apply ok_name.
  Qed.

  Lemma ti_vardef_ok q v : ok (tree_vardef (ti_vardef q S F v)).
  Proof.
    unfold tree_vardef, ti_vardef. cbn [vd_name vd_dollar vd_npos vd_type vd_default vd_ann].
    destruct (schema_type_erase S F G Hok HFG (vd_type v)) as [_ TV].
    assert (Vt : vty (schema_type S F (vd_type v))).
    { destruct (schema_type S F (vd_type v)) as [y|] eqn:ST; [|exact I]. simpl. apply (TV y eq_refl). }
    apply nodes_ok_T. split; [exact Vt|].
    apply Forall_app_ok.
    - constructor; [|constructor; [apply ty_ok | constructor]].
      cbn [tree_value]. apply nodes_ok_T. split; [exact I|]. constructor; [apply ok_name | constructor].
    - apply opt_tree_ok. intros x Hx. destruct (vd_default v) as [x0|]; [|discriminate].
      inversion Hx; subst x. unfold ti_value. apply ti_value_ok. exact Vt.
  Qed.

  Lemma ti_def_ok q d d' : ti_def q S F [None] d = Some d' -> ok (tree_def d').
  Proof.
    destruct (vok_parts S Hok) as [_ [_ [Rq [Rm [Rs _]]]]].
    destruct (root_keep S F _ Rq) as [_ Vq]. destruct (root_keep S F _ Rm) as [_ Vm]. destruct (root_keep S F _ Rs) as [_ Vs].
    destruct d as [ot n vars dirs sub | kw n np cond dirs sub]; cbn [ti_def].
    - match goal with |- match ti_ss q S F (?sc :: _) sub with _ => _ end = _ -> _ => set (sc0 := sc) end.
      assert (Vsc : vsc sc0).
      { unfold sc0. destruct ot as [[v vp]|]; [|exact Vq].
        destruct (name_eqb v n_query); [exact Vq|].
        destruct (name_eqb v n_mutation); [exact Vm|].
        destruct (name_eqb v n_subscription); [exact Vs | exact I]. }
      destruct (ti_ss q S F (sc0 :: [None]) sub) as [sub'|] eqn:TS; [|discriminate].
      intro H; inversion H; subst d'. cbn [tree_def]. apply nodes_ok_T. split; [exact I|].
      apply Forall_app_ok; [apply opt_tree_ok; intros; apply nodes_ok_leaf; exact I|].
      apply Forall_app_ok; [apply opt_tree_ok; intros; apply ok_name|].
      apply Forall_app_ok; [rewrite map_map; apply Forall_map_ok; intros v _; apply ti_vardef_ok|].
      apply Forall_app_ok; [apply ti_dirs_ok|]. constructor; [|constructor].
      eapply (proj2 (ti_sel_ss_ok q) sub); [|exact TS].
      constructor; [exact Vsc | constructor; [exact I | constructor]].
    - match goal with |- match ti_ss q S F (?sc :: _) sub with _ => _ end = _ -> _ => set (sc0 := sc) end.
      assert (Vsc : vsc sc0).
      { unfold sc0. destruct (named_type S F (fst cond)) as [b|] eqn:NT; [|exact I].
        simpl. eapply named_type_visible; eauto. }
      destruct (ti_ss q S F (sc0 :: [None]) sub) as [sub'|] eqn:TS; [|discriminate].
      intro H; inversion H; subst d'. cbn [tree_def]. apply nodes_ok_T. split; [exact I|].
      constructor; [apply ok_name|].
      apply Forall_app_ok; [apply ti_dirs_ok|]. constructor; [|constructor].
      eapply (proj2 (ti_sel_ss_ok q) sub); [|exact TS].
      constructor; [exact Vsc | constructor; [exact I | constructor]].
  Qed.

  (** every slot of the document NewTypeInfo annotated holds only types visible to F *)
  Theorem type_info_nodes_ok q D A : type_info q S F D = Some A -> ok (tree_doc A).
  Proof.
    unfold type_info. intro H. apply seq_opt_Forall2 in H.
    unfold tree_doc. apply nodes_ok_T. split; [exact I|]. apply Forall_map_ok. intros d' Hd'.
    revert A H Hd'. induction D as [|d r IH]; intros A H Hd'.
    - inversion H; subst. contradiction.
    - cbn [map] in H. inversion H as [|o a0 l l' Ho Hl]; subst.
      destruct Hd' as [Hd' | Hd']; [subst; eapply ti_def_ok; eauto | eapply IH; eauto].
  Qed.

  (** ** what the rules observe of a type the request may see (or that is not registered at all) *)
  Definition okname (n : name) : Prop := alive n = true \/ raw_type S n = None.

  Lemma raw_body_ok n : okname n -> raw_body E n = option_map (verase_body alive F) (raw_body S n).
  Proof.
    intros [V | N]; [apply (raw_body_erase S F Hok n V)|].
    unfold raw_body. rewrite (raw_type_erase S F Hok n), N. reflexivity.
  Qed.

  Lemma string_okname : okname n_String.
  Proof.
    pose proof (string_rule S Hok) as H. unfold req_of in H. unfold okname, vvisible.
    destruct (raw_type S n_String) as [d|]; [|right; reflexivity].
    destruct (t_req d); [left; reflexivity | discriminate].
  Qed.

  Lemma is_composite_name_erase n : okname n -> is_composite_name E n = is_composite_name S n.
  Proof.
    intro V. unfold is_composite_name. rewrite (raw_body_ok n V).
    destruct (raw_body S n) as [[| | | | |]|]; reflexivity.
  Qed.

  Lemma is_object_name_erase n : okname n -> is_object_name E n = is_object_name S n.
  Proof.
    intro V. unfold is_object_name. rewrite (raw_body_ok n V).
    destruct (raw_body S n) as [[| | | | |]|]; reflexivity.
  Qed.

  Lemma is_leaf_sty_erase t : (forall n, t = StNamed n -> okname n) -> is_leaf_sty E t = is_leaf_sty S t.
  Proof.
    intro V. destruct t as [n | t' | t']; try reflexivity. unfold is_leaf_sty.
    rewrite (raw_body_ok n (V n eq_refl)). destruct (raw_body S n) as [[| | | | |]|]; reflexivity.
  Qed.

  (** ** the trees of an AST are self-describing: beneath a selection-set node lies the tree of
      that selection set *)
  Definition no_ss (t : tree) : Prop := forall ss, ~ In (NSelSet ss) (tree_nodes t).
  Definition closed (t : tree) : Prop :=
    forall ss, In (NSelSet ss) (tree_nodes t) -> incl (tree_nodes (tree_ss ss)) (tree_nodes t).

  Lemma no_ss_T r cs : (forall ss, r <> NSelSet ss) -> Forall no_ss cs -> no_ss (T r cs).
  Proof.
    intros Hr Hcs ss [H | H]; [apply (Hr ss); exact H|].
    apply in_flat_map in H as [c [Hc H]]. rewrite Forall_forall in Hcs. apply (Hcs c Hc ss H).
  Qed.
  Lemma no_ss_closed t : no_ss t -> closed t.
  Proof. intros H ss Hin. exfalso. apply (H ss Hin). Qed.
  Lemma closed_T r cs : (forall ss, r <> NSelSet ss) -> Forall closed cs -> closed (T r cs).
  Proof.
    intros Hr Hcs ss [H | H]; [exfalso; apply (Hr ss); exact H|].
    apply in_flat_map in H as [c [Hc H]]. rewrite Forall_forall in Hcs.
    intros n Hn. right. apply in_flat_map. exists c. split; [exact Hc | apply (Hcs c Hc ss H n Hn)].
  Qed.

  Lemma Forall_map_gen {A} (Q : tree -> Prop) (f : A -> tree) l : (forall x, In x l -> Q (f x)) -> Forall Q (map f l).
  Proof. intro H. apply Forall_forall. intros t Ht. apply in_map_iff in Ht as [x [Ex Hx]]. subst. auto. Qed.
  Lemma opt_tree_gen {A} (Q : tree -> Prop) (f : A -> tree) (o : option A) : (forall x, Q (f x)) -> Forall Q (opt_tree f o).
  Proof. destruct o as [x|]; intro H; [constructor; [apply H | constructor] | constructor]. Qed.

  Lemma no_ss_name np : no_ss (name_tree np).
  Proof. apply no_ss_T; [discriminate | constructor]. Qed.

  Lemma no_ss_value v : no_ss (tree_value v).
  Proof.
    induction v using value_ind'; cbn [tree_value]; apply no_ss_T; try discriminate;
      try (repeat constructor; apply no_ss_name).
    - apply Forall_map_gen. intros x Hx. rewrite Forall_forall in H. auto.
    - apply Forall_map_gen. intros [[n np] x] Hx. rewrite Forall_forall in H. specialize (H _ Hx).
      apply no_ss_T; [discriminate|]. constructor; [apply no_ss_name | constructor; [exact H | constructor]].
  Qed.

  Lemma no_ss_arg a : no_ss (tree_arg a).
  Proof. apply no_ss_T; [discriminate|]. constructor; [apply no_ss_name | constructor; [apply no_ss_value | constructor]]. Qed.
  Lemma no_ss_dir d : no_ss (tree_dir d).
  Proof. apply no_ss_T; [discriminate|]. constructor; [apply no_ss_name|]. apply Forall_map_gen. intros; apply no_ss_arg. Qed.
  Lemma no_ss_ty t : no_ss (tree_ty t).
  Proof. induction t; cbn [tree_ty]; apply no_ss_T; try discriminate; constructor; auto using no_ss_name. Qed.
  Lemma no_ss_vardef v : no_ss (tree_vardef v).
  Proof.
    apply no_ss_T; [discriminate|]. apply Forall_app. split.
    - constructor; [apply no_ss_value | constructor; [apply no_ss_ty | constructor]].
    - apply opt_tree_gen. apply no_ss_value.
  Qed.

  Lemma closed_sel_ss : (forall s, closed (tree_sel s)) /\ (forall ss, closed (tree_ss ss)).
  Proof.
    apply sel_ss_ind.
    - intros a al n np args dirs sub IH. cbn [tree_sel]. apply closed_T; [discriminate|].
      apply Forall_app. split; [apply opt_tree_gen; intro; apply no_ss_closed, no_ss_name|].
      apply Forall_app. split; [constructor; [apply no_ss_closed, no_ss_name | constructor]|].
      apply Forall_app. split; [apply Forall_map_gen; intros; apply no_ss_closed, no_ss_arg|].
      apply Forall_app. split; [apply Forall_map_gen; intros; apply no_ss_closed, no_ss_dir|].
      destruct sub as [ss|]; [constructor; [apply (IH ss eq_refl) | constructor] | constructor].
    - intros n np dirs e. cbn [tree_sel]. apply closed_T; [discriminate|].
      constructor; [apply no_ss_closed, no_ss_name | apply Forall_map_gen; intros; apply no_ss_closed, no_ss_dir].
    - intros cond dirs sub e IH. cbn [tree_sel]. apply closed_T; [discriminate|].
      apply Forall_app. split.
      + apply opt_tree_gen. intro x. apply no_ss_closed. unfold tree_named_type.
        apply no_ss_T; [discriminate|]. constructor; [apply no_ss_name | constructor].
      + apply Forall_app. split; [apply Forall_map_gen; intros; apply no_ss_closed, no_ss_dir|].
        constructor; [exact IH | constructor].
    - intros a sels p IH. intros ss Hin. cbn [tree_ss tree_nodes] in Hin. destruct Hin as [Hin | Hin].
      + inversion Hin; subst ss. apply incl_refl.
      + apply in_flat_map in Hin as [c [Hc Hin]]. apply in_map_iff in Hc as [s [Es Hs]]. subst c.
        rewrite Forall_forall in IH. intros n Hn. cbn [tree_ss tree_nodes]. right.
        apply in_flat_map. exists (tree_sel s). split; [apply in_map; exact Hs | apply (IH s Hs ss Hin n Hn)].
  Qed.

  Lemma closed_def d : closed (tree_def d).
  Proof.
    destruct d as [ot n vars dirs sub | kw n np cond dirs sub]; cbn [tree_def]; apply closed_T; try discriminate.
    - apply Forall_app. split; [apply opt_tree_gen; intro; apply no_ss_closed, no_ss_T; [discriminate | constructor]|].
      apply Forall_app. split; [apply opt_tree_gen; intro; apply no_ss_closed, no_ss_name|].
      apply Forall_app. split; [apply Forall_map_gen; intros; apply no_ss_closed, no_ss_vardef|].
      apply Forall_app. split; [apply Forall_map_gen; intros; apply no_ss_closed, no_ss_dir|].
      constructor; [apply (proj2 closed_sel_ss) | constructor].
    - constructor; [apply no_ss_closed, no_ss_name|].
      apply Forall_app. split; [apply Forall_map_gen; intros; apply no_ss_closed, no_ss_dir|].
      constructor; [apply (proj2 closed_sel_ss) | constructor].
  Qed.

  Lemma closed_doc A : closed (tree_doc A).
  Proof. unfold tree_doc. apply closed_T; [discriminate|]. apply Forall_map_gen. intros; apply closed_def. Qed.

  (** the node predicate the rules need: the slot is visible, and beneath a selection set all is *)
  Definition wa_node' (n : node) : Prop :=
    wa_node n /\ match n with NSelSet ss => ok (tree_ss ss) | _ => True end.

  Lemma ok_strengthen t : closed t -> ok t -> nodes_ok wa_node' t.
  Proof.
    intros C H n Hn. split; [apply H; exact Hn|].
    destruct n; try exact I. intros m Hm. apply H. apply (C s Hn m Hm).
  Qed.

  Lemma frag_last_In A n d : frag_last A n = Some d -> In d A.
  Proof.
    induction A as [|d0 r IH]; cbn [frag_last]; [discriminate|].
    destruct (frag_last r n) as [x|]; [intro H; inversion H; subst; right; apply IH; reflexivity|].
    destruct d0; [discriminate|]. destruct (name_eqb n n0); [|discriminate].
    intro H; inversion H; subst. left; reflexivity.
  Qed.

  Lemma ok_doc_def A d : ok (tree_doc A) -> In d A -> ok (tree_def d).
  Proof.
    intros H Hd. unfold tree_doc in H. apply nodes_ok_T in H as [_ H]. rewrite Forall_forall in H.
    apply H. apply in_map. exact Hd.
  Qed.

  Lemma ok_def_sub d : ok (tree_def d) -> ok (tree_ss (def_sub d)).
  Proof.
    intro H. destruct d as [ot n vars dirs sub | kw n np cond dirs sub]; cbn [tree_def def_sub] in *;
      apply nodes_ok_T in H as [_ H]; rewrite Forall_forall in H; apply H.
    - apply in_or_app; right. apply in_or_app; right. apply in_or_app; right. apply in_or_app; right. left; reflexivity.
    - right. apply in_or_app; right. left; reflexivity.
  Qed.

  (** ** validateFields, first pass: field exists on the scope, leaf / composite subselection *)
  Lemma raw_body_nodup tn b : raw_body S tn = Some b -> vnodup (map fst (fields_of_body b)) = true.
  Proof.
    unfold raw_body. destruct (raw_type S tn) as [d|] eqn:L; [|discriminate].
    intro H; inversion H; subst b. apply (fields_nodup S Hok tn d L).
  Qed.

  Definition stack_ok (st : rst) : Prop := Forall vsc (r_stack st).

  Lemma fields_enter_erase st n : stack_ok st -> wa_node n -> fields_enter E G st n = fields_enter S F st n.
  Proof.
    intros Hst Hn. destruct n as [| | | | | | | ss | s | | |]; try reflexivity.
    destruct s as [a al fname np args dirs sub | |]; try reflexivity.
    cbn [wa_node] in Hn. unfold fields_enter.
    assert (Hshould : match a with Some def => is_composite_name E (unwrapped (f_type def)) | None => false end
                      = match a with Some def => is_composite_name S (unwrapped (f_type def)) | None => false end).
    { destruct a as [def|]; [|reflexivity]. apply is_composite_name_erase. left. apply (proj1 Hn). }
    rewrite Hshould. clear Hshould.
    unfold stack_ok in Hst.
    destruct a as [def|]; destruct (negb (name_eqb fname n_typename)); cbn [r_stack add_errs]; try reflexivity;
      (destruct (r_stack st) as [|[tn|] rest] eqn:RS; try reflexivity;
       assert (V : alive tn = true) by (inversion Hst; assumption);
       rewrite (raw_body_ok tn (or_introl V));
       destruct (raw_body S tn) as [[k | vals | ifs | fields ifs | fields | ms]|] eqn:RB; cbn [option_map verase_body]; try reflexivity;
       pose proof (raw_body_nodup tn _ RB) as Hnd; cbn [fields_of_body] in Hnd;
       rewrite (get_field_erase F G HFG fields fname Hnd); reflexivity).
  Qed.

  Lemma fields_enter_stack_eq st n :
    r_stack (fst (fields_enter S F st n)) = (match n with NSelSet ss => ss_ann ss | _ => None end) :: r_stack st.
  Proof.
    destruct n as [| | | | | | | ss | s | | |]; try reflexivity.
    destruct s as [a al fname np args dirs sub | |]; try reflexivity.
    unfold fields_enter.
    match goal with |- context [let '(x, y) := ?X in _] => destruct X as [st2 ex] eqn:EX end.
    assert (R2 : r_stack st2 = r_stack st).
    { revert EX.
      repeat match goal with
             | |- context [match ?x with _ => _ end] => destruct x
             | |- context [if ?x then _ else _] => destruct x
             end; intro H; inversion H; reflexivity. }
    repeat match goal with
           | |- context [match ?x with _ => _ end] => destruct x
           | |- context [if ?x then _ else _] => destruct x
           end; cbn [fst push r_stack add_errs]; rewrite R2; reflexivity.
  Qed.

  Lemma fields_enter_stack st n : stack_ok st -> wa_node n -> stack_ok (fst (fields_enter S F st n)).
  Proof.
    intros Hst Hn. unfold stack_ok. rewrite fields_enter_stack_eq. constructor; [|exact Hst].
    destruct n; try exact I. exact Hn.
  Qed.

  Lemma pop_stack st : stack_ok st -> stack_ok (pop st).
  Proof. unfold stack_ok, pop. cbn [r_stack]. intro H. destruct (r_stack st); [constructor | inversion H; assumption]. Qed.

  (** ** validateValues *)
  Lemma coercion_eq q pi S0 from to allow :
    coercion q pi S0 from to allow =
    if is_var from then VR []
    else if is_null from then VR (if is_nonnull to then [err ECoerceNull (v_pos from)] else [])
    else
      match to with
      | StNonNull t => coercion q pi S0 from t allow
      | StList t =>
          match from with
          | VList _ vs _ => items_loop (coercion q pi S0) t vs
          | _ => if allow then coercion q pi S0 from t true else VR [err ECoerceList (v_pos from)]
          end
      | StNamed tn =>
          match raw_body S0 tn with
          | Some (TScalar k) => VR (if scalar_accepts k from then [] else [err ECoerceScalar (v_pos from)])
          | Some (TEnum vals) =>
              VR (match from with
                  | VEnum _ x _ => if mem x vals then [] else [err ECoerceEnum (v_pos from)]
                  | _ => [err ECoerceEnum (v_pos from)]
                  end)
          | Some (TInput defs) =>
              match from with
              | VObject _ fs p => fields_loop pi (coercion q pi S0) defs p fs [] []
              | _ => VR [err ECoerceObject (v_pos from)]
              end
          | _ => if q_noninput q then VR [sec ECoerceNonInput (v_pos from)] else VPanic
          end
      end.
  Proof. destruct from; destruct to; reflexivity. Qed.

  Lemma items_loop_ext (r1 r2 : value -> sty -> bool -> vres) t vs :
    Forall (fun x => r1 x t false = r2 x t false) vs -> items_loop r1 t vs = items_loop r2 t vs.
  Proof.
    induction 1 as [|x r Hx Hr IH]; [reflexivity|]. cbn [items_loop]. rewrite Hx, IH. reflexivity.
  Qed.

  Lemma fields_loop_ext pi (r1 r2 : value -> sty -> bool -> vres) defs p fs :
    (forall n np x def, In (n, np, x) fs -> assoc n defs = Some def -> r1 x (in_type def) true = r2 x (in_type def) true) ->
    forall seen acc, fields_loop pi r1 defs p fs seen acc = fields_loop pi r2 defs p fs seen acc.
  Proof.
    induction fs as [|[[n np] x] r IH]; intros H seen acc; [reflexivity|].
    cbn [fields_loop]. destruct (assoc n defs) as [def|] eqn:A.
    - rewrite (H n np x def (or_introl eq_refl) A).
      destruct (r2 x (in_type def) true) as [[|e l]|]; try reflexivity.
      apply IH. intros n' np' x' def' Hin A'. apply (H n' np' x' def'); [right; exact Hin | exact A'].
    - apply IH. intros n' np' x' def' Hin A'. apply (H n' np' x' def'); [right; exact Hin | exact A'].
  Qed.

  Definition coerces_alike q pi (v : value) : Prop :=
    forall to allow, vis_sty S F to -> coercion q pi E v to allow = coercion q pi S v to allow.

  Lemma coercion_step q pi v :
    (forall a vs p, v = VList a vs p -> Forall (coerces_alike q pi) vs) ->
    (forall a fs p, v = VObject a fs p -> Forall (fun f => coerces_alike q pi (snd f)) fs) ->
    coerces_alike q pi v.
  Proof.
    intros HL HO to. induction to as [tn | t IHt | t IHt]; intros allow V;
      rewrite (coercion_eq q pi E), (coercion_eq q pi S);
      (destruct (is_var v); [reflexivity|]); (destruct (is_null v); [reflexivity|]).
    - unfold vis_sty in V. cbn [unwrapped] in V. rewrite (raw_body_ok tn (or_introl V)).
      destruct (raw_body S tn) as [[k | vals | defs | fields ifs | fields | ms]|] eqn:RB;
        cbn [option_map verase_body]; try reflexivity.
      destruct v; try reflexivity.
      apply fields_loop_ext. intros n np x def Hin A. specialize (HO _ _ _ eq_refl).
      rewrite Forall_forall in HO. apply (HO (n, np, x) Hin (in_type def) true).
      destruct (alive_inv S F tn V) as [d [L R]]. unfold raw_body in RB. rewrite L in RB. inversion RB as [B].
      apply (input_fields_visible S F Hok tn d defs L R B (n, def)). apply vassoc_In. exact A.
    - assert (Vt : vis_sty S F t) by exact V.
      destruct v; try (destruct allow; [apply (IHt true Vt) | reflexivity]).
      apply items_loop_ext. specialize (HL _ _ _ eq_refl). rewrite Forall_forall in *.
      intros x Hx. apply (HL x Hx t false Vt).
    - apply (IHt allow V).
  Qed.

  Lemma coercion_erase q pi v : coerces_alike q pi v.
  Proof.
    induction v using value_ind'; apply coercion_step; intros; try discriminate.
    - match goal with E0 : _ = _ |- _ => inversion E0; subst end. assumption.
    - match goal with E0 : _ = _ |- _ => inversion E0; subst end. assumption.
  Qed.

  Lemma values_enter_erase q pi st n : wa_node n -> values_enter q pi E st n = values_enter q pi S st n.
  Proof.
    intro Hn. destruct n; try reflexivity. cbn [wa_node] in Hn. unfold values_enter.
    destruct (is_var v); [reflexivity|]. destruct (va_expected (v_ann v)) as [t|]; [|reflexivity].
    rewrite (coercion_erase q pi v t true Hn). reflexivity.
  Qed.

  (** ** validateFields, second pass: the field-merging rule *)
  Variable pi : order.
  Hypothesis Hpi : order_ok pi.

  Lemma pi_In {A} (l : list A) x : In x (pi A l) -> In x l.
  Proof. intro H. eapply Permutation.Permutation_in; [apply Hpi | exact H]. Qed.

  Definition oksel (s : selection) : Prop := ok (tree_sel s).
  Definition oks (ss : selset) : Prop := ok (tree_ss ss).
  Definition fp_ok (x : fp) : Prop := oksel (fst3 x) /\ vsc (snd (fst x)).
  Definition fmap_ok (m : fmap) : Prop := forall k l, In (k, l) m -> Forall fp_ok l.
  Definition frags_ok (A : document) : Prop := forall n d, frag_last A n = Some d -> oks (def_sub d).

  Lemma frags_ok_doc A : ok (tree_doc A) -> frags_ok A.
  Proof. intros H n d Hd. apply ok_def_sub. eapply ok_doc_def; [exact H | eapply frag_last_In; eauto]. Qed.

  Lemma oks_inv a sels p : oks (SelSet a sels p) -> vsc a /\ Forall oksel sels.
  Proof.
    unfold oks. cbn [tree_ss]. intro H. apply nodes_ok_T in H as [Ha Hs]. split; [exact Ha|].
    apply Forall_forall. intros s Hs'. rewrite Forall_forall in Hs. apply Hs. apply in_map. exact Hs'.
  Qed.

  Lemma oksel_sub s ss : oksel s -> sel_sub s = Some ss -> oks ss.
  Proof.
    unfold oksel, oks. destruct s as [a al n np args dirs sub | n np dirs e | cond dirs sub e]; cbn [sel_sub tree_sel]; intros H Es.
    - subst sub. apply nodes_ok_T in H as [_ H]. rewrite Forall_forall in H. apply H.
      apply in_or_app; right. apply in_or_app; right. apply in_or_app; right. apply in_or_app; right. left; reflexivity.
    - discriminate.
    - inversion Es; subst ss. apply nodes_ok_T in H as [_ H]. rewrite Forall_forall in H. apply H.
      apply in_or_app; right. apply in_or_app; right. left; reflexivity.
  Qed.

  Lemma oksel_fann s : oksel s -> vis_ofield (sel_fann s).
  Proof.
    unfold oksel. destruct s as [a al n np args dirs sub | |]; try (intros; exact I).
    cbn [tree_sel sel_fann]. intro H. apply nodes_ok_T in H as [H _]. exact H.
  Qed.

  Lemma fmap_ok_nil : fmap_ok [].
  Proof. unfold fmap_ok. intros k l H. destruct H. Qed.

  Lemma fmap_add_ok k x m : fp_ok x -> fmap_ok m -> fmap_ok (fmap_add k x m).
  Proof.
    intros Hx. induction m as [|[k' l] r IH]; intros Hm; cbn [fmap_add].
    - intros k0 l0 [H | []]. inversion H; subst. constructor; [exact Hx | constructor].
    - destruct (name_eqb k k').
      + intros k0 l0 [H | H].
        * inversion H; subst. apply Forall_app. split; [eapply Hm; left; reflexivity | constructor; [exact Hx | constructor]].
        * apply (Hm k0 l0). right; exact H.
      + intros k0 l0 [H | H]; [apply (Hm k0 l0); left; exact H|].
        apply (IH (fun k1 l1 H1 => Hm k1 l1 (or_intror H1)) k0 l0 H).
  Qed.

  Lemma collect_ok q A : frags_ok A -> forall fuel m visited ss m' v',
    fmap_ok m -> oks ss -> collect q A fuel m visited ss = COk m' v' -> fmap_ok m'.
  Proof.
    intros HA fuel. induction fuel as [|fuel' IH]; intros m visited ss m' v' Hm Hss H; [discriminate|].
    destruct ss as [a sels p]. cbn [collect] in H. destruct (oks_inv a sels p Hss) as [Va Hsels]. clear Hss.
    destruct (pmem p visited).
    - destruct (q_revisit_ok q); [inversion H; subst; exact Hm | discriminate].
    - revert H. generalize (p :: visited). revert m Hm.
      induction sels as [|s r IHr]; intros m Hm vis H.
      + inversion H; subst. exact Hm.
      + inversion Hsels as [|x l Hs Hr]; subst.
        destruct s as [a0 al n np args dirs sub | n np dirs e | cond dirs sub e].
        * apply (IHr Hr _ (fmap_add_ok _ (SField a0 al n np args dirs sub, a, p) m (conj Hs Va) Hm) vis H).
        * destruct (frag_last A n) as [d|] eqn:FL; [|discriminate].
          destruct (collect q A fuel' m vis (def_sub d)) as [m1 v1 | e1 |] eqn:C1; try discriminate.
          apply (IHr Hr m1 (IH _ _ _ _ _ Hm (HA n d FL) C1) v1 H).
        * destruct (collect q A fuel' m vis sub) as [m1 v1 | e1 |] eqn:C1; try discriminate.
          apply (IHr Hr m1 (IH _ _ _ _ _ Hm (oksel_sub _ sub Hs eq_refl) C1) v1 H).
  Qed.

  Lemma add_selections_ok q A m sub m' v :
    frags_ok A -> fmap_ok m -> (forall ss, sub = Some ss -> oks ss) ->
    add_selections q A m sub = COk m' v -> fmap_ok m'.
  Proof.
    intros HA Hm Hsub. unfold add_selections. destruct sub as [ss|].
    - intro H. eapply collect_ok; eauto.
    - intro H; inversion H; subst. exact Hm.
  Qed.

  Lemma first_err_ext {A} (f g : A -> mres) l : (forall x, In x l -> f x = g x) -> first_err f l = first_err g l.
  Proof.
    induction l as [|x r IH]; intro H; [reflexivity|]. cbn [first_err].
    rewrite (H x (or_introl eq_refl)). destruct (g x); try reflexivity. apply IH. intros y Hy. apply H. right; exact Hy.
  Qed.

  Lemma pairs_first_ext {A} (f g : A -> A -> mres) l :
    (forall x y, In x l -> In y l -> f x y = g x y) -> pairs_first f l = pairs_first g l.
  Proof.
    induction l as [|x r IH]; intro H; [reflexivity|]. cbn [pairs_first].
    rewrite (first_err_ext (f x) (g x) r) by (intros y Hy; apply H; [left; reflexivity | right; exact Hy]).
    destruct (first_err (g x) r); try reflexivity. apply IH. intros a b Ha Hb. apply H; right; assumption.
  Qed.

  Lemma shape_loop_names : forall tA tB a b, shape_loop tA tB = inl (a, b) ->
    (forall n, a = StNamed n -> n = unwrapped tA) /\ (forall n, b = StNamed n -> n = unwrapped tB).
  Proof.
    fix IH 1. intros tA tB a b. destruct tA as [x | a' | a0]; cbn [shape_loop].
    - destruct (is_nonnull tB) eqn:NN; [discriminate|]. destruct (is_list tB) eqn:L; [discriminate|].
      intro H; inversion H; subst. split; [intros n E0; inversion E0; reflexivity|].
      intros n E0. subst. reflexivity.
    - destruct (is_nonnull tB); [discriminate|]. destruct tB as [y | b' | b0]; try discriminate.
      intro H. apply (IH a' b' a b H).
    - destruct tB as [y | b' | b0]; try discriminate.
      destruct a0 as [x | a' | a1].
      + destruct (is_list b0) eqn:L; [discriminate|]. intro H; inversion H; subst.
        split; [intros n E0; inversion E0; reflexivity|]. intros n E0. subst. reflexivity.
      + destruct b0 as [y | b' | b1]; try discriminate. intro H. apply (IH a' b' a b H).
      + destruct (is_list b0) eqn:L; [discriminate|]. intro H; inversion H; subst.
        split; [intros n E0; discriminate|]. intros n E0. subst. reflexivity.
  Qed.

  Lemma shape_type_names s t : oksel s -> shape_type s = inl t -> okname (unwrapped t).
  Proof.
    intros Hs. unfold shape_type. destruct (name_eqb (sel_name s) n_typename).
    - intro H; inversion H; subst. cbn [unwrapped]. apply string_okname.
    - pose proof (oksel_fann s Hs) as Vf. destruct (sel_fann s) as [f|]; [|discriminate].
      intro H; inversion H; subst. left. apply (proj1 Vf).
  Qed.

  Section Merge.
    Variable q : quirks.
    Variable A : document.
    Hypothesis HA : frags_ok A.

    Lemma same_shape_erase depth : forall X Y, oksel X -> oksel Y ->
      same_shape q pi E A depth X Y = same_shape q pi S A depth X Y.
    Proof.
      induction depth as [|d IH]; intros X Y HX HY; [reflexivity|]. cbn [same_shape].
      destruct (shape_type X) as [tA | eA] eqn:SX; [|reflexivity].
      destruct (shape_type Y) as [tB | eB] eqn:SY; [|reflexivity].
      destruct (shape_loop tA tB) as [[a b] | k] eqn:SL; [|reflexivity].
      destruct (shape_loop_names _ _ _ _ SL) as [Na Nb].
      rewrite (is_leaf_sty_erase a) by (intros n En; rewrite (Na n En); apply (shape_type_names X tA HX SX)).
      rewrite (is_leaf_sty_erase b) by (intros n En; rewrite (Nb n En); apply (shape_type_names Y tB HY SY)).
      destruct (is_leaf_sty S a || is_leaf_sty S b); [reflexivity|].
      destruct (add_selections q A [] (sel_sub X)) as [m1 v1 | e1 |] eqn:A1; try reflexivity.
      destruct (add_selections q A m1 (sel_sub Y)) as [m2 v2 | e2 |] eqn:A2; try reflexivity.
      pose proof (add_selections_ok q A [] (sel_sub X) m1 v1 HA fmap_ok_nil (fun ss Es => oksel_sub X ss HX Es) A1) as M1.
      pose proof (add_selections_ok q A m1 (sel_sub Y) m2 v2 HA M1 (fun ss Es => oksel_sub Y ss HY Es) A2) as M2.
      apply first_err_ext. intros [k l] Hg. apply pi_In in Hg. cbn [snd].
      pose proof (M2 k l Hg) as Hl. rewrite Forall_forall in Hl.
      apply pairs_first_ext. intros x y Hx Hy. apply IH; [apply (Hl x Hx) | apply (Hl y Hy)].
    Qed.

    Lemma pair_check_erase (r1 r2 : fmap -> mres) depth x y :
      (forall m, fmap_ok m -> r1 m = r2 m) -> fp_ok x -> fp_ok y ->
      pair_check q pi E A r1 depth x y = pair_check q pi S A r2 depth x y.
    Proof.
      intros Hr [Hx Vx] [Hy Vy]. unfold pair_check. cbv zeta.
      rewrite (same_shape_erase depth _ _ Hx Hy).
      destruct (same_shape q pi S A depth (fst3 x) (fst3 y)); try reflexivity.
      destruct (snd (fst x)) as [pa|]; [|reflexivity]. destruct (snd (fst y)) as [pb|]; [|reflexivity].
      rewrite (is_object_name_erase pa (or_introl Vx)), (is_object_name_erase pb (or_introl Vy)).
      destruct (name_eqb pa pb || negb (is_object_name S pa) || negb (is_object_name S pb)); [|reflexivity].
      destruct (negb (name_eqb (sel_name (fst3 x)) (sel_name (fst3 y)))); [reflexivity|].
      destruct (args_check q (fst3 x) (fst3 y)); try reflexivity.
      destruct (add_selections q A [] (sel_sub (fst3 x))) as [m1 v1 | e1 |] eqn:A1; try reflexivity.
      destruct (add_selections q A m1 (sel_sub (fst3 y))) as [m2 v2 | e2 |] eqn:A2; try reflexivity.
      apply Hr.
      pose proof (add_selections_ok q A [] (sel_sub (fst3 x)) m1 v1 HA fmap_ok_nil (fun ss Es => oksel_sub _ ss Hx Es) A1) as M1.
      apply (add_selections_ok q A m1 (sel_sub (fst3 y)) m2 v2 HA M1 (fun ss Es => oksel_sub _ ss Hy Es) A2).
    Qed.

    Lemma can_merge_eq S0 depth m :
      can_merge q pi S0 A depth m =
      first_err (fun g => pairs_first
                            (pair_check q pi S0 A (match depth with O => fun _ => MOk | Datatypes.S d => can_merge q pi S0 A d end) depth)
                            (snd g)) (pi _ m).
    Proof. destruct depth; reflexivity. Qed.

    Lemma can_merge_erase depth : forall m, fmap_ok m -> can_merge q pi E A depth m = can_merge q pi S A depth m.
    Proof.
      induction depth as [|d IH]; intros m Hm; rewrite (can_merge_eq E), (can_merge_eq S);
        apply first_err_ext; intros [k l] Hg; apply pi_In in Hg; cbn [snd];
        pose proof (Hm k l Hg) as Hl; rewrite Forall_forall in Hl;
        apply pairs_first_ext; intros x y Hx Hy; apply pair_check_erase; auto.
    Qed.

    Lemma merge_enter_erase st n : wa_node' n -> merge_enter q pi E A st n = merge_enter q pi S A st n.
    Proof.
      intros [_ Hn]. destruct n; try reflexivity. unfold merge_enter.
      destruct (add_selections q A [] (Some s)) as [m v | e |] eqn:A1; try reflexivity.
      rewrite can_merge_erase; [reflexivity|].
      apply (add_selections_ok q A [] (Some s) m v HA fmap_ok_nil (fun ss Es => match Es in (_ = y) return (match y with Some z => oks z | None => True end) with eq_refl => Hn end) A1).
    Qed.
  End Merge.

  (** the same for the validator with the checked-pairs memo (rule_fields_m: what ParseAndValidate
      runs since 92e8fdd and what the composed pipeline of C03 uses) *)
  Lemma first_err_m_ext {A} (f g : A -> memo -> mres * memo) l :
    (forall x mm, In x l -> f x mm = g x mm) -> forall mm, first_err_m f l mm = first_err_m g l mm.
  Proof.
    induction l as [|x r IH]; intros H mm; [reflexivity|]. cbn [first_err_m].
    rewrite (H x mm (or_introl eq_refl)). destruct (g x mm) as [[| | |] mm']; try reflexivity.
    apply IH. intros y mm0 Hy. apply H. right; exact Hy.
  Qed.

  Lemma pairs_first_m_ext {A} (f g : A -> A -> memo -> mres * memo) l :
    (forall x y mm, In x l -> In y l -> f x y mm = g x y mm) -> forall mm, pairs_first_m f l mm = pairs_first_m g l mm.
  Proof.
    induction l as [|x r IH]; intros H mm; [reflexivity|]. cbn [pairs_first_m].
    rewrite (first_err_m_ext (f x) (g x) r) by (intros y mm0 Hy; apply H; [left; reflexivity | right; exact Hy]).
    destruct (first_err_m (g x) r mm) as [[| | |] mm']; try reflexivity.
    apply IH. intros a b mm0 Ha Hb. apply H; right; assumption.
  Qed.

  Section MergeMemo.
    Variable q : quirks.
    Variable A : document.
    Hypothesis HA : frags_ok A.

    Lemma same_shape_m_erase depth : forall X Y mm, oksel X -> oksel Y ->
      same_shape_m q pi E A depth X Y mm = same_shape_m q pi S A depth X Y mm.
    Proof.
      induction depth as [|d IH]; intros X Y mm HX HY; [reflexivity|]. cbn [same_shape_m].
      destruct (already (snd mm) X Y) as [seen ss']. destruct seen; [reflexivity|].
      destruct (shape_type X) as [tA | eA] eqn:SX; [|reflexivity].
      destruct (shape_type Y) as [tB | eB] eqn:SY; [|reflexivity].
      destruct (shape_loop tA tB) as [[a b] | k] eqn:SL; [|reflexivity].
      destruct (shape_loop_names _ _ _ _ SL) as [Na Nb].
      rewrite (is_leaf_sty_erase a) by (intros n En; rewrite (Na n En); apply (shape_type_names X tA HX SX)).
      rewrite (is_leaf_sty_erase b) by (intros n En; rewrite (Nb n En); apply (shape_type_names Y tB HY SY)).
      destruct (is_leaf_sty S a || is_leaf_sty S b); [reflexivity|].
      destruct (add_selections q A [] (sel_sub X)) as [m1 v1 | e1 |] eqn:A1; try reflexivity.
      destruct (add_selections q A m1 (sel_sub Y)) as [m2 v2 | e2 |] eqn:A2; try reflexivity.
      pose proof (add_selections_ok q A [] (sel_sub X) m1 v1 HA fmap_ok_nil (fun ss Es => oksel_sub X ss HX Es) A1) as M1.
      pose proof (add_selections_ok q A m1 (sel_sub Y) m2 v2 HA M1 (fun ss Es => oksel_sub Y ss HY Es) A2) as M2.
      apply first_err_m_ext. intros [k l] mm0 Hg. apply pi_In in Hg. cbn [snd].
      pose proof (M2 k l Hg) as Hl. rewrite Forall_forall in Hl.
      apply pairs_first_m_ext. intros x y mm1 Hx Hy. apply IH; [apply (Hl x Hx) | apply (Hl y Hy)].
    Qed.

    Lemma pair_check_m_erase (r1 r2 : fmap -> memo -> mres * memo) depth x y mm :
      (forall m mm0, fmap_ok m -> r1 m mm0 = r2 m mm0) -> fp_ok x -> fp_ok y ->
      pair_check_m q pi E A r1 depth x y mm = pair_check_m q pi S A r2 depth x y mm.
    Proof.
      intros Hr [Hx Vx] [Hy Vy]. unfold pair_check_m. cbv zeta.
      destruct (already (fst mm) (fst3 x) (fst3 y)) as [seen cm']. destruct seen; [reflexivity|].
      rewrite (same_shape_m_erase depth _ _ _ Hx Hy).
      destruct (same_shape_m q pi S A depth (fst3 x) (fst3 y) (cm', snd mm)) as [[| | |] mm2]; try reflexivity.
      destruct (snd (fst x)) as [pa|]; [|reflexivity]. destruct (snd (fst y)) as [pb|]; [|reflexivity].
      rewrite (is_object_name_erase pa (or_introl Vx)), (is_object_name_erase pb (or_introl Vy)).
      destruct (name_eqb pa pb || negb (is_object_name S pa) || negb (is_object_name S pb)); [|reflexivity].
      destruct (negb (name_eqb (sel_name (fst3 x)) (sel_name (fst3 y)))); [reflexivity|].
      destruct (args_check q (fst3 x) (fst3 y)); try reflexivity.
      destruct (add_selections q A [] (sel_sub (fst3 x))) as [m1 v1 | e1 |] eqn:A1; try reflexivity.
      destruct (add_selections q A m1 (sel_sub (fst3 y))) as [m2 v2 | e2 |] eqn:A2; try reflexivity.
      apply Hr.
      pose proof (add_selections_ok q A [] (sel_sub (fst3 x)) m1 v1 HA fmap_ok_nil (fun ss Es => oksel_sub _ ss Hx Es) A1) as M1.
      apply (add_selections_ok q A m1 (sel_sub (fst3 y)) m2 v2 HA M1 (fun ss Es => oksel_sub _ ss Hy Es) A2).
    Qed.

    Lemma can_merge_m_eq S0 depth m mm :
      can_merge_m q pi S0 A depth m mm =
      first_err_m (fun g => pairs_first_m
                              (pair_check_m q pi S0 A (match depth with O => fun _ mm' => (MOk, mm') | Datatypes.S d => can_merge_m q pi S0 A d end) depth)
                              (snd g)) (pi _ m) mm.
    Proof. destruct depth; reflexivity. Qed.

    Lemma can_merge_m_erase depth : forall m mm, fmap_ok m -> can_merge_m q pi E A depth m mm = can_merge_m q pi S A depth m mm.
    Proof.
      induction depth as [|d IH]; intros m mm Hm; rewrite (can_merge_m_eq E), (can_merge_m_eq S);
        apply first_err_m_ext; intros [k l] mm0 Hg; apply pi_In in Hg; cbn [snd];
        pose proof (Hm k l Hg) as Hl; rewrite Forall_forall in Hl;
        apply pairs_first_m_ext; intros x y mm1 Hx Hy; apply pair_check_m_erase; auto.
    Qed.

    Lemma merge_enter_m_erase st n : wa_node' n -> merge_enter_m q pi E A st n = merge_enter_m q pi S A st n.
    Proof.
      intros [_ Hn]. destruct n; try reflexivity. unfold merge_enter_m.
      destruct (add_selections q A [] (Some s)) as [m v | e |] eqn:A1; try reflexivity.
      rewrite can_merge_m_erase; [reflexivity|].
      apply (add_selections_ok q A [] (Some s) m v HA fmap_ok_nil (fun ss Es => match Es in (_ = y) return (match y with Some z => oks z | None => True end) with eq_refl => Hn end) A1).
    Qed.
  End MergeMemo.

  Theorem rule_fields_m_erase q A : ok (tree_doc A) -> rule_fields_m q pi E G A = rule_fields_m q pi S F A.
  Proof.
    intro HA. unfold rule_fields_m. cbv zeta.
    destruct (inspect_ext_inv stack_ok wa_node (fields_enter E G) (fields_enter S F) pop
                fields_enter_erase fields_enter_stack pop_stack (tree_doc A) HA rst0) as [E1 _]; [constructor|].
    rewrite E1.
    destruct (inspect_ext_inv (fun _ => True) wa_node' (merge_enter_m q pi E A) (merge_enter_m q pi S A) (fun s => s)
                (fun st n _ Hn => merge_enter_m_erase q A (frags_ok_doc A HA) st n Hn) (fun _ _ _ _ => I) (fun _ _ => I)
                (tree_doc A) (ok_strengthen _ (closed_doc A) HA)
                (inspect (fields_enter S F) pop (tree_doc A) rst0, memo0) I) as [E2 _].
    rewrite E2. reflexivity.
  Qed.

  Theorem rule_fields_erase q A : ok (tree_doc A) -> rule_fields q pi E G A = rule_fields q pi S F A.
  Proof.
    intro HA. unfold rule_fields. cbv zeta.
    destruct (inspect_ext_inv stack_ok wa_node (fields_enter E G) (fields_enter S F) pop
                fields_enter_erase fields_enter_stack pop_stack (tree_doc A) HA rst0) as [E1 _]; [constructor|].
    rewrite E1.
    destruct (inspect_ext_inv (fun _ => True) wa_node' (merge_enter q pi E A) (merge_enter q pi S A) (fun s => s)
                (fun st n _ Hn => merge_enter_erase q A (frags_ok_doc A HA) st n Hn) (fun _ _ _ _ => I) (fun _ _ => I)
                (tree_doc A) (ok_strengthen _ (closed_doc A) HA)
                (inspect (fields_enter S F) pop (tree_doc A) rst0) I) as [E2 _].
    rewrite E2. reflexivity.
  Qed.

  Theorem rule_values_erase q A : ok (tree_doc A) -> rule_values q pi E A = rule_values q pi S A.
  Proof.
    intro HA. unfold rule_values.
    destruct (inspect_ext_inv (fun _ => True) wa_node (values_enter q pi E) (values_enter q pi S) (fun s => s)
                (fun st n _ Hn => values_enter_erase q pi st n Hn) (fun _ _ _ _ => I) (fun _ _ => I)
                (tree_doc A) HA rst0 I) as [E1 _].
    rewrite E1. reflexivity.
  Qed.

  (** ** validateFragmentSpreads, given that getPossibleTypes of a visible type answers alike *)
  Variable q0 : quirks.
  Hypothesis PT : forall tn, alive tn = true -> possible_types q0 E G tn = possible_types q0 S F tn.

  Lemma validate_spread_erase st tc parent :
    vsc parent -> validate_spread q0 pi E G st tc parent = validate_spread q0 pi S F st tc parent.
  Proof.
    intro V. unfold validate_spread. destruct parent as [pn|]; [|reflexivity]. simpl in V.
    rewrite (is_composite_name_erase pn (or_introl V)).
    destruct (q_leaf_parent q0 && negb (is_composite_name S pn)); [reflexivity|].
    rewrite (named_type_erase S F G Hok HFG). destruct (named_type S F (fst tc)) as [b|] eqn:NT; cbn [option_map]; [|reflexivity].
    replace (is_composite_body (verase_body alive F b)) with (is_composite_body b) by (destruct b; reflexivity).
    destruct (is_composite_body b); [|reflexivity].
    rewrite (PT (fst tc) (named_type_visible S F _ _ NT)), (PT pn V). reflexivity.
  Qed.

  Lemma spreads_enter_erase A st n :
    stack_ok st -> wa_node n -> spreads_enter q0 pi E G A st n = spreads_enter q0 pi S F A st n.
  Proof.
    intros Hst Hn. unfold stack_ok in Hst. destruct n as [| | | | | | | ss | s | | |]; try reflexivity.
    destruct s as [a al fname np args dirs sub | fname np dirs e | cond dirs sub e]; try reflexivity; unfold spreads_enter.
    - destruct (frag_last A fname) as [[|kw n0 np0 cond dirs0 sub0]|]; try reflexivity.
      destruct (r_stack st) as [|top rest]; [reflexivity|].
      rewrite validate_spread_erase; [reflexivity | inversion Hst; assumption].
    - destruct cond as [tc|]; [|reflexivity].
      destruct (r_stack st) as [|top rest]; [reflexivity|].
      rewrite validate_spread_erase; [reflexivity | inversion Hst; assumption].
  Qed.

  Lemma spreads_enter_stack q A st n : stack_ok st -> wa_node n -> stack_ok (fst (spreads_enter q pi S F A st n)).
  Proof.
    intros Hst Hn. unfold stack_ok in *.
    assert (K : exists x, r_stack (fst (spreads_enter q pi S F A st n)) = x :: r_stack st /\ vsc x).
    { destruct n as [| | | | | | | ss | s | | |]; try (exists None; split; [reflexivity | exact I]).
      - exists (ss_ann ss). split; [reflexivity | exact Hn].
      - exists None. split; [|exact I].
        destruct s as [a al fname np args dirs sub | fname np dirs e | cond dirs sub e]; try reflexivity; unfold spreads_enter.
        + destruct (frag_last A fname) as [[|kw n0 np0 cond dirs0 sub0]|]; try reflexivity.
          destruct (r_stack st) as [|top rest] eqn:RS; cbn [fst push r_stack set_abort]; [rewrite RS; reflexivity|].
          unfold validate_spread.
          repeat match goal with
                 | |- context [match ?x with _ => _ end] => destruct x
                 | |- context [if ?x then _ else _] => destruct x
                 end; cbn [fst push r_stack add_errs set_abort]; rewrite ?RS; reflexivity.
        + destruct cond as [tc|]; [|reflexivity].
          destruct (r_stack st) as [|top rest] eqn:RS; cbn [fst push r_stack set_abort]; [rewrite RS; reflexivity|].
          unfold validate_spread.
          repeat match goal with
                 | |- context [match ?x with _ => _ end] => destruct x
                 | |- context [if ?x then _ else _] => destruct x
                 end; cbn [fst push r_stack add_errs set_abort]; rewrite ?RS; reflexivity. }
    destruct K as [x [Ex Vx]]. rewrite Ex. constructor; assumption.
  Qed.

  Lemma fold_stack {A0} (f : rst -> A0 -> rst) l : (forall st a, r_stack (f st a) = r_stack st) ->
    forall st, r_stack (fold_left f l st) = r_stack st.
  Proof. intro H. induction l as [|a r IH]; intro st; [reflexivity|]. cbn [fold_left]. rewrite IH. apply H. Qed.

  Theorem rule_spreads_erase A : ok (tree_doc A) ->
    rule_fragment_spreads q0 pi E G A = rule_fragment_spreads q0 pi S F A.
  Proof.
    intro HA. unfold rule_fragment_spreads. cbv zeta.
    match goal with |- finish (inspect _ _ _ ?x0) = _ => set (st1 := x0) end.
    assert (I1 : stack_ok st1).
    { unfold stack_ok, st1. rewrite fold_stack; [constructor|].
      intros st a. destruct (cycle_search pi A (graph_fuel A) a [a] []) as [[|]|]; try reflexivity.
      destruct (frag_last A a); reflexivity. }
    destruct (inspect_ext_inv stack_ok wa_node (spreads_enter q0 pi E G A) (spreads_enter q0 pi S F A) pop
                (spreads_enter_erase A) (spreads_enter_stack q0 A) pop_stack (tree_doc A) HA st1 I1) as [E1 _].
    rewrite E1. reflexivity.
  Qed.

  (** ** ValidateDocument *)
  Theorem validate_eq D : validate_model q0 pi E G D = validate_model q0 pi S F D.
  Proof.
    unfold validate_model. rewrite (type_info_erase S F G Hok HFG).
    destruct (type_info (q_unwrap_obj q0) S F D) as [A|] eqn:TI; [|reflexivity].
    pose proof (type_info_nodes_ok (q_unwrap_obj q0) D A TI) as HA.
    assert (R : all_rules q0 pi E G A = all_rules q0 pi S F A).
    { unfold all_rules, rule_fragments.
      destruct (rules_small_erase S F G Hok HFG q0 pi A) as [R1 [R2 R3]].
      rewrite (rule_fields_erase q0 A HA), R2, R1, (rule_spreads_erase A HA), (rule_values_erase q0 A HA), R3,
              (rule_variables_erase S F G Hok HFG (q_unwrap_obj q0) pi D A TI).
      reflexivity. }
    rewrite R. reflexivity.
  Qed.
  Theorem validate_memo_eq D : validate_model_memo q0 pi E G D = validate_model_memo q0 pi S F D.
  Proof.
    unfold validate_model_memo. rewrite (type_info_erase S F G Hok HFG).
    destruct (type_info (q_unwrap_obj q0) S F D) as [A|] eqn:TI; [|reflexivity].
    pose proof (type_info_nodes_ok (q_unwrap_obj q0) D A TI) as HA.
    assert (R : all_rules_m q0 pi E G A = all_rules_m q0 pi S F A).
    { unfold all_rules_m, rule_fragments.
      destruct (rules_small_erase S F G Hok HFG q0 pi A) as [R1 [R2 R3]].
      rewrite (rule_fields_m_erase q0 A HA), R2, R1, (rule_spreads_erase A HA), (rule_values_erase q0 A HA), R3,
              (rule_variables_erase S F G Hok HFG (q_unwrap_obj q0) pi D A TI).
      reflexivity. }
    rewrite R. reflexivity.
  Qed.
End Rules.

(** ** discharging [PT] *)

(** with the feature filter of the repaired getPossibleTypes in C04's model ([q_impl_features]) *)
Lemma possible_types_repaired S F G q :
  vok S = true -> subset F G = true -> q_impl_features q = true ->
  forall tn, vvisible S F tn = true -> possible_types q (verase S F) G tn = possible_types q S F tn.
Proof.
  intros Hok HFG Hq tn V. unfold possible_types. rewrite (raw_body_erase S F Hok tn V).
  destruct (alive_inv S F tn V) as [d [L R]]. unfold raw_body. rewrite L. cbn [option_map].
  destruct (impls_rule S Hok) as [Hnd Hreg].
  destruct (t_body d) as [k | vals | ifs | fields ifs | fields | ms] eqn:B; cbn [verase_body]; try reflexivity.
  - (* interface *)
    f_equal. unfold verase at 2. cbn [s_impls].
    rewrite (vassoc_map (filter (vvisible S F)) tn).
    rewrite (vassoc_filter (fun il => vvisible S F (fst il))) by exact Hnd.
    destruct (assoc tn (s_impls S)) as [l|] eqn:A; [|reflexivity]. cbn [fst]. rewrite V. cbn [option_map].
    assert (Hl : forall o, In o l -> exists dl, raw_type S o = Some dl).
    { intros o Ho. rewrite forallb_forall in Hreg. specialize (Hreg (tn, l) (vassoc_In _ _ _ A)). cbn [snd] in Hreg.
      rewrite forallb_forall in Hreg. specialize (Hreg o Ho). destruct (raw_type S o) as [dl|]; [eauto | discriminate]. }
    rewrite (filter_all (impl_visible q (verase S F) G) (filter (vvisible S F) l)).
    + apply filter_ext_in. intros o Ho. destruct (Hl o Ho) as [dl Lo].
      unfold impl_visible, vvisible. rewrite Hq, Lo. reflexivity.
    + intros o Ho. apply filter_In in Ho as [Ho Vo]. unfold impl_visible. rewrite Hq.
      rewrite (raw_type_erase S F Hok o). destruct (Hl o Ho) as [dl Lo]. rewrite Lo.
      unfold vvisible in Vo. rewrite Lo in Vo. rewrite Vo. cbn [verase_def t_req]. eapply subset_trans; eauto.
  - (* union: the members of a visible union are visible *)
    f_equal. apply filter_all. intros m Hm.
    pose proof (type_ok_of S Hok tn d L) as T. unfold vtype_ok in T. rewrite B in T.
    rewrite forallb_forall in T. specialize (T m Hm). unfold req_of in T. unfold vvisible.
    destruct (raw_type S m) as [dm|]; [|discriminate]. eapply subset_trans; eauto.
Qed.

(** ValidateDocument of the repaired validator: the same verdict on (S, F) and on the erased schema *)
Theorem validate_eq_repaired S F G pi q D :
  vok S = true -> subset F G = true -> order_ok pi -> q_impl_features q = true ->
  validate_model q pi (verase S F) G D = validate_model q pi S F D.
Proof.
  intros Hok HFG Hpi Hq.
  apply (validate_eq S F G Hok HFG pi Hpi q (possible_types_repaired S F G q Hok HFG Hq)).
Qed.

(** ... and of the validator with the checked-pairs memo (what ParseAndValidate runs) *)
Theorem validate_memo_eq_repaired S F G pi q D :
  vok S = true -> subset F G = true -> order_ok pi -> q_impl_features q = true ->
  validate_model_memo q pi (verase S F) G D = validate_model_memo q pi S F D.
Proof.
  intros Hok HFG Hpi Hq.
  apply (validate_memo_eq S F G Hok HFG pi Hpi q (possible_types_repaired S F G q Hok HFG Hq)).
Qed.

(** without the filter (the pinned getPossibleTypes, [q_impl_features] off) the equation holds exactly
    as far as no implementation listed for an interface the request may see is gated *)
Definition impls_visible (S : schema) (F : features) : Prop :=
  forall i l, assoc i (s_impls S) = Some l -> vvisible S F i = true -> forall o, In o l -> vvisible S F o = true.

Lemma possible_types_no_gated_impls S F G q :
  vok S = true -> subset F G = true -> q_impl_features q = false -> impls_visible S F ->
  forall tn, vvisible S F tn = true -> possible_types q (verase S F) G tn = possible_types q S F tn.
Proof.
  intros Hok HFG Hq HI tn V. unfold possible_types. rewrite (raw_body_erase S F Hok tn V).
  destruct (alive_inv S F tn V) as [d [L R]]. unfold raw_body. rewrite L. cbn [option_map].
  destruct (impls_rule S Hok) as [Hnd _].
  assert (Hall : forall (S0 : schema) (F0 : features) l, filter (impl_visible q S0 F0) l = l).
  { intros S0 F0 l. apply filter_all. intros o _. unfold impl_visible. rewrite Hq. reflexivity. }
  destruct (t_body d) as [k | vals | ifs | fields ifs | fields | ms] eqn:B; cbn [verase_body]; try reflexivity.
  - f_equal. rewrite !Hall. unfold verase. cbn [s_impls].
    rewrite (vassoc_map (filter (vvisible S F)) tn).
    rewrite (vassoc_filter (fun il => vvisible S F (fst il))) by exact Hnd.
    destruct (assoc tn (s_impls S)) as [l|] eqn:A; [|reflexivity]. cbn [fst]. rewrite V. cbn [option_map].
    apply filter_all. intros o Ho. apply (HI tn l A V o Ho).
  - f_equal. apply filter_all. intros m Hm.
    pose proof (type_ok_of S Hok tn d L) as T. unfold vtype_ok in T. rewrite B in T.
    rewrite forallb_forall in T. specialize (T m Hm). unfold req_of in T. unfold vvisible.
    destruct (raw_type S m) as [dm|]; [|discriminate]. eapply subset_trans; eauto.
Qed.

Theorem validate_eq_no_gated_impls S F G pi q D :
  vok S = true -> subset F G = true -> order_ok pi -> q_impl_features q = false -> impls_visible S F ->
  validate_model q pi (verase S F) G D = validate_model q pi S F D.
Proof.
  intros Hok HFG Hpi Hq HI.
  apply (validate_eq S F G Hok HFG pi Hpi q (possible_types_no_gated_impls S F G q Hok HFG Hq HI)).
Qed.
