(** * Feat/FeaturesCheck.v — C13 correspondence: decode one case, run the model and the Spec oracle,
    compare with what the implementation did.  Executable only (extracted / vm_compute).

    case := (case (kind k) (note "..") D (features "f"..) (all "f"..) (accepted b)
                  [(erased D') ((requests R..) [(physical ..)] | (erased-rejected "why"))])
    D    := (schema (types T..) (query "Q") (mutation opt) (subscription opt) (directives ..) (additional "N"..))
    R    := (req (kind introspect) (names "N"..)        (a OBS INTRO)        (b OBS INTRO))
          | (req (kind stdintro)                        (a OBS)              (b OBS))
          | (req (kind chain) (query "..") (chain C..)  (a OBS LINES FINAL)  (b OBS LINES FINAL))
          | (req (kind doc) (query "..") (vars "..") (tags ..) (a OBS) (b OBS))
          | (req (kind sdoc) (query "..") (doc (frags (frag "F" id "T" (SEL..))..) (sels SEL..))
                 (a OBS LINES TREE) (b OBS LINES TREE))
    SEL  := (field id "key" "f" (SEL..)) | (typename id "key") | (inline id (some "T")|(none) (SEL..))
          | (spread id "F")                       id = the source line of the node
    TREE := (tree no-data | null | leaf | (typename "T") | (list TREE..) | (obj ("key" TREE)..))
    OBS  := (obs (verdict V) (resp (data J) (errors E..)) (calls "Type.field"..) (messages "text"..))
            messages: the texts of the validation and execution errors, sorted — compared between
            side a and side b only (FeaturesSpec.differential_observables), never with the model
    side a = the schema built from D with Request.Features = features,
    side b = the schema built from the harness's own erasure D' (every surviving type registered)
             with all features,
    side c (physical ..) = D' handed to schema.New with only its own AdditionalTypes, present when
             that registers fewer types (known finding orphaned-type-stays-visible).

    Order of judgement for an accepted schema: harness erasure = [erase S F]; the oracle on every
    request (a = b, no gated resolver call); schema.New's verdict = [schema_ok]; the model against
    side a and side b (introspection probe, chains); the physically reduced schema. *)
From Coq Require Import List NArith ZArith Bool String.
From ApiFu Require Import Base.Sexp Feat.FeaturesModel Feat.FeaturesSpec Feat.FeaturesDocModel.
From ApiFu Require Vld.Ast Feat.FeaturesVld Feat.FeaturesExeCheck.
Import ListNotations.
Open Scope string_scope.

Fixpoint string_of_bytes (b : bytes) : string :=
  match b with
  | [] => EmptyString
  | c :: r => String (Ascii.ascii_of_N c) (string_of_bytes r)
  end.

(** ** decoding *)
Definition dec_names (l : list sexp) : option (list name) := map_opt as_bytes l.

Fixpoint dec_sty (s : sexp) : option sty :=
  match s with
  | SL [SSym t; x] =>
      if String.eqb t "named" then match x with SStr n => Some (StNamed n) | _ => None end
      else if String.eqb t "list" then option_map StList (dec_sty x)
      else if String.eqb t "nonnull" then option_map StNonNull (dec_sty x)
      else None
  | _ => None
  end.

Definition dec_arg (s : sexp) : option (name * sty) :=
  match tagged "a" s with
  | Some [SStr n; t] => match dec_sty t with Some ty => Some (n, ty) | None => None end
  | _ => None
  end.
Definition dec_args (tg : string) (s : sexp) : option (list (name * sty)) :=
  match tagged tg s with Some l => map_opt dec_arg l | None => None end.
Definition dec_req (s : sexp) : option features :=
  match tagged "req" s with Some l => dec_names l | None => None end.

Definition dec_field (s : sexp) : option (name * field_def) :=
  match tagged "f" s with
  | Some [SStr n; t; args; req; dep; ret] =>
      match dec_sty t, dec_args "args" args, dec_req req, as_bool dep, tagged "ret" ret with
      | Some ty, Some a, Some r, Some d, Some [SStr rt] =>
          Some (n, {| f_type := ty; f_args := a; f_req := r; f_dep := d; f_ret := rt |})
      | _, _, _, _, _ => None
      end
  | _ => None
  end.
Definition dec_fields (s : sexp) : option (list (name * field_def)) :=
  match tagged "fields" s with Some l => map_opt dec_field l | None => None end.
Definition dec_enum_val (s : sexp) : option (name * bool) :=
  match s with
  | SL [SStr n; d] => match as_bool d with Some b => Some (n, b) | None => None end
  | _ => None
  end.
Definition dec_tagged_names (tg : string) (s : sexp) : option (list name) :=
  match tagged tg s with Some l => dec_names l | None => None end.

Definition dec_type (s : sexp) : option (name * named_type) :=
  match untag s with
  | Some (t, [SStr n; req]) =>
      if String.eqb t "scalar" then option_map (fun r => (n, NScalar r)) (dec_req req) else None
  | Some (t, [SStr n; req; x]) =>
      match dec_req req with
      | None => None
      | Some r =>
          if String.eqb t "enum" then
            match tagged "values" x with
            | Some l => option_map (fun vs => (n, NEnum vs r)) (map_opt dec_enum_val l)
            | None => None
            end
          else if String.eqb t "input" then option_map (fun fs => (n, NInput fs r)) (dec_args "fields" x)
          else if String.eqb t "interface" then option_map (fun fs => (n, NInterface fs r)) (dec_fields x)
          else if String.eqb t "union" then option_map (fun ms => (n, NUnion ms r)) (dec_tagged_names "members" x)
          else None
      end
  | Some (t, [SStr n; req; fs; ifs]) =>
      if String.eqb t "object" then
        match dec_req req, dec_fields fs, dec_tagged_names "ifaces" ifs with
        | Some r, Some f, Some i => Some (n, NObject f i r)
        | _, _, _ => None
        end
      else None
  | _ => None
  end.

Definition dec_directive (s : sexp) : option (name * list (name * sty)) :=
  match tagged "d" s with
  | Some [SStr n; args] => option_map (fun a => (n, a)) (dec_args "args" args)
  | _ => None
  end.

Definition dec_schema (s : sexp) : option schema :=
  match tagged "schema" s with
  | Some l =>
      match field "types" l, field1 "query" l, field1 "mutation" l, field1 "subscription" l, field "directives" l,
            field "additional" l with
      | Some ts, Some (SStr q), Some m, Some sub, Some ds, Some ad =>
          match map_opt dec_type ts, as_option as_bytes m, as_option as_bytes sub, map_opt dec_directive ds, dec_names ad with
          | Some ts', Some m', Some sub', Some ds', Some ad' =>
              Some {| types := ts'; query := q; mutation := m'; subscription := sub'; directives := ds'; additional := ad' |}
          | _, _, _, _, _ => None
          end
      | _, _, _, _, _, _ => None
      end
  | None => None
  end.

Definition dec_cnode (s : sexp) : option cnode :=
  match untag s with
  | Some (t, [SStr n]) => if String.eqb t "field" then Some (CField n)
                          else if String.eqb t "frag" then Some (CFrag n) else None
  | Some (t, []) => if String.eqb t "typename" then Some CTypename else None
  | _ => None
  end.

(** ** encoding (the same shapes the harness writes) *)
Fixpoint enc_sty (t : sty) : sexp :=
  match t with
  | StNamed n => tag "named" [SStr n]
  | StList x => tag "list" [enc_sty x]
  | StNonNull x => tag "nonnull" [enc_sty x]
  end.
Definition enc_arg (a : name * sty) : sexp := tag "a" [SStr (fst a); enc_sty (snd a)].
Definition enc_args (tg : string) (l : list (name * sty)) : sexp := tag tg (map enc_arg l).
Definition enc_req (r : features) : sexp := tag "req" (map SStr r).
Definition enc_field (nf : name * field_def) : sexp :=
  let fd := snd nf in
  tag "f" [SStr (fst nf); enc_sty (f_type fd); enc_args "args" (f_args fd); enc_req (f_req fd);
           of_bool (f_dep fd); tag "ret" [SStr (f_ret fd)]].
Definition enc_type (nt : name * named_type) : sexp :=
  let n := SStr (fst nt) in
  match snd nt with
  | NScalar r => tag "scalar" [n; enc_req r]
  | NEnum vs r => tag "enum" [n; enc_req r; tag "values" (map (fun v => SL [SStr (fst v); of_bool (snd v)]) vs)]
  | NInput fs r => tag "input" [n; enc_req r; enc_args "fields" fs]
  | NObject fs ifs r => tag "object" [n; enc_req r; tag "fields" (map enc_field fs); tag "ifaces" (map SStr ifs)]
  | NInterface fs r => tag "interface" [n; enc_req r; tag "fields" (map enc_field fs)]
  | NUnion ms r => tag "union" [n; enc_req r; tag "members" (map SStr ms)]
  end.
Definition opt_sexp {A} (f : A -> sexp) (o : option A) : sexp :=
  match o with None => SL [SSym "none"] | Some x => SL [SSym "some"; f x] end.
Definition enc_schema (S : schema) : sexp :=
  tag "schema" [tag "types" (map enc_type (types S)); tag "query" [SStr (query S)];
                tag "mutation" [opt_sexp SStr (mutation S)]; tag "subscription" [opt_sexp SStr (subscription S)];
                tag "directives" (map (fun d => tag "d" [SStr (fst d); enc_args "args" (snd d)]) (directives S));
                tag "additional" (map SStr (additional S))].

(** equality of s-expressions in which a list headed by the symbol [set] is compared as a set *)
Fixpoint sexp_sim (a b : sexp) : bool :=
  match a, b with
  | SZ x, SZ y => Z.eqb x y
  | SSym x, SSym y => String.eqb x y
  | SStr x, SStr y => bytes_eqb x y
  | SL x, SL y =>
      if match x with SSym t :: _ => String.eqb t "set" | _ => false end then
        Nat.eqb (List.length x) (List.length y) &&
        (fix all (x : list sexp) : bool :=
           match x with
           | [] => true
           | p :: ps => (fix ex (y : list sexp) : bool :=
                           match y with [] => false | q :: qs => sexp_sim p q || ex qs end) y && all ps
           end) x
      else
        (fix go (x y : list sexp) : bool :=
           match x, y with
           | [], [] => true
           | p :: ps, q :: qs => sexp_sim p q && go ps qs
           | _, _ => false
           end) x y
  | _, _ => false
  end.

(** ** what the model says the introspection probe shows *)
Definition set_of (l : list sexp) : sexp := tag "set" l.
Definition enc_inputs (l : list (name * sty)) : sexp := set_of (map enc_arg l).
Definition kind_sym (k : kind) : string :=
  match k with
  | KScalar => "scalar" | KEnum => "enum" | KInput => "input_object"
  | KObject => "object" | KInterface => "interface" | KUnion => "union"
  end.
Definition names_ans (a : answer) : option (list name) := match a with ANames l => l | _ => None end.
Definition handle_ans (a : answer) : option name := match a with AHandle h => h | _ => None end.
Definition enc_intro_field (nf : name * field_def) : sexp :=
  tag "f" [SStr (fst nf); enc_sty (f_type (snd nf)); enc_inputs (f_args (snd nf)); of_bool (f_dep (snd nf))].

Definition model_tinfo (fx : fixes) (S : schema) (F : features) (n : name) : sexp :=
  match ask fx S F (QIntroType n) with
  | AHandle (Some h) =>
      let k := match ask fx S F (QKind h) with AKind (Some k) => SSym (kind_sym k) | _ => SSym "unknown" end in
      let fields incl := match ask fx S F (QIntroFields h incl) with AFields l => l | _ => None end in
      let names_set := opt_sexp (fun l => set_of (map SStr l)) in
      tag "tinfo" [SStr n; SL [SSym "some"; SL [
        tag "kind" [k]; tag "name" [SStr h];
        tag "fields" [opt_sexp (fun l => set_of (map enc_intro_field l)) (fields true)];
        tag "fieldsNoDep" [opt_sexp (fun l => set_of (map (fun nf => SStr (fst nf)) l)) (fields false)];
        tag "interfaces" [opt_sexp (fun l => SL (map SStr l)) (names_ans (ask fx S F (QIntroInterfaces h)))];
        tag "possibleTypes" [names_set (names_ans (ask fx S F (QIntroPossible h)))];
        tag "enumValues" [names_set (names_ans (ask fx S F (QEnumValues h true)))];
        tag "enumNoDep" [names_set (names_ans (ask fx S F (QEnumValues h false)))];
        tag "inputFields" [opt_sexp enc_inputs (match ask fx S F (QInputFields h) with AInputs l => l | _ => None end)]]]]
  | _ => tag "tinfo" [SStr n; SL [SSym "none"]]
  end.

Definition model_intro (fx : fixes) (S : schema) (F : features) (names : list name) : sexp :=
  let root r := opt_sexp SStr (handle_ans (ask fx S F (QRoot r))) in
  tag "intro" [
    tag "types" [set_of (map SStr (match names_ans (ask fx S F QIntroTypes) with Some l => l | None => [] end))];
    tag "query" [root RQuery]; tag "mutation" [root RMutation]; tag "subscription" [root RSubscription];
    tag "directives" [set_of (map (fun d => tag "d" [SStr (fst d); enc_inputs (snd d)])
                                  (match ask fx S F QDirectives with ADirs l => l | _ => [] end))];
    tag "tinfos" (map (model_tinfo fx S F) names)].

(** ** what the model says a chain does *)
Definition enc_final (f : cfinal) : sexp :=
  match f with
  | FTypename o => tag "typename" [SStr o]
  | FLeaf => tag "leaf" []
  | FSkipped => tag "skipped" []
  | FUnresolved => tag "unresolved" []
  | FMissing => tag "missing" []
  end.
Definition dot : N := 46%N.
Definition enc_call (c : name * name) : sexp := SStr (fst c ++ dot :: snd c)%list.

(** (lines, calls, final); every node of a chain is on its own line, the first on line 2 *)
Definition model_chain (fx : fixes) (S : schema) (F : features) (c : list cnode) : option sexp :=
  match snd (run fx S F [] (chain_prog c)) with
  | Done (errs, r) =>
      let lines := tag "lines" (map (fun d => of_nat (d + 2)) errs) in
      match r with
      | None => Some (SL [lines; tag "calls" []; tag "final" [tag "no-data" []]])
      | Some (log, fin) => Some (SL [lines; tag "calls" (map enc_call log); tag "final" [enc_final fin]])
      end
  | Forged => None
  end.


(** ** selection-set documents: decoding, what the model says, well-formedness *)
Fixpoint dec_sel (s : sexp) : option sel :=
  let dec_list := (fix go (l : list sexp) : option sels :=
                     match l with
                     | [] => Some SNil
                     | x :: r => match dec_sel x, go r with
                                 | Some a, Some b => Some (SCons a b)
                                 | _, _ => None
                                 end
                     end) in
  match s with
  | SL [SSym t; SZ id; SStr key; SStr f; SL sub] =>
      if String.eqb t "field" then option_map (SField (Z.to_nat id) key f) (dec_list sub) else None
  | SL [SSym t; SZ id; SStr key] =>
      if String.eqb t "typename" then Some (STypename (Z.to_nat id) key)
      else if String.eqb t "spread" then Some (SSpread (Z.to_nat id) key) else None
  | SL [SSym t; SZ id; tc; SL sub] =>
      if String.eqb t "inline" then
        match as_option as_bytes tc, dec_list sub with
        | Some tc', Some sub' => Some (SInline (Z.to_nat id) tc' sub')
        | _, _ => None
        end
      else None
  | _ => None
  end.
Fixpoint dec_sels (l : list sexp) : option sels :=
  match l with
  | [] => Some SNil
  | x :: r => match dec_sel x, dec_sels r with
              | Some a, Some b => Some (SCons a b)
              | _, _ => None
              end
  end.
Definition dec_frag (s : sexp) : option fragdef :=
  match tagged "frag" s with
  | Some [SStr n; SZ id; SStr tc; SL sub] =>
      option_map (fun b => {| fr_name := n; fr_id := Z.to_nat id; fr_tc := tc; fr_sels := b |}) (dec_sels sub)
  | _ => None
  end.
Definition dec_sdoc (l : list sexp) : option sdoc :=
  match field "frags" l, field "sels" l with
  | Some fs, Some ss =>
      match map_opt dec_frag fs, dec_sels ss with
      | Some fs', Some ss' => Some {| d_frags := fs'; d_sels := ss' |}
      | _, _ => None
      end
  | _, _ => None
  end.

Fixpoint enc_rval (v : rval) : sexp :=
  match v with
  | RNull => SSym "null"
  | RLeaf => SSym "leaf"
  | RTypename o => tag "typename" [SStr o]
  | RList x => tag "list" [enc_rval x]
  | RObj fs => tag "obj" ((fix go (l : list (name * rval)) : list sexp :=
                             match l with [] => [] | (k, x) :: r => SL [SStr k; enc_rval x] :: go r end) fs)
  end.

(** a null somewhere in the response data: an error was caught at a nullable position *)
Fixpoint rval_has_null (v : rval) : bool :=
  match v with
  | RNull => true
  | RLeaf | RTypename _ => false
  | RList x => rval_has_null x
  | RObj fs => (fix go (l : list (name * rval)) : bool :=
                  match l with [] => false | (_, x) :: r => rval_has_null x || go r end) fs
  end.

Definition sdoc_exec_classes (fx : fixes) (S : schema) (F : features) (d : sdoc) : list string :=
  match snd (run fx S F [] (sdoc_prog (sdoc_fuel d) d)) with
  | Done (_, Some (Some (log, v))) =>
      (match v with
       | None => ["sdoc-error-reached-the-top"]
       | Some x => if rval_has_null x then ["sdoc-error-caught-at-nullable"] else []
       end ++ (if is_nil log then [] else ["sdoc-resolvers-invoked"]))%list
  | _ => []
  end.

Fixpoint insert_nat (x : nat) (l : list nat) : list nat :=
  match l with
  | [] => [x]
  | y :: r => if Nat.eqb x y then l else if Nat.ltb x y then x :: l else y :: insert_nat x r
  end.
Definition sort_nat (l : list nat) : list nat := fold_right insert_nat [] l.

(** the resolver invocations as [C13_gated_never_called] reads them off a run: the GetField
    answers ([resolved_fields]) of the part of the trace that follows validation *)
Definition exec_trace_calls (fx : fixes) (S : schema) (F : features) (d : sdoc) : list (name * name) :=
  let nval := List.length (fst (run fx S F [] (sdoc_validate d))) in
  map (fun x => fst x) (resolved_fields (skipn nval (fst (run fx S F [] (sdoc_prog (sdoc_fuel d) d))))).

Definition calls_eqb (a b : list (name * name)) : bool :=
  sexp_eqb (SL (map enc_call a)) (SL (map enc_call b)).

(** (lines, calls, tree); [None] also when the executor's own log differs from the GetField answers
    of its trace (then the theorem about resolver invocations would not speak about this log) *)
Definition model_sdoc (fx : fixes) (S : schema) (F : features) (d : sdoc) : option sexp :=
  match snd (run fx S F [] (sdoc_prog (sdoc_fuel d) d)) with
  | Done (errs, r) =>
      let lines := tag "lines" (map of_nat (sort_nat errs)) in
      match r with
      | None => Some (SL [lines; tag "calls" []; tag "tree" [SSym "no-data"]])
      | Some None => None                                         (* out of fuel *)
      | Some (Some (log, v)) =>
          if calls_eqb log (exec_trace_calls fx S F d) then
            Some (SL [lines; tag "calls" (map enc_call log);
                      tag "tree" [match v with Some x => enc_rval x | None => SSym "null" end]])
          else None
      end
  | Forged => None
  end.

(** a subscription: (lines, calls, tree) with the events' data under the key "events" *)
Definition model_ssub (fx : fixes) (S : schema) (F : features) (events : nat) (d : sdoc) : option sexp :=
  match snd (run fx S F [] (ssub_prog (sdoc_fuel d) events d)) with
  | Done (errs, r) =>
      let lines := tag "lines" (map of_nat (sort_nat errs)) in
      match r with
      | None => Some (SL [lines; tag "calls" []; tag "tree" [SSym "no-data"]])
      | Some None => None
      | Some (Some (log, vs)) =>
          Some (SL [lines; tag "calls" (map enc_call log);
                    tag "tree" [tag "obj" [SL [SStr (bytes_of_string "events");
                                               tag "list" (map (fun v => match v with Some x => enc_rval x | None => SSym "null" end) vs)]]]])
      end
  | Forged => None
  end.

(** the documents the transcription speaks about: equal response keys select the same field (or
    both __typename) — the generator places such duplicates in the same scope, without arguments, so
    that the field-merging rule (not transcribed) never fires; if it did, the implementation's
    verdict would differ from the model's and the case would be reported —, fragment names
    distinct, every spread names a defined fragment, every fragment is spread somewhere *)
Fixpoint sel_keys (s : sel) : list (name * option name) :=
  match s with
  | SField _ k f sub => ((k, Some f) :: sels_keys sub)%list
  | STypename _ k => [(k, None)]
  | SInline _ _ sub => sels_keys sub
  | SSpread _ _ => []
  end
with sels_keys (l : sels) : list (name * option name) :=
  match l with SNil => [] | SCons s r => (sel_keys s ++ sels_keys r)%list end.
Definition oname_eqb (a b : option name) : bool :=
  match a, b with Some x, Some y => bytes_eqb x y | None, None => true | _, _ => false end.
Fixpoint keys_consistent (l : list (name * option name)) : bool :=
  match l with
  | [] => true
  | (k, f) :: r => forallb (fun kf => negb (bytes_eqb k (fst kf)) || oname_eqb f (snd kf)) r && keys_consistent r
  end.
Fixpoint sel_spreads (s : sel) : list name :=
  match s with
  | SField _ _ _ sub => sels_spreads sub
  | STypename _ _ => []
  | SInline _ _ sub => sels_spreads sub
  | SSpread _ f => [f]
  end
with sels_spreads (l : sels) : list name :=
  match l with SNil => [] | SCons s r => (sel_spreads s ++ sels_spreads r)%list end.
Definition doc_wf (d : sdoc) : bool :=
  let spreads := (sels_spreads (d_sels d) ++ flat_map (fun f => sels_spreads (fr_sels f)) (d_frags d))%list in
  let fnames := map fr_name (d_frags d) in
  keys_consistent (sels_keys (d_sels d) ++ flat_map (fun f => sels_keys (fr_sels f)) (d_frags d))%list &&
  nodup fnames && forallb (fun x => mem x fnames) spreads && forallb (fun x => mem x spreads) fnames.

(** ** observations *)
Record obs := { o_verdict : sexp; o_resp : sexp; o_calls : list name; o_msgs : sexp; o_rest : list sexp }.
Definition dec_obs (l : list sexp) : option obs :=
  match l with
  | o :: rest =>
      match tagged "obs" o with
      | Some ol =>
          match field1 "verdict" ol, field "resp" ol, field "calls" ol with
          | Some v, Some r, Some cs =>
              match dec_names cs with
              | Some c => Some {| o_verdict := v; o_resp := SL r; o_calls := c;
                                  o_msgs := match field "messages" ol with Some m => SL m | None => SL [] end;
                                  o_rest := rest |}
              | None => None
              end
          | _, _, _ => None
          end
      | None => None
      end
  | [] => None
  end.

Fixpoint split_dot (b : bytes) : bytes * bytes :=
  match b with
  | [] => ([], [])
  | c :: r => if N.eqb c dot then ([], r) else let (x, y) := split_dot r in (c :: x, y)
  end.

(** a resolver call that the reduced schema could not have made *)
Definition gated_call (E : schema) (c : name) : bool :=
  let (t, f) := split_dot c in negb (has_field E t f).

(** ** oracle: the two sides are indistinguishable; classification keys computed from the case *)
Definition schema_level_key (S : schema) (F : features) : option string :=
  let gated_root r := match r with Some n => negb (visible S F n) | None => false end in
  if gated_root (Some (query S)) || gated_root (mutation S) || gated_root (subscription S)
  then Some "root-type-gated"
  else if existsb (fun d => existsb (fun a => negb (visible S F (base (snd a)))) (snd d)) (directives S)
  then Some "directive-argument-type-gated"
  else None.

(** first component of two (intro ...) observations that differs *)
Fixpoint first_diff (a b : list sexp) : option (sexp * sexp) :=
  match a, b with
  | x :: a', y :: b' => if sexp_sim x y then first_diff a' b' else Some (x, y)
  | [], [] => None
  | x :: _, [] => Some (x, SL [])
  | [], y :: _ => Some (SL [], y)
  end.
Definition head_sym (s : sexp) : string :=
  match s with SL (SSym t :: _) => t | _ => "shape" end.
Definition intro_key (a b : sexp) : string :=
  match a, b with
  | SL (_ :: la), SL (_ :: lb) =>
      match first_diff la lb with
      | None => "intro:none"
      | Some (x, y) =>
          if String.eqb (head_sym x) "tinfos" then
            match x, y with
            | SL (_ :: tx), SL (_ :: ty) =>
                match first_diff tx ty with
                | Some (SL [_; _; SL [_; SL cx]], SL [_; _; SL [_; SL cy]]) =>
                    match first_diff cx cy with
                    | Some (u, _) => "intro:" ++ head_sym u
                    | None => "intro:tinfo"
                    end
                | Some _ => "intro:type-by-name"
                | None => "intro:tinfos"
                end
            | _, _ => "intro:tinfos"
            end
          else "intro:" ++ head_sym x
      end
  | _, _ => "intro:shape"
  end.

Definition req_kind (r : list sexp) : string :=
  match field1 "kind" r with Some (SSym k) => k | _ => "unknown" end.

(** None = this request passes the oracle *)
Definition oracle_req (S E : schema) (F : features) (r : list sexp) : option sexp :=
  match field "a" r, field "b" r with
  | Some la, Some lb =>
      match dec_obs la, dec_obs lb with
      | Some a, Some b =>
          let k := req_kind r in
          let fail key := Some (v_oracle_fail (match schema_level_key S F with Some g => g | None => key end)
                                              [SSym k; match field1 "query" r with Some q => q | None => SL [] end]) in
          if existsb (gated_call E) (o_calls a) then fail "gated-resolver-called"
          else if negb (sexp_eqb (o_verdict a) (o_verdict b)) then
            fail (if String.eqb k "chain" then "validate:chain" else if String.eqb k "doc" then "validate:document"
                  else if String.eqb k "sdoc" then "validate:selection-sets" else "validate:" ++ k)
          else if String.eqb k "introspect" &&
                  negb (match o_rest a, o_rest b with [x], [y] => sexp_sim x y | _, _ => false end) then
            fail (match o_rest a, o_rest b with [x], [y] => intro_key x y | _, _ => "intro:shape" end)
          else if negb (sexp_eqb (o_resp a) (o_resp b)) then
            fail (if String.eqb k "chain" then "execute:chain" else if String.eqb k "doc" then "execute:document"
                  else if String.eqb k "sdoc" then "execute:selection-sets"
                  else if String.eqb k "stdintro" then "intro:standard-query" else "response:" ++ k)
          else if negb (sexp_eqb (o_msgs a) (o_msgs b)) then fail ("error-message:" ++ k)
          else None
      | _, _ => Some (v_bad "observation")
      end
  | _, _ => Some (v_bad "sides")
  end.

(** ** correspondence: the model against each side *)
Definition compare_req (S E : schema) (F G : features) (r : list sexp) : option sexp :=
  let k := req_kind r in
  match field "a" r, field "b" r with
  | Some la, Some lb =>
      match dec_obs la, dec_obs lb with
      | Some a, Some b =>
          if String.eqb k "introspect" then
            match field "names" r with
            | Some ns =>
                match dec_names ns with
                | Some names =>
                    if negb (match o_rest a with [x] => sexp_sim (model_intro fixed S F names) x | _ => false end)
                    then Some (v_mismatch "introspection-view-full-schema" [])
                    else if negb (match o_rest b with [x] => sexp_sim (model_intro fixed E G names) x | _ => false end)
                    then Some (v_mismatch "introspection-view-erased-schema" [])
                    else None
                | None => Some (v_bad "names")
                end
            | None => Some (v_bad "names")
            end
          else if String.eqb k "chain" then
            match field "chain" r with
            | Some cs =>
                match map_opt dec_cnode cs with
                | Some c =>
                    let seen (o : obs) := match o_rest o with
                                          | [l; f] => SL [l; tag "calls" (map SStr (o_calls o)); f]
                                          | _ => SL []
                                          end in
                    match model_chain fixed S F c, model_chain fixed E G c with
                    | Some ma, Some mb =>
                        if negb (sexp_eqb ma (seen a)) then Some (v_mismatch "chain-full-schema" [ma; seen a])
                        else if negb (sexp_eqb mb (seen b)) then Some (v_mismatch "chain-erased-schema" [mb; seen b])
                        else None
                    | _, _ => Some (v_mismatch "chain-program-forged-a-handle" [])
                    end
                | None => Some (v_bad "chain")
                end
            | None => Some (v_bad "chain")
            end
          else if String.eqb k "ssub" then
            match field "doc" r, field1 "events" r with
            | Some dl, Some (SZ ev) =>
                match dec_sdoc dl with
                | Some d =>
                    if negb (doc_wf d) then Some (v_bad "ssub-not-well-formed")
                    else
                    let seen (o : obs) := match o_rest o with
                                          | [l; t] => SL [l; tag "calls" (map SStr (o_calls o)); t]
                                          | _ => SL []
                                          end in
                    match model_ssub fixed S F (Z.to_nat ev) d, model_ssub fixed E G (Z.to_nat ev) d with
                    | Some ma, Some mb =>
                        if negb (sexp_eqb ma (seen a)) then Some (v_mismatch "subscription-full-schema" [ma; seen a])
                        else if negb (sexp_eqb mb (seen b)) then Some (v_mismatch "subscription-erased-schema" [mb; seen b])
                        else None
                    | _, _ => Some (v_mismatch "subscription-program-forged-a-handle-or-ran-out-of-fuel" [])
                    end
                | None => Some (v_bad "ssub")
                end
            | _, _ => Some (v_bad "ssub")
            end
          else if String.eqb k "sdoc" then
            match field "doc" r with
            | Some dl =>
                match dec_sdoc dl with
                | Some d =>
                    if negb (doc_wf d) then Some (v_bad "sdoc-not-well-formed")
                    else if negb (fitsb (d_frags d) (sdoc_fuel d - 2) (d_sels d)) then Some (v_bad "sdoc-cyclic-or-deeper-than-its-fuel")
                    else
                    let seen (o : obs) := match o_rest o with
                                          | [l; t] => SL [l; tag "calls" (map SStr (o_calls o)); t]
                                          | _ => SL []
                                          end in
                    (* C01's executor model on the F-view against the real response: shape of the
                       data and number of errors, for documents that passed validation *)
                    let is_valid (o : obs) := match o_verdict o with SL [SSym v] => String.eqb v "valid" | _ => false end in
                    let n_errors (o : obs) := match o_resp o with
                                              | SL rl => match field "errors" rl with Some es => List.length es | None => O end
                                              | _ => O
                                              end in
                    let exe_agrees (Sc : schema) (Fs : features) (o : obs) :=
                      if is_valid o then
                        match FeaturesExeCheck.exe_model_sdoc Sc Fs d, o_rest o with
                        | Some (t, n), [_; t'] => sexp_eqb t t' && Nat.eqb n (n_errors o)
                        | _, _ => false
                        end
                      else true in
                    match model_sdoc fixed S F d, model_sdoc fixed E G d with
                    | Some ma, Some mb =>
                        if negb (sexp_eqb ma (seen a)) then Some (v_mismatch "sdoc-full-schema" [ma; seen a])
                        else if negb (sexp_eqb mb (seen b)) then Some (v_mismatch "sdoc-erased-schema" [mb; seen b])
                        else if negb (exe_agrees S F a) then Some (v_mismatch "C01-executor-model-on-the-F-view-full-schema" [])
                        else if negb (exe_agrees E G b) then Some (v_mismatch "C01-executor-model-on-the-F-view-erased-schema" [])
                        else None
                    | _, _ => Some (v_mismatch "sdoc-program-forged-a-handle-or-ran-out-of-fuel-or-log-differs-from-trace" [])
                    end
                | None => Some (v_bad "sdoc")
                end
            | None => Some (v_bad "sdoc")
            end
          else None
      | _, _ => Some (v_bad "observation")
      end
  | _, _ => Some (v_bad "sides")
  end.

Fixpoint first_some {A} (f : A -> option sexp) (l : list A) : option sexp :=
  match l with
  | [] => None
  | x :: r => match f x with Some v => Some v | None => first_some f r end
  end.

(** ** evidence classes *)
Definition query_tag (q : query_) : string :=
  match q with
  | QRoot _ => "root" | QNamedV _ => "validator-type-lookup" | QNamedE _ => "executor-type-lookup"
  | QKind _ => "kind" | QField _ _ => "get-field" | QPossibleV _ => "spread-possible-types"
  | QImpls _ => "abstract-resolution" | QApplies _ _ => "fragment-applies"
  | QIntroTypes => "intro-types" | QIntroType _ => "intro-type-by-name" | QIntroFields _ _ => "intro-fields"
  | QIntroInterfaces _ => "intro-interfaces" | QIntroPossible _ => "intro-possible-types"
  | QEnumValues _ _ => "enum-values" | QInputFields _ => "input-fields"
  | QDirectives => "intro-directives" | QDirective _ => "directive-lookup"
  end.

Definition enc_answer (a : answer) : sexp :=
  match a with
  | AHandle h => tag "handle" [opt_sexp SStr h]
  | AMeta => tag "meta" []
  | AKind k => tag "kind" [opt_sexp (fun k => SSym (kind_sym k)) k]
  | AField f => tag "field" [opt_sexp (fun fd => enc_field ([], fd)) f]
  | ANames l => tag "names" [opt_sexp (fun l => SL (map SStr l)) l]
  | AFields l => tag "fields" [opt_sexp (fun l => SL (map enc_field l)) l]
  | AInputs l => tag "inputs" [opt_sexp (fun l => SL (map enc_arg l)) l]
  | ABool b => of_bool b
  | ADirs l => tag "dirs" (map (fun d => tag "d" [SStr (fst d); enc_args "args" (snd d)]) l)
  end.

(** the first lookup of a chain whose answer depends on the request's feature set *)
Fixpoint first_gate (a b : list (query_ * answer)) : option string :=
  match a, b with
  | (q, x) :: a', (_, y) :: b' =>
      if sexp_eqb (enc_answer x) (enc_answer y) then first_gate a' b' else Some (query_tag q)
  | _, _ => None
  end.

Definition req_classes (S : schema) (F G : features) (r : list sexp) : list string :=
  let k := req_kind r in
  let valid := match field "a" r with
               | Some la => match dec_obs la with
                            | Some a => match o_verdict a with SL [SSym v] => String.eqb v "valid" | _ => false end
                            | None => false
                            end
               | None => false
               end in
  if String.eqb k "introspect" then
    match field "names" r with
    | Some ns => match dec_names ns with
                 | Some names => if sexp_sim (model_intro fixed S F names) (model_intro fixed S G names)
                                 then ["introspect"]
                                 else ["introspect"; "introspect-gating-matters";
                                       "gate-" ++ intro_key (model_intro fixed S F names) (model_intro fixed S G names)]
                 | None => []
                 end
    | None => []
    end
  else if String.eqb k "chain" then
    match field "chain" r with
    | Some cs => match map_opt dec_cnode cs with
                 | Some c =>
                     (if valid then "chain-valid" else "chain-invalid") ::
                     match model_chain fixed S F c, model_chain fixed S G c with
                     | Some x, Some y =>
                         if sexp_eqb x y then []
                         else "chain-gating-matters" ::
                              match first_gate (fst (run fixed S F [] (chain_prog c))) (fst (run fixed S G [] (chain_prog c))) with
                              | Some t => ["gate-" ++ t]
                              | None => []
                              end
                     | _, _ => []
                     end
                 | None => []
                 end
    | None => []
    end
  else if String.eqb k "sdoc" then
    match field "doc" r with
    | Some dl => match dec_sdoc dl with
                 | Some d =>
                     (if valid then "sdoc-valid" else "sdoc-invalid") ::
                     (if valid then ["sdoc-compared-with-C01-model-on-the-F-view"] else []) ++
                     ((if is_nil (d_frags d) then [] else ["sdoc-with-named-fragments"]) ++
                      (if nodup (map fst (sels_keys (d_sels d) ++ flat_map (fun f => sels_keys (fr_sels f)) (d_frags d))%list)
                       then [] else ["sdoc-with-equal-response-keys"]) ++
                     sdoc_exec_classes fixed S F d ++
                     match model_sdoc fixed S F d, model_sdoc fixed S G d with
                     | Some x, Some y =>
                         if sexp_eqb x y then []
                         else "sdoc-gating-matters" ::
                              match first_gate (fst (run fixed S F [] (sdoc_prog (sdoc_fuel d) d)))
                                               (fst (run fixed S G [] (sdoc_prog (sdoc_fuel d) d))) with
                              | Some t => [("sdoc-gate-" ++ t)%string]
                              | None => []
                              end
                     | _, _ => []
                     end)%list
                 | None => []
                 end
    | None => []
    end
  else if String.eqb k "doc" then
    (if valid then "doc-valid" else "doc-invalid") ::
    match field "tags" r with
    | Some ts => flat_map (fun t => match t with SStr b => ["doc-with-" ++ string_of_bytes b] | _ => [] end) ts
    | None => []
    end
  else [k].

Fixpoint dedup (l : list string) : list string :=
  match l with
  | [] => []
  | x :: r => if existsb (String.eqb x) r then dedup r else x :: dedup r
  end.

Definition case_kind (l : list sexp) : string :=
  match field1 "kind" l with Some (SSym k) => k | _ => "unknown" end.
(** for the hostile stream: which edit, and how schema.New judged it *)
Definition edit_class (l : list sexp) (accepted : bool) : list string :=
  if String.eqb (case_kind l) "hostile" then
    match field1 "note" l with
    | Some (SStr b) => [(if accepted then "edit-accepted:" else "edit-rejected:") ++ string_of_bytes b]
    | _ => []
    end
  else [].

(** the reduced definition as schema.New itself registers it (side c), present when that differs
    from the reduced registry: (physical (names ..) (registered ..) (a OBS INTRO) (c OBS INTRO)) *)
Definition same_names (a b : list name) : bool :=
  forallb (fun x => mem x b) a && forallb (fun x => mem x a) b.

Definition check_physical (S : schema) (F G : features) (l : list sexp) : option sexp :=
  let P := erase_physical S F in
  match field "physical" l with
  | None =>
      if excl_orphaned_type S F then Some (v_mismatch "physical-erasure-not-observed" (map SStr (orphaned S F)))
      else None
  | Some pl =>
      match field "names" pl, field "registered" pl, field "a" pl, field "c" pl with
      | Some ns, Some rg, Some la, Some lc =>
          match dec_names ns, dec_names rg, dec_obs la, dec_obs lc with
          | Some names, Some reg, Some a, Some c =>
              if negb (same_names reg (map fst (types P))) then
                Some (v_mismatch "physical-erasure-registry" (map SStr (map fst (types P))))
              else
                match o_rest a, o_rest c with
                | [xa], [xc] =>
                    if negb (sexp_sim (model_intro fixed P G names) xc) then
                      Some (v_mismatch "introspection-view-physically-erased-schema" [])
                    else if sexp_sim xa xc && sexp_eqb (o_verdict a) (o_verdict c) then None
                    else Some (v_oracle_fail (if excl_orphaned_type S F then "orphaned-type-stays-visible"
                                              else intro_key xa xc) (map SStr (orphaned S F)))
                | _, _ => Some (v_bad "physical-observation")
                end
          | _, _, _, _ => Some (v_bad "physical-decode")
          end
      | _, _, _, _ => Some (v_bad "physical-fields")
      end
  end.

(** the plumbing history of side a, when the case reports one:
    (plumbing (transport http|ws) (history (env "f"..) | (init) | (op) ..)) — every operation must
    run with the case's feature set F according to [ws_effective] / [http_effective] *)
Definition dec_pstep (s : sexp) : option pstep :=
  match untag s with
  | Some (t, args) =>
      if String.eqb t "env" then option_map PEnv (dec_names args)
      else if String.eqb t "init" then Some PInit
      else if String.eqb t "init-with" then option_map PInitWith (dec_names args)
      else if String.eqb t "op" then Some POp
      else None
  | None => None
  end.
Definition same_set (a b : features) : bool := subset a b && subset b a.
Definition check_plumbing (F : features) (l : list sexp) : option sexp :=
  match field "plumbing" l with
  | None => None
  | Some pl =>
      match field1 "transport" pl, field "history" pl with
      | Some (SSym t), Some hs =>
          match map_opt dec_pstep hs with
          | Some h =>
              let eff := if String.eqb t "ws" then ws_effective [] None h else http_effective [] h in
              if is_nil eff then Some (v_bad "plumbing-without-operation")
              else if forallb (fun o => match o with Some f => same_set f F | None => false end) eff then None
              else Some (v_mismatch "plumbing-model-predicts-another-feature-set" [])
          | None => Some (v_bad "plumbing-history")
          end
      | _, _ => Some (v_bad "plumbing")
      end
  end.

(** the schema in C04's vocabulary (coq/Vld/Ast.v): the hypothesis [FeaturesVld.vok] of the
    composition theorems with C04's validator model is evaluated on every schema the real
    schema.New accepted (result coercion of scalars, default values, directive locations and the
    introspection meta-schema are not part of C13's descriptions and play no role in [vok]) *)
Fixpoint to_vsty (t : sty) : Vld.Ast.sty :=
  match t with
  | StNamed n => Vld.Ast.StNamed n
  | StList x => Vld.Ast.StList (to_vsty x)
  | StNonNull x => Vld.Ast.StNonNull (to_vsty x)
  end.
Definition to_vinputs (l : list (name * sty)) : list (Vld.Ast.name * Vld.Ast.input_def) :=
  map (fun a => (fst a, {| Vld.Ast.in_type := to_vsty (snd a); Vld.Ast.in_default := Vld.Ast.DNone |})) l.
Definition to_vfields (l : list (name * field_def)) : list (Vld.Ast.name * Vld.Ast.field_def) :=
  map (fun nf => (fst nf, {| Vld.Ast.f_type := to_vsty (f_type (snd nf)); Vld.Ast.f_args := to_vinputs (f_args (snd nf));
                             Vld.Ast.f_req := f_req (snd nf) |})) l.
Definition to_vld (S : schema) : Vld.Ast.schema :=
  {| Vld.Ast.s_types :=
       map (fun nt => (fst nt,
                       {| Vld.Ast.t_req := type_req (snd nt);
                          Vld.Ast.t_body := match snd nt with
                                            | NScalar _ => Vld.Ast.TScalar (Vld.Ast.SCustom None)
                                            | NEnum vs _ => Vld.Ast.TEnum (map fst vs)
                                            | NInput fs _ => Vld.Ast.TInput (to_vinputs fs)
                                            | NObject fs ifs _ => Vld.Ast.TObject (to_vfields fs) ifs
                                            | NInterface fs _ => Vld.Ast.TInterface (to_vfields fs)
                                            | NUnion ms _ => Vld.Ast.TUnion ms
                                            end |})) (types S);
     Vld.Ast.s_query := query S; Vld.Ast.s_mutation := mutation S; Vld.Ast.s_subscription := subscription S;
     Vld.Ast.s_directives := map (fun d => (fst d, {| Vld.Ast.dd_args := to_vinputs (snd d); Vld.Ast.dd_locs := [] |})) (directives S);
     Vld.Ast.s_meta := [];
     Vld.Ast.s_impls := flat_map (fun nt => match snd nt with
                                            | NInterface _ _ => [(fst nt, map fst (impls S (fst nt)))]
                                            | _ => []
                                            end) (types S) |}.

Definition check_case (S : schema) (F G : features) (accepted : bool) (l : list sexp) (sd : sexp) : sexp :=
  if negb accepted then
    if schema_ok S then v_mismatch "schema-ok" [of_bool true; of_bool false]
    else v_ok (case_kind l :: "schema-rejected" :: edit_class l false)
  else
    (* the implementation accepted the schema: the oracle speaks first, also when the model's
       schema_ok disagrees (then a failing request is the better report) *)
    let E := erase S F in
    match field1 "erased" l with
    | None => v_bad "erased"
    | Some ed =>
        if negb (sexp_eqb (enc_schema E) ed) then v_mismatch "erase-differs" [enc_schema E]
        else
          match field "erased-rejected" l with
          | Some _ =>
              v_oracle_fail (match schema_level_key S F with Some g => g | None => "erased-schema-rejected" end) []
          | None =>
              match field "requests" l with
              | None => v_bad "requests"
              | Some rs =>
                  let rs' := map (fun r => match r with SL (_ :: x) => x | _ => [] end) rs in
                  match first_some (oracle_req S E F) rs' with
                  | Some v => v
                  | None =>
                      if negb (schema_ok S) then v_mismatch "schema-ok" [of_bool false; of_bool true]
                      else if negb (FeaturesVld.vok (to_vld S)) then v_mismatch "vok-of-the-C04-composition" []
                      else
                      match (match check_plumbing F l with Some v => Some v | None => first_some (compare_req S E F G) rs' end) with
                      | Some v => v
                      | None =>
                        match check_physical S F G l with
                        | Some v => v
                        | None =>
                          let cl := dedup (flat_map (req_classes S F G) rs') in
                          let deleted := negb (sexp_eqb (enc_schema E) sd) in
                          let matters := existsb (fun x => String.eqb x "introspect-gating-matters" || String.eqb x "chain-gating-matters" || String.eqb x "sdoc-gating-matters") cl in
                          v_ok (case_kind l :: "schema-accepted" :: edit_class l true ++
                                (match field "plumbing" l with Some _ => ["plumbing-history-checked"] | None => [] end) ++
                                (if deleted then ["something-erased"] else ["nothing-erased"]) ++
                                cl ++ (if deleted && matters then ["nontrivial"] else []))%list
                        end
                      end
                  end
              end
          end
    end.

Definition check (c : sexp) : sexp :=
  match tagged "case" c with
  | None => v_bad "shape"
  | Some l =>
      match find (fun x => match tagged "schema" x with Some _ => true | None => false end) l,
            field "features" l, field "all" l, field1 "accepted" l with
      | Some sd, Some fs, Some gs, Some acc =>
          match dec_schema sd, dec_names fs, dec_names gs, as_bool acc with
          | Some Sc, Some F, Some G, Some accepted => check_case Sc F G accepted l sd
          | _, _, _, _ => v_bad "decode"
          end
      | _, _, _, _ => v_bad "fields"
      end
  end.
