(** * Feat/FeaturesPipe.v — C13 on the composed request pipeline of C03 (coq/Pipe, imported read-only).

    [Compose.pipeline_order pi VS F ES bs ..] is graphql.Execute from the BYTES of the request:
    parse (C06), ParseAndValidate with the checked-pairs memo (C04, on the validator's schema VS with
    the request's feature set F), executor.ExecuteRequest (C01/C05, on the executor's schema ES);
    [SubscribeCompose.subscribe_order] is graphql.Subscribe: the same front half, then the SUBSCRIBE
    step — GetOperation, variable coercion, a subscription operation, collectFields on the
    subscription type, exactly one response key, GetField, argument coercion, the resolver call that
    yields the source stream.  Each event of the stream is then one [pipeline_order] run.

    For a validator schema VS accepted by schema.New ([vok]), an executor-side schema S
    ([schema_ok]) presented as its F-view, and F ⊆ G: both functions return the same on (VS, F, the
    F-view of S) and on the erased schemas with G — every request text, every operation name, every
    variable assignment, every resolver-outcome tree. *)
From Coq Require Import List NArith Bool.
From ApiFu Require Import Base.Sexp Feat.FeaturesModel Feat.FeaturesSpec Feat.FeaturesProofs.
From ApiFu Require Vld.Ast Vld.ValidatorModel Vld.ProofsCommon Feat.FeaturesVld Feat.FeaturesVldRules.
From ApiFu Require Val.Values ExeA.ArgData ExeA.ArgModel Feat.FeaturesExe.
From ApiFu Require Pipe.Compose Pipe.SubscribeCompose.
Import ListNotations.

Section Pipe.
  Variable leaf : name -> named_type -> ArgData.named_type.
  Variable inp : name -> named_type -> option Values.tdef.
  Variable adefs : name -> name -> list (name * sty) -> ArgData.argdefs.
  Variable dt : list (bytes * option bytes).
  Variable pi : ValidatorModel.order.
  Hypothesis Hpi : ProofsCommon.order_ok pi.
  Variable VS : Vld.Ast.schema.
  Variable S : schema.
  Variables F G : features.
  Hypothesis Hvok : FeaturesVld.vok VS = true.
  Hypothesis Hok : schema_ok S = true.
  Hypothesis HFG : subset F G = true.

  Local Notation view := (FeaturesExe.view leaf inp adefs dt).

  Lemma front_eq bs :
    Compose.parse_and_validate_order pi (FeaturesVld.verase VS F) G bs = Compose.parse_and_validate_order pi VS F bs.
  Proof.
    unfold Compose.parse_and_validate_order, Compose.validate_doc.
    destruct (Syn.FrontEnd.parse_document_bytes bs) as [[d|] [|e es]|]; try reflexivity.
    rewrite (FeaturesVldRules.validate_memo_eq_repaired VS F G pi ValidatorModel.repaired _ Hvok HFG Hpi eq_refl).
    reflexivity.
  Qed.

  (** graphql.Execute from the bytes of the request *)
  Theorem pipeline_eq bs opname raw W :
    Compose.pipeline_order pi (FeaturesVld.verase VS F) G (view (erase S F) G) bs opname raw W
    = Compose.pipeline_order pi VS F (view S F) bs opname raw W.
  Proof.
    unfold Compose.pipeline_order. rewrite front_eq, (FeaturesExe.view_erase leaf inp adefs dt S F G Hok HFG). reflexivity.
  Qed.

  (** graphql.Subscribe: front half and the subscribe step *)
  Theorem subscribe_eq bs opname raw W :
    SubscribeCompose.subscribe_order pi (FeaturesVld.verase VS F) G (view (erase S F) G) bs opname raw W
    = SubscribeCompose.subscribe_order pi VS F (view S F) bs opname raw W.
  Proof.
    unfold SubscribeCompose.subscribe_order. rewrite front_eq, (FeaturesExe.view_erase leaf inp adefs dt S F G Hok HFG). reflexivity.
  Qed.
End Pipe.
