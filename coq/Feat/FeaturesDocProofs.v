(** * Feat/FeaturesDocProofs.v — C13 for documents made of selection SETS:
    the transcribed validator and executor ([FeaturesDocModel]) are consumer programs, so
    [noninterference] applies to them; and they are disciplined — they never present a type
    pointer they were not handed (so those instances are never the trivial [Forged = Forged]). *)
From Coq Require Import List NArith Bool Lia.
From ApiFu Require Import Base.Sexp Feat.FeaturesModel Feat.FeaturesSpec Feat.FeaturesProofs Feat.FeaturesDocModel.
Import ListNotations.
Open Scope list_scope.

(** ** the instances *)
Theorem sets_validate_eq S F G d :
  schema_ok S = true -> subset F G = true ->
  run fixed S F [] (sdoc_validate d) = run fixed (erase S F) G [] (sdoc_validate d).
Proof. intros Hok HFG. apply (noninterference (sdoc_validate d) S F G Hok HFG). Qed.

Theorem sets_exec_eq S F G fuel d :
  schema_ok S = true -> subset F G = true ->
  run fixed S F [] (sdoc_prog fuel d) = run fixed (erase S F) G [] (sdoc_prog fuel d).
Proof. intros Hok HFG. apply (noninterference (sdoc_prog fuel d) S F G Hok HFG). Qed.

Theorem subscription_eq S F G fuel events d :
  schema_ok S = true -> subset F G = true ->
  run fixed S F [] (ssub_prog fuel events d) = run fixed (erase S F) G [] (ssub_prog fuel events d).
Proof. intros Hok HFG. apply (noninterference (ssub_prog fuel events d) S F G Hok HFG). Qed.

(** plumbing: once a WebSocket connection is initialised, no change of the environment reaches its
    operations and subscription events *)
Definition is_init (st : pstep) : bool := match st with PInit | PInitWith _ => true | _ => false end.

Lemma ws_frozen h : forall env F,
  (forall st, In st h -> is_init st = false) ->
  forall o, In o (ws_effective env (Some F) h) -> o = Some F.
Proof.
  induction h as [|st r IH]; intros env F Hn o Ho; [contradiction|].
  assert (Hr : forall st', In st' r -> is_init st' = false) by (intros st' H'; apply Hn; right; exact H').
  pose proof (Hn st (or_introl eq_refl)) as Hst.
  destruct st as [now | | f |]; cbn [ws_effective] in Ho; try discriminate.
  - eapply IH; eauto.
  - destruct Ho as [Ho | Ho]; [symmetry; exact Ho | eapply IH; eauto].
Qed.

(** the connection runs with what the LATEST accepted init granted *)
Lemma ws_latest_init h1 f h2 : forall env conn,
  (forall st, In st h2 -> is_init st = false) ->
  forall o, In o (ws_effective env conn (h1 ++ PInitWith f :: h2)) ->
  In o (ws_effective env conn h1) \/ o = Some f.
Proof.
  induction h1 as [|st r IH]; intros env conn Hn o Ho.
  - right. cbn [app ws_effective] in Ho. eapply ws_frozen; eauto.
  - cbn [app] in Ho. destruct st as [now | | g |]; cbn [ws_effective] in *.
    + eapply IH; eauto.
    + eapply IH; eauto.
    + eapply IH; eauto.
    + destruct Ho as [Ho | Ho]; [left; left; exact Ho|].
      destruct (IH env conn Hn o Ho) as [H | H]; [left; right; exact H | right; exact H].
Qed.

(** ** discipline *)
Scheme sel_mind := Induction for sel Sort Prop
  with sels_mind := Induction for sels Sort Prop.
Combined Scheme sel_sels_ind from sel_mind, sels_mind.

(** the type conditions of inline fragments *)
Fixpoint sel_tcs (s : sel) : list name :=
  match s with
  | SField _ _ _ sub => sels_tcs sub
  | STypename _ _ => []
  | SInline _ None sub => sels_tcs sub
  | SInline _ (Some tc) sub => tc :: sels_tcs sub
  | SSpread _ _ => []
  end
with sels_tcs (l : sels) : list name :=
  match l with SNil => [] | SCons s r => sel_tcs s ++ sels_tcs r end.

Definition good (kn : list name) (l : sels) : Prop := forall t, In t (sels_tcs l) -> mem t kn = true.
Definition good_frs (frs : list fragdef) (kn : list name) : Prop :=
  forall d, In d frs -> mem (fr_tc d) kn = true /\ good kn (fr_sels d).
Definition good_entries (kn : list name) (es : list centry) : Prop :=
  forall e, In e es -> good kn (ce_sub e).

Lemma good_mono kn kn' l : incl_known kn kn' -> good kn l -> good kn' l.
Proof. intros Hi H t Ht. apply Hi, H, Ht. Qed.
Lemma good_frs_mono frs kn kn' : incl_known kn kn' -> good_frs frs kn -> good_frs frs kn'.
Proof. intros Hi H d Hd. destruct (H d Hd) as [H1 H2]. split; [apply Hi, H1 | cbv beta in *; eapply good_mono; eauto]. Qed.
Lemma good_entries_mono kn kn' es : incl_known kn kn' -> good_entries kn es -> good_entries kn' es.
Proof. intros Hi H e He. cbv beta in *; eapply good_mono; eauto. Qed.

Lemma find_frag_In frs n d : find_frag frs n = Some d -> In d frs.
Proof. unfold find_frag. intro H. apply find_some in H. apply H. Qed.

Section DocDiscipline.
  Variable fx : fixes.
  Variable S : schema.
  Variable F : features.
  Local Notation WP := (wp fx S F).

  Lemma namedV_handle t h : ask fx S F (QNamedV t) = AHandle (Some h) -> h = t.
  Proof.
    simpl. destruct (lookup S t) as [x|]; [destruct (subset (type_req x) F)|];
      try (destruct (mem t meta_names); discriminate); intro H; inversion H; reflexivity.
  Qed.

  Lemma namedE_handle t h : ask fx S F (QNamedE t) = AHandle (Some h) -> h = t.
  Proof.
    simpl. destruct (lookup S t) as [x|]; [|destruct (mem t meta_names); discriminate].
    intro H; inversion H; reflexivity.
  Qed.

  Lemma wp_ret {A} (a : A) known (Q : A -> list name -> Prop) : Q a known -> WP known (Ret a) Q.
  Proof. intro H. exact H. Qed.

  Lemma wp_ask {A} q (k : answer -> prog A) known (Q : A -> list name -> Prop) :
    forallb (fun h => mem h known) (handle_args q) = true ->
    WP (handles_of q (ask fx S F q) ++ known) (k (ask fx S F q)) Q ->
    WP known (Ask q k) Q.
  Proof. intros H1 H2. split; assumption. Qed.

  Lemma all1 h known : mem h known = true -> forallb (fun x => mem x known) [h] = true.
  Proof. intro H. simpl. rewrite H. reflexivity. Qed.
  Lemma all2 a b known : mem a known = true -> mem b known = true -> forallb (fun x => mem x known) [a; b] = true.
  Proof. intros H1 H2. simpl. rewrite H1, H2. reflexivity. Qed.

  (** *** the validator *)
  Lemma vtypecond_wp at_id tc known :
    WP known (vtypecond at_id tc)
       (fun r kn => incl_known known kn /\ parent_known (snd r) kn /\ (fst r = [] -> mem tc kn = true)).
  Proof.
    unfold vtypecond. apply wp_ask; [reflexivity|].
    set (kn1 := handles_of (QNamedV tc) (ask fx S F (QNamedV tc)) ++ known).
    assert (Hi1 : incl_known known kn1) by apply incl_known_app.
    destruct (ask fx S F (QNamedV tc)) as [[h|] | | | | | | | |] eqn:AN;
      try (apply wp_ret; simpl; repeat split; [exact Hi1 | discriminate]).
    apply namedV_handle in AN. subst h.
    assert (Ht1 : mem tc kn1 = true) by (unfold kn1; apply mem_app_l; simpl; apply mem_head).
    apply wp_ask; [apply all1; exact Ht1|].
    set (kn2 := handles_of (QKind tc) (ask fx S F (QKind tc)) ++ kn1).
    assert (Hi2 : incl_known known kn2) by (eapply incl_known_trans; [exact Hi1 | apply incl_known_app]).
    assert (Ht2 : mem tc kn2 = true) by (unfold kn2; apply mem_app_r; exact Ht1).
    destruct (ask fx S F (QKind tc)) as [| | k | | | | | |];
      apply wp_ret; simpl; repeat split; auto.
  Qed.

  Lemma vspread_wp at_id tc parent known :
    parent_known parent known ->
    WP known (vspread at_id tc parent) (fun _ kn => incl_known known kn).
  Proof.
    intro HP. unfold vspread. destruct parent as [p|]; [|apply wp_ret; apply incl_known_refl].
    simpl in HP. apply wp_ask; [reflexivity|].
    set (kn1 := handles_of (QNamedV tc) (ask fx S F (QNamedV tc)) ++ known).
    assert (Hi1 : incl_known known kn1) by apply incl_known_app.
    destruct (ask fx S F (QNamedV tc)) as [[h|] | | | | | | | |] eqn:AN; try (apply wp_ret; exact Hi1).
    apply namedV_handle in AN. subst h.
    assert (Ht1 : mem tc kn1 = true) by (unfold kn1; apply mem_app_l; simpl; apply mem_head).
    apply wp_ask; [apply all1; exact Ht1|].
    set (kn2 := handles_of (QKind tc) (ask fx S F (QKind tc)) ++ kn1).
    assert (Hi2 : incl_known known kn2) by (eapply incl_known_trans; [exact Hi1 | apply incl_known_app]).
    assert (Ht2 : mem tc kn2 = true) by (unfold kn2; apply mem_app_r; exact Ht1).
    destruct (ask fx S F (QKind tc)) as [| | k | | | | | |]; try (apply wp_ret; exact Hi2).
    destruct (is_composite k); [|apply wp_ret; exact Hi2].
    apply wp_ask; [apply all1; exact Ht2|].
    set (kn3 := handles_of (QPossibleV tc) (ask fx S F (QPossibleV tc)) ++ kn2).
    assert (Hi3 : incl_known known kn3) by (eapply incl_known_trans; [exact Hi2 | apply incl_known_app]).
    apply wp_ask; [apply all1; apply Hi3; exact HP|].
    apply wp_ret. eapply incl_known_trans; [exact Hi3 | apply incl_known_app].
  Qed.

  Section Val.
    Variable frs : list fragdef.

    Definition val_post (known : list name) (tcs : list name) : list nat -> list name -> Prop :=
      fun errs kn => incl_known known kn /\ (errs = [] -> forall t, In t tcs -> mem t kn = true).

    Lemma val_post_weaken known known' tcs errs kn :
      incl_known known known' -> val_post known' tcs errs kn -> val_post known tcs errs kn.
    Proof. intros Hi [H1 H2]. split; [cbv beta in *; eapply incl_known_trans; eauto | exact H2]. Qed.

    Lemma sval_svals_wp :
      (forall s parent known, parent_known parent known ->
         WP known (sval frs parent s) (val_post known (sel_tcs s))) /\
      (forall l parent known, parent_known parent known ->
         WP known (svals frs parent l) (val_post known (sels_tcs l))).
    Proof.
      apply sel_sels_ind.
      - (* SField *)
        intros id key f sub IH parent known HP. cbn [sval sel_tcs].
        (* run the subselection, then add (or not) an error at this node *)
        assert (K : forall parent' kn (flag : bool),
                   incl_known known kn -> parent_known parent' kn ->
                   WP kn (bind (svals frs parent' sub) (fun es => Ret (if flag then id :: es else es)))
                      (val_post known (sels_tcs sub))).
        { intros parent' kn flag Hi Hp. apply wp_bind.
          eapply wp_mono; [|apply (IH parent' kn Hp)].
          intros es kn' [Hi' Hf]. apply wp_ret. split; [cbv beta in *; eapply incl_known_trans; eauto|].
          intros Hnil. destruct flag; [discriminate | auto]. }
        assert (U : forall kn, incl_known known kn ->
                   WP kn (bind (svals frs None sub) (fun es => Ret (if is_snil sub then es else id :: es)))
                      (val_post known (sels_tcs sub))).
        { intros kn Hi. pose proof (K None kn (negb (is_snil sub)) Hi I) as H.
          destruct (is_snil sub); exact H. }
        destruct parent as [p|]; [|apply U; apply incl_known_refl].
        simpl in HP. apply wp_ask; [apply all1; exact HP|].
        set (kn1 := handles_of (QKind p) (ask fx S F (QKind p)) ++ known).
        assert (Hi1 : incl_known known kn1) by apply incl_known_app.
        assert (FieldCase :
                  WP kn1 (Ask (QField p f) (fun af =>
                            match af with
                            | AField (Some fd) =>
                                Ask (QKind (base (f_type fd))) (fun ab =>
                                  let comp := match ab with AKind k => is_composite k | _ => false end in
                                  let here := if comp then is_snil sub else negb (is_snil sub) in
                                  bind (svals frs (Some (base (f_type fd))) sub)
                                       (fun es => Ret (if here then id :: es else es)))
                            | _ => bind (svals frs None sub) (fun es => Ret (id :: es))
                            end))
                     (val_post known (sels_tcs sub))).
        { apply wp_ask; [apply all1; apply Hi1; exact HP|].
          set (kn2 := handles_of (QField p f) (ask fx S F (QField p f)) ++ kn1).
          assert (Hi2 : incl_known known kn2) by (eapply incl_known_trans; [exact Hi1 | apply incl_known_app]).
          destruct (ask fx S F (QField p f)) as [| | | [fd|] | | | | |] eqn:AF;
            try (apply (K None kn2 true Hi2 I)).
          assert (Hb : mem (base (f_type fd)) kn2 = true).
          { unfold kn2. apply mem_app_l. simpl. unfold field_handles. apply mem_head. }
          apply wp_ask; [apply all1; exact Hb|].
          set (kn3 := handles_of (QKind (base (f_type fd))) (ask fx S F (QKind (base (f_type fd)))) ++ kn2).
          apply (K (Some (base (f_type fd))) kn3).
          - eapply incl_known_trans; [exact Hi2 | apply incl_known_app].
          - simpl. unfold kn3. apply mem_app_r. exact Hb. }
        destruct (ask fx S F (QKind p)) as [| | [[| | | | |]|] | | | | | |]; try (apply U; exact Hi1).
        + exact FieldCase.
        + exact FieldCase.
        + apply (K None kn1 true Hi1 I).
      - (* STypename *)
        intros id key parent known HP. apply wp_ret. split; [apply incl_known_refl | intros _ t []].
      - (* SInline *)
        intros id tc sub IH parent known HP. destruct tc as [tc|]; cbn [sval sel_tcs].
        + apply wp_bind. eapply wp_mono; [|apply vtypecond_wp].
          intros [e1 scope] kn1 [Hi1 [Hs1 Ht1]]. cbn [fst snd] in *.
          apply wp_bind. eapply wp_mono; [|apply (vspread_wp id tc parent kn1)].
          * intros e2 kn2 Hi2. apply wp_bind.
            eapply wp_mono; [|apply (IH scope kn2)].
            -- intros e3 kn3 [Hi3 Hf3]. apply wp_ret. split.
               ++ eapply incl_known_trans; [exact Hi1|]. cbv beta in *; eapply incl_known_trans; eauto.
               ++ intros Hnil t [Ht | Ht].
                  ** subst t. apply app_eq_nil in Hnil as [N1 _]. apply Hi3, Hi2, Ht1. exact N1.
                  ** apply app_eq_nil in Hnil as [_ N2]. apply app_eq_nil in N2 as [_ N3]. auto.
            -- destruct scope as [h|]; [|exact I]. simpl in *. apply Hi2. exact Hs1.
          * destruct parent as [p|]; [|exact I]. simpl in *. apply Hi1. exact HP.
        + apply (IH parent known HP).
      - (* SSpread *)
        intros id fr parent known HP. cbn [sval sel_tcs].
        destruct (find_frag frs fr) as [d|].
        + eapply wp_mono; [|apply (vspread_wp (fr_id d) (fr_tc d) parent known HP)].
          intros e kn Hi. split; [exact Hi | intros _ t []].
        + apply wp_ret. split; [apply incl_known_refl | intros _ t []].
      - (* SNil *)
        intros parent known HP. apply wp_ret. split; [apply incl_known_refl | intros _ t []].
      - (* SCons *)
        intros s IHs r IHr parent known HP. cbn [svals sels_tcs].
        apply wp_bind. eapply wp_mono; [|apply (IHs parent known HP)].
        intros e1 kn1 [Hi1 Hf1]. apply wp_bind.
        eapply wp_mono; [|apply (IHr parent kn1)].
        + intros e2 kn2 [Hi2 Hf2]. apply wp_ret. split; [cbv beta in *; eapply incl_known_trans; eauto|].
          intros Hnil t Ht. apply app_eq_nil in Hnil as [N1 N2].
          apply in_app_or in Ht as [Ht | Ht]; [apply Hi2, Hf1; auto | auto].
        + destruct parent as [p|]; [|exact I]. simpl in *. apply Hi1. exact HP.
    Qed.

    Lemma sval_defs_wp ds : forall known,
      WP known (sval_defs frs ds)
         (fun errs kn => incl_known known kn /\ (errs = [] -> good_frs ds kn)).
    Proof.
      induction ds as [|d r IH]; intro known.
      - apply wp_ret. split; [apply incl_known_refl | intros _ d []].
      - cbn [sval_defs]. apply wp_bind. unfold sval_def. apply wp_bind.
        eapply wp_mono; [|apply vtypecond_wp].
        intros [e0 scope] kn0 [Hi0 [Hs0 Ht0]]. cbn [fst snd] in *.
        apply wp_bind. eapply wp_mono; [|apply (proj2 sval_svals_wp (fr_sels d) scope kn0 Hs0)].
        intros e1 kn1 [Hi1 Hf1]. apply wp_ret. apply wp_bind.
        eapply wp_mono; [|apply (IH kn1)].
        intros e2 kn2 [Hi2 Hf2]. apply wp_ret. split.
        + eapply incl_known_trans; [exact Hi0|]. cbv beta in *; eapply incl_known_trans; eauto.
        + intros Hnil. apply app_eq_nil in Hnil as [N01 N2]. apply app_eq_nil in N01 as [N0 N1].
          intros d' [Hd | Hd].
          * subst d'. split; [apply Hi2, Hi1, Ht0; exact N0|].
            intros t Ht. apply Hi2. apply Hf1; auto.
          * apply Hf2; auto.
    Qed.
  End Val.

  Lemma sdoc_val_wp q d known :
    mem q known = true ->
    WP known (sdoc_val q d)
       (fun errs kn => incl_known known kn /\ (errs = [] -> good kn (d_sels d) /\ good_frs (d_frags d) kn)).
  Proof.
    intro Hq. unfold sdoc_val. apply wp_bind.
    eapply wp_mono; [|apply (proj2 (sval_svals_wp (d_frags d)) (d_sels d) (Some q) known Hq)].
    intros e1 kn1 [Hi1 Hf1]. apply wp_bind.
    eapply wp_mono; [|apply (sval_defs_wp (d_frags d) (d_frags d) kn1)].
    intros e2 kn2 [Hi2 Hf2]. apply wp_ret. split; [cbv beta in *; eapply incl_known_trans; eauto|].
    intros Hnil. apply app_eq_nil in Hnil as [N1 N2]. split; [|auto].
    intros t Ht. apply Hi2. apply Hf1; auto.
  Qed.

  (** *** the executor *)
  Section ExecD.
    Variable frs : list fragdef.

    Definition col_post (known : list name) : option cstate -> list name -> Prop :=
      fun r kn => incl_known known kn /\ match r with Some st => good_entries kn (snd st) | None => True end.

    Definition col_ok (rec : name -> sels -> cstate -> prog (option cstate)) : Prop :=
      forall obj l st known,
        mem obj known = true -> good known l -> good_frs frs known -> good_entries known (snd st) ->
        WP known (rec obj l st) (col_post known).

    Lemma good_entries_snoc kn es e : good_entries kn es -> good kn (ce_sub e) -> good_entries kn (es ++ [e]).
    Proof. intros H He e' Hin. apply in_app_or in Hin as [Hin | [Hin | []]]; [auto | subst; exact He]. Qed.

    Lemma good_cons_l kn s r : good kn (SCons s r) -> forall t, In t (sel_tcs s) -> mem t kn = true.
    Proof. intros H t Ht. apply H. cbn [sels_tcs]. apply in_or_app. left; exact Ht. Qed.
    Lemma good_cons_r kn s r : good kn (SCons s r) -> good kn r.
    Proof. intros H t Ht. apply H. cbn [sels_tcs]. apply in_or_app. right; exact Ht. Qed.

    Lemma collect_go_ok rec : col_ok rec -> col_ok (collect_go frs rec).
    Proof.
      intros Hrec obj l. induction l as [|s r IH]; intros st known Ho Hg Hf He.
      - apply wp_ret. split; [apply incl_known_refl | exact He].
      - pose proof (good_cons_r _ _ _ Hg) as Hgr.
        (* the continuation after a nested selection set *)
        assert (Next : forall kn o, incl_known known kn -> col_post kn o kn ->
                  WP kn (match o with Some st' => collect_go frs rec obj r st' | None => Ret None end)
                     (col_post known)).
        { intros kn o Hi [_ Ho']. destruct o as [st'|].
          - eapply wp_mono; [|apply (IH st' kn)].
            + intros x kn' [Hi' Hx]. split; [cbv beta in *; eapply incl_known_trans; eauto | exact Hx].
            + apply Hi; exact Ho.
            + cbv beta in *; eapply good_mono; eauto.
            + cbv beta in *; eapply good_frs_mono; eauto.
            + exact Ho'.
          - apply wp_ret. split; [exact Hi | exact I]. }
        assert (Skip : forall kn st', incl_known known kn -> good_entries kn (snd st') ->
                  WP kn (collect_go frs rec obj r st') (col_post known)).
        { intros kn st' Hi Hes. eapply wp_mono; [|apply (IH st' kn)].
          - intros x kn' [Hi' Hx]. split; [cbv beta in *; eapply incl_known_trans; eauto | exact Hx].
          - apply Hi; exact Ho.
          - cbv beta in *; eapply good_mono; eauto.
          - cbv beta in *; eapply good_frs_mono; eauto.
          - exact Hes. }
        assert (Guarded : forall tc body st', mem tc known = true -> good known body -> good_entries known (snd st') ->
                  WP known (Ask (QNamedE tc) (fun an =>
                              match an with
                              | AHandle (Some h) =>
                                  Ask (QApplies obj h) (fun ab =>
                                    match ab with
                                    | ABool true =>
                                        bind (rec obj body st')
                                             (fun o => match o with Some st'' => collect_go frs rec obj r st'' | None => Ret None end)
                                    | _ => collect_go frs rec obj r st'
                                    end)
                              | _ => collect_go frs rec obj r st'
                              end))
                     (col_post known)).
        { intros tc body st' Htc Hb Hes. apply wp_ask; [apply all1; exact Htc|].
          set (kn1 := handles_of (QNamedE tc) (ask fx S F (QNamedE tc)) ++ known).
          assert (Hi1 : incl_known known kn1) by apply incl_known_app.
          destruct (ask fx S F (QNamedE tc)) as [[h|] | | | | | | | |] eqn:AN;
            try (apply (Skip kn1 st' Hi1); cbv beta in *; eapply good_entries_mono; eauto).
          apply namedE_handle in AN. subst h.
          apply wp_ask; [apply all2; apply Hi1; assumption|].
          set (kn2 := handles_of (QApplies obj tc) (ask fx S F (QApplies obj tc)) ++ kn1).
          assert (Hi2 : incl_known known kn2) by (eapply incl_known_trans; [exact Hi1 | apply incl_known_app]).
          destruct (ask fx S F (QApplies obj tc)) as [| | | | | | | [|] |];
            try (apply (Skip kn2 st' Hi2); cbv beta in *; eapply good_entries_mono; eauto).
          apply wp_bind. eapply wp_mono; [|apply (Hrec obj body st' kn2)].
          - intros o kn3 [Hi3 Ho3]. apply (Next kn3 o).
            + cbv beta in *; eapply incl_known_trans; eauto.
            + split; [apply incl_known_refl | exact Ho3].
          - apply Hi2; exact Ho.
          - cbv beta in *; eapply good_mono; eauto.
          - cbv beta in *; eapply good_frs_mono; eauto.
          - cbv beta in *; eapply good_entries_mono; eauto. }
        destruct s as [id key f sub | id key | id [tc|] sub | id fr]; cbn [collect_go].
        + apply (Skip known _ (incl_known_refl _)). cbn [snd]. apply good_entries_snoc; [exact He|].
          cbn [ce_sub]. intros t Ht. apply (good_cons_l _ _ _ Hg). exact Ht.
        + apply (Skip known _ (incl_known_refl _)). cbn [snd]. apply good_entries_snoc; [exact He|].
          cbn [ce_sub]. intros t [].
        + apply Guarded; [|intros t Ht|exact He].
          * apply (good_cons_l _ _ _ Hg). left; reflexivity.
          * apply (good_cons_l _ _ _ Hg). right; exact Ht.
        + apply wp_bind. eapply wp_mono; [|apply (Hrec obj sub st known Ho)].
          * intros o kn [Hi Ho']. apply (Next kn o Hi). split; [apply incl_known_refl | exact Ho'].
          * intros t Ht. apply (good_cons_l _ _ _ Hg). exact Ht.
          * exact Hf.
          * exact He.
        + destruct (mem fr (fst st)); [apply (Skip known st (incl_known_refl _) He)|].
          destruct (find_frag frs fr) as [d|] eqn:FF; [|apply (Skip known _ (incl_known_refl _)); exact He].
          destruct (Hf d (find_frag_In _ _ _ FF)) as [Hd1 Hd2].
          apply Guarded; [exact Hd1 | exact Hd2 | exact He].
    Qed.

    Lemma collect_ok fuel : col_ok (collect frs fuel).
    Proof.
      induction fuel as [|n IH].
      - intros obj l st known _ _ _ _. apply wp_ret. split; [apply incl_known_refl | exact I].
      - cbn [collect]. apply collect_go_ok. exact IH.
    Qed.

    Lemma sels_tcs_app a b : sels_tcs (sels_app a b) = sels_tcs a ++ sels_tcs b.
    Proof. induction a as [|x r IH]; cbn [sels_app sels_tcs]; [reflexivity|]. rewrite IH, app_assoc. reflexivity. Qed.

    Lemma group_add_good kn e g : good kn (ce_sub e) -> good_entries kn g -> good_entries kn (group_add e g).
    Proof.
      intros He. induction g as [|x r IH]; intros Hg; cbn [group_add].
      - intros e' [H | []]. subst. exact He.
      - destruct (bytes_eqb (ce_key e) (ce_key x)).
        + intros e' [H | H].
          * subst e'. cbn [ce_sub]. intros t Ht. rewrite sels_tcs_app in Ht.
            apply in_app_or in Ht as [Ht | Ht]; [apply (Hg x (or_introl eq_refl)); exact Ht | apply He; exact Ht].
          * apply Hg. right; exact H.
        + intros e' [H | H]; [subst; apply Hg; left; reflexivity|].
          apply IH; [|exact H]. intros y Hy. apply Hg. right; exact Hy.
    Qed.

    Lemma group_entries_good kn es : good_entries kn es -> good_entries kn (group_entries es).
    Proof.
      unfold group_entries. intro H.
      assert (K : forall acc, good_entries kn acc -> good_entries kn es ->
                  good_entries kn (fold_left (fun g e => group_add e g) es acc)).
      { clear H. induction es as [|e r IH]; intros acc Ha He; [exact Ha|].
        cbn [fold_left]. apply IH.
        - apply group_add_good; [apply He; left; reflexivity | exact Ha].
        - intros y Hy. apply He. right; exact Hy. }
      apply K; [intros e [] | exact H].
    Qed.

    Definition exec_ok (rec : name -> sels -> elog -> prog eres) : Prop :=
      forall obj l log known,
        mem obj known = true -> good known l -> good_frs frs known ->
        WP known (rec obj l log) (fun _ kn => incl_known known kn).

    Lemma complete_ok rec fd sub : exec_ok rec -> forall t log known,
      mem (base t) known = true -> good known sub -> good_frs frs known ->
      WP known (complete rec fd sub t log) (fun _ kn => incl_known known kn).
    Proof.
      intros Hrec t. induction t as [b | t' IH | t' IH]; intros log known Hb Hg Hf; cbn [complete].
      - apply wp_ask; [apply all1; exact Hb|].
        set (kn1 := handles_of (QKind b) (ask fx S F (QKind b)) ++ known).
        assert (Hi1 : incl_known known kn1) by apply incl_known_app.
        assert (Abstract :
                  WP kn1 (Ask (QImpls b) (fun ai =>
                            match ai with
                            | ANames (Some cands) =>
                                if mem (f_ret fd) cands then rec (f_ret fd) sub log else Ret (Some (log, None))
                            | _ => Ret (Some (log, None))
                            end)) (fun _ kn => incl_known known kn)).
        { apply wp_ask; [apply all1; apply Hi1; exact Hb|].
          set (kn2 := handles_of (QImpls b) (ask fx S F (QImpls b)) ++ kn1).
          assert (Hi2 : incl_known known kn2) by (eapply incl_known_trans; [exact Hi1 | apply incl_known_app]).
          destruct (ask fx S F (QImpls b)) as [| | | | [cands|] | | | |] eqn:AI; try (apply wp_ret; exact Hi2).
          destruct (mem (f_ret fd) cands) eqn:M; [|apply wp_ret; exact Hi2].
          eapply wp_mono; [|apply (Hrec (f_ret fd) sub log kn2)].
          - intros x kn' Hi'. cbv beta in *; eapply incl_known_trans; eauto.
          - unfold kn2. apply mem_app_l. simpl. exact M.
          - cbv beta in *; eapply good_mono; eauto.
          - cbv beta in *; eapply good_frs_mono; eauto. }
        destruct (ask fx S F (QKind b)) as [| | [[| | | | |]|] | | | | | |]; try (apply wp_ret; exact Hi1).
        + eapply wp_mono; [|apply (Hrec b sub log kn1)].
          * intros x kn' Hi'. cbv beta in Hi'. eapply incl_known_trans; [exact Hi1 | exact Hi'].
          * apply Hi1; exact Hb.
          * cbv beta in *; eapply good_mono; eauto.
          * cbv beta in *; eapply good_frs_mono; eauto.
        + exact Abstract.
        + exact Abstract.
      - apply wp_bind. eapply wp_mono; [|apply (IH log known Hb Hg Hf)].
        intros r kn Hi. apply wp_ret. exact Hi.
      - apply wp_bind. eapply wp_mono; [|apply (IH log known Hb Hg Hf)].
        intros r kn Hi. apply wp_ret. exact Hi.
    Qed.

    Lemma exec_fields_ok rec : exec_ok rec -> forall obj es log out known,
      mem obj known = true -> good_entries known es -> good_frs frs known ->
      WP known (exec_fields rec obj es log out) (fun _ kn => incl_known known kn).
    Proof.
      intros Hrec obj es. induction es as [|e r IH]; intros log out known Ho He Hf; cbn [exec_fields].
      - apply wp_ret. apply incl_known_refl.
      - assert (Her : good_entries known r) by (intros e' He'; apply He; right; exact He').
        destruct (ce_field e) as [f|]; [|apply IH; assumption].
        apply wp_ask; [apply all1; exact Ho|].
        set (kn1 := handles_of (QField obj f) (ask fx S F (QField obj f)) ++ known).
        assert (Hi1 : incl_known known kn1) by apply incl_known_app.
        assert (Rest : forall kn log' out', incl_known known kn ->
                  WP kn (exec_fields rec obj r log' out') (fun _ kn' => incl_known known kn')).
        { intros kn log' out' Hi. eapply wp_mono; [|apply (IH log' out' kn)].
          - intros x kn' Hi'. cbv beta in *; eapply incl_known_trans; eauto.
          - apply Hi; exact Ho.
          - cbv beta in *; eapply good_entries_mono; eauto.
          - cbv beta in *; eapply good_frs_mono; eauto. }
        destruct (ask fx S F (QField obj f)) as [| | | [fd|] | | | | |] eqn:AF; try (apply (Rest kn1 _ _ Hi1)).
        assert (Hb : mem (base (f_type fd)) kn1 = true).
        { unfold kn1. apply mem_app_l. simpl. unfold field_handles. apply mem_head. }
        apply wp_bind. eapply wp_mono; [|apply (complete_ok rec fd (ce_sub e) Hrec (f_type fd) _ kn1 Hb)].
        + intros r1 kn2 Hi2.
          assert (Hi12 : incl_known known kn2) by (cbv beta in *; eapply incl_known_trans; eauto).
          destruct r1 as [[log' [v|]]|].
          * apply (Rest kn2 _ _ Hi12).
          * destruct (is_nonnull (f_type fd)); [apply wp_ret; exact Hi12 | apply (Rest kn2 _ _ Hi12)].
          * apply wp_ret; exact Hi12.
        + eapply good_mono; [exact Hi1|]. apply He. left; reflexivity.
        + cbv beta in *; eapply good_frs_mono; eauto.
    Qed.

    Lemma sexec_ok fuel : exec_ok (sexec frs fuel).
    Proof.
      induction fuel as [|n IH]; intros obj l log known Ho Hg Hf.
      - apply wp_ret. apply incl_known_refl.
      - cbn [sexec]. apply wp_bind.
        eapply wp_mono; [|apply (collect_ok n obj l ([], []) known Ho Hg Hf)].
        + intros c kn [Hi Hc]. destruct c as [st|]; [|apply wp_ret; exact Hi].
          eapply wp_mono; [|apply (exec_fields_ok (sexec frs n) IH obj (group_entries (snd st)) log [] kn)].
          * intros x kn' Hi'. cbv beta in *; eapply incl_known_trans; eauto.
          * apply Hi; exact Ho.
          * apply group_entries_good. exact Hc.
          * cbv beta in *; eapply good_frs_mono; eauto.
        + intros e [].
    Qed.
  End ExecD.

  Theorem sdoc_validate_disciplined d : exists r, snd (run fx S F [] (sdoc_validate d)) = Done r.
  Proof.
    apply (wp_run fx S F _ [] (fun _ _ => True)).
    unfold sdoc_validate. apply wp_ask; [reflexivity|].
    cbn [ask]. cbv beta iota.
    eapply wp_mono; [|apply (sdoc_val_wp (query S) d)].
    - intros; exact I.
    - simpl. apply mem_head.
  Qed.

  Theorem sdoc_prog_disciplined fuel d : exists r, snd (run fx S F [] (sdoc_prog fuel d)) = Done r.
  Proof.
    apply (wp_run fx S F _ [] (fun _ _ => True)).
    unfold sdoc_prog. apply wp_ask; [reflexivity|].
    cbn [ask]. cbv beta iota.
    apply wp_bind. eapply wp_mono; [|apply (sdoc_val_wp (query S) d)].
    - intros errs kn [Hi Hg]. destruct (is_nil errs) eqn:N; [|exact I].
      apply is_nil_true in N. destruct (Hg N) as [G1 G2].
      apply wp_bind. eapply wp_mono; [|apply (sexec_ok (d_frags d) fuel (query S) (d_sels d) [] kn)].
      + intros; exact I.
      + apply Hi. simpl. apply mem_head.
      + exact G1.
      + exact G2.
    - simpl. apply mem_head.
  Qed.

  (** *** a subscription: subscribe, then every event executes the selection set again *)
  Lemma repeat_exec_ok n (run1 : elog -> prog eres) known0 :
    (forall log kn, incl_known known0 kn -> WP kn (run1 log) (fun _ kn' => incl_known kn kn')) ->
    forall log acc kn, incl_known known0 kn ->
    WP kn (repeat_exec n run1 log acc) (fun _ kn' => incl_known kn kn').
  Proof.
    intro H. induction n as [|k IH]; intros log acc kn Hi; cbn [repeat_exec].
    - apply wp_ret. apply incl_known_refl.
    - apply wp_bind. eapply wp_mono; [|apply (H log kn Hi)].
      intros r kn1 Hi1. cbv beta in Hi1. destruct r as [[log' v]|]; [|apply wp_ret; exact Hi1].
      eapply wp_mono; [|apply (IH log' (acc ++ [v]) kn1)].
      + intros x kn2 Hi2. cbv beta in Hi2. eapply incl_known_trans; [exact Hi1 | exact Hi2].
      + eapply incl_known_trans; [exact Hi | exact Hi1].
  Qed.

  Theorem ssub_prog_disciplined fuel events d : exists r, snd (run fx S F [] (ssub_prog fuel events d)) = Done r.
  Proof.
    apply (wp_run fx S F _ [] (fun _ _ => True)).
    unfold ssub_prog. apply wp_ask; [reflexivity|].
    cbn [ask]. destruct (subscription S) as [s|]; cbv beta iota; [|exact I].
    set (kn0 := handles_of (QRoot RSubscription) (AHandle (Some s)) ++ []).
    assert (Hs0 : mem s kn0 = true) by (unfold kn0; simpl; apply mem_head).
    apply wp_bind. eapply wp_mono; [|apply (sdoc_val_wp s d kn0 Hs0)].
    intros errs kn [Hi Hg]. destruct (is_nil errs) eqn:N; [|exact I].
    apply is_nil_true in N. destruct (Hg N) as [G1 G2].
    assert (Hs : mem s kn = true) by (apply Hi; exact Hs0).
    apply wp_bind.
    eapply wp_mono; [|apply (collect_ok (d_frags d) fuel s (d_sels d) ([], []) kn Hs G1 G2)].
    - intros c kn1 [Hi1 Hc]. destruct c as [st|]; cbn [option_map]; [|exact I].
      destruct (group_entries (snd st)) as [|e [|e' r]]; try exact I.
      destruct (ce_field e) as [f|]; [|exact I].
      apply wp_ask; [apply all1; apply Hi1; exact Hs|].
      set (kn2 := handles_of (QField s f) (ask fx S F (QField s f)) ++ kn1).
      assert (Hi2 : incl_known kn kn2) by (eapply incl_known_trans; [exact Hi1 | apply incl_known_app]).
      destruct (ask fx S F (QField s f)) as [| | | [fd|] | | | | |]; try exact I.
      apply wp_bind.
      eapply wp_mono; [|apply (repeat_exec_ok events (sexec (d_frags d) fuel s (d_sels d)) kn2)].
      + intros; exact I.
      + intros log kn3 Hi3. apply (sexec_ok (d_frags d) fuel s (d_sels d) log kn3).
        * apply Hi3, Hi2; exact Hs.
        * eapply good_mono; [|exact G1]. eapply incl_known_trans; [exact Hi2 | exact Hi3].
        * eapply good_frs_mono; [|exact G2]. eapply incl_known_trans; [exact Hi2 | exact Hi3].
      + apply incl_known_refl.
    - intros e [].
  Qed.
End DocDiscipline.
