(** * Feat/FeaturesReach.v — C13: what schema.New registers.

    [FeaturesSpec.reachable] computes the registry of schema.New by iterating "add the references
    of everything seen so far" [length (types S)] times.  This file proves that this fuel always
    suffices: for every schema that schema.New accepts, [reachable S] is exactly the least set of
    names that contains the roots (directive argument types, root operation types,
    AdditionalTypes) and is closed under the references of registered types ([reaches]).
    Consequences: the registry of the physically reduced schema, and the exclusion hypothesis of
    the known finding orphaned-type-stays-visible, have a declarative reading without any fuel. *)
From Coq Require Import List NArith Bool Lia PeanoNat.
From ApiFu Require Import Base.Sexp Feat.FeaturesModel Feat.FeaturesSpec Feat.FeaturesProofs.
Import ListNotations.
Open Scope list_scope.

(** ** add_new *)
Lemma add_new_In l : forall seen x, In x (add_new seen l) <-> In x seen \/ In x l.
Proof.
  induction l as [|y r IH]; intros seen x; cbn [add_new].
  - split; [auto | intros [H | []]; exact H].
  - destruct (mem y seen) eqn:M.
    + rewrite IH. apply mem_In in M. split.
      * intros [H | H]; [left; exact H | right; right; exact H].
      * intros [H | [H | H]]; [left; exact H | subst; left; exact M | right; exact H].
    + rewrite IH. rewrite in_app_iff. simpl. tauto.
Qed.

Lemma NoDup_snoc (y : name) seen : NoDup seen -> ~ In y seen -> NoDup (seen ++ [y]).
Proof.
  induction seen as [|z s IH]; simpl; intros ND NI.
  - constructor; [intros [] | constructor].
  - inversion ND as [|z' s' Hz Hs]; subst. constructor.
    + intro H. apply in_app_or in H as [H | [H | []]]; [contradiction | subst; apply NI; left; reflexivity].
    + apply IH; [exact Hs | intro H; apply NI; right; exact H].
Qed.

Lemma add_new_NoDup l : forall seen, NoDup seen -> NoDup (add_new seen l).
Proof.
  induction l as [|y r IH]; intros seen H; cbn [add_new]; [exact H|].
  destruct (mem y seen) eqn:M; [apply IH; exact H|].
  apply IH. apply NoDup_snoc; [exact H | apply mem_false_In; exact M].
Qed.

Lemma filter_all_false {A} (p : A -> bool) l : (forall x, In x l -> p x = false) -> filter p l = [].
Proof.
  induction l as [|x r IH]; simpl; intro H; [reflexivity|].
  rewrite (H x (or_introl eq_refl)). apply IH. intros y Hy. apply H. right; exact Hy.
Qed.

Lemma add_new_length l : forall seen, length seen <= length (add_new seen l).
Proof.
  induction l as [|y r IH]; intros seen; cbn [add_new]; [lia|].
  destruct (mem y seen); [apply IH|].
  specialize (IH (seen ++ [y])). rewrite app_length in IH. simpl in IH. lia.
Qed.

Lemma add_new_fix l : forall seen, (forall x, In x l -> In x seen) -> add_new seen l = seen.
Proof.
  induction l as [|y r IH]; intros seen H; cbn [add_new]; [reflexivity|].
  assert (M : mem y seen = true) by (apply mem_In, H; left; reflexivity).
  rewrite M. apply IH. intros x Hx. apply H. right; exact Hx.
Qed.

Lemma add_new_same_length l : forall seen,
  length (add_new seen l) = length seen -> forall x, In x l -> In x seen.
Proof.
  induction l as [|y r IH]; intros seen H x Hx; [contradiction|].
  cbn [add_new] in H. destruct (mem y seen) eqn:M.
  - destruct Hx as [Hx | Hx]; [subst; apply mem_In; exact M | apply IH; auto].
  - exfalso. pose proof (add_new_length r (seen ++ [y])) as L.
    rewrite app_length in L. simpl in L. lia.
Qed.

(** ** one round of schema.New's traversal *)
Definition refs_of (S : schema) (h : name) : list name :=
  match lookup S h with Some t => type_refs t | None => [] end.

Definition step (S : schema) (seen : list name) : list name :=
  add_new seen (flat_map (refs_of S) seen).

Definition closed (S : schema) (seen : list name) : Prop :=
  forall h, In h seen -> forall r, In r (refs_of S h) -> In r seen.

Lemma reach_S S n seen : reach S (Datatypes.S n) seen = reach S n (step S seen).
Proof. reflexivity. Qed.

Lemma step_same_length_closed S seen : length (step S seen) = length seen -> closed S seen.
Proof.
  intros H h Hh r Hr. apply (add_new_same_length _ _ H). apply in_flat_map. exists h. auto.
Qed.

Lemma closed_step S seen : closed S seen -> step S seen = seen.
Proof.
  intro C. apply add_new_fix. intros x Hx. apply in_flat_map in Hx as [h [Hh Hx]]. eapply C; eauto.
Qed.

Lemma closed_reach S n : forall seen, closed S seen -> reach S n seen = seen.
Proof.
  induction n as [|n IH]; intros seen C; [reflexivity|].
  rewrite reach_S, (closed_step S seen C). apply IH. exact C.
Qed.

Lemma step_incl S seen x : In x seen -> In x (step S seen).
Proof. intro H. apply add_new_In. left; exact H. Qed.

Lemma reach_incl S n : forall seen x, In x seen -> In x (reach S n seen).
Proof.
  induction n as [|n IH]; intros seen x H; [exact H|].
  rewrite reach_S. apply IH. apply step_incl. exact H.
Qed.

(** soundness: the traversal only ever adds names that are reached *)
Lemma reach_sound S n : forall seen,
  (forall x, In x seen -> reaches S x) -> forall x, In x (reach S n seen) -> reaches S x.
Proof.
  induction n as [|n IH]; intros seen H x Hx; [auto|].
  rewrite reach_S in Hx. apply (IH (step S seen)); [|exact Hx].
  intros y Hy. apply add_new_In in Hy as [Hy | Hy]; [auto|].
  apply in_flat_map in Hy as [h [Hh Hy]]. unfold refs_of in Hy.
  destruct (lookup S h) as [t|] eqn:L; [|contradiction].
  eapply reaches_ref; eauto.
Qed.

(** ** every reference inside an accepted schema points to a registered type *)
Section Registered.
  Variable S : schema.
  Hypothesis Hok : schema_ok S = true.

  Definition registered (n : name) : Prop := In n (map fst (types S)).

  Lemma lookup_registered n x : lookup S n = Some x -> registered n.
  Proof. intro L. apply assoc_In in L. apply (in_map fst) in L. exact L. Qed.

  Lemma ref_kind_registered p t : ref_kind_ok S p t = true -> registered (base t).
  Proof. intro H. destruct (ref_kind_ok_lookup _ _ _ H) as [x L]. eapply lookup_registered; eauto. Qed.

  Lemma fields_registered req fs :
    fields_ok S req fs = true ->
    forall r, In r (flat_map (fun nf => field_handles (snd nf)) fs) -> registered r.
  Proof.
    intros H r Hr. apply in_flat_map in Hr as [nf [Hnf Hr]].
    unfold fields_ok in H. apply andb_true_iff in H as [H _]. apply andb_true_iff in H as [_ H].
    rewrite forallb_forall in H. specialize (H nf Hnf). apply andb_true_iff in H as [_ H].
    unfold field_ok in H. apply andb_true_iff in H as [H Hargs]. apply andb_true_iff in H as [Hk _].
    unfold field_handles in Hr. destruct Hr as [Hr | Hr].
    - subst r. eapply ref_kind_registered; eauto.
    - apply in_map_iff in Hr as [a [Ha HIa]]. subst r.
      rewrite forallb_forall in Hargs. specialize (Hargs a HIa). apply andb_true_iff in Hargs as [Hka _].
      eapply ref_kind_registered; eauto.
  Qed.

  Lemma refs_registered h t r : lookup S h = Some t -> In r (type_refs t) -> registered r.
  Proof.
    intros L Hr. pose proof (ok_type S Hok h t L) as T.
    destruct t as [req | vals req | fs req | fs ifs req | fs req | ms req]; cbn [type_refs] in Hr; try contradiction.
    - (* input object *)
      apply in_map_iff in Hr as [a [Ha HIa]]. subst r. simpl in T.
      apply andb_true_iff in T as [_ T]. rewrite forallb_forall in T. specialize (T a HIa).
      apply andb_true_iff in T as [Hk _]. eapply ref_kind_registered; eauto.
    - (* object *)
      apply in_app_or in Hr as [Hr | Hr].
      + simpl in T. apply andb_true_iff in T as [T _]. eapply fields_registered; eauto.
      + destruct (iface_registered S Hok h fs ifs req r L Hr) as [a [b Li]]. eapply lookup_registered; eauto.
    - (* interface *)
      simpl in T. eapply fields_registered; eauto.
    - (* union *)
      simpl in T. apply andb_true_iff in T as [_ T]. rewrite forallb_forall in T. specialize (T r Hr).
      destruct (lookup S r) as [x|] eqn:Lr; [|discriminate]. eapply lookup_registered; eauto.
  Qed.

  Lemma root_registered n : root_ok fixed S (Some n) = true -> registered n.
  Proof.
    unfold root_ok. destruct (lookup S n) as [x|] eqn:L; [|discriminate]. intros _. eapply lookup_registered; eauto.
  Qed.

  Lemma roots_registered n : In n (inspect_roots S) -> registered n.
  Proof.
    destruct (ok_parts S Hok) as [_ [_ [P3 [P4 [P5 [P6 P7]]]]]].
    unfold inspect_roots. intro H. apply in_app_or in H as [H | H].
    - apply in_flat_map in H as [d [Hd H]]. apply in_map_iff in H as [a [Ha HIa]]. subst n.
      rewrite forallb_forall in P6. specialize (P6 d Hd). unfold directive_ok in P6.
      apply andb_true_iff in P6 as [_ D]. rewrite forallb_forall in D. specialize (D a HIa).
      apply andb_true_iff in D as [Hk _]. eapply ref_kind_registered; eauto.
    - destruct H as [H | H]; [subst n; apply root_registered; exact P3|].
      apply in_app_or in H as [H | H].
      { destruct (mutation S) as [m|]; [|contradiction]. destruct H as [H | []]. subst n.
        apply root_registered; exact P4. }
      apply in_app_or in H as [H | H].
      { destruct (subscription S) as [m|]; [|contradiction]. destruct H as [H | []]. subst n.
        apply root_registered; exact P5. }
      rewrite forallb_forall in P7. specialize (P7 n H).
      destruct (lookup S n) as [x|] eqn:L; [|discriminate]. eapply lookup_registered; eauto.
  Qed.

  Lemma reaches_registered n : reaches S n -> registered n.
  Proof.
    induction 1 as [n H | h t r _ _ L Hr]; [apply roots_registered; exact H | eapply refs_registered; eauto].
  Qed.

  Definition within (seen : list name) : Prop := forall x, In x seen -> registered x.

  Lemma step_within seen : within seen -> within (step S seen).
  Proof.
    intros W x Hx. apply add_new_In in Hx as [Hx | Hx]; [auto|].
    apply in_flat_map in Hx as [h [Hh Hx]]. unfold refs_of in Hx.
    destruct (lookup S h) as [t|] eqn:L; [|contradiction]. eapply refs_registered; eauto.
  Qed.

  (** *** the fuel suffices: after [fuel] rounds, with [fuel] at least the number of registered
      names not yet seen, the traversal has reached a fixed point *)
  Lemma reach_closed fuel : forall seen,
    NoDup seen -> within seen -> length (types S) <= fuel + length seen -> closed S (reach S fuel seen).
  Proof.
    induction fuel as [|fuel IH]; intros seen ND W Hlen.
    - (* nothing registered is missing from [seen] *)
      cbn [reach]. intros h Hh r Hr. unfold refs_of in Hr.
      destruct (lookup S h) as [t|] eqn:L; [|contradiction].
      pose proof (refs_registered h t r L Hr) as Rr.
      assert (I : incl (map fst (types S)) seen).
      { apply NoDup_length_incl; [exact ND | rewrite map_length; lia | exact W]. }
      apply I. exact Rr.
    - rewrite reach_S.
      destruct (Nat.eq_dec (length (step S seen)) (length seen)) as [E | NE].
      + pose proof (step_same_length_closed S seen E) as C.
        rewrite (closed_step S seen C), (closed_reach S fuel seen C). exact C.
      + apply IH.
        * apply add_new_NoDup. exact ND.
        * apply step_within. exact W.
        * pose proof (add_new_length (flat_map (refs_of S) seen) seen) as L. unfold step in *. lia.
  Qed.

  Lemma reachable_closed : closed S (reachable S).
  Proof.
    unfold reachable. apply reach_closed.
    - apply add_new_NoDup. constructor.
    - intros x Hx. apply add_new_In in Hx as [[] | Hx]. apply roots_registered. exact Hx.
    - lia.
  Qed.

  (** [reachable] is the least closed set containing the roots *)
  Theorem reachable_iff n : In n (reachable S) <-> reaches S n.
  Proof.
    split.
    - unfold reachable. apply reach_sound. intros x Hx.
      apply add_new_In in Hx as [[] | Hx]. apply reaches_root. exact Hx.
    - induction 1 as [n H | h t r _ IH L Hr].
      + unfold reachable. apply reach_incl. apply add_new_In. right; exact H.
      + apply (reachable_closed h IH). unfold refs_of. rewrite L. exact Hr.
  Qed.
End Registered.

(** ** the physically reduced schema registers exactly what is reached in the reduced definition,
    and the exclusion of the known finding reads: every type the request may see is still reached
    from the roots through elements the request may see *)
Lemma In_names_filter {A} (p : name -> bool) (l : list (name * A)) n :
  In n (map fst (filter (fun nt => p (fst nt)) l)) <-> In n (map fst l) /\ p n = true.
Proof.
  rewrite !in_map_iff. split.
  - intros [x [Hx HI]]. apply filter_In in HI as [HI P]. subst n. split; [exists x; auto | exact P].
  - intros [[x [Hx HI]] P]. subst n. exists x. split; [reflexivity|]. apply filter_In. auto.
Qed.

Theorem erase_physical_registry S F n :
  schema_ok S = true ->
  (In n (map fst (types (erase_physical S F))) <-> reaches (erase S F) n).
Proof.
  intro Hok. pose proof (erase_schema_ok S F Hok) as HokE.
  unfold erase_physical, restrict. cbn [types].
  rewrite (In_names_filter (fun n => mem n (reachable (erase S F)))).
  rewrite mem_In, (reachable_iff _ HokE). split; [tauto|].
  intro R. split; [|exact R]. apply (reaches_registered _ HokE). exact R.
Qed.

Lemma erased_names S F n :
  schema_ok S = true -> (In n (map fst (types (erase S F))) <-> visible S F n = true).
Proof.
  intro Hok. pose proof (ok_nodup S Hok) as Hnd. split.
  - intro H. destruct (lookup (erase S F) n) as [x|] eqn:L.
    + rewrite (lookup_erase S F Hnd) in L. unfold visible.
      destruct (lookup S n) as [t|]; [|discriminate].
      destruct (subset (type_req t) F); [reflexivity | discriminate].
    + apply assoc_None in L. contradiction.
  - intro V. destruct (vis_inv S F Hok n V) as [t [_ [_ [_ LE]]]].
    apply assoc_In in LE. apply (in_map fst) in LE. exact LE.
Qed.

Theorem excl_orphaned_spec S F :
  schema_ok S = true ->
  (excl_orphaned_type S F = false <-> forall n, visible S F n = true -> reaches (erase S F) n).
Proof.
  intro Hok. pose proof (erase_schema_ok S F Hok) as HokE.
  unfold excl_orphaned_type, orphaned. rewrite negb_false_iff. split.
  - intros H n V. apply is_nil_true in H.
    pose proof (filter_nil _ _ H n (proj2 (erased_names S F n Hok) V)) as K.
    apply negb_false_iff, mem_In in K. apply (reachable_iff _ HokE). exact K.
  - intro H. rewrite filter_all_false; [reflexivity|].
    intros n Hn. apply negb_false_iff, mem_In, (reachable_iff _ HokE), H, (erased_names S F n Hok). exact Hn.
Qed.

(** the physical-erasure theorem with its hypothesis in declarative form: no fuel anywhere *)
Theorem noninterference_physical_reaches {A} (p : prog A) S F G :
  schema_ok S = true -> subset F G = true ->
  (forall n, visible S F n = true -> reaches (erase S F) n) ->
  run fixed S F [] p = run fixed (erase_physical S F) G [] p.
Proof.
  intros Hok HFG H. apply noninterference_physical; auto. apply excl_orphaned_spec; auto.
Qed.
