(** * Feat/FeaturesFuelProofs.v — C13: the fuel of the selection-set executor suffices.

    [fitsb frs n l]: the selection set nests at most n levels (fields, inline fragments, expansions
    of named fragments).  For such a document the transcribed executor [sexec] never answers
    "out of fuel" when started with at least n + 2 units, on any schema and feature set:
    [sdoc_fuel_suffices].  A bound n exists exactly for the documents whose fragment spreads are
    acyclic below the operation (what the validator's cycle rule demands of an executable document);
    the correspondence check evaluates [fitsb] with the bound [sdoc_fuel d - 2] on every case. *)
From Coq Require Import List NArith Bool Lia.
From ApiFu Require Import Base.Sexp Feat.FeaturesModel Feat.FeaturesSpec Feat.FeaturesProofs
  Feat.FeaturesDocModel Feat.FeaturesDocProofs.
Import ListNotations.
Open Scope list_scope.

Section Fits.
  Variable frs : list fragdef.

  Definition fits_sel (n : nat) (s : sel) : bool :=
    match s with
    | STypename _ _ => true
    | SField _ _ _ sub => match n with O => false | Datatypes.S k => fitsb frs k sub end
    | SInline _ _ sub => match n with O => false | Datatypes.S k => fitsb frs k sub end
    | SSpread _ fr =>
        match n with
        | O => false
        | Datatypes.S k => match find_frag frs fr with Some d => fitsb frs k (fr_sels d) | None => true end
        end
    end.

  Lemma fitsb_nil n : fitsb frs n SNil = true.
  Proof. destruct n; reflexivity. Qed.
  Lemma fitsb_cons n s r : fitsb frs n (SCons s r) = fits_sel n s && fitsb frs n r.
  Proof. destruct n; destruct s; reflexivity. Qed.

  Lemma fits_mono n : forall l, fitsb frs n l = true -> fitsb frs (Datatypes.S n) l = true.
  Proof.
    induction n as [|k IHk]; intro l; induction l as [|s r IHl]; intro H;
      try (apply fitsb_nil); rewrite fitsb_cons in *; apply andb_true_iff in H as [Hs Hr];
      apply andb_true_iff; (split; [|apply IHl; exact Hr]).
    - destruct s; simpl in *; try discriminate; reflexivity.
    - destruct s as [id key f sub | id key | id tc sub | id fr]; cbn [fits_sel] in *; auto.
      destruct (find_frag frs fr) as [d|]; auto.
  Qed.

  Lemma fits_le n m l : n <= m -> fitsb frs n l = true -> fitsb frs m l = true.
  Proof. induction 1 as [|m Hle IH]; intro H; [exact H | apply fits_mono; auto]. Qed.

  Lemma fits_app n a b : fitsb frs n (sels_app a b) = fitsb frs n a && fitsb frs n b.
  Proof.
    induction a as [|s r IH]; cbn [sels_app]; [rewrite fitsb_nil; reflexivity|].
    rewrite !fitsb_cons, IH, andb_assoc. reflexivity.
  Qed.

  (** entries collected from a selection set of height at most M: a __typename, or a field whose
      selection set has height at most M - 1 *)
  Definition ebound (M : nat) (es : list centry) : Prop :=
    forall e, In e es ->
      (ce_field e = None /\ ce_sub e = SNil) \/ (exists k, M = Datatypes.S k /\ fitsb frs k (ce_sub e) = true).

  Lemma ebound_snoc M es e :
    ebound M es ->
    ((ce_field e = None /\ ce_sub e = SNil) \/ (exists k, M = Datatypes.S k /\ fitsb frs k (ce_sub e) = true)) ->
    ebound M (es ++ [e]).
  Proof. intros H He e' Hin. apply in_app_or in Hin as [Hin | [Hin | []]]; [auto | subst; exact He]. Qed.

  Lemma group_add_bound M e g :
    ((ce_field e = None /\ ce_sub e = SNil) \/ (exists k, M = Datatypes.S k /\ fitsb frs k (ce_sub e) = true)) ->
    ebound M g -> ebound M (group_add e g).
  Proof.
    intros He. induction g as [|x r IH]; intros Hg; cbn [group_add].
    - intros e' [H | []]. subst. exact He.
    - destruct (bytes_eqb (ce_key e) (ce_key x)).
      + intros e' [H | H]; [|apply Hg; right; exact H]. subst e'. cbn [ce_field ce_sub].
        destruct (Hg x (or_introl eq_refl)) as [[Fx Sx] | [k [Mk Fk]]], He as [[Fe Se] | [k' [Mk' Fk']]].
        * left. rewrite Sx, Se. auto.
        * right. exists k'. rewrite Sx. auto.
        * right. exists k. split; [exact Mk|]. rewrite fits_app, Fk, Se, fitsb_nil. reflexivity.
        * right. exists k. split; [exact Mk|]. assert (k' = k) by lia. subst k'.
          rewrite fits_app, Fk, Fk'. reflexivity.
      + intros e' [H | H]; [subst; apply Hg; left; reflexivity|].
        apply IH; [|exact H]. intros y Hy. apply Hg. right; exact Hy.
  Qed.

  Lemma group_entries_bound M es : ebound M es -> ebound M (group_entries es).
  Proof.
    unfold group_entries. intro H.
    assert (K : forall acc, ebound M acc -> ebound M es -> ebound M (fold_left (fun g e => group_add e g) es acc)).
    { clear H. induction es as [|e r IH]; intros acc Ha He; [exact Ha|].
      cbn [fold_left]. apply IH.
      - apply group_add_bound; [apply He; left; reflexivity | exact Ha].
      - intros y Hy. apply He. right; exact Hy. }
    apply K; [intros e [] | exact H].
  Qed.
End Fits.

Section Fuel.
  Variable fx : fixes.
  Variable S : schema.
  Variable F : features.
  Variable frs : list fragdef.
  Local Notation WP := (wp fx S F).

  Lemma wp_run_post {A} (p : prog A) : forall known (Q : A -> list name -> Prop),
    WP known p Q -> exists a kn, snd (run fx S F known p) = Done a /\ Q a kn.
  Proof.
    induction p as [a | q k IH]; intros known Q H; simpl in *; [eauto|].
    destruct H as [H1 H2]. rewrite H1.
    destruct (IH _ _ _ H2) as [a [kn [Ha HQ]]].
    destruct (run fx S F (handles_of q (ask fx S F q) ++ known) (k (ask fx S F q))) as [tr r].
    simpl in *. eauto.
  Qed.

  Definition col_fit_post (known : list name) (M : nat) : option cstate -> list name -> Prop :=
    fun r kn => incl_known known kn /\
                exists st', r = Some st' /\ ebound frs M (snd st') /\ good_entries kn (snd st').

  Definition ColFit (m : nat) (c : name -> sels -> cstate -> prog (option cstate)) : Prop :=
    forall obj l st known M,
      fitsb frs m l = true -> m <= M -> ebound frs M (snd st) ->
      mem obj known = true -> good known l -> good_frs frs known -> good_entries known (snd st) ->
      WP known (c obj l st) (col_fit_post known M).

  Lemma collect_go_fit m rec :
    (forall k, m = Datatypes.S k -> ColFit k rec) -> ColFit m (collect_go frs rec).
  Proof.
    intros Hrec obj l. induction l as [|s r IH]; intros st known M Hfit HM Hb Ho Hg Hf He.
    - apply wp_ret. split; [apply incl_known_refl|]. exists st. auto.
    - rewrite fitsb_cons in Hfit. apply andb_true_iff in Hfit as [Hs Hr].
      pose proof (good_cons_r _ _ _ Hg) as Hgr.
      assert (Skip : forall kn st', incl_known known kn -> ebound frs M (snd st') -> good_entries kn (snd st') ->
                WP kn (collect_go frs rec obj r st') (col_fit_post known M)).
      { intros kn st' Hi Hb' Hes. eapply wp_mono; [|apply (IH st' kn M Hr HM Hb')].
        - intros x kn' [Hi' Hx]. split; [cbv beta in *; eapply incl_known_trans; eauto | exact Hx].
        - apply Hi; exact Ho.
        - cbv beta in *; eapply good_mono; eauto.
        - cbv beta in *; eapply good_frs_mono; eauto.
        - exact Hes. }
      assert (Next : forall kn o, incl_known known kn -> col_fit_post kn M o kn ->
                WP kn (match o with Some st' => collect_go frs rec obj r st' | None => Ret None end)
                   (col_fit_post known M)).
      { intros kn o Hi [_ [st' [Eo [Hb' Hes]]]]. subst o. apply (Skip kn st' Hi Hb' Hes). }
      assert (Guarded : forall k tc body st', m = Datatypes.S k -> fitsb frs k body = true ->
                mem tc known = true -> good known body -> ebound frs M (snd st') -> good_entries known (snd st') ->
                WP known (Ask (QNamedE tc) (fun an =>
                            match an with
                            | AHandle (Some h) =>
                                Ask (QApplies obj h) (fun ab =>
                                  match ab with
                                  | ABool true =>
                                      bind (rec obj body st')
                                           (fun o => match o with Some st'' => collect_go frs rec obj r st'' | None => Ret None end)
                                  | _ => collect_go frs rec obj r st'
                                  end)
                            | _ => collect_go frs rec obj r st'
                            end))
                   (col_fit_post known M)).
      { intros k tc body st' Em Hbody Htc Hgb Hb' Hes. apply wp_ask; [apply all1; exact Htc|].
        set (kn1 := handles_of (QNamedE tc) (ask fx S F (QNamedE tc)) ++ known).
        assert (Hi1 : incl_known known kn1) by apply incl_known_app.
        destruct (ask fx S F (QNamedE tc)) as [[h|] | | | | | | | |] eqn:AN;
          try (apply (Skip kn1 st' Hi1 Hb'); cbv beta in *; eapply good_entries_mono; eauto).
        apply namedE_handle in AN. subst h.
        apply wp_ask; [apply all2; apply Hi1; assumption|].
        set (kn2 := handles_of (QApplies obj tc) (ask fx S F (QApplies obj tc)) ++ kn1).
        assert (Hi2 : incl_known known kn2) by (eapply incl_known_trans; [exact Hi1 | apply incl_known_app]).
        destruct (ask fx S F (QApplies obj tc)) as [| | | | | | | [|] |];
          try (apply (Skip kn2 st' Hi2 Hb'); cbv beta in *; eapply good_entries_mono; eauto).
        apply wp_bind. eapply wp_mono; [|apply (Hrec k Em obj body st' kn2 M Hbody)].
        - intros o kn3 [Hi3 Ho3]. apply (Next kn3 o).
          + cbv beta in *; eapply incl_known_trans; eauto.
          + split; [apply incl_known_refl | exact Ho3].
        - lia.
        - exact Hb'.
        - apply Hi2; exact Ho.
        - cbv beta in *; eapply good_mono; eauto.
        - cbv beta in *; eapply good_frs_mono; eauto.
        - cbv beta in *; eapply good_entries_mono; eauto. }
      destruct s as [id key f sub | id key | id [tc|] sub | id fr]; cbn [collect_go fits_sel] in *.
      + destruct m as [|k]; [discriminate|].
        apply (Skip known _ (incl_known_refl _)); cbn [snd].
        * apply ebound_snoc; [exact Hb|]. right. cbn [ce_sub].
          destruct M as [|M']; [lia|]. exists M'. split; [reflexivity|]. apply (fits_le frs k M'); [lia | exact Hs].
        * apply good_entries_snoc; [exact He|]. cbn [ce_sub]. intros t Ht. apply (good_cons_l _ _ _ Hg). exact Ht.
      + apply (Skip known _ (incl_known_refl _)); cbn [snd].
        * apply ebound_snoc; [exact Hb|]. left. split; reflexivity.
        * apply good_entries_snoc; [exact He|]. cbn [ce_sub]. intros t [].
      + destruct m as [|k]; [discriminate|].
        apply (Guarded k tc sub st eq_refl Hs); [|intros t Ht|exact Hb|exact He].
        * apply (good_cons_l _ _ _ Hg). left; reflexivity.
        * apply (good_cons_l _ _ _ Hg). right; exact Ht.
      + destruct m as [|k]; [discriminate|].
        apply wp_bind. eapply wp_mono; [|apply (Hrec k eq_refl obj sub st known M Hs)].
        * intros o kn [Hi Ho']. apply (Next kn o Hi). split; [apply incl_known_refl | exact Ho'].
        * lia.
        * exact Hb.
        * exact Ho.
        * intros t Ht. apply (good_cons_l _ _ _ Hg). exact Ht.
        * exact Hf.
        * exact He.
      + destruct (mem fr (fst st)); [apply (Skip known st (incl_known_refl _) Hb He)|].
        destruct (find_frag frs fr) as [d|] eqn:FF; [|apply (Skip known _ (incl_known_refl _)); [exact Hb | exact He]].
        destruct m as [|k]; [discriminate|].
        destruct (Hf d (find_frag_In _ _ _ FF)) as [Hd1 Hd2].
        apply (Guarded k (fr_tc d) (fr_sels d) _ eq_refl Hs Hd1 Hd2); [exact Hb | exact He].
  Qed.

  Lemma collect_fit Fu : forall m, m < Fu -> ColFit m (collect frs Fu).
  Proof.
    induction Fu as [|n IH]; intros m Hm; [lia|].
    cbn [collect]. apply collect_go_fit. intros k Ek. apply IH. lia.
  Qed.

  Definition ExecFit (m : nat) (rec : name -> sels -> elog -> prog eres) : Prop :=
    forall obj l log known,
      fitsb frs m l = true -> mem obj known = true -> good known l -> good_frs frs known ->
      WP known (rec obj l log) (fun r kn => incl_known known kn /\ r <> None).

  Lemma complete_fit m rec fd sub :
    ExecFit m rec -> fitsb frs m sub = true -> forall t log known,
    mem (base t) known = true -> good known sub -> good_frs frs known ->
    WP known (complete rec fd sub t log) (fun r kn => incl_known known kn /\ r <> None).
  Proof.
    intros Hrec Hsub t. induction t as [b | t' IH | t' IH]; intros log known Hb Hg Hf; cbn [complete].
    - apply wp_ask; [apply all1; exact Hb|].
      set (kn1 := handles_of (QKind b) (ask fx S F (QKind b)) ++ known).
      assert (Hi1 : incl_known known kn1) by apply incl_known_app.
      assert (Leaf : forall kn (v : option rval), incl_known known kn ->
                WP kn (Ret (Some (log, v))) (fun r kn' => incl_known known kn' /\ r <> None)).
      { intros kn v Hi. apply wp_ret. split; [exact Hi | discriminate]. }
      assert (Abstract :
                WP kn1 (Ask (QImpls b) (fun ai =>
                          match ai with
                          | ANames (Some cands) =>
                              if mem (f_ret fd) cands then rec (f_ret fd) sub log else Ret (Some (log, None))
                          | _ => Ret (Some (log, None))
                          end)) (fun r kn => incl_known known kn /\ r <> None)).
      { apply wp_ask; [apply all1; apply Hi1; exact Hb|].
        set (kn2 := handles_of (QImpls b) (ask fx S F (QImpls b)) ++ kn1).
        assert (Hi2 : incl_known known kn2) by (eapply incl_known_trans; [exact Hi1 | apply incl_known_app]).
        destruct (ask fx S F (QImpls b)) as [| | | | [cands|] | | | |] eqn:AI; try (apply Leaf; exact Hi2).
        destruct (mem (f_ret fd) cands) eqn:M; [|apply Leaf; exact Hi2].
        eapply wp_mono; [|apply (Hrec (f_ret fd) sub log kn2 Hsub)].
        - intros x kn' [Hi' Hx]. split; [cbv beta in *; eapply incl_known_trans; eauto | exact Hx].
        - unfold kn2. apply mem_app_l. simpl. exact M.
        - cbv beta in *; eapply good_mono; eauto.
        - cbv beta in *; eapply good_frs_mono; eauto. }
      destruct (ask fx S F (QKind b)) as [| | [[| | | | |]|] | | | | | |]; try (apply Leaf; exact Hi1).
      + eapply wp_mono; [|apply (Hrec b sub log kn1 Hsub)].
        * intros x kn' [Hi' Hx]. split; [cbv beta in Hi'; eapply incl_known_trans; [exact Hi1 | exact Hi'] | exact Hx].
        * apply Hi1; exact Hb.
        * cbv beta in *; eapply good_mono; eauto.
        * cbv beta in *; eapply good_frs_mono; eauto.
      + exact Abstract.
      + exact Abstract.
    - apply wp_bind. eapply wp_mono; [|apply (IH log known Hb Hg Hf)].
      intros r kn [Hi Hr]. apply wp_ret. split; [exact Hi|].
      destruct r as [[l [v|]]|]; try congruence; destruct (is_nonnull t'); discriminate.
    - apply wp_bind. eapply wp_mono; [|apply (IH log known Hb Hg Hf)].
      intros r kn [Hi Hr]. apply wp_ret. split; [exact Hi|].
      destruct r as [[l [[| | | |]|]]|]; congruence.
  Qed.

  Lemma exec_fields_fit M rec :
    (forall k, M = Datatypes.S k -> ExecFit k rec) -> forall obj es log out known,
    ebound frs M es -> mem obj known = true -> good_entries known es -> good_frs frs known ->
    WP known (exec_fields rec obj es log out) (fun r kn => incl_known known kn /\ r <> None).
  Proof.
    intros Hrec obj es. induction es as [|e r IH]; intros log out known Hb Ho He Hf; cbn [exec_fields].
    - apply wp_ret. split; [apply incl_known_refl | discriminate].
    - assert (Hbr : ebound frs M r) by (intros e' He'; apply Hb; right; exact He').
      assert (Her : good_entries known r) by (intros e' He'; apply He; right; exact He').
      destruct (ce_field e) as [f|] eqn:CF; [|apply IH; assumption].
      destruct (Hb e (or_introl eq_refl)) as [[Fe _] | [k [Mk Fk]]]; [congruence|].
      apply wp_ask; [apply all1; exact Ho|].
      set (kn1 := handles_of (QField obj f) (ask fx S F (QField obj f)) ++ known).
      assert (Hi1 : incl_known known kn1) by apply incl_known_app.
      assert (Rest : forall kn log' out', incl_known known kn ->
                WP kn (exec_fields rec obj r log' out') (fun r0 kn' => incl_known known kn' /\ r0 <> None)).
      { intros kn log' out' Hi. eapply wp_mono; [|apply (IH log' out' kn Hbr)].
        - intros x kn' [Hi' Hx]. split; [cbv beta in *; eapply incl_known_trans; eauto | exact Hx].
        - apply Hi; exact Ho.
        - cbv beta in *; eapply good_entries_mono; eauto.
        - cbv beta in *; eapply good_frs_mono; eauto. }
      destruct (ask fx S F (QField obj f)) as [| | | [fd|] | | | | |] eqn:AF; try (apply (Rest kn1 _ _ Hi1)).
      assert (Hbase : mem (base (f_type fd)) kn1 = true).
      { unfold kn1. apply mem_app_l. simpl. unfold field_handles. apply mem_head. }
      apply wp_bind.
      eapply wp_mono; [|apply (complete_fit k rec fd (ce_sub e) (Hrec k Mk) Fk (f_type fd) _ kn1 Hbase)].
      + intros r1 kn2 [Hi2 Hr1].
        assert (Hi12 : incl_known known kn2) by (cbv beta in Hi2; eapply incl_known_trans; [exact Hi1 | exact Hi2]).
        destruct r1 as [[log' [v|]]|]; [| |congruence].
        * apply (Rest kn2 _ _ Hi12).
        * destruct (is_nonnull (f_type fd)); [apply wp_ret; split; [exact Hi12 | discriminate] | apply (Rest kn2 _ _ Hi12)].
      + eapply good_mono; [exact Hi1|]. apply He. left; reflexivity.
      + cbv beta in *; eapply good_frs_mono; eauto.
  Qed.

  Lemma sexec_fit Fu : forall m, m + 2 <= Fu -> ExecFit m (sexec frs Fu).
  Proof.
    induction Fu as [|n IH]; intros m Hm; [lia|].
    intros obj l log known Hfit Ho Hg Hf. cbn [sexec]. apply wp_bind.
    eapply wp_mono; [|apply (collect_fit n m ltac:(lia) obj l ([], []) known m Hfit (le_n m))].
    - intros c kn [Hi [st [Ec [Hb Hes]]]]. subst c.
      eapply wp_mono; [|apply (exec_fields_fit m (sexec frs n) (fun k Ek => IH k ltac:(lia)) obj
                                   (group_entries (snd st)) log [] kn)].
      + intros x kn' [Hi' Hx]. split; [cbv beta in *; eapply incl_known_trans; eauto | exact Hx].
      + apply group_entries_bound. exact Hb.
      + apply Hi; exact Ho.
      + apply group_entries_good. exact Hes.
      + cbv beta in *; eapply good_frs_mono; eauto.
    - intros e [].
    - exact Ho.
    - exact Hg.
    - exact Hf.
    - intros e [].
  Qed.
End Fuel.

(** the executor of a document that nests at most n levels never runs out of n + 2 units of fuel *)
Theorem sdoc_fuel_suffices fx S F d n fuel :
  fitsb (d_frags d) n (d_sels d) = true -> n + 2 <= fuel ->
  exists errs r, snd (run fx S F [] (sdoc_prog fuel d)) = Done (errs, r) /\ r <> Some None.
Proof.
  intros Hfit Hfuel.
  assert (W : wp fx S F [] (sdoc_prog fuel d) (fun a _ => snd a <> Some None)).
  { unfold sdoc_prog. apply wp_ask; [reflexivity|].
    cbn [ask]. cbv beta iota.
    apply wp_bind. eapply wp_mono; [|apply (sdoc_val_wp fx S F (query S) d)].
    - intros errs kn [Hi Hg]. destruct (is_nil errs) eqn:N; [|apply wp_ret; simpl; discriminate].
      apply is_nil_true in N. destruct (Hg N) as [G1 G2].
      apply wp_bind.
      eapply wp_mono; [|apply (sexec_fit fx S F (d_frags d) fuel n Hfuel (query S) (d_sels d) [] kn Hfit)].
      + intros r kn' [_ Hr]. apply wp_ret. simpl. congruence.
      + apply Hi. simpl. apply mem_head.
      + exact G1.
      + exact G2.
    - simpl. apply mem_head. }
  destruct (wp_run_post fx S F _ _ _ W) as [[errs r] [kn [Hrun HQ]]].
  exists errs, r. split; [exact Hrun | exact HQ].
Qed.
