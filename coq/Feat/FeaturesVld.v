(** * Feat/FeaturesVld.v — C13 composed with C04's validator model (Vld/*.v, imported read-only).

    C04's [validate_model q pi S F D] takes the request's feature set and does its own gating
    ([named_type], [get_field]); it reads the schema through [raw_body] (following a pointer),
    [named_type], [get_field], [s_directives], [s_meta], the root names and [s_impls].  This file
    states "a disabled feature is indistinguishable from absence" directly on that model:

        validate_model q pi S F D  =  validate_model q pi (verase S F) G D        (G ⊇ F)

    where [verase] is C13's erasure transcribed to C04's schema type and [vok] are the
    feature-related acceptance rules of schema.New in C04's vocabulary.

    What closes here, from C04's definitions, for ALL documents (arguments, variables, directives
    and value literals included):
      - [type_info_erase]: NewTypeInfo — every slot it fills (selection-set scopes, field
        definitions, expected types, default flags, scalar-literal flags, variable types);
      - the rule groups that see the schema only through [named_type], [s_directives] and the
        slots: [rules_small_erase] (document, operations, arguments, fragment declarations,
        directives).
    What does not: see the end of the file ([spreads_refuted]: C04's [possible_types] transcribes
    getPossibleTypes without the feature filter of the repaired code, so for that rule group the
    equation is FALSE on C04's model as it stands; fields / values / variables need, in addition to
    [type_info_erase], that every slot of the annotated document holds only visible types). *)
From Coq Require Import List NArith Bool String Lia.
From ApiFu Require Import Base.Sexp Vld.Ast Vld.AstInd Vld.Inspect Vld.TypeInfoModel Vld.ValidatorModel Vld.ProofsCommon Vld.InspectProofs Vld.Witness.
Import ListNotations.
Open Scope list_scope.

(** ** erasure and the construction rules, in C04's vocabulary *)
Definition vvisible (S : schema) (F : features) (n : name) : bool :=
  match raw_type S n with Some d => subset (t_req d) F | None => false end.

Definition verase_fields (F : features) (fs : list (name * field_def)) : list (name * field_def) :=
  filter (fun nf => subset (f_req (snd nf)) F) fs.

Definition verase_body (alive : name -> bool) (F : features) (b : type_body) : type_body :=
  match b with
  | TObject fs ifs => TObject (verase_fields F fs) (filter alive ifs)
  | TInterface fs => TInterface (verase_fields F fs)
  | TUnion ms => TUnion (filter alive ms)
  | _ => b
  end.

Definition verase_def (alive : name -> bool) (F : features) (d : type_def) : type_def :=
  {| t_req := t_req d; t_body := verase_body alive F (t_body d) |}.

Definition verase_root (alive : name -> bool) (r : option name) : option name :=
  match r with Some n => if alive n then Some n else None | None => None end.

Definition verase (S : schema) (F : features) : schema :=
  let alive := vvisible S F in
  {| s_types := map (fun nt => (fst nt, verase_def alive F (snd nt)))
                    (filter (fun nt => subset (t_req (snd nt)) F) (s_types S));
     s_query := s_query S;
     s_mutation := verase_root alive (s_mutation S);
     s_subscription := verase_root alive (s_subscription S);
     s_directives := s_directives S;
     s_meta := s_meta S;
     s_impls := map (fun il => (fst il, filter alive (snd il))) (filter (fun il => alive (fst il)) (s_impls S)) |}.

Fixpoint vnodup (l : list name) : bool :=
  match l with [] => true | x :: r => negb (mem x r) && vnodup r end.

Definition req_of (S : schema) (n : name) : option (list name) :=
  match raw_type S n with Some d => Some (t_req d) | None => None end.
(** a referenced type is registered and needs no more than [R] *)
Definition ref_ok (S : schema) (R : list name) (t : sty) : bool :=
  match req_of S (unwrapped t) with Some r => subset r R | None => false end.

Definition vfield_ok (S : schema) (owner : list name) (f : field_def) : bool :=
  ref_ok S (f_req f ++ owner) (f_type f) &&
  forallb (fun a => ref_ok S (f_req f ++ owner) (in_type (snd a))) (f_args f).

Definition vtype_ok (S : schema) (d : type_def) : bool :=
  match t_body d with
  | TObject fs _ | TInterface fs => vnodup (map fst fs) && forallb (fun nf => vfield_ok S (t_req d) (snd nf)) fs
  | TInput fs => forallb (fun a => ref_ok S (t_req d) (in_type (snd a))) fs
  | TUnion ms => forallb (fun m => match req_of S m with Some r => subset r (t_req d) | None => false end) ms
  | _ => true
  end.

Definition vroot_ok (S : schema) (r : option name) : bool :=
  match r with
  | None => true
  | Some n => match req_of S n with Some [] => true | _ => false end
  end.

(** object_type.go:101-136, interface_type.go:53-80, union_type.go:43-62, input_object_type.go,
    schema.go (unique names; root operation types and directive argument types require nothing);
    the introspection meta fields refer to types that require nothing *)
Definition vok (S : schema) : bool :=
  vnodup (map fst (s_types S)) &&
  forallb (fun nt => vtype_ok S (snd nt)) (s_types S) &&
  vroot_ok S (Some (s_query S)) && vroot_ok S (s_mutation S) && vroot_ok S (s_subscription S) &&
  forallb (fun d => forallb (fun a => ref_ok S [] (in_type (snd a))) (dd_args (snd d))) (s_directives S) &&
  forallb (fun nf => ref_ok S [] (f_type (snd nf)) &&
                     forallb (fun a => ref_ok S [] (in_type (snd a))) (f_args (snd nf))) (s_meta S) &&
  (* the built-in String (the type of __typename), when registered, requires nothing *)
  match req_of S n_String with Some [] | None => true | _ => false end &&
  (* Schema.InterfaceImplementations: one entry per interface, listing registered types *)
  vnodup (map fst (s_impls S)) &&
  forallb (fun il => forallb (fun o => match raw_type S o with Some _ => true | None => false end) (snd il)) (s_impls S).

(** ** lists *)
Lemma subset_spec a b : subset a b = true <-> (forall x, In x a -> In x b).
Proof.
  unfold subset. rewrite forallb_forall. split; intros H x Hx; [apply mem_in | apply mem_in]; auto.
Qed.
Lemma subset_trans a b c : subset a b = true -> subset b c = true -> subset a c = true.
Proof. rewrite !subset_spec. auto. Qed.
Lemma subset_nil F : subset [] F = true.
Proof. reflexivity. Qed.
Lemma subset_app a b F : subset a F = true -> subset b F = true -> subset (a ++ b) F = true.
Proof. rewrite !subset_spec. intros Ha Hb x Hx. apply in_app_or in Hx as [Hx | Hx]; auto. Qed.

Lemma vassoc_In {A} k (l : list (name * A)) v : assoc k l = Some v -> In (k, v) l.
Proof.
  induction l as [|[k' v'] r IH]; simpl; [discriminate|].
  destruct (name_eqb k k') eqn:E; intro H.
  - apply name_eqb_eq in E. inversion H; subst. left; reflexivity.
  - right; auto.
Qed.

Lemma vassoc_None {A} k (l : list (name * A)) : assoc k l = None <-> ~ In k (map fst l).
Proof.
  induction l as [|[k' v'] r IH]; simpl.
  - split; auto.
  - destruct (name_eqb k k') eqn:E.
    + apply name_eqb_eq in E. subst. split; [discriminate | intro H; exfalso; apply H; left; reflexivity].
    + rewrite IH. split.
      * intros H [H1 | H1]; [subst; rewrite name_eqb_refl in E; discriminate | auto].
      * intros H H1. apply H. right; exact H1.
Qed.

Lemma vassoc_filter {A} (p : name * A -> bool) k (l : list (name * A)) :
  vnodup (map fst l) = true ->
  assoc k (filter p l) = match assoc k l with
                         | Some v => if p (k, v) then Some v else None
                         | None => None
                         end.
Proof.
  induction l as [|[k' v'] r IH]; simpl; [reflexivity|].
  intro H. apply andb_true_iff in H as [H1 H2]. apply negb_true_iff, mem_false in H1.
  destruct (name_eqb k k') eqn:E.
  - apply name_eqb_eq in E. subst k'.
    destruct (p (k, v')) eqn:P; simpl.
    + rewrite name_eqb_refl. reflexivity.
    + rewrite IH by exact H2. apply vassoc_None in H1. rewrite H1. reflexivity.
  - destruct (p (k', v')) eqn:P; simpl; [rewrite E|]; apply IH; exact H2.
Qed.

Lemma vassoc_map {A B} (g : A -> B) k (l : list (name * A)) :
  assoc k (map (fun nt => (fst nt, g (snd nt))) l) = option_map g (assoc k l).
Proof.
  induction l as [|[k' v'] r IH]; simpl; [reflexivity|].
  destruct (name_eqb k k'); [reflexivity | exact IH].
Qed.

Lemma filter_all {A} (p : A -> bool) l : (forall x, In x l -> p x = true) -> filter p l = l.
Proof.
  induction l as [|x r IH]; simpl; intro H; [reflexivity|].
  rewrite (H x (or_introl eq_refl)). f_equal. apply IH. intros y Hy. apply H. right; exact Hy.
Qed.

Lemma unwrapped_nullable t : unwrapped (nullable t) = unwrapped t.
Proof. induction t; simpl; auto. Qed.

Section Erase.
  Variable S : schema.
  Variables F G : features.
  Hypothesis Hok : vok S = true.
  Hypothesis HFG : subset F G = true.
  Local Notation alive := (vvisible S F).
  Local Notation E := (verase S F).

  Lemma vok_parts :
    vnodup (map fst (s_types S)) = true /\
    forallb (fun nt => vtype_ok S (snd nt)) (s_types S) = true /\
    vroot_ok S (Some (s_query S)) = true /\ vroot_ok S (s_mutation S) = true /\
    vroot_ok S (s_subscription S) = true /\
    forallb (fun d => forallb (fun a => ref_ok S [] (in_type (snd a))) (dd_args (snd d))) (s_directives S) = true /\
    forallb (fun nf => ref_ok S [] (f_type (snd nf)) &&
                       forallb (fun a => ref_ok S [] (in_type (snd a))) (f_args (snd nf))) (s_meta S) = true.
  Proof.
    pose proof Hok as H. unfold vok in H. apply andb_true_iff in H as [H _]. apply andb_true_iff in H as [H _].
    apply andb_true_iff in H as [H _]. apply andb_true_iff in H as [H H7]. apply andb_true_iff in H as [H H6]. apply andb_true_iff in H as [H H5].
    apply andb_true_iff in H as [H H4]. apply andb_true_iff in H as [H H3].
    apply andb_true_iff in H as [H1 H2]. auto 10.
  Qed.

  Lemma string_rule : match req_of S n_String with Some [] | None => true | _ => false end = true.
  Proof.
    pose proof Hok as H. unfold vok in H. apply andb_true_iff in H as [H _]. apply andb_true_iff in H as [H _].
    apply andb_true_iff in H as [_ H]. exact H.
  Qed.

  Lemma impls_rule :
    vnodup (map fst (s_impls S)) = true /\
    forallb (fun il => forallb (fun o => match raw_type S o with Some _ => true | None => false end) (snd il)) (s_impls S) = true.
  Proof.
    pose proof Hok as H. unfold vok in H. apply andb_true_iff in H as [H H2]. apply andb_true_iff in H as [_ H1]. auto.
  Qed.

  Lemma raw_type_erase n :
    raw_type E n = match raw_type S n with
                   | Some d => if subset (t_req d) F then Some (verase_def alive F d) else None
                   | None => None
                   end.
  Proof.
    destruct vok_parts as [Hnd _].
    unfold raw_type, verase. cbn [s_types]. rewrite vassoc_map.
    rewrite (vassoc_filter (fun nt => subset (t_req (snd nt)) F)) by exact Hnd.
    destruct (assoc n (s_types S)) as [d|]; simpl; [|reflexivity].
    destruct (subset (t_req d) F); reflexivity.
  Qed.

  Lemma raw_body_erase n :
    alive n = true -> raw_body E n = option_map (verase_body alive F) (raw_body S n).
  Proof.
    unfold vvisible, raw_body. rewrite raw_type_erase.
    destruct (raw_type S n) as [d|]; [|discriminate]. intro V. rewrite V. reflexivity.
  Qed.

  (** the feature-aware lookup: for every name *)
  Lemma named_type_erase n :
    named_type E G n = option_map (verase_body alive F) (named_type S F n).
  Proof.
    unfold named_type. rewrite raw_type_erase.
    destruct (raw_type S n) as [d|]; [|reflexivity].
    destruct (subset (t_req d) F) eqn:V; [|reflexivity].
    cbn [verase_def t_req t_body]. rewrite (subset_trans _ _ _ V HFG). reflexivity.
  Qed.

  Lemma named_type_some n : (match named_type E G n with Some _ => true | None => false end)
                            = (match named_type S F n with Some _ => true | None => false end).
  Proof. rewrite named_type_erase. destruct (named_type S F n); reflexivity. Qed.

  Lemma named_type_visible n b : named_type S F n = Some b -> alive n = true.
  Proof.
    unfold named_type, vvisible. destruct (raw_type S n) as [d|]; [|discriminate].
    destruct (subset (t_req d) F); [reflexivity | discriminate].
  Qed.

  Lemma get_field_erase fs n :
    vnodup (map fst fs) = true -> get_field G (verase_fields F fs) n = get_field F fs n.
  Proof.
    intro Hnd. unfold get_field, verase_fields. rewrite vassoc_filter by exact Hnd.
    destruct (assoc n fs) as [f|]; [|reflexivity]. cbn [snd].
    destruct (subset (f_req f) F) eqn:V; [|reflexivity]. rewrite (subset_trans _ _ _ V HFG). reflexivity.
  Qed.

  Lemma type_ok_of n d : raw_type S n = Some d -> vtype_ok S d = true.
  Proof.
    intro L. destruct vok_parts as [_ [H _]]. rewrite forallb_forall in H.
    apply (H (n, d)). apply vassoc_In. exact L.
  Qed.

  Lemma ref_ok_visible R t : ref_ok S R t = true -> subset R F = true -> alive (unwrapped t) = true.
  Proof.
    unfold ref_ok, req_of, vvisible. destruct (raw_type S (unwrapped t)) as [d|]; [|discriminate].
    intros H HR. eapply subset_trans; eauto.
  Qed.

  Definition vis_sty (t : sty) : Prop := alive (unwrapped t) = true.
  Definition vis_osty (e : option sty) : Prop := match e with Some t => vis_sty t | None => True end.
  Definition vis_scope (sc : scope) : Prop := match sc with Some n => alive n = true | None => True end.
  Definition vis_field (f : field_def) : Prop :=
    vis_sty (f_type f) /\ forall a, In a (f_args f) -> vis_sty (in_type (snd a)).

  Definition fields_of_body (b : type_body) : list (name * field_def) :=
    match b with TObject l _ | TInterface l => l | _ => [] end.

  (** a field the request may see, of a type it may see, exposes only types it may see *)
  Lemma field_visible n d f fd :
    raw_type S n = Some d -> subset (t_req d) F = true ->
    In (f, fd) (fields_of_body (t_body d)) -> subset (f_req fd) F = true -> vis_field fd.
  Proof.
    intros L R HI RF. pose proof (type_ok_of n d L) as T. unfold vtype_ok in T.
    assert (FO : forallb (fun nf => vfield_ok S (t_req d) (snd nf)) (fields_of_body (t_body d)) = true).
    { destruct (t_body d); try contradiction; apply andb_true_iff in T as [_ T]; exact T. }
    rewrite forallb_forall in FO. specialize (FO (f, fd) HI). cbn [snd] in FO.
    unfold vfield_ok in FO. apply andb_true_iff in FO as [F1 F2].
    pose proof (subset_app _ _ _ RF R) as HU. split.
    - eapply ref_ok_visible; eauto.
    - intros a Ha. rewrite forallb_forall in F2. eapply ref_ok_visible; eauto.
  Qed.

  Lemma fields_nodup n d : raw_type S n = Some d -> vnodup (map fst (fields_of_body (t_body d))) = true.
  Proof.
    intro L. pose proof (type_ok_of n d L) as T. unfold vtype_ok in T.
    destruct (t_body d); try reflexivity; apply andb_true_iff in T as [T _]; exact T.
  Qed.

  Lemma meta_visible f fd : In (f, fd) (s_meta S) -> vis_field fd.
  Proof.
    intro HI. destruct vok_parts as [_ [_ [_ [_ [_ [_ M]]]]]]. rewrite forallb_forall in M.
    specialize (M (f, fd) HI). cbn [snd] in M. apply andb_true_iff in M as [F1 F2]. split.
    - eapply ref_ok_visible; [exact F1 | apply subset_nil].
    - intros a Ha. rewrite forallb_forall in F2. eapply ref_ok_visible; [apply F2; exact Ha | apply subset_nil].
  Qed.

  Lemma alive_inv n : alive n = true -> exists d, raw_type S n = Some d /\ subset (t_req d) F = true.
  Proof. unfold vvisible. destruct (raw_type S n) as [d|]; [eauto | discriminate]. Qed.

  Lemma get_field_In fs n fd : get_field F fs n = Some fd -> In (n, fd) fs /\ subset (f_req fd) F = true.
  Proof.
    unfold get_field. destruct (assoc n fs) as [f|] eqn:A; [|discriminate].
    destruct (subset (f_req f) F) eqn:V; [|discriminate]. intro H; inversion H; subst.
    split; [apply vassoc_In; exact A | exact V].
  Qed.

  (** *** NewTypeInfo: the field definition of a Field node *)
  Lemma field_of_scope_erase top n :
    vis_scope top ->
    field_of_scope E G top n = field_of_scope S F top n /\
    (forall fd, field_of_scope S F top n = Some fd -> vis_field fd).
  Proof.
    intro V. destruct top as [tn|]; [|split; [reflexivity | discriminate]].
    simpl in V. destruct (alive_inv tn V) as [d [L R]].
    unfold field_of_scope. rewrite (raw_body_erase tn V). unfold raw_body. rewrite L. cbn [option_map].
    pose proof (fields_nodup tn d L) as Hnd.
    destruct (t_body d) as [k | vals | ifs | fs ifs | fs | ms] eqn:B; cbn [verase_body fields_of_body] in *;
      try (split; [reflexivity | discriminate]).
    - (* object *)
      rewrite (get_field_erase fs n Hnd). cbn [s_query s_meta verase]. split; [reflexivity|].
      intros fd H. destruct (get_field F fs n) as [f0|] eqn:GF.
      + inversion H; subst f0. destruct (get_field_In _ _ _ GF) as [HI RF].
        eapply (field_visible tn d n fd L R); [rewrite B; exact HI | exact RF].
      + destruct (name_eqb tn (s_query S)); [|discriminate].
        eapply meta_visible. apply vassoc_In. exact H.
    - (* interface *)
      rewrite (get_field_erase fs n Hnd). split; [reflexivity|].
      intros fd GF. destruct (get_field_In _ _ _ GF) as [HI RF].
      eapply (field_visible tn d n fd L R); [rewrite B; exact HI | exact RF].
  Qed.

  (** *** NewTypeInfo: values *)
  Lemma input_fields_visible n d fs :
    raw_type S n = Some d -> subset (t_req d) F = true -> t_body d = TInput fs ->
    forall a, In a fs -> vis_sty (in_type (snd a)).
  Proof.
    intros L R B a Ha. pose proof (type_ok_of n d L) as T. unfold vtype_ok in T. rewrite B in T.
    rewrite forallb_forall in T. eapply ref_ok_visible; [apply T; exact Ha | exact R].
  Qed.

  Lemma raw_body_input_erase n :
    alive n = true ->
    match raw_body E n with Some (TInput fs) => Some fs | _ => None end
    = match raw_body S n with Some (TInput fs) => Some fs | _ => None end.
  Proof.
    intro V. rewrite (raw_body_erase n V). destruct (raw_body S n) as [[| | | | |]|]; reflexivity.
  Qed.

  Lemma object_fields_erase q e :
    vis_osty e ->
    object_fields q E e = object_fields q S e /\
    (forall fs, object_fields q S e = Some fs -> forall a, In a fs -> vis_sty (in_type (snd a))).
  Proof.
    intro V. destruct e as [t|]; [|split; [reflexivity | discriminate]].
    simpl in V. unfold vis_sty in V.
    assert (K : forall n, alive n = true ->
              (match raw_body E n with Some (TInput fs) => Some fs | _ => None end
               = match raw_body S n with Some (TInput fs) => Some fs | _ => None end) /\
              (forall fs, match raw_body S n with Some (TInput fs) => Some fs | _ => None end = Some fs ->
                          forall a, In a fs -> vis_sty (in_type (snd a)))).
    { intros n Vn. split; [apply raw_body_input_erase; exact Vn|].
      intros fs H a Ha. destruct (alive_inv n Vn) as [d [L R]]. unfold raw_body in H. rewrite L in H.
      destruct (t_body d) eqn:B; try discriminate. inversion H; subst.
      eapply input_fields_visible; eauto. }
    unfold object_fields. destruct q.
    - apply K. exact V.
    - destruct (nullable t) as [n | t' | t'] eqn:N; try (split; [reflexivity | discriminate]).
      apply K. pose proof (unwrapped_nullable t) as U. rewrite N in U. simpl in U. rewrite U. exact V.
  Qed.

  Lemma scalar_expected_erase e : vis_osty e -> scalar_expected E e = scalar_expected S e.
  Proof.
    intro V. destruct e as [t|]; [|reflexivity]. simpl in V. unfold scalar_expected.
    rewrite (raw_body_erase _ V). destruct (raw_body S (unwrapped t)) as [[| | | | |]|]; reflexivity.
  Qed.

  Lemma ti_value_in_erase q v : forall sc e d,
    vis_osty e -> ti_value_in q E sc e d v = ti_value_in q S sc e d v.
  Proof.
    induction v using value_ind'; intros sc e dd V; try reflexivity.
    - (* list *)
      cbn [ti_value_in]. rewrite (scalar_expected_erase e V). f_equal.
      apply map_ext_in. intros x Hx. rewrite Forall_forall in H. apply (H x Hx).
      destruct e as [t|]; [|exact I]. destruct (nullable t) as [n | t' | t'] eqn:N; try exact I.
      simpl. unfold vis_sty. simpl in V. unfold vis_sty in V.
      pose proof (unwrapped_nullable t) as U. rewrite N in U. simpl in U. rewrite U. exact V.
    - (* object *)
      cbn [ti_value_in]. destruct (object_fields_erase q e V) as [OE OV].
      rewrite OE, (scalar_expected_erase e V). f_equal.
      apply map_ext_in. intros [[n np] x] Hx. rewrite Forall_forall in H. specialize (H _ Hx). cbn [snd] in H.
      destruct (object_fields q S e) as [l|] eqn:OF.
      + destruct (assoc n l) as [def|] eqn:A.
        * f_equal. apply H. simpl. apply (OV l eq_refl (n, def)). apply vassoc_In. exact A.
        * f_equal. apply H. exact I.
      + f_equal. apply H. exact I.
  Qed.

  Lemma ti_args_erase q defs dn args :
    (forall l, defs = Some l -> forall a, In a l -> vis_sty (in_type (snd a))) ->
    ti_args q E defs dn args = ti_args q S defs dn args.
  Proof.
    intro V. unfold ti_args. apply map_ext. intro a.
    destruct defs as [l|]; [|unfold ti_value; rewrite ti_value_in_erase; [reflexivity | exact I]].
    destruct (assoc (a_name a) l) as [def|] eqn:A.
    - unfold ti_value. rewrite ti_value_in_erase; [reflexivity|]. simpl.
      apply (V l eq_refl (a_name a, def)). apply vassoc_In. exact A.
    - unfold ti_value. rewrite ti_value_in_erase; [reflexivity | exact I].
  Qed.

  Lemma ti_dir_erase q d : ti_dir q E d = ti_dir q S d.
  Proof.
    unfold ti_dir. cbn [s_directives verase]. f_equal. apply ti_args_erase.
    intros l Hl a Ha. destruct (assoc (d_name d) (s_directives S)) as [dd|] eqn:A; [|discriminate].
    inversion Hl; subst l.
    destruct vok_parts as [_ [_ [_ [_ [_ [D _]]]]]]. rewrite forallb_forall in D.
    specialize (D (d_name d, dd) (vassoc_In _ _ _ A)). cbn [snd] in D. rewrite forallb_forall in D.
    eapply ref_ok_visible; [apply D; exact Ha | apply subset_nil].
  Qed.

  Lemma map_ti_dir_erase q ds : map (ti_dir q E) ds = map (ti_dir q S) ds.
  Proof. apply map_ext. intro d. apply ti_dir_erase. Qed.

  (** *** NewTypeInfo: selections *)
  Lemma ti_sel_ss_erase q :
    (forall s stack, Forall vis_scope stack -> ti_sel q E G stack s = ti_sel q S F stack s) /\
    (forall ss stack, Forall vis_scope stack -> ti_ss q E G stack ss = ti_ss q S F stack ss).
  Proof.
    apply sel_ss_ind.
    - (* field *)
      intros a al n np args dirs sub IH stack VS. cbn [ti_sel].
      destruct stack as [|top rest]; [reflexivity|].
      inversion VS as [|x l Vtop Vrest]; subst.
      destruct (field_of_scope_erase top n Vtop) as [FE FV]. rewrite FE.
      assert (AE : ti_args q E (match field_of_scope S F top n with Some f => Some (f_args f) | None => None end) dflt_not_nil args
                 = ti_args q S (match field_of_scope S F top n with Some f => Some (f_args f) | None => None end) dflt_not_nil args).
      { apply ti_args_erase. intros l Hl x Hx. destruct (field_of_scope S F top n) as [f|] eqn:FS; [|discriminate].
        inversion Hl; subst l. apply (proj2 (FV f eq_refl)). exact Hx. }
      rewrite AE, map_ti_dir_erase.
      destruct sub as [ss|]; [|reflexivity].
      rewrite (IH ss eq_refl); [reflexivity|].
      constructor; [|exact VS].
      destruct (field_of_scope S F top n) as [f|] eqn:FS; [|exact I]. simpl. apply (proj1 (FV f eq_refl)).
    - (* spread *)
      intros n np dirs e stack VS. cbn [ti_sel]. rewrite map_ti_dir_erase. reflexivity.
    - (* inline *)
      intros cond dirs sub e IH stack VS. cbn [ti_sel]. rewrite map_ti_dir_erase.
      destruct cond as [[tn tp]|].
      + rewrite named_type_erase. destruct (named_type S F tn) as [b|] eqn:NT; cbn [option_map].
        * rewrite IH; [reflexivity|]. constructor; [|exact VS]. simpl. eapply named_type_visible; eauto.
        * rewrite IH; [reflexivity|]. constructor; [exact I | exact VS].
      + destruct stack as [|top rest]; [reflexivity|].
        rewrite IH; [reflexivity|]. constructor; [|exact VS]. inversion VS; assumption.
    - (* selection set *)
      intros a sels p IH stack VS. cbn [ti_ss].
      destruct stack as [|top rest]; [reflexivity|].
      match goal with
      | |- match seq_opt ?a with _ => _ end = match seq_opt ?b with _ => _ end =>
          assert (ME : a = b); [|rewrite ME; reflexivity]
      end.
      apply map_ext_in. intros s Hs. rewrite Forall_forall in IH. apply (IH s Hs).
      constructor; [inversion VS; assumption | exact VS].
  Qed.

  Lemma schema_type_erase t :
    schema_type E G t = schema_type S F t /\ (forall x, schema_type S F t = Some x -> vis_sty x).
  Proof.
    induction t as [n p | t' [IH1 IH2] o | t' [IH1 IH2]]; cbn [schema_type].
    - rewrite named_type_erase. destruct (named_type S F n) as [b|] eqn:NT; cbn [option_map].
      + split; [reflexivity|]. intros x H. inversion H; subst. unfold vis_sty. simpl. eapply named_type_visible; eauto.
      + split; [reflexivity | discriminate].
    - rewrite IH1. split; [reflexivity|]. destruct (schema_type S F t') as [x|]; [|discriminate].
      intros y H. inversion H; subst. unfold vis_sty. simpl. apply (IH2 x eq_refl).
    - rewrite IH1. split; [reflexivity|]. destruct (schema_type S F t') as [x|]; [|discriminate].
      intros y H. inversion H; subst. unfold vis_sty. simpl. apply (IH2 x eq_refl).
  Qed.

  Lemma ti_vardef_erase q v : ti_vardef q E G v = ti_vardef q S F v.
  Proof.
    unfold ti_vardef. destruct (schema_type_erase (vd_type v)) as [TE TV]. rewrite TE.
    destruct (vd_default v) as [x|]; [|reflexivity].
    unfold ti_value. rewrite ti_value_in_erase; [reflexivity|].
    destruct (schema_type S F (vd_type v)) as [y|]; [|exact I]. simpl. apply (TV y eq_refl).
  Qed.

  Lemma root_keep r : vroot_ok S r = true -> verase_root alive r = r /\ vis_scope r.
  Proof.
    destruct r as [n|]; [|split; [reflexivity | exact I]].
    unfold vroot_ok, req_of, verase_root, vis_scope, vvisible. simpl.
    destruct (raw_type S n) as [d|]; [|discriminate]. destruct (t_req d); [|discriminate].
    intros _. split; reflexivity.
  Qed.

  Lemma ti_def_erase q d : ti_def q E G [None] d = ti_def q S F [None] d.
  Proof.
    destruct vok_parts as [_ [_ [Rq [Rm [Rs _]]]]].
    destruct (root_keep _ Rq) as [_ Vq]. destruct (root_keep _ Rm) as [Em Vm]. destruct (root_keep _ Rs) as [Es Vs].
    destruct d as [ot n vars dirs sub | kw n np cond dirs sub]; cbn [ti_def].
    - cbn [s_query s_mutation s_subscription verase]. rewrite Em, Es.
      rewrite map_ti_dir_erase. rewrite (map_ext _ _ (ti_vardef_erase q)).
      rewrite (proj2 (ti_sel_ss_erase q)); [reflexivity|].
      constructor; [|constructor; [exact I | constructor]].
      destruct ot as [[v vp]|]; [|exact Vq].
      destruct (name_eqb v n_query); [exact Vq|].
      destruct (name_eqb v n_mutation); [exact Vm|].
      destruct (name_eqb v n_subscription); [exact Vs | exact I].
    - rewrite named_type_erase, map_ti_dir_erase.
      destruct (named_type S F (fst cond)) as [b|] eqn:NT; cbn [option_map];
        (rewrite (proj2 (ti_sel_ss_erase q)); [reflexivity|]);
        (constructor; [|constructor; [exact I | constructor]]).
      + simpl. eapply named_type_visible; eauto.
      + exact I.
  Qed.

  (** NewTypeInfo(doc, S, F) = NewTypeInfo(doc, erase(S, F), G): every slot, for every document *)
  Theorem type_info_erase q D : type_info q E G D = type_info q S F D.
  Proof. unfold type_info. f_equal. apply map_ext. intro d. apply ti_def_erase. Qed.

  (** ** the rule groups that see the schema through [named_type], [s_directives] and the slots only *)
  Lemma type_condition_erase tc : type_condition E G tc = type_condition S F tc.
  Proof.
    unfold type_condition. rewrite named_type_erase.
    destruct (named_type S F (fst tc)) as [b|]; cbn [option_map]; [|reflexivity].
    destruct b; reflexivity.
  Qed.

  Lemma frag_decls_erase defs : forall by_name, frag_decls E G defs by_name = frag_decls S F defs by_name.
  Proof.
    induction defs as [|d r IH]; intro by_name; [reflexivity|].
    cbn [frag_decls]. destruct d; [apply IH|]. rewrite type_condition_erase.
    destruct (assoc n by_name); rewrite IH; reflexivity.
  Qed.

  Lemma inspect_ext {St} (e1 e2 : St -> node -> St * bool) (leave : St -> St) :
    (forall st n, e1 st n = e2 st n) -> forall t st, inspect e1 leave t st = inspect e2 leave t st.
  Proof.
    intros H t. induction t as [n cs IH] using tree_ind'. intro st. cbn [inspect]. rewrite H.
    destruct (e2 st n) as [s1 [|]]; [|reflexivity]. f_equal.
    revert s1. induction cs as [|c r IHr]; intro s1; [reflexivity|].
    cbn [fold_left]. inversion IH as [|x l Hc Hr]; subst. rewrite Hc. apply IHr. exact Hr.
  Qed.

  Lemma decl_enter_erase st n : decl_enter E G st n = decl_enter S F st n.
  Proof.
    destruct n; try reflexivity. destruct s as [a al fn np args dirs sub | fn np dirs e | cond dirs sub e]; try reflexivity.
    destruct cond as [tc|]; [|reflexivity]. cbn [decl_enter]. rewrite type_condition_erase. reflexivity.
  Qed.

  (** validateFragmentDeclarations, validateArguments, validateDirectives (validateDocument and
      validateOperations do not look at the schema at all), on any document [A] (in
      [validate_model]: the annotated document, equal on both sides by [type_info_erase]) *)
  Theorem rules_small_erase q pi A :
    rule_fragment_declarations pi E G A = rule_fragment_declarations pi S F A /\
    rule_arguments q pi E A = rule_arguments q pi S A /\
    rule_directives q E A = rule_directives q S A.
  Proof.
    split; [|split; reflexivity].
    unfold rule_fragment_declarations. rewrite frag_decls_erase.
    destruct (frag_decls S F A []) as [e1 by_name].
    rewrite (inspect_ext _ _ _ decl_enter_erase). reflexivity.
  Qed.

  (** *** validateVariables: the only place it reads the schema is the input-type test of a variable's
      resolved type — a slot NewTypeInfo fills with visible types only *)
  Lemma vardefs_loop_erase vars : forall seen,
    (forall v, In v vars -> vis_osty (vd_ann v)) -> vardefs_loop E vars seen = vardefs_loop S vars seen.
  Proof.
    induction vars as [|v r IH]; intros seen H; [reflexivity|]. cbn [vardefs_loop].
    rewrite IH by (intros x Hx; apply H; right; exact Hx).
    destruct (vd_ann v) as [t|] eqn:A; [|reflexivity].
    pose proof (H v (or_introl eq_refl)) as V. rewrite A in V. simpl in V.
    rewrite (raw_body_erase _ V). destruct (raw_body S (unwrapped t)) as [b|]; [|reflexivity].
    cbn [option_map]. destruct b; reflexivity.
  Qed.

  Definition wa_def (d : definition) : Prop :=
    match d with
    | DOp _ _ vars _ _ => forall v, In v vars -> vis_osty (vd_ann v)
    | DFrag _ _ _ _ _ _ => True
    end.

  Lemma ti_def_wa q stack d d' : ti_def q S F stack d = Some d' -> wa_def d'.
  Proof.
    destruct d as [ot n vars dirs sub | kw n np cond dirs sub]; cbn [ti_def].
    - destruct (ti_ss q S F _ sub) as [sub'|]; [|discriminate]. intro H; inversion H; subst d'. clear H.
      intros v Hv. apply in_map_iff in Hv as [v0 [Ev _]]. subst v. cbn [ti_vardef vd_ann].
      destruct (schema_type S F (vd_type v0)) as [x|] eqn:ST; [|exact I]. simpl.
      apply (proj2 (schema_type_erase (vd_type v0)) x ST).
    - destruct (ti_ss q S F _ sub) as [sub'|]; [|discriminate]. intro H; inversion H; subst d'. exact I.
  Qed.

  Lemma seq_opt_In {A} (l : list (option A)) : forall r a, seq_opt l = Some r -> In a r -> In (Some a) l.
  Proof.
    induction l as [|o l' IH]; intros r a H Ha.
    - inversion H; subst. contradiction.
    - cbn [seq_opt fold_right] in H. fold (seq_opt l') in H.
      destruct o as [x|]; [|discriminate]. destruct (seq_opt l') as [r'|] eqn:R; [|discriminate].
      inversion H; subst r. destruct Ha as [Ha | Ha]; [subst; left; reflexivity | right; eapply IH; eauto].
  Qed.

  Lemma type_info_wa q D A : type_info q S F D = Some A -> forall d, In d A -> wa_def d.
  Proof.
    unfold type_info. intros H d Hd. pose proof (seq_opt_In _ _ _ H Hd) as HI.
    apply in_map_iff in HI as [d0 [E0 _]]. eapply ti_def_wa; eauto.
  Qed.

  Lemma fold_left_ext_in {A B} (f g : A -> B -> A) (l : list B) :
    (forall a x, In x l -> f a x = g a x) -> forall a0, fold_left f l a0 = fold_left g l a0.
  Proof.
    induction l as [|x r IH]; intros H a0; [reflexivity|]. cbn [fold_left].
    rewrite (H a0 x (or_introl eq_refl)). apply IH. intros a y Hy. apply H. right; exact Hy.
  Qed.

  (** validateVariables on the document NewTypeInfo annotated *)
  Theorem rule_variables_erase q pi D A :
    type_info q S F D = Some A -> rule_variables pi E A = rule_variables pi S A.
  Proof.
    intro TI. unfold rule_variables. f_equal. apply fold_left_ext_in. intros st d Hd.
    pose proof (type_info_wa q D A TI d Hd) as W.
    destruct d as [ot n vars dirs sub | kw n np cond dirs sub]; [|reflexivity].
    unfold vars_op. rewrite (vardefs_loop_erase vars [] W). reflexivity.
  Qed.
End Erase.

(** ** the witness of defect #30 (validator half) in C04's encoding

    Before C04's model filtered implementations by the request's features ([q_impl_features] off =
    the pinned getPossibleTypes), [validate_model] accepted  { i { ... on J { y } } }  on the C13
    witness — interfaces I and J whose only common implementation G requires feature fa — for a
    request WITHOUT fa, while it reports the impossible spread on the erased schema: the equation
    [validate_eq] is false for the pinned behaviour ([spreads_refuted_before_fix]).  With the filter
    ([repaired]) both sides report it ([spreads_after_fix]); the general statement is
    [FeaturesVldRules.validate_eq_repaired]. *)
Open Scope string_scope.
Definition vn (s : string) : name := bs s.
Definition vfd (t : string) : field_def := {| f_type := StNamed (vn t); f_args := []; f_req := [] |}.
Definition vty (r : list name) (b : type_body) : type_def := {| t_req := r; t_body := b |}.
Definition vfa : name := vn "fa".

Definition VW : schema :=
  {| s_types := [
       (vn "Int", vty [] (TScalar SInt));
       (vn "I", vty [] (TInterface [(vn "x", vfd "Int")]));
       (vn "J", vty [] (TInterface [(vn "y", vfd "Int")]));
       (vn "G", vty [vfa] (TObject [(vn "x", vfd "Int"); (vn "y", vfd "Int")] [vn "I"; vn "J"]));
       (vn "A", vty [] (TObject [(vn "x", vfd "Int")] [vn "I"]));
       (vn "B", vty [] (TObject [(vn "y", vfd "Int")] [vn "J"]));
       (vn "Query", vty [] (TObject [(vn "i", vfd "I"); (vn "j", vfd "J")] []))];
     s_query := vn "Query"; s_mutation := None; s_subscription := None;
     s_directives := []; s_meta := [];
     s_impls := [(vn "I", [vn "G"; vn "A"]); (vn "J", [vn "G"; vn "B"])] |}.

Definition vp (l c : N) : pos := (l, c).
(** { i { ... on J { y } } } *)
Definition VD : document :=
  [ DOp None None [] []
      (SelSet None
         [ SField None None (vn "i") (vp 1 3) [] []
             (Some (SelSet None
                      [ SInline (Some (vn "J", vp 1 14)) []
                          (SelSet None [ SField None None (vn "y") (vp 1 18) [] [] None ] (vp 1 16)) (vp 1 7) ]
                      (vp 1 5))) ]
         (vp 1 1)) ].

Lemma spreads_refuted_before_fix :
  vok VW = true /\ subset [] [vfa] = true /\ q_impl_features Witness.before_fix_30 = false /\
  validate_model Witness.before_fix_30 id_order VW [] VD = Done [] /\
  validate_model Witness.before_fix_30 id_order (verase VW []) [vfa] VD
  = Done [ {| e_locs := [vp 1 14]; e_sec := false; e_kind := ESpreadImpossible |} ] /\
  type_info true VW [] VD = type_info true (verase VW []) [vfa] VD.
Proof. vm_compute. repeat split; reflexivity. Qed.

Lemma spreads_after_fix :
  validate_model repaired id_order VW [] VD
  = Done [ {| e_locs := [vp 1 14]; e_sec := false; e_kind := ESpreadImpossible |} ] /\
  validate_model repaired id_order (verase VW []) [vfa] VD = validate_model repaired id_order VW [] VD /\
  validate_model repaired id_order VW [vfa] VD = Done [].
Proof. vm_compute. repeat split; reflexivity. Qed.
