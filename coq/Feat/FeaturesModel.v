(** * Feat/FeaturesModel.v — C13: what the code does with required-feature sets.

    Hand transcription of
      - graphql/schema/feature_set.go                  [subset], [funion]
      - the acceptance checks of schema.New that speak about features or that erasure has to
        preserve (object_type.go:101-136, interface_type.go:53-80, union_type.go:43-62,
        input_object_type.go shallowValidate, enum_type.go shallowValidate, schema.go New,
        directive.go shallowValidate)                  [schema_ok]
      - every place a consumer looks something up in a schema                  [ask], the *views*:
          validator   : type_info.go namedType, GetField, validate_fragments.go getPossibleTypes
          executor    : executor.go namedType, GetField, abstract type resolution over
                        InterfaceImplementations / MemberTypes, doesFragmentTypeApply
          introspection: introspection.go  types, __type(name:), kind, fields, interfaces,
                        possibleTypes, enumValues, inputFields, the root types, directives
      - consumers as programs against the view [prog], [run], and two concrete ones: the
        validator and the executor restricted to *chain* documents (one selection per selection
        set)  [cval], [cexec]  — transcribed from validate_fields.go / validate_fragments.go /
        executor.go executeSelections, completeValue, collectFieldsImpl.

    A Go pointer to a named type is modelled by the type's name (names are unique in a schema:
    schema.New refuses two definitions of one name); following a pointer is the feature-blind
    [lookup].  No proofs in this file. *)
From Coq Require Import List NArith Bool String Ascii.
From ApiFu Require Import Base.Sexp.
Import ListNotations.
Open Scope list_scope.

Definition name := bytes.
Definition features := list name.            (* a FeatureSet; order and repetitions are irrelevant *)

Definition mem (x : name) (l : list name) : bool := existsb (bytes_eqb x) l.
(** FeatureSet.IsSubsetOf *)
Definition subset (a b : features) : bool := forallb (fun x => mem x b) a.
(** FeatureSet.Union *)
Definition funion (a b : features) : features := a ++ b.
Definition is_nil {A} (l : list A) : bool := match l with [] => true | _ => false end.

Fixpoint assoc {A} (k : name) (l : list (name * A)) : option A :=
  match l with
  | [] => None
  | (k', v) :: r => if bytes_eqb k k' then Some v else assoc k r
  end.

Fixpoint nodup (l : list name) : bool :=
  match l with
  | [] => true
  | x :: r => negb (mem x r) && nodup r
  end.

(** ** Schema *)
Inductive sty := StNamed (n : name) | StList (t : sty) | StNonNull (t : sty).
(** schema.UnwrappedType; ListType / NonNullType.TypeRequiredFeatures delegate to it *)
Fixpoint base (t : sty) : name :=
  match t with StNamed n => n | StList t' => base t' | StNonNull t' => base t' end.

Record field_def := {
  f_type : sty;
  f_args : list (name * sty);
  f_req : features;            (* FieldDefinition.RequiredFeatures *)
  f_dep : bool;                (* DeprecationReason != "" *)
  f_ret : name                 (* what Resolve returns for a composite type: the tag IsTypeOf tests *)
}.

Inductive named_type :=
| NScalar (req : features)
| NEnum (vals : list (name * bool)) (req : features)                 (* value, deprecated *)
| NInput (fields : list (name * sty)) (req : features)
| NObject (fields : list (name * field_def)) (ifaces : list name) (req : features)
| NInterface (fields : list (name * field_def)) (req : features)
| NUnion (members : list name) (req : features).

Record schema := {
  types : list (name * named_type);          (* Schema.namedTypes *)
  query : name;
  mutation : option name;
  subscription : option name;
  directives : list (name * list (name * sty));
  additional : list name                     (* SchemaDefinition.AdditionalTypes *)
}.

Inductive kind := KScalar | KEnum | KInput | KObject | KInterface | KUnion.

Definition kind_of (t : named_type) : kind :=
  match t with
  | NScalar _ => KScalar | NEnum _ _ => KEnum | NInput _ _ => KInput
  | NObject _ _ _ => KObject | NInterface _ _ => KInterface | NUnion _ _ => KUnion
  end.

(** TypeRequiredFeatures *)
Definition type_req (t : named_type) : features :=
  match t with
  | NScalar r => r | NEnum _ r => r | NInput _ r => r
  | NObject _ _ r => r | NInterface _ r => r | NUnion _ r => r
  end.

(** following a pointer / NamedTypes()[n] *)
Definition lookup (S : schema) (n : name) : option named_type := assoc n (types S).
Definition req_of (S : schema) (n : name) : features :=
  match lookup S n with Some t => type_req t | None => [] end.

Definition fields_of (t : named_type) : list (name * field_def) :=
  match t with NObject fs _ _ => fs | NInterface fs _ => fs | _ => [] end.

(** Schema.interfaceImplementations[i]: the registered objects that list [i] *)
Definition implements (i : name) (nt : name * named_type) : bool :=
  match snd nt with NObject _ ifs _ => mem i ifs | _ => false end.
Definition impls (S : schema) (i : name) : list (name * named_type) := filter (implements i) (types S).

(** ** Which repairs are in the tree (all [true] = the code that exists now; a [false] = the pinned
    code at that place, kept for the [.._refuted_before_fix] witnesses) *)
Record fixes := {
  fx_intro : bool;      (* introspection __type(name:), interfaces, possibleTypes consider features *)
  fx_spread : bool;     (* validator getPossibleTypes considers features *)
  fx_resolve : bool;    (* executor abstract type resolution considers features *)
  fx_roots : bool;      (* schema.New refuses root operation types with required features *)
  fx_dirs : bool        (* schema.New refuses directive arguments of types with required features *)
}.
Definition fixed : fixes := {| fx_intro := true; fx_spread := true; fx_resolve := true; fx_roots := true; fx_dirs := true |}.

(** the pinned code at exactly one place *)
Definition pinned_intro : fixes := {| fx_intro := false; fx_spread := true; fx_resolve := true; fx_roots := true; fx_dirs := true |}.
Definition pinned_spread : fixes := {| fx_intro := true; fx_spread := false; fx_resolve := true; fx_roots := true; fx_dirs := true |}.
Definition pinned_resolve : fixes := {| fx_intro := true; fx_spread := true; fx_resolve := false; fx_roots := true; fx_dirs := true |}.
Definition pinned_roots : fixes := {| fx_intro := true; fx_spread := true; fx_resolve := true; fx_roots := false; fx_dirs := true |}.
Definition pinned_dirs : fixes := {| fx_intro := true; fx_spread := true; fx_resolve := true; fx_roots := true; fx_dirs := false |}.

(** ** schema.New's acceptance checks *)

Definition is_output (k : kind) : bool := match k with KInput => false | _ => true end.
Definition is_input (k : kind) : bool := match k with KScalar | KEnum | KInput => true | _ => false end.
Definition ref_kind_ok (S : schema) (p : kind -> bool) (t : sty) : bool :=
  match lookup S (base t) with Some x => p (kind_of x) | None => false end.

(** object_type.go:101-123 = interface_type.go:53-75, per field *)
Definition field_ok (S : schema) (owner_req : features) (fd : field_def) : bool :=
  let field_required := funion (f_req fd) owner_req in
  ref_kind_ok S is_output (f_type fd) &&
  subset (req_of S (base (f_type fd))) field_required &&
  forallb (fun a => ref_kind_ok S is_input (snd a) && subset (req_of S (base (snd a))) field_required) (f_args fd).

Definition fields_ok (S : schema) (owner_req : features) (fs : list (name * field_def)) : bool :=
  nodup (map fst fs) &&
  forallb (fun nf => nodup (map fst (f_args (snd nf))) && field_ok S owner_req (snd nf)) fs &&
  existsb (fun nf => subset (f_req (snd nf)) owner_req) fs.          (* hasAtLeastOneUnconditionalField *)

(** IsSubTypeOf (object_type.go:39-57, list_type.go, nonnull_type.go, the others: identity) *)
Fixpoint sty_eqb (a b : sty) : bool :=
  match a, b with
  | StNamed x, StNamed y => bytes_eqb x y
  | StList x, StList y => sty_eqb x y
  | StNonNull x, StNonNull y => sty_eqb x y
  | _, _ => false
  end.
Definition named_subtype (S : schema) (a b : name) : bool :=
  bytes_eqb a b ||
  match lookup S a, lookup S b with
  | Some (NObject _ _ _), Some (NUnion ms _) => mem a ms
  | Some (NObject _ ifs _), Some _ => mem b ifs
  | _, _ => false
  end.
Fixpoint subtype (S : schema) (a b : sty) : bool :=
  match a with
  | StNamed x => match b with StNamed y => named_subtype S x y | _ => false end
  | StList x => match b with StList y => sty_eqb a y || subtype S x y | _ => false end
  | StNonNull x => match b with
                   | StNonNull y => sty_eqb a y || subtype S x y
                   | _ => sty_eqb a b || subtype S x b
                   end
  end.
Definition is_nonnull (t : sty) : bool := match t with StNonNull _ => true | _ => false end.

(** object_type.go satisfyInterface *)
Definition satisfies (S : schema) (ofields : list (name * field_def)) (iface : name) : bool :=
  match lookup S iface with
  | Some (NInterface ifields _) =>
      forallb (fun nf =>
                 match assoc (fst nf) ofields with
                 | None => false
                 | Some fd =>
                     subtype S (f_type fd) (f_type (snd nf)) &&
                     subset (f_req fd) (f_req (snd nf)) &&
                     forallb (fun ia => match assoc (fst ia) (f_args fd) with
                                        | Some t => sty_eqb t (snd ia)
                                        | None => false
                                        end) (f_args (snd nf)) &&
                     forallb (fun oa => match assoc (fst oa) (f_args (snd nf)) with
                                        | Some _ => true
                                        | None => negb (is_nonnull (snd oa))
                                        end) (f_args fd)
                 end) ifields
  | _ => false
  end.

Definition type_ok (S : schema) (t : named_type) : bool :=
  match t with
  | NScalar _ => true
  | NEnum vals _ => negb (is_nil vals) && nodup (map fst vals)
  | NInput fs req =>
      negb (is_nil fs) && nodup (map fst fs) &&
      forallb (fun a => ref_kind_ok S is_input (snd a) && subset (req_of S (base (snd a))) req) fs
  | NObject fs ifs req => fields_ok S req fs && forallb (satisfies S fs) ifs
  | NInterface fs req => fields_ok S req fs
  | NUnion ms req =>
      negb (is_nil ms) && nodup ms &&
      forallb (fun m => match lookup S m with
                        | Some (NObject _ _ r) => subset r req
                        | _ => false
                        end) ms
  end.

Definition root_ok (fx : fixes) (S : schema) (r : option name) : bool :=
  match r with
  | None => true
  | Some n => match lookup S n with
              | Some (NObject _ _ req) => if fx_roots fx then is_nil req else true
              | _ => false
              end
  end.

Definition directive_ok (fx : fixes) (S : schema) (d : name * list (name * sty)) : bool :=
  nodup (map fst (snd d)) &&
  forallb (fun a => ref_kind_ok S is_input (snd a) &&
                    (if fx_dirs fx then is_nil (req_of S (base (snd a))) else true)) (snd d).

Definition schema_ok_gen (fx : fixes) (S : schema) : bool :=
  nodup (map fst (types S)) &&
  forallb (fun nt => type_ok S (snd nt)) (types S) &&
  root_ok fx S (Some (query S)) && root_ok fx S (mutation S) && root_ok fx S (subscription S) &&
  forallb (directive_ok fx S) (directives S) &&
  forallb (fun n => match lookup S n with Some _ => true | None => false end) (additional S).

Definition schema_ok : schema -> bool := schema_ok_gen fixed.

(** ** The views: every lookup a consumer makes *)

Definition bytes_of_string (s : string) : bytes :=
  (fix go (s : string) : bytes :=
     match s with EmptyString => [] | String c r => N_of_ascii c :: go r end) s.

(** introspection.NamedTypes: a constant table, the fallback of both namedType functions *)
Definition meta_names : list name :=
  map bytes_of_string ["__Schema"; "__Type"; "__Field"; "__InputValue"; "__EnumValue"; "__TypeKind";
                       "__Directive"; "__DirectiveLocation"]%string.

Inductive root_kind := RQuery | RMutation | RSubscription.

Inductive query_ :=
| QRoot (r : root_kind)                 (* Schema.QueryType() / MutationType() / SubscriptionType() *)
| QNamedV (n : name)                    (* validator/type_info.go namedType(s, features, n) *)
| QNamedE (n : name)                    (* executor.go namedType(s, n) *)
| QKind (t : name)                      (* a type switch on a type the consumer holds *)
| QField (t f : name)                   (* t.GetField(f, features), t an object or interface *)
| QPossibleV (t : name)                 (* validator getPossibleTypes *)
| QImpls (t : name)                     (* executor: candidates tried with IsTypeOf, in order *)
| QApplies (o t : name)                 (* executor doesFragmentTypeApply(o, t) *)
| QIntroTypes                           (* __schema.types *)
| QIntroType (n : name)                 (* __type(name:) *)
| QIntroFields (t : name) (incl_dep : bool)
| QIntroInterfaces (t : name)
| QIntroPossible (t : name)
| QEnumValues (t : name) (incl_dep : bool)  (* t.Values of an enum type: value validation, result coercion, enumValues *)
| QInputFields (t : name)                  (* t.Fields of an input object type: value validation, coercion, inputFields *)
| QDirectives                              (* __schema.directives *)
| QDirective (n : name).                   (* Schema.Directives()[n]: validator and executor *)

Inductive answer :=
| AHandle (h : option name)             (* a pointer to a named type of this schema, or nil *)
| AMeta                                 (* one of the constant introspection types *)
| AKind (k : option kind)
| AField (f : option field_def)
| ANames (l : option (list name))       (* None: null (or, for QPossibleV, the panic on a leaf type) *)
| AFields (l : option (list (name * field_def)))
| AInputs (l : option (list (name * sty)))
| ABool (b : bool)
| ADirs (l : list (name * list (name * sty))).

Definition names_within (F : features) (l : list (name * named_type)) : list name :=
  map fst (filter (fun nt => subset (type_req (snd nt)) F) l).

(** pointers in a list (ImplementedInterfaces, MemberTypes) whose target's requirements are within F *)
Definition ptrs_within (S : schema) (F : features) (l : list name) : list name :=
  filter (fun n => subset (req_of S n) F) l.

Definition ask (fx : fixes) (S : schema) (F : features) (q : query_) : answer :=
  match q with
  | QRoot RQuery => AHandle (Some (query S))
  | QRoot RMutation => AHandle (mutation S)
  | QRoot RSubscription => AHandle (subscription S)
  | QNamedV n =>
      match lookup S n with
      | Some t => if subset (type_req t) F then AHandle (Some n)
                  else if mem n meta_names then AMeta else AHandle None
      | None => if mem n meta_names then AMeta else AHandle None
      end
  | QNamedE n =>
      match lookup S n with
      | Some _ => AHandle (Some n)
      | None => if mem n meta_names then AMeta else AHandle None
      end
  | QKind t => AKind (option_map kind_of (lookup S t))
  | QField t f =>
      AField (match lookup S t with
              | Some x => match assoc f (fields_of x) with
                          | Some fd => if subset (f_req fd) F then Some fd else None
                          | None => None
                          end
              | None => None
              end)
  | QPossibleV t =>
      match lookup S t with
      | Some (NObject _ _ _) => ANames (Some [t])
      | Some (NInterface _ _) =>
          ANames (Some (if fx_spread fx then names_within F (impls S t) else map fst (impls S t)))
      | Some (NUnion ms _) => ANames (Some ms)
      | _ => ANames None
      end
  | QImpls t =>
      match lookup S t with
      | Some (NInterface _ _) =>
          ANames (Some (if fx_resolve fx then names_within F (impls S t) else map fst (impls S t)))
      | Some (NUnion ms _) => ANames (Some ms)
      | _ => ANames (Some [])
      end
  | QApplies o t =>
      match lookup S t with
      | Some (NObject _ _ _) => ABool (bytes_eqb o t)
      | Some (NInterface _ _) =>
          ABool (match lookup S o with Some (NObject _ ifs _) => mem t ifs | _ => false end)
      | Some (NUnion ms _) => ABool (mem o ms)
      | _ => ABool false
      end
  | QIntroTypes => ANames (Some (names_within F (types S)))
  | QIntroType n =>
      match lookup S n with
      | Some t => if fx_intro fx then (if subset (type_req t) F then AHandle (Some n) else AHandle None)
                  else AHandle (Some n)
      | None => AHandle None
      end
  | QIntroFields t incl =>
      match lookup S t with
      | Some (NObject fs _ _) | Some (NInterface fs _) =>
          AFields (Some (filter (fun nf => (negb (f_dep (snd nf)) || incl) && subset (f_req (snd nf)) F) fs))
      | _ => AFields None
      end
  | QIntroInterfaces t =>
      match lookup S t with
      | Some (NObject _ ifs _) => ANames (Some (if fx_intro fx then ptrs_within S F ifs else ifs))
      | _ => ANames None
      end
  | QIntroPossible t =>
      match lookup S t with
      | Some (NInterface _ _) =>
          ANames (Some (if fx_intro fx then names_within F (impls S t) else map fst (impls S t)))
      | Some (NUnion ms _) => ANames (Some (if fx_intro fx then ptrs_within S F ms else ms))
      | _ => ANames None
      end
  | QEnumValues t incl =>
      match lookup S t with
      | Some (NEnum vs _) => ANames (Some (map fst (filter (fun v => negb (snd v) || incl) vs)))
      | _ => ANames None
      end
  | QInputFields t =>
      match lookup S t with
      | Some (NInput fs _) => AInputs (Some fs)
      | _ => AInputs None
      end
  | QDirectives => ADirs (directives S)
  | QDirective n => ADirs (match assoc n (directives S) with Some a => [(n, a)] | None => [] end)
  end.

(** the three views named in the design: which lookups each consumer uses *)
Definition in_view_validator (q : query_) : bool :=
  match q with
  | QRoot _ | QNamedV _ | QKind _ | QField _ _ | QPossibleV _ | QEnumValues _ _ | QInputFields _ | QDirective _ => true
  | _ => false
  end.
Definition in_view_executor (q : query_) : bool :=
  match q with
  | QRoot _ | QNamedE _ | QKind _ | QField _ _ | QImpls _ | QApplies _ _ | QEnumValues _ _ | QInputFields _
  | QDirective _ => true
  | _ => false
  end.
Definition in_view_introspection (q : query_) : bool :=
  match q with
  | QRoot _ | QKind _ | QIntroTypes | QIntroType _ | QIntroFields _ _ | QIntroInterfaces _ | QIntroPossible _
  | QEnumValues _ _ | QInputFields _ | QDirectives => true
  | _ => false
  end.

(** the view of each consumer as a partial function: the lookups it makes *)
Definition view_validator (fx : fixes) (S : schema) (F : features) (q : query_) : option answer :=
  if in_view_validator q then Some (ask fx S F q) else None.
Definition view_executor (fx : fixes) (S : schema) (F : features) (q : query_) : option answer :=
  if in_view_executor q then Some (ask fx S F q) else None.
Definition view_introspection (fx : fixes) (S : schema) (F : features) (q : query_) : option answer :=
  if in_view_introspection q then Some (ask fx S F q) else None.

(** ** Consumers: programs that see a schema only through [ask]

    A consumer can name a type in two ways: by a *name* taken from the request (QNamedV, QNamedE,
    QIntroType — the places where the code has to consult the feature set), or by a *pointer* it was
    handed by an earlier answer.  [run] keeps the set of pointers handed out so far; a program that
    presents a pointer it was never given is [Forged] (Go code cannot do that).  The executor's
    by-name lookup is feature-blind; the code only ever applies it to type conditions of a
    document the validator has accepted, i.e. to names that QNamedV already resolved — so QNamedE
    demands that its name is already a held pointer. *)
Definition handle_args (q : query_) : list name :=
  match q with
  | QNamedE n => [n]
  | QKind t | QField t _ | QPossibleV t | QImpls t | QIntroFields t _ | QIntroInterfaces t
  | QIntroPossible t | QEnumValues t _ | QInputFields t => [t]
  | QApplies o t => [o; t]
  | _ => []
  end.

Definition field_handles (fd : field_def) : list name :=
  base (f_type fd) :: map (fun a => base (snd a)) (f_args fd).

Definition handles_in (a : answer) : list name :=
  match a with
  | AHandle (Some h) => [h]
  | AField (Some fd) => field_handles fd
  | ANames (Some l) => l
  | AFields (Some l) => flat_map (fun nf => field_handles (snd nf)) l
  | AInputs (Some l) => map (fun a => base (snd a)) l
  | ADirs l => flat_map (fun d => map (fun a => base (snd a)) (snd d)) l
  | _ => []
  end.

(** enum value names are not type pointers *)
Definition handles_of (q : query_) (a : answer) : list name :=
  match q with QEnumValues _ _ => [] | _ => handles_in a end.

Inductive prog (A : Type) :=
| Ret (a : A)
| Ask (q : query_) (k : answer -> prog A).
Arguments Ret {A} a.
Arguments Ask {A} q k.

Fixpoint bind {A B} (p : prog A) (f : A -> prog B) : prog B :=
  match p with
  | Ret a => f a
  | Ask q k => Ask q (fun x => bind (k x) f)
  end.

Inductive result (A : Type) := Done (a : A) | Forged.
Arguments Done {A} a.
Arguments Forged {A}.

(** the result together with the trace of lookups made *)
Fixpoint run {A} (fx : fixes) (S : schema) (F : features) (known : list name) (p : prog A)
  : list (query_ * answer) * result A :=
  match p with
  | Ret a => ([], Done a)
  | Ask q k =>
      if forallb (fun h => mem h known) (handle_args q) then
        let a := ask fx S F q in
        let (tr, r) := run fx S F (handles_of q a ++ known) (k a) in
        ((q, a) :: tr, r)
      else ([], Forged)
  end.

(** ** Two concrete consumers: validation and execution of chain documents *)
Inductive cnode := CField (f : name) | CFrag (t : name) | CTypename.

Definition is_composite (k : option kind) : bool :=
  match k with Some KObject | Some KInterface | Some KUnion => true | _ => false end.

Definition intersects (a b : list name) : bool := existsb (fun x => mem x b) a.

(** validate_fields.go + validate_fragments.go (+ the scopes of type_info.go) on a chain: the
    depths (0-based node indices) at which a primary error is reported.  [parent] is the scope of
    the enclosing selection set ([None]: no type info). *)
Fixpoint cval (depth : nat) (parent : option name) (c : list cnode) : prog (list nat) :=
  match c with
  | [] => Ret []
  | CTypename :: rest => cval (S depth) None rest
  | CField f :: rest =>
      (* without a definition the field counts as a leaf: "cannot have a subselection" *)
      let untyped := bind (cval (S depth) None rest)
                          (fun es => Ret (if is_nil rest then es else depth :: es)) in
      match parent with
      | None => untyped
      | Some p =>
          Ask (QKind p) (fun ak =>
            match ak with
            | AKind (Some KObject) | AKind (Some KInterface) =>
                Ask (QField p f) (fun af =>
                  match af with
                  | AField (Some fd) =>
                      Ask (QKind (base (f_type fd))) (fun ab =>
                        let comp := match ab with AKind k => is_composite k | _ => false end in
                        let here := if comp then is_nil rest else negb (is_nil rest) in
                        bind (cval (S depth) (Some (base (f_type fd))) rest)
                             (fun es => Ret (if here then depth :: es else es)))
                  | _ => bind (cval (S depth) None rest) (fun es => Ret (depth :: es))
                  end)
            | AKind (Some KUnion) => bind (cval (S depth) None rest) (fun es => Ret (depth :: es))
            | _ => untyped
            end)
      end
  | CFrag t :: rest =>
      Ask (QNamedV t) (fun an =>
        match an with
        | AHandle (Some h) =>
            Ask (QKind h) (fun ak =>
              match ak with
              | AKind k =>
                  if is_composite k then
                    match parent with
                    | None => cval (S depth) (Some h) rest
                    | Some p =>
                        Ask (QPossibleV h) (fun pa =>
                          Ask (QPossibleV p) (fun pb =>
                            let possible := match pa, pb with
                                            | ANames (Some a), ANames (Some b) => intersects a b
                                            | _, _ => true
                                            end in
                            bind (cval (S depth) (Some h) rest)
                                 (fun es => Ret (if possible then es else depth :: es))))
                    end
                  else bind (cval (S depth) (Some h) rest) (fun es => Ret (depth :: es))
              | _ => cval (S depth) None rest
              end)
        | _ => bind (cval (S depth) None rest) (fun es => Ret (depth :: es))
        end)
  end.

Inductive cfinal :=
| FTypename (o : name)       (* the chain ends in __typename of an object of type o *)
| FLeaf                      (* ... in a leaf value *)
| FSkipped                   (* a fragment did not apply: empty object *)
| FUnresolved                (* "Unable to determine object type." *)
| FMissing.                  (* GetField found nothing: the executor drops the selection *)

(** executor.go executeSelections / completeValue / collectFieldsImpl on a chain, on an object of
    type [obj]; the log is the sequence of resolvers invoked (object type, field). *)
Fixpoint cexec (obj : name) (c : list cnode) (log : list (name * name)) : prog (list (name * name) * cfinal) :=
  match c with
  | [] => Ret (log, FLeaf)
  | CTypename :: _ => Ret (log, FTypename obj)
  | CField f :: rest =>
      Ask (QField obj f) (fun af =>
        match af with
        | AField (Some fd) =>
            let log' := log ++ [(obj, f)] in
            let b := base (f_type fd) in
            Ask (QKind b) (fun ak =>
              match ak with
              | AKind (Some KObject) => cexec b rest log'
              | AKind (Some KInterface) | AKind (Some KUnion) =>
                  Ask (QImpls b) (fun ai =>
                    match ai with
                    | ANames (Some cands) =>
                        if mem (f_ret fd) cands then cexec (f_ret fd) rest log' else Ret (log', FUnresolved)
                    | _ => Ret (log', FUnresolved)
                    end)
              | _ => Ret (log', FLeaf)
              end)
        | _ => Ret (log, FMissing)
        end)
  | CFrag t :: rest =>
      Ask (QNamedE t) (fun an =>
        match an with
        | AHandle (Some h) =>
            Ask (QApplies obj h) (fun ab =>
              match ab with
              | ABool true => cexec obj rest log
              | _ => Ret (log, FSkipped)
              end)
        | _ => Ret (log, FSkipped)
        end)
  end.

(** graphql.ParseAndValidate on a chain query *)
Definition chain_validate (c : list cnode) : prog (list nat) :=
  Ask (QRoot RQuery) (fun ar =>
    match ar with
    | AHandle (Some q) => cval 0 (Some q) c
    | _ => Ret []
    end).

(** graphql.Execute on a chain query: validate; if there is no error, execute on the query type *)
Definition chain_prog (c : list cnode) : prog (list nat * option (list (name * name) * cfinal)) :=
  Ask (QRoot RQuery) (fun ar =>
    match ar with
    | AHandle (Some q) =>
        bind (cval 0 (Some q) c) (fun errs =>
          if is_nil errs then bind (cexec q c []) (fun r => Ret (errs, Some r)) else Ret (errs, None))
    | _ => Ret ([], None)
    end).
