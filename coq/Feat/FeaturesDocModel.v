(** * Feat/FeaturesDocModel.v — C13: the validator and the executor on selection SETS, as consumers
    of a schema (programs over [FeaturesModel.ask]).

    Documents: one query operation and named fragment definitions; a selection set holds any number
    of selections: fields with a response key (alias), __typename, inline fragments with or without a
    type condition, spreads of named fragments.

    Hand transcription of
      - validator/type_info.go NewTypeInfo (selection set scopes, field definitions),
        validate_fields.go (field exists on the parent type, leaf / composite subselection rule),
        validate_fragments.go validateTypeCondition, validateSpread + getPossibleTypes, for
        operations and for fragment definitions                       [sval], [svals], [sdoc_val]
      - executor/executor.go collectFieldsImpl (visitedFragments, doesFragmentTypeApply),
        executeSelections (GetField, a missing field is dropped; the first field error that is not
        caught ends the selection set), executeField / completeValue (non-null, list, leaf, object,
        abstract type resolution with IsTypeOf = comparison of the resolver's tag),
        catchErrorIfNullable                                          [collect], [sexec]
    Equal response keys: the executor's grouping and merging of selection sets IS transcribed
    ([group_entries]); the validator's field-merging RULE is not — the correspondence is for documents
    whose equal keys select the same field of the same scope ([doc_wf] in FeaturesCheck.v), for which
    that rule never fires.  Not transcribed either: arguments,
    variables, directives, mutations, undefined / unused / cyclic fragments.
    The executor recursion is not structural (a spread continues in a fragment definition): explicit
    fuel, explicit [None] = out of fuel.  No proofs in this file. *)
From Coq Require Import List NArith Bool.
From ApiFu Require Import Base.Sexp Feat.FeaturesModel.
Import ListNotations.
Open Scope list_scope.

Inductive sel :=
| SField (id : nat) (key f : name) (sub : sels)      (* key: f sub   — [SNil] = no selection set *)
| STypename (id : nat) (key : name)
| SInline (id : nat) (tc : option name) (sub : sels)
| SSpread (id : nat) (frag : name)
with sels := SNil | SCons (s : sel) (r : sels).

(** [id]s are the source lines: validation errors are reported as the ids of the nodes they point at *)
Record fragdef := { fr_name : name; fr_id : nat; fr_tc : name; fr_sels : sels }.
Record sdoc := { d_frags : list fragdef; d_sels : sels }.

Definition is_snil (l : sels) : bool := match l with SNil => true | _ => false end.

Definition find_frag (frs : list fragdef) (n : name) : option fragdef :=
  find (fun d => bytes_eqb (fr_name d) n) frs.

(** ** validation *)

(** validate_fragments.go validateTypeCondition + the scope type_info.go gives the selection set:
    (errors, scope) *)
Definition vtypecond (at_id : nat) (tc : name) : prog (list nat * option name) :=
  Ask (QNamedV tc) (fun an =>
    match an with
    | AHandle (Some h) =>
        Ask (QKind h) (fun ak =>
          match ak with
          | AKind k => Ret (if is_composite k then [] else [at_id], Some h)
          | _ => Ret ([], None)
          end)
    | _ => Ret ([at_id], None)
    end).

(** validate_fragments.go validateSpread: the error points at the type condition ([at_id]: the
    inline fragment, or the DEFINITION of a named fragment) *)
Definition vspread (at_id : nat) (tc : name) (parent : option name) : prog (list nat) :=
  match parent with
  | None => Ret []                                   (* secondary error only *)
  | Some p =>
      Ask (QNamedV tc) (fun an =>
        match an with
        | AHandle (Some h) =>
            Ask (QKind h) (fun ak =>
              match ak with
              | AKind k =>
                  if is_composite k then
                    Ask (QPossibleV h) (fun pa =>
                      Ask (QPossibleV p) (fun pb =>
                        Ret (match pa, pb with
                             | ANames (Some a), ANames (Some b) => if intersects a b then [] else [at_id]
                             | _, _ => []
                             end)))
                  else Ret []
              | _ => Ret []
              end)
        | _ => Ret []
        end)
  end.

Section Validate.
  Variable frs : list fragdef.

  Fixpoint sval (parent : option name) (s : sel) {struct s} : prog (list nat) :=
    match s with
    | STypename _ _ => Ret []
    | SField id _ f sub =>
        (* without a definition the field counts as a leaf: "cannot have a subselection" *)
        let untyped := bind (svals None sub) (fun es => Ret (if is_snil sub then es else id :: es)) in
        match parent with
        | None => untyped
        | Some p =>
            Ask (QKind p) (fun ak =>
              match ak with
              | AKind (Some KObject) | AKind (Some KInterface) =>
                  Ask (QField p f) (fun af =>
                    match af with
                    | AField (Some fd) =>
                        Ask (QKind (base (f_type fd))) (fun ab =>
                          let comp := match ab with AKind k => is_composite k | _ => false end in
                          let here := if comp then is_snil sub else negb (is_snil sub) in
                          bind (svals (Some (base (f_type fd))) sub)
                               (fun es => Ret (if here then id :: es else es)))
                    | _ => bind (svals None sub) (fun es => Ret (id :: es))
                    end)
              | AKind (Some KUnion) => bind (svals None sub) (fun es => Ret (id :: es))
              | _ => untyped
              end)
        end
    | SInline _ None sub => svals parent sub
    | SInline id (Some tc) sub =>
        bind (vtypecond id tc) (fun r =>
          bind (vspread id tc parent) (fun e2 =>
            bind (svals (snd r) sub) (fun e3 => Ret (fst r ++ e2 ++ e3))))
    | SSpread id fr =>
        match find_frag frs fr with
        | Some d => vspread (fr_id d) (fr_tc d) parent
        | None => Ret [id]                           (* undefined fragment *)
        end
    end
  with svals (parent : option name) (l : sels) {struct l} : prog (list nat) :=
    match l with
    | SNil => Ret []
    | SCons s r => bind (sval parent s) (fun e1 => bind (svals parent r) (fun e2 => Ret (e1 ++ e2)))
    end.

  Definition sval_def (d : fragdef) : prog (list nat) :=
    bind (vtypecond (fr_id d) (fr_tc d)) (fun r =>
      bind (svals (snd r) (fr_sels d)) (fun e => Ret (fst r ++ e))).

  Fixpoint sval_defs (ds : list fragdef) : prog (list nat) :=
    match ds with
    | [] => Ret []
    | d :: r => bind (sval_def d) (fun e1 => bind (sval_defs r) (fun e2 => Ret (e1 ++ e2)))
    end.
End Validate.

(** the node ids at which a primary validation error is reported (with repetitions, any order) *)
Definition sdoc_val (q : name) (d : sdoc) : prog (list nat) :=
  bind (svals (d_frags d) (Some q) (d_sels d)) (fun e1 =>
    bind (sval_defs (d_frags d) (d_frags d)) (fun e2 => Ret (e1 ++ e2))).

(** ** execution *)
Inductive rval :=
| RNull | RLeaf | RTypename (o : name) | RList (v : rval) | RObj (fs : list (name * rval)).

(** a collected field: response key, field name ([None]: __typename), its selection set *)
Record centry := { ce_key : name; ce_field : option name; ce_sub : sels }.

Definition elog := list (name * name).                 (* resolver invocations: (object type, field) *)
(** [None]: out of fuel; [Some (log, None)]: a field error that propagates to the caller *)
Definition eres := option (elog * option rval).

Section Exec.
  Variable frs : list fragdef.

  (** executor.go collectFieldsImpl on an object of type [obj]; the state is (visitedFragments,
      grouped fields so far).  [rec]: the same with less fuel, for the selection set of a fragment *)
  Definition cstate := (list name * list centry)%type.

  Section CollectStep.
    Variable rec : name -> sels -> cstate -> prog (option cstate).

    Fixpoint collect_go (obj : name) (l : sels) (st : cstate) {struct l} : prog (option cstate) :=
      match l with
      | SNil => Ret (Some st)
      | SCons s r =>
          let next (o : option cstate) := match o with Some st' => collect_go obj r st' | None => Ret None end in
          let guarded (tc : name) (body : sels) (st' : cstate) :=
            Ask (QNamedE tc) (fun an =>
              match an with
              | AHandle (Some h) =>
                  Ask (QApplies obj h) (fun ab =>
                    match ab with
                    | ABool true => bind (rec obj body st') next
                    | _ => collect_go obj r st'
                    end)
              | _ => collect_go obj r st'
              end) in
          match s with
          | SField _ key f sub =>
              collect_go obj r (fst st, snd st ++ [{| ce_key := key; ce_field := Some f; ce_sub := sub |}])
          | STypename _ key =>
              collect_go obj r (fst st, snd st ++ [{| ce_key := key; ce_field := None; ce_sub := SNil |}])
          | SInline _ None sub => bind (rec obj sub st) next
          | SInline _ (Some tc) sub => guarded tc sub st
          | SSpread _ fr =>
              if mem fr (fst st) then collect_go obj r st
              else
                let st' := (fr :: fst st, snd st) in
                match find_frag frs fr with
                | None => collect_go obj r st'
                | Some d => guarded (fr_tc d) (fr_sels d) st'
                end
          end
      end.
  End CollectStep.

  Fixpoint collect (fuel : nat) : name -> sels -> cstate -> prog (option cstate) :=
    match fuel with
    | O => fun _ _ _ => Ret None
    | Datatypes.S n => collect_go (collect n)
    end.

  (** grouped_field_set.go Append + mergeSelectionSets: fields of one response key form one group,
      in the order of the first occurrence; the group is resolved once, through the definition of
      its first field, and its selection set is the concatenation of the members' selection sets *)
  Fixpoint sels_app (a b : sels) : sels :=
    match a with SNil => b | SCons s r => SCons s (sels_app r b) end.
  Fixpoint group_add (e : centry) (g : list centry) : list centry :=
    match g with
    | [] => [e]
    | x :: r =>
        if bytes_eqb (ce_key e) (ce_key x)
        then {| ce_key := ce_key x; ce_field := ce_field x; ce_sub := sels_app (ce_sub x) (ce_sub e) |} :: r
        else x :: group_add e r
    end.
  Definition group_entries (es : list centry) : list centry := fold_left (fun g e => group_add e g) es [].

  Section Step.
    (** executeSelections with less fuel *)
    Variable rec : name -> sels -> elog -> prog eres.

    (** executor.go completeValue for the value the harness's resolvers return for a field of type
        [t]: a leaf, an object tagged [f_ret fd], one-element lists around it *)
    Fixpoint complete (fd : field_def) (sub : sels) (t : sty) (log : elog) {struct t} : prog eres :=
      match t with
      | StNonNull t' =>
          bind (complete fd sub t' log) (fun r =>
            Ret (match r with
                 | Some (l, Some RNull) => Some (l, None)        (* "Null result for non-null field." *)
                 | _ => r
                 end))
      | StList t' =>
          bind (complete fd sub t' log) (fun r =>
            Ret (match r with
                 | None => None
                 | Some (l, Some v) => Some (l, Some (RList v))
                 | Some (l, None) => if is_nonnull t' then Some (l, None) else Some (l, Some (RList RNull))
                 end))
      | StNamed b =>
          Ask (QKind b) (fun ak =>
            match ak with
            | AKind (Some KObject) => rec b sub log
            | AKind (Some KInterface) | AKind (Some KUnion) =>
                Ask (QImpls b) (fun ai =>
                  match ai with
                  | ANames (Some cands) =>
                      if mem (f_ret fd) cands then rec (f_ret fd) sub log
                      else Ret (Some (log, None))               (* "Unable to determine object type." *)
                  | _ => Ret (Some (log, None))
                  end)
            | _ => Ret (Some (log, Some RLeaf))
            end)
      end.

    (** the loop of executeSelections over the grouped field set *)
    Fixpoint exec_fields (obj : name) (es : list centry) (log : elog) (out : list (name * rval)) {struct es}
      : prog eres :=
      match es with
      | [] => Ret (Some (log, Some (RObj out)))
      | e :: r =>
          match ce_field e with
          | None => exec_fields obj r log (out ++ [(ce_key e, RTypename obj)])
          | Some f =>
              Ask (QField obj f) (fun af =>
                match af with
                | AField (Some fd) =>
                    bind (complete fd (ce_sub e) (f_type fd) (log ++ [(obj, f)])) (fun r1 =>
                      match r1 with
                      | None => Ret None
                      | Some (log', Some v) => exec_fields obj r log' (out ++ [(ce_key e, v)])
                      | Some (log', None) =>
                          if is_nonnull (f_type fd) then Ret (Some (log', None))
                          else exec_fields obj r log' (out ++ [(ce_key e, RNull)])
                      end)
                | _ => exec_fields obj r log out               (* no such field: dropped *)
                end)
          end
      end.
  End Step.

  (** executor.go executeSelections on an object of type [obj] *)
  Fixpoint sexec (fuel : nat) : name -> sels -> elog -> prog eres :=
    match fuel with
    | O => fun _ _ _ => Ret None
    | Datatypes.S n => fun obj l log =>
        bind (collect n obj l ([], [])) (fun c =>
          match c with
          | None => Ret None
          | Some st => exec_fields (sexec n) obj (group_entries (snd st)) log []
          end)
    end.
End Exec.

(** graphql.ParseAndValidate on a document *)
Definition sdoc_validate (d : sdoc) : prog (list nat) :=
  Ask (QRoot RQuery) (fun ar =>
    match ar with
    | AHandle (Some q) => sdoc_val q d
    | _ => Ret []
    end).

(** graphql.Execute: validate; if there is no error, execute the operation on the query type *)
Definition sdoc_prog (fuel : nat) (d : sdoc) : prog (list nat * option eres) :=
  Ask (QRoot RQuery) (fun ar =>
    match ar with
    | AHandle (Some q) =>
        bind (sdoc_val q d) (fun errs =>
          if is_nil errs then bind (sexec (d_frags d) fuel q (d_sels d) []) (fun r => Ret (errs, Some r))
          else Ret (errs, None))
    | _ => Ret ([], None)
    end).

(** a subscription through API.ServeGraphQLWS (graphqlws.go HandleStart; executor.go subscribe,
    executeSubscriptionEvent): validate with the subscription type as root; subscribe — collect the
    root selection set, exactly one root field, GetField with the connection's features, the resolver
    is invoked once to obtain the source stream —; then every event of the stream executes the
    whole selection set on the subscription type again (the root resolver hands the event on).
    [events]: how many events the stream delivers before it ends.
    Result: (error ids, None = refused by validation | Some None = out of fuel
                       | Some (Some (log, data of each event))) *)
Fixpoint repeat_exec (n : nat) (run1 : elog -> prog eres) (log : elog) (acc : list (option rval))
  : prog (option (elog * list (option rval))) :=
  match n with
  | O => Ret (Some (log, acc))
  | Datatypes.S k =>
      bind (run1 log) (fun r =>
        match r with
        | None => Ret None
        | Some (log', v) => repeat_exec k run1 log' (acc ++ [v])
        end)
  end.

Definition ssub_prog (fuel events : nat) (d : sdoc)
  : prog (list nat * option (option (elog * list (option rval)))) :=
  Ask (QRoot RSubscription) (fun ar =>
    match ar with
    | AHandle (Some s) =>
        bind (sdoc_val s d) (fun errs =>
          if is_nil errs then
            bind (collect (d_frags d) fuel s (d_sels d) ([], [])) (fun c =>
              match option_map (fun st => group_entries (snd st)) c with
              | None => Ret (errs, Some None)
              | Some [e] =>
                  match ce_field e with
                  | Some f =>
                      Ask (QField s f) (fun af =>
                        match af with
                        | AField (Some _) =>
                            bind (repeat_exec events (sexec (d_frags d) fuel s (d_sels d)) [(s, f)] [])
                                 (fun r => Ret (errs, Some r))
                        | _ => Ret (errs, Some (Some ([], [])))   (* "Undefined root subscription field." *)
                        end)
                  | None => Ret (errs, Some (Some ([], [])))
                  end
              | Some _ => Ret (errs, Some (Some ([], [])))        (* not exactly one root field *)
              end)
          else Ret (errs, None))
    | _ => Ret ([], None)
    end).

(** [fitsb frs n l]: the selection set nests at most [n] levels of fields, inline fragments and
    expansions of named fragments.  Some [n] exists exactly when no fragment reachable from [l]
    spreads itself (the validator's cycle rule); [FeaturesDocProofs.sdoc_fuel_suffices]: the executor
    then never runs out of a fuel of at least [n + 2]. *)
Fixpoint fitsb (frs : list fragdef) (n : nat) {struct n} : sels -> bool :=
  fix go (l : sels) : bool :=
    match l with
    | SNil => true
    | SCons s r =>
        match s with
        | STypename _ _ => true
        | SField _ _ _ sub => match n with O => false | Datatypes.S k => fitsb frs k sub end
        | SInline _ _ sub => match n with O => false | Datatypes.S k => fitsb frs k sub end
        | SSpread _ fr =>
            match n with
            | O => false
            | Datatypes.S k => match find_frag frs fr with Some d => fitsb frs k (fr_sels d) | None => true end
            end
        end && go r
    end.

(** a fuel that is enough for every document whose fragments are acyclic: nesting costs one unit
    per level, and no nesting is deeper than the number of nodes of the document *)
Fixpoint sel_size (s : sel) : nat :=
  match s with
  | SField _ _ _ sub => Datatypes.S (sels_size sub)
  | STypename _ _ => 1
  | SInline _ _ sub => Datatypes.S (sels_size sub)
  | SSpread _ _ => 1
  end
with sels_size (l : sels) : nat :=
  match l with SNil => 0 | SCons s r => sel_size s + sels_size r end.

Definition sdoc_fuel (d : sdoc) : nat :=
  2 * (2 + sels_size (d_sels d) + fold_right (fun f a => Datatypes.S (sels_size (fr_sels f)) + a) 0 (d_frags d)).
