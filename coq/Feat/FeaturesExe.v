(** * Feat/FeaturesExe.v — C13 and C01's executor model (coq/Exe, imported read-only).

    C01's model has no feature parameter: its schema has no requirement sets, [get_field] is a
    plain lookup and [impls_of] lists every implementation.  What the real executor does with a
    request's feature set — GetField(name, features), the feature filter in abstract-type
    resolution, type conditions that the validator resolved under the same features — is
    therefore handed to C01's executor as a SCHEMA: the F-view of (S, F),

        view S F  :=  the types the request may see, each with the fields it may see, the
                      interfaces it may see among those it implements, the members it may see;
                      the root operation types it may see.

    (C13's own schema type has no result-coercion data; [leaf] supplies the C01 representation of
    scalars and enums and is arbitrary: erasure does not touch them.)

    [view_erase]: for [schema_ok S] and F ⊆ G the F-view of S IS the G-view of the erased schema —
    as C01 schemas, literally equal.  Hence every function of C01's model, in particular the whole
    request pipeline [run_request], returns the same on both ([exe_view_run_request]): result data,
    errors with paths and locations, out-of-fuel and all.
    What this does not establish: that the real executor on (S, F) behaves as C01's model on
    [view S F].  C01's correspondence check runs without feature sets; the tie for feature gating
    is C13's own (chains, selection sets, subscriptions against [cexec] / [sexec] / [ssub_prog]). *)
From Coq Require Import List NArith Bool.
From ApiFu Require Import Base.Sexp Feat.FeaturesModel Feat.FeaturesSpec Feat.FeaturesProofs.
From ApiFu Require Exe.ExecData Exe.ExecModel.
Import ListNotations.
Open Scope list_scope.

Fixpoint vsty (t : sty) : ExecData.sty :=
  match t with
  | StNamed n => ExecData.StNamed n
  | StList x => ExecData.StList (vsty x)
  | StNonNull x => ExecData.StNonNull (vsty x)
  end.

Section View.
  (** how a scalar or an enum of C13's schema is presented to C01 (any function will do) *)
  Variable leaf : name -> named_type -> ExecData.named_type.

  Definition vfields (F : features) (fs : list (name * field_def)) : list (name * ExecData.sty) :=
    map (fun nf => (fst nf, vsty (f_type (snd nf)))) (filter (fun nf => subset (f_req (snd nf)) F) fs).

  Definition vtype (alive : name -> bool) (F : features) (n : name) (t : named_type) : ExecData.named_type :=
    match t with
    | NObject fs ifs _ => ExecData.NObject (vfields F fs) (filter alive ifs)
    | NInterface fs _ => ExecData.NInterface (vfields F fs)
    | NUnion ms _ => ExecData.NUnion (filter alive ms)
    | NInput _ _ => ExecData.NInput
    | _ => leaf n t
    end.

  Definition view (S : schema) (F : features) : ExecData.schema :=
    let alive := visible S F in
    {| ExecData.types := map (fun nt => (fst nt, vtype alive F (fst nt) (snd nt)))
                             (filter (fun nt => subset (type_req (snd nt)) F) (types S));
       ExecData.query := query S;
       ExecData.mutation := erase_root alive (mutation S);
       ExecData.subscription := erase_root alive (subscription S) |}.

  Section Eq.
    Variable S : schema.
    Variables F G : features.
    Hypothesis Hok : schema_ok S = true.
    Hypothesis HFG : subset F G = true.
    Local Notation alive := (visible S F).
    Local Notation E := (erase S F).

    Lemma alive_E n : visible E G n = alive n.
    Proof. apply visible_erase; [apply (ok_nodup S Hok) | exact HFG]. Qed.

    Lemma filter_alive_E l : filter (visible E G) (filter alive l) = filter alive l.
    Proof.
      rewrite filter_filter. apply filter_ext. intro n. rewrite alive_E. destruct (alive n); reflexivity.
    Qed.

    Lemma vfields_E fs : vfields G (erase_fields F fs) = vfields F fs.
    Proof.
      unfold vfields, erase_fields. rewrite filter_filter. f_equal. apply filter_ext. intro nf.
      destruct (subset (f_req (snd nf)) F) eqn:V; [|reflexivity]. simpl. eapply subset_trans; eauto.
    Qed.

    Lemma vtype_E n t : vtype (visible E G) G n (erase_type alive F t) = vtype alive F n t.
    Proof.
      destruct t as [r | vals r | fs r | fs ifs r | fs r | ms r]; cbn [erase_type vtype]; try reflexivity.
      - rewrite vfields_E, filter_alive_E. reflexivity.
      - rewrite vfields_E. reflexivity.
      - rewrite filter_alive_E. reflexivity.
    Qed.

    Lemma erase_root_E r : erase_root (visible E G) (erase_root alive r) = erase_root alive r.
    Proof.
      destruct r as [n|]; [|reflexivity]. cbn [erase_root]. destruct (alive n) eqn:V; [|reflexivity].
      cbn [erase_root]. rewrite alive_E, V. reflexivity.
    Qed.

    (** the F-view of S is the G-view of the erased schema *)
    Theorem view_erase : view E G = view S F.
    Proof.
      unfold view. f_equal.
      - unfold erase at 2. cbn [types]. rewrite filter_map.
        rewrite (filter_all (fun x : name * named_type => subset (type_req (snd (fst x, erase_type alive F (snd x)))) G)).
        + rewrite map_map. apply map_ext. intros [n t]. cbn [fst snd]. rewrite vtype_E. reflexivity.
        + intros nt Hnt. apply filter_In in Hnt as [_ V]. cbn [snd]. rewrite type_req_erase. eapply subset_trans; eauto.
      - unfold erase. cbn [mutation]. apply erase_root_E.
      - unfold erase. cbn [subscription]. apply erase_root_E.
    Qed.

    (** hence C01's executor — the whole request pipeline — cannot tell them apart *)
    Theorem exe_view_run_request M R opname En fuel W :
      ExecModel.run_request M (view E G) R opname En fuel W = ExecModel.run_request M (view S F) R opname En fuel W.
    Proof. rewrite view_erase. reflexivity. Qed.
  End Eq.
End View.
