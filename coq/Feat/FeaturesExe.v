(** * Feat/FeaturesExe.v — C13 and C01's executor model (coq/ExeA: the tied model, field arguments
    through C05's coercion; imported read-only).

    C01's model has no feature parameter: its schema has no requirement sets, [get_field] is a
    plain lookup and [impls_of] lists every implementation.  What the real executor does with a
    request's feature set — GetField(name, features), the feature filter in abstract-type
    resolution, type conditions that the validator resolved under the same features — is
    therefore handed to C01's executor as a SCHEMA: the F-view of (S, F),

        view S F  :=  the types the request may see, each with the fields it may see, the
                      interfaces it may see among those it implements, the members it may see;
                      the root operation types it may see;
                      [s_argdefs]: the argument definitions of the visible fields of the visible
                      object types (erasure deletes a gated field together with its arguments and
                      leaves the arguments of a surviving field alone);
                      [s_inputs]: the input types — scalars, enums, input objects — the request may
                      see (erasure deletes a gated input type from the registry and leaves the others,
                      with all their fields, alone; the construction rules make every argument type
                      of a visible field visible);
                      [s_dt]: untouched.

    C13's own schema type has no result-coercion data, default values, coercion hooks or DateTime
    oracle; the parameters [leaf], [inp], [adefs], [dt] supply C01's / C05's representation of
    scalars and enums, of the input types, of a field's argument definitions and the DateTime
    table.  They are arbitrary functions of the (name, definition) they describe: erasure does not
    touch those definitions.

    [view_erase]: for [schema_ok S] and F ⊆ G the F-view of S IS the G-view of the erased schema —
    as C01 schemas, literally equal.  Hence every function of C01's model, in particular the whole
    request pipeline [run_request] (operation selection, variable coercion, execution), returns the
    same on both ([exe_view_run_request]).
    That the real executor on (S, F) behaves as C01's model on [view S F] is tied by C13's own
    check: its selection-set documents are also run through [ArgModel.run_request] on the F-view
    ([FeaturesCheck], request kind sdoc). *)
From Coq Require Import List NArith Bool.
From ApiFu Require Import Base.Sexp Feat.FeaturesModel Feat.FeaturesSpec Feat.FeaturesProofs.
From ApiFu Require Val.Values ExeA.ArgData ExeA.ArgModel.
Import ListNotations.
Open Scope list_scope.

Fixpoint vsty (t : sty) : ArgData.sty :=
  match t with
  | StNamed n => ArgData.StNamed n
  | StList x => ArgData.StList (vsty x)
  | StNonNull x => ArgData.StNonNull (vsty x)
  end.

Fixpoint vsty_in (t : sty) : Values.sty :=
  match t with
  | StNamed n => Values.StNamed n
  | StList x => Values.StList (vsty_in x)
  | StNonNull x => Values.StNonNull (vsty_in x)
  end.

Lemma flat_map_map {A B C} (f : B -> list C) (g : A -> B) l : flat_map f (map g l) = flat_map (fun x => f (g x)) l.
Proof. induction l as [|x r IH]; simpl; [reflexivity | rewrite IH; reflexivity]. Qed.

Section View.
  (** how a scalar or an enum of C13's schema is presented to C01 on the output side *)
  Variable leaf : name -> named_type -> ArgData.named_type.
  (** ... how a scalar, enum or input object is presented to C05's input coercion *)
  Variable inp : name -> named_type -> option Values.tdef.
  (** ... the argument definitions of a field (object type, field name, C13's argument list) *)
  Variable adefs : name -> name -> list (name * sty) -> ArgData.argdefs.
  Variable dt : list (bytes * option bytes).

  Definition vfields (F : features) (fs : list (name * field_def)) : list (name * ArgData.sty) :=
    map (fun nf => (fst nf, vsty (f_type (snd nf)))) (filter (fun nf => subset (f_req (snd nf)) F) fs).

  Definition vtype (alive : name -> bool) (F : features) (n : name) (t : named_type) : ArgData.named_type :=
    match t with
    | NObject fs ifs _ => ArgData.NObject (vfields F fs) (filter alive ifs)
    | NInterface fs _ => ArgData.NInterface (vfields F fs)
    | NUnion ms _ => ArgData.NUnion (filter alive ms)
    | NInput _ _ => ArgData.NInput
    | _ => leaf n t
    end.

  Definition vinput (nt : name * named_type) : list (name * Values.tdef) :=
    match snd nt with
    | NScalar _ | NEnum _ _ | NInput _ _ => match inp (fst nt) (snd nt) with Some d => [(fst nt, d)] | None => [] end
    | _ => []
    end.

  Definition vargs (F : features) (nt : name * named_type) : list (name * list (name * ArgData.argdefs)) :=
    match snd nt with
    | NObject fs _ _ =>
        [(fst nt, map (fun nf => (fst nf, adefs (fst nt) (fst nf) (f_args (snd nf))))
                      (filter (fun nf => subset (f_req (snd nf)) F) fs))]
    | _ => []
    end.

  Definition view (S : schema) (F : features) : ArgData.schema :=
    let alive := visible S F in
    let seen := filter (fun nt => subset (type_req (snd nt)) F) (types S) in
    {| ArgData.types := map (fun nt => (fst nt, vtype alive F (fst nt) (snd nt))) seen;
       ArgData.query := query S;
       ArgData.mutation := erase_root alive (mutation S);
       ArgData.subscription := erase_root alive (subscription S);
       ArgData.s_inputs := flat_map vinput seen;
       ArgData.s_dt := dt;
       ArgData.s_argdefs := flat_map (vargs F) seen |}.

  Section Eq.
    Variable S : schema.
    Variables F G : features.
    Hypothesis Hok : schema_ok S = true.
    Hypothesis HFG : subset F G = true.
    Local Notation alive := (visible S F).
    Local Notation E := (erase S F).

    Lemma alive_E n : visible E G n = alive n.
    Proof. apply visible_erase; [apply (ok_nodup S Hok) | exact HFG]. Qed.

    Lemma filter_alive_E l : filter (visible E G) (filter alive l) = filter alive l.
    Proof.
      rewrite filter_filter. apply filter_ext. intro n. rewrite alive_E. destruct (alive n); reflexivity.
    Qed.

    Lemma vfields_E fs : vfields G (erase_fields F fs) = vfields F fs.
    Proof.
      unfold vfields, erase_fields. rewrite filter_filter. f_equal. apply filter_ext. intro nf.
      destruct (subset (f_req (snd nf)) F) eqn:V; [|reflexivity]. simpl. eapply subset_trans; eauto.
    Qed.

    Lemma vtype_E n t : vtype (visible E G) G n (erase_type alive F t) = vtype alive F n t.
    Proof.
      destruct t as [r | vals r | fs r | fs ifs r | fs r | ms r]; cbn [erase_type vtype]; try reflexivity.
      - rewrite vfields_E, filter_alive_E. reflexivity.
      - rewrite vfields_E. reflexivity.
      - rewrite filter_alive_E. reflexivity.
    Qed.

    Lemma erase_root_E r : erase_root (visible E G) (erase_root alive r) = erase_root alive r.
    Proof.
      destruct r as [n|]; [|reflexivity]. cbn [erase_root]. destruct (alive n) eqn:V; [|reflexivity].
      cbn [erase_root]. rewrite alive_E, V. reflexivity.
    Qed.

    Lemma seen_E :
      filter (fun nt => subset (type_req (snd nt)) G) (types E)
      = map (fun nt => (fst nt, erase_type alive F (snd nt))) (filter (fun nt => subset (type_req (snd nt)) F) (types S)).
    Proof.
      unfold erase at 1. cbn [types]. rewrite filter_map.
      rewrite (filter_all (fun x : name * named_type => subset (type_req (snd (fst x, erase_type alive F (snd x)))) G)); [reflexivity|].
      intros nt Hnt. apply filter_In in Hnt as [_ V]. cbn [snd]. rewrite type_req_erase. eapply subset_trans; eauto.
    Qed.

    Lemma vinput_E nt : vinput (fst nt, erase_type alive F (snd nt)) = vinput nt.
    Proof. destruct nt as [n t]. destruct t; reflexivity. Qed.

    Lemma vargs_E nt : vargs G (fst nt, erase_type alive F (snd nt)) = vargs F nt.
    Proof.
      destruct nt as [n t]. destruct t as [r | vals r | fs r | fs ifs r | fs r | ms r]; try reflexivity.
      unfold vargs. cbn [fst snd erase_type]. unfold erase_fields. rewrite filter_filter. do 3 f_equal.
      apply filter_ext. intro nf. destruct (subset (f_req (snd nf)) F) eqn:V; [|reflexivity]. simpl. eapply subset_trans; eauto.
    Qed.

    (** the F-view of S is the G-view of the erased schema *)
    Theorem view_erase : view E G = view S F.
    Proof.
      unfold view. cbv zeta. rewrite seen_E. f_equal.
      - rewrite map_map. apply map_ext. intros [n t]. cbn [fst snd]. rewrite vtype_E. reflexivity.
      - unfold erase. cbn [mutation]. apply erase_root_E.
      - unfold erase. cbn [subscription]. apply erase_root_E.
      - rewrite flat_map_map. apply flat_map_ext. intro nt. apply vinput_E.
      - rewrite flat_map_map. apply flat_map_ext. intro nt. apply vargs_E.
    Qed.

    (** hence C01's executor — the whole request pipeline — cannot tell them apart *)
    Theorem exe_view_run_request M R opname raw fuel W :
      ArgModel.run_request M (view E G) R opname raw fuel W = ArgModel.run_request M (view S F) R opname raw fuel W.
    Proof. rewrite view_erase. reflexivity. Qed.
  End Eq.
End View.
