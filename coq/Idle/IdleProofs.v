(** * Idle/IdleProofs.v — C15: invariants of the request LTS over all interleavings, refinement of
    the Spec monitor, deadlock freedom, termination, goroutine release. *)
From Coq Require Import List NArith ZArith Bool Arith Lia.
From ApiFu Require Import Idle.IdleModel Idle.IdleSpec.
Import ListNotations.

(** ** Generic lemmas *)

Lemma upd_same {A} (f : nat -> A) i v : upd f i v i = v.
Proof. unfold upd. now rewrite Nat.eqb_refl. Qed.

Lemma upd_other {A} (f : nat -> A) i v j : j <> i -> upd f i v j = f j.
Proof. unfold upd. intro H. destruct (Nat.eqb_spec j i); congruence. Qed.

Lemma upd_cases {A} (f : nat -> A) i v j : (j = i /\ upd f i v j = v) \/ (j <> i /\ upd f i v j = f j).
Proof. destruct (Nat.eq_dec j i); [left | right]; split; auto; subst; auto using upd_same, upd_other. Qed.

Lemma upd_list_in (f : nat -> bool) l j : In j l -> upd_list f l true j = true.
Proof.
  unfold upd_list. revert f. induction l as [|a l IH]; intros f H; simpl in *; [tauto|].
  destruct (Nat.eq_dec j a) as [->|Hne].
  - clear IH H. assert (G : forall g, g a = true -> fold_left (fun g i => upd g i true) l g a = true).
    { induction l as [|b l IHl]; intros g Hg; simpl; auto. apply IHl. destruct (upd_cases g b true a) as [[_ E]|[_ E]]; rewrite E; auto. }
    apply G. apply upd_same.
  - destruct H as [->|H]; [congruence|]. now apply IH.
Qed.

Lemma upd_list_notin (f : nat -> bool) l j : ~ In j l -> upd_list f l true j = f j.
Proof.
  unfold upd_list. revert f. induction l as [|a l IH]; intros f H; simpl in *; auto.
  rewrite IH by tauto. apply upd_other. intro; subst; tauto.
Qed.

Lemma list_eqb_eq a b : list_eqb a b = true <-> a = b.
Proof.
  revert b. induction a as [|x a IH]; intros [|y b]; simpl; split; intro H; try congruence; try discriminate.
  - apply andb_true_iff in H as [H1 H2]. apply Nat.eqb_eq in H1. apply IH in H2. congruence.
  - inversion H; subst. apply andb_true_iff; split; [apply Nat.eqb_refl | now apply IH].
Qed.

Lemma is_nil_true {A} (l : list A) : is_nil l = true <-> l = [].
Proof. destruct l; simpl; split; congruence. Qed.

Lemma mem_In x l : mem x l = true <-> In x l.
Proof.
  unfold mem. rewrite existsb_exists. split.
  - intros [y [Hy E]]. apply Nat.eqb_eq in E. now subst.
  - intro H. exists x. split; auto. apply Nat.eqb_refl.
Qed.

Lemma mem_false x l : mem x l = false <-> ~ In x l.
Proof. rewrite <- mem_In. destruct (mem x l); split; congruence. Qed.

Lemma nodupb_NoDup l : nodupb l = true -> NoDup l.
Proof.
  induction l as [|x l IH]; simpl; intro H; constructor.
  - apply andb_true_iff in H as [H _]. apply negb_true_iff in H. now apply mem_false in H.
  - apply IH. now apply andb_true_iff in H as [_ H].
Qed.

Lemma NoDup_app_inv {A} (l l' : list A) :
  NoDup (l ++ l') -> NoDup l /\ NoDup l' /\ (forall x, In x l -> ~ In x l').
Proof.
  induction l as [|a l IH]; simpl; intro ND.
  - repeat split; auto. constructor.
  - inversion ND as [|? ? Ha ND']; subst. destruct (IH ND') as [N1 [N2 D]].
    repeat split; auto.
    + constructor; auto. intro H. apply Ha. apply in_or_app. now left.
    + intros x [->|Hx]; auto. intro H. apply Ha. apply in_or_app. now right.
Qed.

Lemma NoDup_app_intro {A} (l : list A) x : NoDup l -> ~ In x l -> NoDup (l ++ [x]).
Proof.
  induction 1 as [|a l Ha ND IH]; simpl; intro H.
  - constructor; auto. constructor.
  - constructor.
    + intro X. apply in_app_or in X as [X|[X|[]]]; auto.
    + apply IH. tauto.
Qed.

Lemma NoDup_flat_map_disjoint {A} (f : A -> list nat) l x y a :
  NoDup (flat_map f l) -> In x l -> In y l -> In a (f x) -> In a (f y) -> x = y.
Proof.
  induction l as [|z l IH]; simpl; intros ND Hx Hy Hax Hay; [tauto|].
  destruct (NoDup_app_inv _ _ ND) as [_ [ND2 D]].
  destruct Hx as [->|Hx], Hy as [->|Hy]; auto.
  - exfalso. apply (D a Hax). apply in_flat_map. eauto.
  - exfalso. apply (D a Hay). apply in_flat_map. eauto.
Qed.

Lemma NoDup_flat_map_each {A} (f : A -> list nat) l x :
  NoDup (flat_map f l) -> In x l -> NoDup (f x).
Proof.
  induction l as [|z l IH]; simpl; intros ND Hx; [tauto|].
  destruct (NoDup_app_inv _ _ ND) as [N1 [N2 _]].
  destruct Hx as [->|Hx]; auto.
Qed.

Lemma map_fst_filter {A B} (g : A -> bool) (l : list (A * B)) :
  map fst (filter (fun e => g (fst e)) l) = filter g (map fst l).
Proof. induction l as [|[a b] l IH]; simpl; auto. destruct (g a); simpl; now rewrite IH. Qed.

Lemma NoDup_filter {A} (g : A -> bool) l : NoDup l -> NoDup (filter g l).
Proof.
  induction 1 as [|x l Hx ND IH]; simpl; [constructor|].
  destruct (g x); auto. constructor; auto. intro H. apply filter_In in H. tauto.
Qed.

Lemma nth_error_In_idx {A} (l : list A) x : In x l -> exists i, nth_error l i = Some x.
Proof. apply In_nth_error. Qed.

Lemma NoDup_nth_error_inj {A} (l : list A) i j x :
  NoDup l -> nth_error l i = Some x -> nth_error l j = Some x -> i = j.
Proof.
  intros ND Hi Hj. apply (proj1 (NoDup_nth_error l) ND); [|congruence].
  apply nth_error_Some. congruence.
Qed.

Lemma Forall2_imp {A B} (R1 R2 : A -> B -> Prop) l1 l2 :
  (forall a b, R1 a b -> R2 a b) -> Forall2 R1 l1 l2 -> Forall2 R2 l1 l2.
Proof. intros H F. induction F; constructor; auto. Qed.

(** ** [deliver_all] and [mon_deliver] *)

Lemma deliver_all_spec ch ds rs :
  NoDup ds -> (forall d, In d ds -> ch d = None) -> length rs <= length ds ->
  exists ch', deliver_all ch ds rs = Some ch' /\
    (forall d, ~ In d ds -> ch' d = ch d) /\
    (forall i d, nth_error ds i = Some d -> ch' d = nth_error rs i).
Proof.
  revert ch rs. induction ds as [|d ds IH]; intros ch rs ND Hn Hl.
  - destruct rs; simpl in *; [|lia]. exists ch. repeat split; auto. intros [|i] d H; discriminate.
  - destruct rs as [|r rs].
    + exists ch. simpl. repeat split; auto.
      intros [|i] d' H; simpl in *.
      * inversion H; subst. apply Hn. now left.
      * apply Hn. right. eapply nth_error_In; eauto.
    + simpl. rewrite (Hn d) by now left. inversion ND as [|? ? Hd ND']; subst.
      destruct (IH (upd ch d (Some r)) rs ND') as [ch' [E [H1 H2]]].
      * intros d' Hd'. rewrite upd_other; [apply Hn; now right | intro; subst; tauto].
      * simpl in Hl. lia.
      * exists ch'. split; auto. split.
        -- intros d' Hd'. rewrite H1 by (simpl in Hd'; tauto). apply upd_other. intro; subst. apply Hd'. now left.
        -- intros [|i] d' Hi; simpl in *.
           ++ inversion Hi; subst. rewrite H1 by auto. apply upd_same.
           ++ eauto.
Qed.

Lemma mon_deliver_spec k its call dlv i ws rs :
  NoDup ws -> (forall w, In w ws -> call w = None /\ dlv w = None) -> length rs = length ws ->
  exists call' dlv', mon_deliver k its call dlv i ws rs = Some (call', dlv') /\
    (forall w, ~ In w ws -> call' w = call w /\ dlv' w = dlv w) /\
    (forall j w, nth_error ws j = Some w -> call' w = Some (k, its, i + j) /\ dlv' w = nth_error rs j).
Proof.
  revert call dlv i rs. induction ws as [|w ws IH]; intros call dlv i rs ND Hn Hl.
  - destruct rs; simpl in *; [|lia]. exists call, dlv. split; [reflexivity|]. split; [auto|]. intros [|j] w' Hj; discriminate.
  - destruct rs as [|r rs]; simpl in Hl; [lia|]. simpl.
    destruct (Hn w) as [E1 E2]; [now left|]. rewrite E1, E2.
    inversion ND as [|? ? Hw ND']; subst.
    destruct (IH (upd call w (Some (k, its, i))) (upd dlv w (Some r)) (S i) rs ND') as [call' [dlv' [E [H1 H2]]]].
    + intros w' Hw'. rewrite !upd_other by (intro; subst; tauto). apply Hn. now right.
    + lia.
    + exists call', dlv'. split; auto. split.
      * intros w' Hw'. destruct (H1 w') as [A B]; [simpl in Hw'; tauto|]. rewrite A, B.
        rewrite !upd_other by (intro; subst; apply Hw'; now left). auto.
      * intros [|j] w' Hj; simpl in *.
        -- inversion Hj; subst. destruct (H1 w' Hw) as [A B]. rewrite A, B, !upd_same. rewrite Nat.add_0_r. auto.
        -- destruct (H2 j w' Hj) as [A B]. rewrite A, B. split; auto. f_equal. f_equal. lia.
Qed.

(** ** [chain_ref] *)

Lemma chain_ref_mono cf (dl dl' : nat -> option result) inn acc r :
  (forall q x, dl q = Some x -> dl' q = Some x) ->
  chain_ref cf dl inn acc = Some r -> chain_ref cf dl' inn acc = Some r.
Proof.
  intro M. revert acc. induction inn as [|q inn IH]; intros acc H; simpl in *; auto.
  destruct (dl q) as [[v|e]|] eqn:E; try discriminate; rewrite (M _ _ E); auto.
Qed.

Lemma chain_ref_prefix cf dl pre vals suf acc :
  Forall2 (fun q v => dl q = Some (ROk v)) pre vals ->
  chain_ref cf dl (pre ++ suf) acc = chain_ref cf dl suf (acc ++ vals).
Proof.
  intro F. revert acc. induction F as [|q v pre vals Hq F IH]; intro acc; simpl.
  - now rewrite app_nil_r.
  - rewrite Hq, IH, <- app_assoc. reflexivity.
Qed.

(** ** Programs *)

Definition gokind (k : kind) : bool := match k with KGo | KChain _ => true | _ => false end.

Definition active (g : gst) : Prop :=
  match g with GComputing | GWaiting _ _ | GFinished _ | GParked _ => True | _ => False end.

Definition delivered (s : state) (w : nat) : Prop := st_chan s w <> None \/ st_taken s w = true.

Section Prog.
Variable p : prog.
Hypothesis WF : wf_items p = true.
Hypothesis BF : bfun_ok p.

Lemma lookup_ids w it : lookup p w = Some it -> In w (ids p).
Proof.
  unfold lookup, ids. intro H. apply in_seq. split; [lia|]. simpl.
  apply nth_error_Some. congruence.
Qed.

Lemma ids_lookup w : In w (ids p) -> exists it, lookup p w = Some it.
Proof.
  unfold lookup, ids. intro H. apply in_seq in H. destruct (nth_error (p_items p) w) eqn:E; eauto.
  apply nth_error_None in E. lia.
Qed.

Lemma wf_item_of w it : lookup p w = Some it -> wf_item p w it = true.
Proof.
  intro H. unfold wf_items in WF. apply andb_true_iff in WF as [W _].
  rewrite forallb_forall in W. specialize (W w (lookup_ids _ _ H)). now rewrite H in W.
Qed.

Lemma wf_chain c it inn : lookup p c = Some it -> it_kind it = KChain inn ->
  inn <> [] /\ forall q, In q inn ->
     q < c /\ exists iq, lookup p q = Some iq /\ it_inner iq = true /\ is_promise (it_kind iq) = true.
Proof.
  intros H K. pose proof (wf_item_of _ _ H) as W. unfold wf_item in W. rewrite K in W.
  apply andb_true_iff in W as [W _]. apply andb_true_iff in W as [W1 W2]. split.
  - destruct inn; [discriminate|congruence].
  - intros q Hq. rewrite forallb_forall in W2. specialize (W2 q Hq).
    apply andb_true_iff in W2 as [A B]. apply Nat.ltb_lt in A. split; auto.
    destruct (lookup p q) as [iq|]; [|discriminate]. apply andb_true_iff in B as [B1 B2]. eauto.
Qed.

Lemma wf_sync w it : lookup p w = Some it -> it_kind it = KSync -> it_inner it = false.
Proof.
  intros H K. pose proof (wf_item_of _ _ H) as W. unfold wf_item in W. rewrite K in W.
  apply andb_true_iff in W as [W _]. now apply negb_true_iff in W.
Qed.

Lemma inner_of_chain c it inn : lookup p c = Some it -> it_kind it = KChain inn -> inner_of p c = inn.
Proof. intros H K. unfold inner_of. now rewrite H, K. Qed.

Lemma inner_of_in_ids c q : In q (inner_of p c) -> In c (ids p).
Proof.
  unfold inner_of. destruct (lookup p c) eqn:E; [|simpl; tauto]. intros _. eapply lookup_ids; eauto.
Qed.

Lemma all_inner_nodup : NoDup (all_inner p).
Proof. unfold wf_items in WF. apply andb_true_iff in WF as [_ W]. now apply nodupb_NoDup. Qed.

Lemma inner_unique c1 c2 q : In q (inner_of p c1) -> In q (inner_of p c2) -> c1 = c2.
Proof.
  intros H1 H2. eapply (NoDup_flat_map_disjoint (inner_of p) (ids p)); eauto using all_inner_nodup, inner_of_in_ids.
Qed.

Lemma inner_nodup c : NoDup (inner_of p c).
Proof.
  destruct (inner_of p c) as [|q l] eqn:E; [constructor|]. rewrite <- E.
  eapply (NoDup_flat_map_each (inner_of p) (ids p)); [apply all_inner_nodup|].
  apply (inner_of_in_ids c q). rewrite E. now left.
Qed.

(** ** The invariant of the model *)

Record Inv (s : state) : Prop := mkInv {
  c_created : forall w, st_created s w = true -> exists it, lookup p w = Some it;
  c_fresh : forall w, st_created s w = false ->
      st_gor s w = GNone /\ st_chan s w = None /\ st_taken s w = false /\ st_abandoned s w = false;
  c_gor_none : forall w it, lookup p w = Some it -> gokind (it_kind it) = false -> st_gor s w = GNone;
  c_gor_some : forall w it, lookup p w = Some it -> gokind (it_kind it) = true -> st_created s w = true -> st_gor s w <> GNone;
  c_comp_kind : forall w, st_gor s w = GComputing -> exists it, lookup p w = Some it /\ it_kind it = KGo;
  c_wait_kind : forall w j vals, st_gor s w = GWaiting j vals -> exists it inn, lookup p w = Some it /\ it_kind it = KChain inn;
  c_pend_shape : forall a b, In (a, b) (st_pend s) ->
      a = b /\ st_created s a = true /\ exists it k, lookup p a = Some it /\ it_kind it = KBatch k;
  c_pend_nodup : NoDup (map fst (st_pend s));
  c_pend_undel : forall a, In a (map fst (st_pend s)) -> st_chan s a = None /\ st_taken s a = false;
  c_batch : forall w it k, lookup p w = Some it -> it_kind it = KBatch k -> st_created s w = true ->
      In w (map fst (st_pend s)) \/ delivered s w;
  c_done : forall w, st_gor s w = GDone -> delivered s w;
  c_active : forall w, active (st_gor s w) -> st_chan s w = None /\ st_taken s w = false;
  c_chan_taken : forall w, st_chan s w <> None -> st_taken s w = false;
  c_wait : forall c it inn j vals, lookup p c = Some it -> it_kind it = KChain inn -> st_gor s c = GWaiting j vals ->
      j < length inn /\ length vals = j /\
      forall i q, j <= i -> nth_error inn i = Some q -> st_taken s q = false;
  c_chain_created : forall c it inn, lookup p c = Some it -> it_kind it = KChain inn -> st_created s c = true ->
      forall q, In q inn -> st_created s q = true;
  c_inner_untaken : forall c it inn, lookup p c = Some it -> it_kind it = KChain inn -> st_created s c = false ->
      forall q, In q inn -> st_taken s q = false;
  c_chained : forall w, st_chained s w = true -> exists it, lookup p w = Some it /\ it_inner it = true;
  c_top : st_phase s = PTop -> exists w, In w (ids p) /\ live p s w = true /\ chan_empty s w = true;
  c_drain : st_phase s = PDrain -> st_pend s = [];
  c_exited : forall w, st_gor s w = GExited -> st_phase s = PEnded;
  c_nopanic : st_phase s <> PPanic
}.

(** ** The simulation relation between the model and the Spec monitor *)

Record Sim (s : state) (m : mon) : Prop := mkSim {
  s_created : forall w, mem w (m_created m) = st_created s w;
  s_unflushed : m_unflushed m = map fst (st_pend s);
  s_round : match m_round m with
            | None => st_phase s = PPoll \/ st_phase s = PEnded
            | Some ks => (st_phase s = PTop \/ st_phase s = PFlush \/ st_phase s = PDrain) /\
                         forall k, In k ks -> entries_of p k (st_pend s) = []
            end;
  s_fresh : forall w, st_created s w = false -> m_dlv m w = None /\ m_call m w = None;
  s_chan : forall w r, st_chan s w = Some r -> m_dlv m w = Some r;
  s_pend_none : forall a, In a (map fst (st_pend s)) -> m_dlv m a = None /\ m_call m a = None;
  s_active_none : forall w, active (st_gor s w) -> m_dlv m w = None;
  s_taken : forall w it, lookup p w = Some it -> it_inner it = false -> m_taken m w = st_taken s w;
  s_abandoned : forall w, m_abandoned m w = st_abandoned s w;
  s_result : forall w it r, lookup p w = Some it -> (st_gor s w = GFinished r \/ st_gor s w = GParked r) ->
      match it_kind it with
      | KGo => r = it_res it
      | KChain inn => chain_ref (p_cfun p w) (m_dlv m) inn [] = Some r
      | _ => False
      end;
  s_wait : forall c it inn j vals, lookup p c = Some it -> it_kind it = KChain inn -> st_gor s c = GWaiting j vals ->
      Forall2 (fun q v => m_dlv m q = Some (ROk v)) (firstn j inn) vals
}.

Lemma inv_init : Inv init.
Proof.
  constructor; simpl; intros; try discriminate; try tauto; try congruence; auto.
  all: try (now constructor).
  all: try (destruct H; [congruence|discriminate]).
Qed.

Lemma sim_init : Sim init mon_init.
Proof.
  constructor; simpl; intros; try discriminate; try tauto; auto.
  all: try (destruct H0; discriminate).
Qed.

(** ** Preservation, label by label *)

Ltac cases_upd :=
  repeat match goal with
  | H : context [upd ?f ?i ?v ?j] |- _ =>
      let E := fresh "E" in let N := fresh "N" in
      destruct (upd_cases f i v j) as [[N E]|[N E]]; rewrite E in H; clear E; try subst j
  | |- context [upd ?f ?i ?v ?j] =>
      let E := fresh "E" in let N := fresh "N" in
      destruct (upd_cases f i v j) as [[N E]|[N E]]; rewrite E; clear E; try subst j
  end.

Ltac use_facts :=
  repeat match goal with
  | F : forall it, lookup ?p ?w = Some it -> _, L : lookup ?p ?w = Some ?i |- _ => pose proof (F _ L); clear F
  end.

Ltac auto_inv :=
  intros; unfold delivered, chan_empty in *; simpl in *; cases_upd; simpl in *;
  eauto; try discriminate; try congruence; try tauto;
  try solve [ match goal with H : context [chain_ref] |- _ => eapply H; eauto end ];
  try solve [ match goal with H : forall w, st_gor _ w = GExited -> _ , G : st_gor _ ?w = GExited |- _ =>
                pose proof (H w G); congruence end ];
  try (use_facts; simpl in *; eauto; try discriminate; try congruence; try tauto).

Lemma not_created_gor s w : Inv s -> st_gor s w <> GNone -> st_created s w = true.
Proof.
  intros I H. destruct (st_created s w) eqn:E; auto. destruct (c_fresh s I w E) as [G _]. congruence.
Qed.

Lemma gor_facts s w : Inv s -> st_gor s w <> GNone ->
  st_created s w = true /\ (forall it, lookup p w = Some it -> gokind (it_kind it) = true).
Proof.
  intros IV H. split; [now apply not_created_gor|].
  intros it L. destruct (gokind (it_kind it)) eqn:E; auto. exfalso. apply H. eapply c_gor_none; eauto.
Qed.

Lemma pres_finish s m w s' :
  Inv s -> Sim s m -> do_finish p s w = Some s' -> Inv s' /\ Sim s' m.
Proof.
  intros IV S H. unfold do_finish in H.
  destruct (st_gor s w) eqn:G; try discriminate. destruct (lookup p w) as [it|] eqn:L; [|discriminate].
  inversion H; subst s'; clear H.
  destruct (c_comp_kind s IV w G) as [it' [L' K]]. rewrite L in L'. inversion L'; subst it'; clear L'.
  split.
  - destruct IV. constructor; try solve [auto_inv].
    + intros w0 C; simpl in *. destruct (c_fresh0 w0 C) as [A B]. split; auto. cases_upd; auto. congruence.
    + intros w0 it0 L0 K0; simpl; cases_upd; eauto. rewrite L in L0; inversion L0; subst; rewrite K in K0; discriminate.
    + intros w0 A; simpl in *; cases_upd; eauto. apply c_active0. rewrite G. exact I.
  - destruct S. constructor; try solve [auto_inv].
    + intros w0 A; simpl in *; cases_upd; eauto. apply s_active_none0. rewrite G. exact I.
    + intros w0 it0 r L0 G0; simpl in *; cases_upd; [|eapply s_result0; eauto].
      rewrite L in L0. inversion L0; subst it0. rewrite K. destruct G0 as [G0|G0]; inversion G0; auto.
Qed.

Lemma pres_arrive s m w s' :
  Inv s -> Sim s m -> do_arrive s w = Some s' -> Inv s' /\ Sim s' m.
Proof.
  intros IV S H. unfold do_arrive in H.
  destruct (st_gor s w) eqn:G; try discriminate.
  inversion H; subst s'; clear H.
  destruct (gor_facts s w IV) as [F1 F2]; [congruence|].
  assert (F3 : st_chan s w = None /\ st_taken s w = false) by (apply (c_active s IV); rewrite G; exact I).
  split.
  - destruct IV. constructor; try solve [auto_inv].
  - assert (A0 : m_dlv m w = None) by (apply (s_active_none s m S); rewrite G; exact I).
    destruct S. constructor; try solve [auto_inv].
    + intros w0 it0 r0 L0 G0; simpl in *; cases_upd; [|eapply s_result0; eauto].
      destruct G0 as [G0|G0]; inversion G0; subst. eapply s_result0; eauto.
Qed.

Lemma pres_exit fx s m w s' :
  Inv s -> Sim s m -> do_exit fx s w = Some s' -> Inv s' /\ Sim s' m.
Proof.
  intros IV S H. unfold do_exit in H.
  destruct (st_phase s) eqn:P; try discriminate. destruct (v_fix fx); [|discriminate].
  assert (A : active (st_gor s w) /\ s' = set_gor s w GExited).
  { destruct (st_gor s w); try discriminate; inversion H; split; auto; exact I. }
  clear H. destruct A as [A ->].
  destruct (gor_facts s w IV) as [F1 F2]; [destruct (st_gor s w); simpl in A; try tauto; congruence|].
  pose proof (c_active s IV w A) as F3.
  split.
  - destruct IV. constructor; try solve [auto_inv].
  - destruct S. constructor; try solve [auto_inv].
    + intros w0 it0 r0 L0 G0; simpl in *; cases_upd; [destruct G0; discriminate|eapply s_result0; eauto].
Qed.

Lemma pres_cancel s m s' :
  Inv s -> Sim s m -> do_cancel s = Some s' -> Inv s' /\ Sim s' m.
Proof.
  intros IV S H. unfold do_cancel in H. destruct (st_cancelled s); [discriminate|].
  inversion H; subst s'; clear H. split.
  - destruct IV. constructor; try solve [auto_inv].
  - destruct S. constructor; try solve [auto_inv].
Qed.

Lemma live_inv s w : live p s w = true ->
  exists it, lookup p w = Some it /\ is_promise (it_kind it) = true /\ it_inner it = false /\
             st_created s w = true /\ st_taken s w = false /\ st_abandoned s w = false.
Proof.
  unfold live. destruct (lookup p w) as [it|]; [|discriminate]. intro H.
  repeat (apply andb_true_iff in H as [H ?]).
  exists it. repeat split; auto; now apply negb_true_iff.
Qed.

Lemma pres_abandon s m w s' :
  Inv s -> Sim s m -> do_abandon p s w = Some s' ->
  exists m', mon_step p m (LAbandon w) = Some m' /\ Inv s' /\ Sim s' m'.
Proof.
  intros IV S H. unfold do_abandon in H.
  destruct (st_phase s) eqn:P; try discriminate. destruct (live p s w) eqn:LV; [|discriminate].
  inversion H; subst s'; clear H. simpl. eexists; split; [reflexivity|].
  destruct (live_inv _ _ LV) as [it [L [PR [NI [CR [NT NA]]]]]].
  split.
  - destruct IV. constructor; try solve [auto_inv].
  - destruct S. constructor; try solve [auto_inv].
Qed.

Lemma pres_consume s m w s' :
  Inv s -> Sim s m -> do_consume p s w = Some s' ->
  exists m', mon_step p m (LConsume w) = Some m' /\ Inv s' /\ Sim s' m'.
Proof.
  intros IV S H. unfold do_consume in H.
  destruct (st_phase s) eqn:P; try discriminate. destruct (lookup p w) as [it|] eqn:L; [|discriminate].
  destruct (st_chan s w) as [r|] eqn:C; [|discriminate].
  destruct (it_inner it) eqn:NI; [discriminate|]. simpl in H.
  inversion H; subst s'; clear H.
  assert (NT : st_taken s w = false) by (apply (c_chan_taken s IV); congruence).
  simpl. rewrite L, (s_chan s m S w r C), NI, (s_taken s m S w it L NI), NT. simpl.
  eexists; split; [reflexivity|].
  assert (F1 : st_created s w = true).
  { destruct (st_created s w) eqn:E; auto. destruct (c_fresh s IV w E) as [_ [X _]]. congruence. }
  assert (F2 : ~ In w (map fst (st_pend s))).
  { intro X. destruct (c_pend_undel s IV w X). congruence. }
  assert (F3 : ~ active (st_gor s w)).
  { intro X. destruct (c_active s IV w X). congruence. }
  split.
  - destruct IV. constructor; try solve [auto_inv].
    + intros c it0 inn j vals L0 K0 G0. simpl in *. destruct (c_wait0 c it0 inn j vals L0 K0 G0) as [A [B D]].
      repeat split; auto. intros i q Hi Hq. cases_upd; eauto.
      destruct (wf_chain c it0 inn L0 K0) as [_ W]. destruct (W w (nth_error_In _ _ Hq)) as [_ [iq [Lq [Iq _]]]].
      congruence.
    + intros c it0 inn L0 K0 C0 q Hq. simpl in *. cases_upd; eauto.
      destruct (wf_chain c it0 inn L0 K0) as [_ W]. destruct (W w Hq) as [_ [iq [Lq [Iq _]]]]. congruence.
  - destruct S. constructor; try solve [auto_inv].
Qed.

Lemma round_none_phase s m : Sim s m -> st_phase s = PPoll -> m_round m = None.
Proof.
  intros S P. pose proof (s_round s m S) as R. destruct (m_round m); auto.
  destruct R as [[R|[R|R]] _]; congruence.
Qed.

Lemma round_some_phase s m : Sim s m -> (st_phase s = PTop \/ st_phase s = PFlush \/ st_phase s = PDrain) ->
  exists ks, m_round m = Some ks /\ forall k, In k ks -> entries_of p k (st_pend s) = [].
Proof.
  intros S P. pose proof (s_round s m S) as R. destruct (m_round m) as [ks|].
  - exists ks. tauto.
  - destruct R as [R|R], P as [P|[P|P]]; congruence.
Qed.

Lemma pres_idle_enter s m s' :
  Inv s -> Sim s m -> do_idle_enter p s = Some s' ->
  exists m', mon_step p m LIdleEnter = Some m' /\ Inv s' /\ Sim s' m'.
Proof.
  intros IV S H. unfold do_idle_enter in H.
  destruct (st_phase s) eqn:P; try discriminate.
  destruct (existsb _ _) eqn:G1; [|discriminate].
  inversion H; subst s'; clear H.
  apply existsb_exists in G1 as [w0 [W0 W1]]. apply andb_true_iff in W1 as [W1 W2].
  simpl. rewrite (round_none_phase s m S P). eexists; split; [reflexivity|].
  split.
  - destruct IV. constructor; try solve [auto_inv].
  - destruct S. constructor; try solve [auto_inv].
Qed.

Lemma pres_flush_done s m s' :
  Inv s -> Sim s m -> do_flush_done s = Some s' -> Inv s' /\ Sim s' m.
Proof.
  intros IV S H. unfold do_flush_done in H.
  destruct (st_phase s) eqn:P; try discriminate.
  destruct (is_nil (st_pend s)) eqn:G; [|discriminate]. apply is_nil_true in G.
  inversion H; subst s'; clear H.
  destruct (round_some_phase s m S) as [ks [R1 R2]]; [tauto|].
  split.
  - destruct IV. constructor; try solve [auto_inv].
  - destruct S. constructor; try solve [auto_inv].
    simpl. rewrite R1. split; auto.
Qed.

Lemma pres_idle_exit s m s' :
  Inv s -> Sim s m -> do_idle_exit p s = Some s' ->
  exists m', mon_step p m LIdleExit = Some m' /\ Inv s' /\ Sim s' m'.
Proof.
  intros IV S H. unfold do_idle_exit in H.
  destruct (st_phase s) eqn:P; try discriminate.
  destruct (forallb _ _) eqn:G; [|discriminate].
  inversion H; subst s'; clear H.
  destruct (round_some_phase s m S) as [ks [R1 R2]]; [tauto|].
  pose proof (c_drain s IV P) as PE.
  simpl. rewrite R1, (s_unflushed s m S), PE. simpl. eexists; split; [reflexivity|].
  split.
  - destruct IV. constructor; try solve [auto_inv].
  - destruct S. constructor; try solve [auto_inv].
    simpl. now rewrite PE.
Qed.

Lemma pres_end s m s' :
  Inv s -> Sim s m -> do_end p s = Some s' ->
  exists m', mon_step p m LEnd = Some m' /\ Inv s' /\ Sim s' m'.
Proof.
  intros IV S H. unfold do_end in H.
  destruct (st_phase s) eqn:P; try discriminate.
  destruct (forallb _ _) eqn:G; [|discriminate].
  inversion H; subst s'; clear H.
  simpl. rewrite (round_none_phase s m S P).
  assert (O : forallb (fun w => negb (owed p m w)) (m_created m) = true).
  { apply forallb_forall. intros w Hw. apply mem_In in Hw. rewrite (s_created s m S) in Hw.
    destruct (c_created s IV w Hw) as [it L].
    rewrite forallb_forall in G. specialize (G w (lookup_ids _ _ L)).
    unfold live in G. unfold owed. rewrite L in *. rewrite Hw in G.
    destruct (it_inner it) eqn:NI; [now rewrite !andb_false_r|].
    rewrite (s_taken s m S w it L NI), (s_abandoned s m S w).
    destruct (is_promise (it_kind it)); simpl in *; auto. }
  rewrite O. eexists; split; [reflexivity|].
  pose proof (round_none_phase s m S P) as RN.
  split.
  - destruct IV. constructor; try solve [auto_inv].
  - destruct S. constructor; try solve [auto_inv].
    simpl. rewrite RN. now right.
Qed.

(** a goroutine's resolution is received and delivered *)
Lemma pres_recv fx s m w s' :
  Inv s -> Sim s m -> do_recv fx s w = Some s' ->
  exists m', mon_step p m (LRecv w) = Some m' /\ Inv s' /\ Sim s' m'.
Proof.
  intros IV S H. unfold do_recv in H.
  destruct (st_gor s w) eqn:G; try discriminate. destruct (st_chan s w) eqn:C; [discriminate|].
  destruct (gor_facts s w IV) as [F1 F2]; [congruence|].
  destruct (c_created s IV w F1) as [it L]. pose proof (F2 it L) as GK.
  assert (AC : active (st_gor s w)) by (rewrite G; exact I).
  pose proof (c_active s IV w AC) as [_ NT].
  pose proof (s_active_none s m S w AC) as DN.
  pose proof (s_result s m S w it r L (or_intror G)) as RS.
  assert (PH : st_phase s = PTop \/ st_phase s = PDrain) by (destruct (st_phase s); try discriminate; auto).
  destruct (round_some_phase s m S) as [ks [R1 R2]]; [tauto|].
  assert (MS : exists m', mon_step p m (LRecv w) = Some m' /\
            m' = mkMon (m_created m) (m_unflushed m) (m_round m) (m_call m) (upd (m_dlv m) w (Some r)) (m_taken m) (m_abandoned m)).
  { simpl. rewrite R1, L, DN. destruct (it_kind it); try discriminate; try tauto.
    - subst r. eauto.
    - rewrite RS. eauto. }
  destruct MS as [m' [MS ->]]. eexists; split; [exact MS|]. clear MS.
  assert (F4 : ~ In w (map fst (st_pend s))).
  { intro X. apply in_map_iff in X as [[a b] [E X]]. simpl in E; subst a.
    destruct (c_pend_shape s IV w b X) as [_ [_ [it' [k [L' K']]]]]. rewrite L in L'. inversion L'; subst it'.
    rewrite K' in GK. discriminate. }
  assert (INV1 : forall ph ch, ph <> PPanic -> ph <> PEnded ->
            (ph = PTop -> exists w0, In w0 (ids p) /\ live p s w0 = true /\ chan_empty s w0 = true /\ w0 <> w) ->
            (ph = PDrain -> st_pend s = []) ->
            (forall x, ch x = true -> st_chained s x = true) ->
            Inv (mkState ph (st_created s) (upd (st_gor s) w GDone) (upd (st_chan s) w (Some r)) (st_taken s)
                         (st_abandoned s) (st_pend s) ch (st_cancelled s))).
  { intros ph ch NP NE TOP DR CH. destruct IV. constructor; try solve [auto_inv].
    - intros w0 it0 k L0 K0 C0; simpl in *. destruct (c_batch0 w0 it0 k L0 K0 C0) as [X|X]; auto.
      right. destruct X as [X|X]; [left|right]; simpl; auto. cases_upd; congruence.
    - intros w0 G0; simpl in *. cases_upd; [left; simpl; rewrite upd_same; congruence|].
      destruct (c_done0 w0 G0) as [X|X]; [left|right]; simpl; auto. now rewrite upd_other.
    - intros PT; simpl in *. destruct (TOP PT) as [w0 [A [B [D E]]]]. exists w0. repeat split; auto.
      unfold chan_empty in *; simpl. now rewrite upd_other.
    - intros w0 G0; simpl in *. cases_upd; [discriminate|]. pose proof (c_exited0 w0 G0). destruct PH; congruence. }
  assert (SIM1 : forall ph ch,
            (ph = PTop \/ ph = PFlush \/ ph = PDrain) ->
            Sim (mkState ph (st_created s) (upd (st_gor s) w GDone) (upd (st_chan s) w (Some r)) (st_taken s)
                         (st_abandoned s) (st_pend s) ch (st_cancelled s))
                (mkMon (m_created m) (m_unflushed m) (m_round m) (m_call m) (upd (m_dlv m) w (Some r)) (m_taken m) (m_abandoned m))).
  { intros ph ch PHH.
    assert (MONO : forall q x, m_dlv m q = Some x -> upd (m_dlv m) w (Some r) q = Some x).
    { intros q x X. rewrite upd_other; auto. intro; subst. congruence. }
    destruct S. constructor; try solve [auto_inv].
    - simpl. rewrite R1. split; auto.
    - intros w0 it0 r0 L0 G0; simpl in *. cases_upd; [destruct G0; discriminate|].
      pose proof (s_result0 w0 it0 r0 L0 G0) as X. destruct (it_kind it0); auto.
      eapply chain_ref_mono; [|exact X]. exact MONO.
    - intros c it0 inn j vals L0 K0 G0; simpl in *. cases_upd; [discriminate|].
      eapply Forall2_imp; [|eapply s_wait0; eauto]. intros q v X. now apply MONO. }
  destruct (st_phase s) eqn:P; try discriminate.
  - (* blocking receive at the top of the loop *)
    destruct (is_nil (st_pend s)) eqn:PN; [|discriminate]. apply is_nil_true in PN.
    destruct (c_top s IV P) as [w0 [W0 [W1 W2]]].
    destruct (live_inv _ _ W1) as [it0 [L0 [PR0 [NI0 _]]]].
    destruct (st_chained s w) eqn:CH.
    + destruct (c_chained s IV w CH) as [it' [L' I']]. rewrite L in L'. inversion L'; subst it'.
      assert (CHS : forall x, upd (st_chained s) w false x = true -> st_chained s x = true).
      { intros x X. destruct (upd_cases (st_chained s) w false x) as [[_ E]|[_ E]]; rewrite E in X; [discriminate|auto]. }
      destruct (v_loop fx); inversion H; subst s'; clear H.
      * split; [apply INV1 | apply SIM1]; simpl; rewrite ?P; try congruence; auto.
        intros _. exists w0. repeat split; auto. intro; subst. congruence.
      * split; [apply INV1 | apply SIM1]; simpl; rewrite ?P; try congruence; auto.
    + inversion H; subst s'; clear H.
      split; [apply INV1 | apply SIM1]; simpl; rewrite ?P; try congruence; auto.
  - inversion H; subst s'; clear H.
    split; [apply INV1 | apply SIM1]; simpl; rewrite ?P; try congruence; auto.
    intros _. apply (c_drain s IV P).
Qed.

Lemma firstn_S_nth {A} (l : list A) j x : nth_error l j = Some x -> firstn (S j) l = firstn j l ++ [x].
Proof.
  revert j. induction l as [|a l IH]; intros [|j] H; simpl in *; try discriminate.
  - now inversion H.
  - f_equal. now apply IH.
Qed.

Lemma firstn_skipn_nth {A} (l : list A) j x : nth_error l j = Some x -> l = firstn j l ++ x :: skipn (S j) l.
Proof.
  revert j. induction l as [|a l IH]; intros [|j] H; simpl in *; try discriminate.
  - now inversion H.
  - f_equal. now apply IH.
Qed.

(** a chain/join goroutine receives the next inner promise *)
Lemma pres_read s m c s' :
  Inv s -> Sim s m -> do_read p s c = Some s' -> Inv s' /\ Sim s' m.
Proof.
  intros IV SM H. unfold do_read in H.
  destruct (st_gor s c) eqn:G; try discriminate. destruct (lookup p c) as [it|] eqn:L; [|discriminate].
  destruct (it_kind it) as [| | |inn] eqn:K; try discriminate.
  destruct (nth_error inn j) as [q|] eqn:NQ; [|discriminate].
  destruct (st_chan s q) as [r|] eqn:C; [|discriminate].
  destruct (c_wait s IV c it inn j vals L K G) as [JL [VL NTK]].
  destruct (wf_chain c it inn L K) as [_ WC]. destruct (WC q (nth_error_In _ _ NQ)) as [QC [iq [Lq [Iq Pq]]]].
  assert (NT : st_taken s q = false) by (apply (c_chan_taken s IV); congruence).
  assert (F1 : st_created s q = true).
  { destruct (st_created s q) eqn:E; auto. destruct (c_fresh s IV q E) as [_ [X _]]. congruence. }
  assert (F2 : ~ In q (map fst (st_pend s))).
  { intro X. destruct (c_pend_undel s IV q X). congruence. }
  assert (F3 : ~ active (st_gor s q)).
  { intro X. destruct (c_active s IV q X). congruence. }
  assert (AC : active (st_gor s c)) by (rewrite G; exact I).
  destruct (gor_facts s c IV) as [F4 F5]; [congruence|].
  pose proof (c_active s IV c AC) as [CC CT].
  pose proof (s_active_none s m SM c AC) as DN.
  pose proof (s_chan s m SM q r C) as DQ.
  pose proof (s_wait s m SM c it inn j vals L K G) as FW.
  assert (NE : q <> c) by lia.
  assert (WO : forall c0 it0 inn0 j0 vals0, c0 <> c -> lookup p c0 = Some it0 -> it_kind it0 = KChain inn0 ->
            st_gor s c0 = GWaiting j0 vals0 ->
            j0 < length inn0 /\ length vals0 = j0 /\
            forall i q0, j0 <= i -> nth_error inn0 i = Some q0 -> upd (st_taken s) q true q0 = false).
  { intros c0 it0 inn0 j0 vals0 N0 L0 K0 G0. destruct (c_wait s IV c0 it0 inn0 j0 vals0 L0 K0 G0) as [A [B D]].
    repeat split; auto. intros i q0 Hi Hq. rewrite upd_other; eauto.
    intro; subst q0. apply N0. apply (inner_unique c0 c q).
    - rewrite (inner_of_chain c0 it0 inn0 L0 K0). eapply nth_error_In; eauto.
    - rewrite (inner_of_chain c it inn L K). eapply nth_error_In; eauto. }
  assert (IU : forall c0 it0 inn0, lookup p c0 = Some it0 -> it_kind it0 = KChain inn0 -> st_created s c0 = false ->
            forall q0, In q0 inn0 -> upd (st_taken s) q true q0 = false).
  { intros c0 it0 inn0 L0 K0 C0 q0 Hq. rewrite upd_other; [eapply c_inner_untaken; eauto|].
    intro; subst q0. assert (c0 = c); [|congruence]. apply (inner_unique c0 c q).
    - now rewrite (inner_of_chain c0 it0 inn0 L0 K0).
    - rewrite (inner_of_chain c it inn L K). eapply nth_error_In; eauto. }
  assert (TOP : forall g', st_phase s = PTop -> exists w, In w (ids p) /\
            live p (set_gor (set_taken (set_chan s q None) q) c g') w = true /\
            chan_empty (set_gor (set_taken (set_chan s q None) q) c g') w = true).
  { intros g' PT. destruct (c_top s IV PT) as [w0 [W0 [W1 W2]]]. exists w0. split; auto.
    destruct (live_inv _ _ W1) as [it0 [L0 [PR0 [NI0 [CR0 [NT0 NA0]]]]]].
    assert (w0 <> q) by (intro; subst; congruence).
    unfold live, chan_empty in *. simpl. rewrite !upd_other by auto. auto. }
  assert (GEN : forall g',
     match g' with
     | GFinished r' => chain_ref (p_cfun p c) (m_dlv m) inn [] = Some r'
     | GWaiting j' vals' => j' = S j /\ vals' = vals ++ match r with ROk v => [v] | RErr _ => [] end /\ S j < length inn
                            /\ exists v, r = ROk v
     | _ => False
     end ->
     Inv (set_gor (set_taken (set_chan s q None) q) c g') /\ Sim (set_gor (set_taken (set_chan s q None) q) c g') m).
  { intros g' HG. destruct g' as [| |j' vals'|r'| | |]; try tauto.
    - destruct HG as [-> [-> [JS [v ->]]]]. split.
      + destruct IV. constructor; try solve [auto_inv].
        * intros c0 it0 inn0 j0 vals0 L0 K0 G0. simpl in *.
          destruct (upd_cases (st_gor s) c (GWaiting (S j) (vals ++ [v])) c0) as [[-> E]|[N0 E]]; rewrite E in G0; clear E.
          -- rewrite L in L0. inversion L0; subst it0. rewrite K in K0. inversion K0; subst inn0. inversion G0; subst j0 vals0.
             split; auto. split; [rewrite app_length; simpl; lia|].
             intros i q0 Hi Hq. rewrite upd_other; [apply (NTK i q0); auto; lia|].
             intro; subst q0. pose proof (inner_nodup c) as ND. rewrite (inner_of_chain c it inn L K) in ND.
             pose proof (NoDup_nth_error_inj inn i j q ND Hq NQ). lia.
          -- eapply WO; eauto.
        * intros; simpl in *; eapply IU; eauto.
      + destruct SM. constructor; try solve [auto_inv].
        * intros w0 it0 r0 L0 G0; simpl in *. cases_upd; [destruct G0; discriminate|eapply s_result0; eauto].
        * intros c0 it0 inn0 j0 vals0 L0 K0 G0; simpl in *. cases_upd; [|eapply s_wait0; eauto].
          rewrite L in L0. inversion L0; subst it0. rewrite K in K0. inversion K0; subst inn0. inversion G0; subst j0 vals0.
          rewrite (firstn_S_nth _ _ _ NQ). apply Forall2_app; auto.
    - split.
      + destruct IV. constructor; try solve [auto_inv].
        intros; simpl in *; eapply IU; eauto.
      + destruct SM. constructor; try solve [auto_inv].
        intros w0 it0 r0 L0 G0; simpl in *. cases_upd; [|eapply s_result0; eauto].
        rewrite L in L0. inversion L0; subst it0. rewrite K. destruct G0 as [G0|G0]; inversion G0; subst; auto. }
  assert (SPLIT : chain_ref (p_cfun p c) (m_dlv m) inn [] =
                  chain_ref (p_cfun p c) (m_dlv m) (q :: skipn (S j) inn) vals).
  { rewrite (firstn_skipn_nth inn j q NQ) at 1. rewrite (chain_ref_prefix _ _ _ vals); auto. }
  destruct r as [v|e].
  - destruct (Nat.eqb (S j) (length inn)) eqn:EJ; inversion H; subst s'; clear H; apply GEN.
    + apply Nat.eqb_eq in EJ. rewrite SPLIT.
      rewrite skipn_all2 by lia. simpl. rewrite DQ. reflexivity.
    + apply Nat.eqb_neq in EJ. repeat split; auto; [lia|eauto].
  - inversion H; subst s'; clear H; apply GEN. rewrite SPLIT. cbn [chain_ref]. now rewrite DQ.
Qed.

Lemma mem_app_single w0 l w : mem w0 (l ++ [w]) = upd (fun x => mem x l) w true w0.
Proof.
  unfold mem. rewrite existsb_app. simpl. rewrite orb_false_r.
  destruct (upd_cases (fun x => existsb (Nat.eqb x) l) w true w0) as [[-> E]|[N E]]; rewrite E.
  - rewrite Nat.eqb_refl. apply orb_true_r.
  - destruct (Nat.eqb_spec w0 w); [congruence|]. apply orb_false_r.
Qed.

(** a resolver is invoked *)
Lemma pres_create s m w s' :
  Inv s -> Sim s m -> do_create p s w = Some s' ->
  exists m', mon_step p m (LCreate w) = Some m' /\ Inv s' /\ Sim s' m'.
Proof.
  intros IV SM H. unfold do_create in H.
  destruct (st_phase s) eqn:P; try discriminate. destruct (lookup p w) as [it|] eqn:L; [|discriminate].
  destruct (negb (st_created s w) && parent_ready s it) eqn:GD; [|discriminate].
  apply andb_true_iff in GD as [NC _]. apply negb_true_iff in NC.
  destruct (c_fresh s IV w NC) as [GN [CN [TN AN]]].
  destruct (s_fresh s m SM w NC) as [DN CLN].
  assert (NP : ~ In w (map fst (st_pend s))).
  { intro X. apply in_map_iff in X as [[a b] [E X]]. simpl in E; subst a.
    destruct (c_pend_shape s IV w b X) as [_ [Y _]]. congruence. }
  pose proof (round_none_phase s m SM P) as RN.
  assert (MC : mem w (m_created m) = false) by (rewrite (s_created s m SM); auto).
  simpl. rewrite L, MC. eexists; split; [reflexivity|].
  assert (SC : forall w0, mem w0 (m_created m ++ [w]) = upd (st_created s) w true w0).
  { intro w0. rewrite mem_app_single. unfold upd. destruct (Nat.eqb w0 w); auto. apply (s_created s m SM). }
  destruct (it_kind it) as [| |k|inn] eqn:K.
  - (* sync *)
    inversion H; subst s'; clear H.
    assert (PQ : forall c it0 inn q, lookup p c = Some it0 -> it_kind it0 = KChain inn -> In q inn -> q <> w).
    { intros c it0 inn q L0 K0 Hq. destruct (wf_chain c it0 inn L0 K0) as [_ W].
      destruct (W q Hq) as [_ [iq [Lq [_ Pq]]]]. intro; subst q. rewrite L in Lq. inversion Lq; subst iq.
      rewrite K in Pq. discriminate. }
    split.
    + destruct IV. constructor; try solve [auto_inv].
      * intros w0 it0 L0 K0 C0; simpl in *; cases_upd; eauto. rewrite L in L0; inversion L0; subst; rewrite K in K0; discriminate.
      * intros a b X; simpl in *. destruct (c_pend_shape0 a b X) as [A [B D]]. repeat split; auto. cases_upd; auto.
      * intros w0 A; simpl in *. cases_upd; eauto. rewrite GN in A. destruct A.
      * intros c it0 inn j vals L0 K0 G0. simpl in *. destruct (c_wait0 c it0 inn j vals L0 K0 G0) as [A [B D]].
        repeat split; auto. intros i q Hi Hq. rewrite upd_other; eauto. eapply PQ; eauto. eapply nth_error_In; eauto.
      * intros c it0 inn L0 K0 C0 q Hq. simpl in *. rewrite upd_other by (eapply PQ; eauto).
        cases_upd; [discriminate|]. eapply c_inner_untaken0; eauto.
    + destruct SM. constructor; try solve [auto_inv].
      intros w0; simpl; apply SC.
  - (* Go *)
    inversion H; subst s'; clear H. split.
    + destruct IV. constructor; try solve [auto_inv].
      * intros w0 it0 L0 K0; simpl in *; cases_upd; eauto. rewrite L in L0; inversion L0; subst; rewrite K in K0; discriminate.
      * intros a b X; simpl in *. destruct (c_pend_shape0 a b X) as [A [B D]]. repeat split; auto. cases_upd; auto.
    + destruct SM. constructor; try solve [auto_inv].
      * intros w0; simpl; apply SC.
      * intros w0 it0 r0 L0 G0; simpl in *. cases_upd; [destruct G0; discriminate|eapply s_result0; eauto].
  - (* Batch *)
    inversion H; subst s'; clear H. split.
    + destruct IV. constructor; try solve [auto_inv].
      * intros w0 it0 L0 K0 C0; simpl in *; cases_upd; eauto. rewrite L in L0; inversion L0; subst; rewrite K in K0; discriminate.
      * intros a b X; simpl in *. apply in_app_or in X as [X|X].
        -- destruct (c_pend_shape0 a b X) as [A [B D]]. repeat split; auto. cases_upd; auto.
        -- destruct X as [X|[]]. inversion X; subst a b. repeat split; auto. apply upd_same. eauto.
      * simpl. rewrite map_app. simpl. apply NoDup_app_intro; auto.
      * intros a X; simpl in *. rewrite map_app in X. apply in_app_or in X as [X|X]; eauto.
        destruct X as [<-|[]]. auto.
      * intros w0 it0 k0 L0 K0 C0; simpl in *. rewrite map_app. cases_upd.
        -- left. apply in_or_app. right. now left.
        -- destruct (c_batch0 w0 it0 k0 L0 K0 C0) as [X|X]; auto. left. apply in_or_app. now left.
    + destruct SM. constructor; try solve [auto_inv].
      * intros w0; simpl; apply SC.
      * simpl. rewrite map_app, s_unflushed0. reflexivity.
      * simpl. rewrite RN. auto.
      * intros a X; simpl in *. rewrite map_app in X. apply in_app_or in X as [X|X]; eauto.
        destruct X as [<-|[]]. auto.
  - (* chain / join *)
    destruct (forallb (st_created s) inn) eqn:FC; [|discriminate].
    inversion H; subst s'; clear H.
    destruct (wf_chain w it inn L K) as [NE WC].
    rewrite forallb_forall in FC.
    split.
    + destruct IV. constructor; try solve [auto_inv].
      * intros w0 it0 L0 K0; simpl in *; cases_upd; eauto. rewrite L in L0; inversion L0; subst; rewrite K in K0; discriminate.
      * intros a b X; simpl in *. destruct (c_pend_shape0 a b X) as [A [B D]]. repeat split; auto. cases_upd; auto.
      * intros c it0 inn0 j vals L0 K0 G0. simpl in *.
        destruct (upd_cases (st_gor s) w (GWaiting 0 []) c) as [[-> E]|[N0 E]]; rewrite E in G0; clear E.
        -- rewrite L in L0. inversion L0; subst it0. rewrite K in K0. inversion K0; subst inn0. inversion G0; subst j vals.
           split; [destruct inn; [congruence|simpl; lia]|]. split; auto.
           intros i q _ Hq. eapply c_inner_untaken0; eauto. eapply nth_error_In; eauto.
        -- eapply c_wait0; eauto.
      * intros c it0 inn0 L0 K0 C0 q Hq. simpl in *.
        destruct (upd_cases (st_created s) w true c) as [[-> E]|[N0 E]]; rewrite E in C0; clear E.
        -- rewrite L in L0. inversion L0; subst it0. rewrite K in K0. inversion K0; subst inn0.
           cases_upd; auto.
        -- cases_upd; auto. eapply c_chain_created0; eauto.
      * intros w0 X. simpl in *. destruct (in_dec Nat.eq_dec w0 inn) as [Hi|Hn].
        -- destruct (WC w0 Hi) as [_ [iq [Lq [Iq _]]]]. eauto.
        -- rewrite upd_list_notin in X by auto. eauto.
    + destruct SM. constructor; try solve [auto_inv].
      * intros w0; simpl; apply SC.
      * intros w0 it0 r0 L0 G0; simpl in *. cases_upd; [destruct G0; discriminate|eapply s_result0; eauto].
      * intros c it0 inn0 j vals L0 K0 G0; simpl in *. cases_upd; [|eapply s_wait0; eauto].
        inversion G0; subst. simpl. constructor.
Qed.

Lemma map_snd_fst_eq (l : list (nat * nat)) : (forall a b, In (a, b) l -> a = b) -> map snd l = map fst l.
Proof.
  induction l as [|[a b] l IH]; simpl; intro H; auto.
  rewrite (H a b) by auto. f_equal. apply IH. intros; apply H; auto.
Qed.

Lemma filter_filter_comm {A} (f g : A -> bool) l : filter f (filter g l) = filter g (filter f l).
Proof.
  induction l as [|a l IH]; simpl; auto.
  destruct (g a) eqn:G, (f a) eqn:F; simpl; rewrite ?G, ?F, IH; auto.
Qed.

Lemma filter_negb_nil {A} (f : A -> bool) l : filter f (filter (fun x => negb (f x)) l) = [].
Proof.
  induction l as [|a l IH]; simpl; auto. destruct (f a) eqn:F; simpl; rewrite ?F; auto.
Qed.

(** one batch goroutine of the flush: resolver called, results delivered by position *)
Lemma pres_flush s m k its s' :
  Inv s -> Sim s m -> do_flush p s k its = Some s' ->
  exists m', mon_step p m (LFlush k its) = Some m' /\ Inv s' /\ Sim s' m'.
Proof.
  intros IV SM H. unfold do_flush in H.
  assert (PH : st_phase s = PTop \/ st_phase s = PFlush) by (destruct (st_phase s); try discriminate; auto).
  assert (H' : (if list_eqb its (map fst (entries_of p k (st_pend s))) && negb (is_nil its)
                then let rs := p_bfun p k its in
                     if Nat.ltb (length its) (length rs) then Some (set_phase s PPanic)
                     else match deliver_all (st_chan s) (map snd (entries_of p k (st_pend s))) rs with
                          | Some ch' => Some (set_phase (set_pend (set_chans s ch') (rest_of p k (st_pend s))) PFlush)
                          | None => None
                          end
                else None) = Some s') by (destruct PH as [E|E]; rewrite E in H; exact H).
  clear H. destruct (list_eqb its _ && negb (is_nil its)) eqn:GD; [|discriminate].
  apply andb_true_iff in GD as [E1 E2]. apply list_eqb_eq in E1. apply negb_true_iff in E2.
  cbv zeta in H'. rewrite (proj2 (Nat.ltb_ge _ _)) in H' by (rewrite BF; lia).
  assert (EQ : map snd (entries_of p k (st_pend s)) = its).
  { rewrite E1. apply map_snd_fst_eq. intros a b X. apply filter_In in X as [X _]. now destruct (c_pend_shape s IV a b X). }
  rewrite EQ in H'.
  assert (ITS : its = filter (key_is p k) (map fst (st_pend s))).
  { rewrite E1. unfold entries_of. apply map_fst_filter. }
  assert (ND : NoDup its) by (rewrite ITS; apply NoDup_filter, (c_pend_nodup s IV)).
  assert (INP : forall d, In d its <-> In d (map fst (st_pend s)) /\ key_is p k d = true).
  { intro d. rewrite ITS. apply filter_In. }
  assert (UND : forall d, In d its -> st_chan s d = None /\ st_taken s d = false).
  { intros d X. apply INP in X as [X _]. apply (c_pend_undel s IV d X). }
  assert (MN : forall d, In d its -> m_call m d = None /\ m_dlv m d = None).
  { intros d X. apply INP in X as [X _]. destruct (s_pend_none s m SM d X). auto. }
  destruct (deliver_all_spec (st_chan s) its (p_bfun p k its) ND) as [ch'' [DA [CH1 CH2]]].
  { intros d X. apply UND, X. } { rewrite BF. lia. }
  rewrite DA in H'. inversion H'; subst s'; clear H' DA. rename ch'' into ch'.
  destruct (mon_deliver_spec k its (m_call m) (m_dlv m) 0 its (p_bfun p k its) ND MN (BF k its))
    as [call' [dlv' [MD [MD1 MD2]]]].
  destruct (round_some_phase s m SM) as [ks [R1 R2]]; [tauto|].
  assert (NK : mem k ks = false).
  { apply mem_false. intro X. apply R2 in X. rewrite X in E1. simpl in E1. subst its. discriminate. }
  simpl. rewrite R1, NK, (s_unflushed s m SM), <- ITS.
  rewrite (proj2 (list_eqb_eq its its) eq_refl), E2. simpl. rewrite MD.
  eexists; split; [reflexivity|].
  assert (CREATED : forall d, In d its -> st_created s d = true).
  { intros d X. apply INP in X as [X _]. apply in_map_iff in X as [[a b] [E X]]. simpl in E; subst a.
    now destruct (c_pend_shape s IV d b X) as [_ [Y _]]. }
  assert (BATCHK : forall d, In d its -> exists it, lookup p d = Some it /\ gokind (it_kind it) = false).
  { intros d X. apply INP in X as [X _]. apply in_map_iff in X as [[a b] [E X]]. simpl in E; subst a.
    destruct (c_pend_shape s IV d b X) as [_ [_ [it [k0 [L0 K0]]]]]. exists it. rewrite K0. auto. }
  assert (FILLED : forall d, In d its -> ch' d <> None).
  { intros d X. destruct (In_nth_error _ _ X) as [i Hi]. rewrite (CH2 i d Hi).
    apply nth_error_Some. rewrite BF. apply nth_error_Some. congruence. }
  assert (KEEP : forall d, st_chan s d <> None -> ch' d = st_chan s d).
  { intros d X. apply CH1. intro Y. destruct (UND d Y). congruence. }
  assert (SAME : forall d r, ch' d = Some r -> dlv' d = Some r \/ (~ In d its /\ st_chan s d = Some r)).
  { intros d r X. destruct (in_dec Nat.eq_dec d its) as [Y|Y].
    - left. destruct (In_nth_error _ _ Y) as [i Hi]. rewrite (CH2 i d Hi) in X. destruct (MD2 i d Hi) as [_ Z]. congruence.
    - right. rewrite (CH1 d Y) in X. auto. }
  assert (MONO : forall q x, m_dlv m q = Some x -> dlv' q = Some x).
  { intros q x X. destruct (MD1 q) as [_ Z]; [|congruence]. intro Y. destruct (MN q Y). congruence. }
  assert (RESTIN : forall a, In a (map fst (rest_of p k (st_pend s))) <->
                             In a (map fst (st_pend s)) /\ key_is p k a = false).
  { intro a. unfold rest_of. rewrite (map_fst_filter (fun x => negb (key_is p k x))). rewrite filter_In.
    rewrite negb_true_iff. tauto. }
  assert (NOTITS : forall a, In a (map fst (rest_of p k (st_pend s))) -> ~ In a its).
  { intros a X Y. apply RESTIN in X as [_ X]. apply INP in Y as [_ Y]. congruence. }
  split.
  - destruct IV. constructor; try solve [auto_inv].
    + intros w0 C0; simpl in *. destruct (c_fresh0 w0 C0) as [A [B [D E]]]. split; auto. split; [|auto].
      rewrite CH1; auto. intro X. apply CREATED in X. congruence.
    + intros a b X; simpl in *. apply filter_In in X as [X _]. eauto.
    + simpl. unfold rest_of. rewrite (map_fst_filter (fun x => negb (key_is p k x))). now apply NoDup_filter.
    + intros a X; simpl in *. rewrite (CH1 a (NOTITS a X)). apply RESTIN in X as [X _]. eauto.
    + intros w0 it0 k0 L0 K0 C0; simpl in *. destruct (c_batch0 w0 it0 k0 L0 K0 C0) as [X|X].
      * destruct (key_is p k w0) eqn:KW.
        -- right. left. simpl. apply FILLED. apply INP. auto.
        -- left. apply RESTIN. auto.
      * right. destruct X as [X|X]; [left|right]; simpl; auto. rewrite KEEP; auto.
    + intros w0 G0; simpl in *. destruct (c_done0 w0 G0) as [X|X]; [left|right]; simpl; auto. rewrite KEEP; auto.
    + intros w0 A; simpl in *. destruct (c_active0 w0 A) as [B D]. split; auto. rewrite CH1; auto.
      intro X. destruct (BATCHK w0 X) as [it0 [L0 K0]]. rewrite (c_gor_none0 w0 it0 L0 K0) in A. destruct A.
    + intros w0 X; simpl in *. destruct (in_dec Nat.eq_dec w0 its) as [Y|Y].
      * now destruct (UND w0 Y).
      * rewrite (CH1 w0 Y) in X. auto.
    + intros w0 G0; simpl in *. pose proof (c_exited0 w0 G0). destruct PH; congruence.
  - assert (UNCH : forall d, ~ In d its -> dlv' d = m_dlv m d /\ call' d = m_call m d).
    { intros d X. destruct (MD1 d X). auto. }
    destruct SM. constructor; try solve [auto_inv].
    + simpl. unfold rest_of. now rewrite (map_fst_filter (fun x => negb (key_is p k x))).
    + simpl. split; auto. intros k0 [<-|X].
      * unfold entries_of, rest_of. apply (filter_negb_nil (fun e => key_is p k (fst e))).
      * unfold entries_of, rest_of. rewrite filter_filter_comm. fold (entries_of p k0 (st_pend s)).
        now rewrite (R2 k0 X).
    + intros w0 C0; simpl in *. destruct (UNCH w0) as [A B].
      * intro X. apply CREATED in X. congruence.
      * rewrite A, B. auto.
    + intros w0 r X; simpl in *. destruct (SAME w0 r X) as [Y|[Y Z]]; [exact Y|].
      destruct (UNCH w0 Y) as [A _]. rewrite A. auto.
    + intros a X; simpl in *. destruct (UNCH a (NOTITS a X)) as [A B]. rewrite A, B.
      apply RESTIN in X as [X _]. auto.
    + intros w0 A; simpl in *. destruct (UNCH w0) as [B _]; [|rewrite B; auto].
      intro X. destruct (BATCHK w0 X) as [it0 [L0 K0]]. rewrite (c_gor_none s IV w0 it0 L0 K0) in A. destruct A.
    + intros w0 it0 r0 L0 G0; simpl in *. pose proof (s_result0 w0 it0 r0 L0 G0) as X.
      destruct (it_kind it0); auto. eapply chain_ref_mono; [|exact X]. exact MONO.
    + intros c it0 inn j vals L0 K0 G0; simpl in *.
      eapply Forall2_imp; [|eapply s_wait0; eauto]. intros q v X. now apply MONO.
Qed.

(** ** Every step of the model is accepted by the Spec monitor and preserves the invariant *)

Lemma step_preserves fx s m l s' :
  Inv s -> Sim s m -> step fx p s l = Some s' ->
  exists m', mon_step p m l = Some m' /\ Inv s' /\ Sim s' m'.
Proof.
  intros IV SM H. destruct l; simpl in H.
  - eapply pres_create; eauto.
  - eapply pres_consume; eauto.
  - eapply pres_abandon; eauto.
  - eapply pres_idle_enter; eauto.
  - eapply pres_flush; eauto.
  - exists m. split; auto. eapply pres_flush_done; eauto.
  - exists m. split; auto. eapply pres_finish; eauto.
  - exists m. split; auto. eapply pres_read; eauto.
  - exists m. split; auto. eapply pres_arrive; eauto.
  - eapply pres_recv; eauto.
  - eapply pres_idle_exit; eauto.
  - eapply pres_end; eauto.
  - exists m. split; auto. eapply pres_exit; eauto.
  - exists m. split; auto. eapply pres_cancel; eauto.
Qed.

Lemma run_preserves fx tr : forall s m s',
  Inv s -> Sim s m -> run fx p s tr = Some s' ->
  exists m', mon_run p m tr = Some m' /\ Inv s' /\ Sim s' m'.
Proof.
  induction tr as [|l tr IH]; intros s m s' IV SM H; simpl in *.
  - inversion H; subst. eauto.
  - destruct (step fx p s l) as [s1|] eqn:E; [|discriminate].
    destruct (step_preserves fx s m l s1 IV SM E) as [m1 [M1 [IV1 SM1]]].
    rewrite M1. eapply IH; eauto.
Qed.

Theorem run_refines fx tr s :
  run fx p init tr = Some s -> exists m, mon_run p mon_init tr = Some m /\ Inv s /\ Sim s m.
Proof. intro H. eapply run_preserves; eauto using inv_init, sim_init. Qed.

Lemma run_app fx tr1 : forall tr2 s s',
  run fx p s (tr1 ++ tr2) = Some s' <-> exists s1, run fx p s tr1 = Some s1 /\ run fx p s1 tr2 = Some s'.
Proof.
  induction tr1 as [|l tr1 IH]; intros tr2 s s'; simpl.
  - split; [eauto|]. intros [s1 [E H]]. inversion E; subst; auto.
  - destruct (step fx p s l) as [s1|]; [apply IH|]. split; [discriminate|]. intros [s1 [E _]]. discriminate.
Qed.

End Prog.
