(** * Idle/IdleModel.v — C15: one api-fu request as a labelled transition system.

    Transcribed from /repo (after the [fix:] commit of C15; the [variant] record selects the pinned code):

      api.go  apiRequest                       -> [state] (asyncResolutions = the goroutines in [GParked];
                                                  batches = [st_pend]; chainedAsyncResolutions = [st_chained])
      api.go  IdleHandler                      -> phases [PTop] (top of the [for]), [PFlush] (batch goroutines
                                                  running, [wg.Wait()]), [PDrain] (the inner [for]/[select]);
                                                  labels [LFlush], [LFlushDone], [LRecv], [LIdleExit]
      api.go  Go                               -> [LCreate] of a [KGo] item (goroutine [GComputing]), [LFinish]
                                                  ([f()] returned), [LArrive] (reached the send on the unbuffered
                                                  channel), [LRecv] (rendezvous with the idle handler), and, in the
                                                  fixed code, [LExit] (the [executionDone] case of the [select])
      api.go  chain / join                     -> [LCreate] of a [KChain] item (registers every inner promise in
                                                  [st_chained], starts a goroutine in [GWaiting 0 []]), [LRead]
                                                  ([result := <-p], early return on the first error)
      api.go  Batch                            -> [LCreate] of a [KBatch k] item (appends to [items] and [dests])
      executor.go wait                         -> [LIdleEnter] (only when nothing can make progress), [LEnd]
      executor (abstracted)                    -> [LCreate] (a resolver is invoked once its parent's value is
                                                  there), [LConsume] (poll takes a delivered result),
                                                  [LAbandon] (a sibling failure nulled an ancestor: the item's
                                                  promise will never be polled again)

    The query is abstracted to a forest of work items ([prog]); item ids are positions in the list.
    Scheduler nondeterminism = which label is taken next; [step] is the (deterministic) effect of one
    label, [None] = that label is not enabled.  There are no proofs in this file. *)
From Coq Require Import List NArith ZArith Bool Arith.
Import ListNotations.

(** ** The static description of a request *)

Inductive result := ROk (v : Z) | RErr (e : Z).

Inductive kind :=
| KSync                       (* resolver returns a value *)
| KGo                         (* resolver returns apifu.Go(ctx, f) *)
| KBatch (k : nat)            (* resolver made by apifu.Batch; k identifies the Batch(...) call *)
| KChain (inner : list nat).  (* chain (one inner promise) / join (several): reads the inner promises in order *)

Record item := mkItem {
  it_kind : kind;
  it_parent : option nat;     (* revealed when this item's value has been taken by the executor *)
  it_inner : bool;            (* the promise is read by a chain/join goroutine, not by the executor *)
  it_res : result             (* what the item's own function produces (Go: f(); Sync: the value) *)
}.

Record prog := mkProg {
  p_items : list item;
  p_bfun : nat -> list nat -> list result;   (* batch resolver k applied to the list of field contexts *)
  p_cfun : nat -> list Z -> result           (* the function given to chain/join of item c *)
}.

Definition lookup (p : prog) (w : nat) : option item := nth_error (p_items p) w.
Definition ids (p : prog) : list nat := seq 0 (length (p_items p)).

Definition is_promise (k : kind) : bool := match k with KSync => false | _ => true end.

Definition key_is (p : prog) (k w : nat) : bool :=
  match lookup p w with
  | Some it => match it_kind it with KBatch k' => Nat.eqb k k' | _ => false end
  | None => false
  end.

(** ** Dynamic state *)

Inductive gst :=
| GNone
| GComputing                          (* inside f() *)
| GWaiting (j : nat) (vals : list Z)  (* chain/join: about to receive from inner promise number j *)
| GFinished (r : result)              (* f() returned r; not yet at the channel operation *)
| GParked (r : result)                (* at [asyncResolutions <- ...], waiting for a receiver *)
| GDone                               (* resolution handed over: goroutine ended *)
| GExited.                            (* fixed code: released by executionDone *)

Inductive phase :=
| PPoll      (* executor thread is polling / creating work *)
| PTop       (* IdleHandler: top of the outer for loop *)
| PFlush     (* IdleHandler: batch goroutines running, wg.Wait() *)
| PDrain     (* IdleHandler: inner non-blocking loop *)
| PEnded     (* the execution has returned *)
| PPanic.    (* a batch resolver returned more results than items: index out of range *)

Record state := mkState {
  st_phase : phase;
  st_created : nat -> bool;
  st_gor : nat -> gst;
  st_chan : nat -> option result;      (* the promise channel (capacity 1) of each item *)
  st_taken : nat -> bool;              (* the value has been taken (sync: at creation; promise: received) *)
  st_abandoned : nat -> bool;
  st_pend : list (nat * nat);          (* batches: (field context, destination promise), append order;
                                          the table of resolver k is the sub-list with key k *)
  st_chained : nat -> bool;            (* chainedAsyncResolutions *)
  st_cancelled : bool                  (* the request context has been cancelled (environment) *)
}.

Definition upd {A} (f : nat -> A) (i : nat) (v : A) : nat -> A :=
  fun j => if Nat.eqb j i then v else f j.

Definition upd_list {A} (f : nat -> A) (l : list nat) (v : A) : nat -> A :=
  fold_left (fun g i => upd g i v) l f.

Definition init : state :=
  mkState PPoll (fun _ => false) (fun _ => GNone) (fun _ => None) (fun _ => false) (fun _ => false) [] (fun _ => false) false.

Definition set_phase (s : state) (ph : phase) : state :=
  mkState ph (st_created s) (st_gor s) (st_chan s) (st_taken s) (st_abandoned s) (st_pend s) (st_chained s) (st_cancelled s).
Definition set_created (s : state) (w : nat) : state :=
  mkState (st_phase s) (upd (st_created s) w true) (st_gor s) (st_chan s) (st_taken s) (st_abandoned s) (st_pend s) (st_chained s) (st_cancelled s).
Definition set_gor (s : state) (w : nat) (g : gst) : state :=
  mkState (st_phase s) (st_created s) (upd (st_gor s) w g) (st_chan s) (st_taken s) (st_abandoned s) (st_pend s) (st_chained s) (st_cancelled s).
Definition set_chan (s : state) (w : nat) (c : option result) : state :=
  mkState (st_phase s) (st_created s) (st_gor s) (upd (st_chan s) w c) (st_taken s) (st_abandoned s) (st_pend s) (st_chained s) (st_cancelled s).
Definition set_chans (s : state) (ch : nat -> option result) : state :=
  mkState (st_phase s) (st_created s) (st_gor s) ch (st_taken s) (st_abandoned s) (st_pend s) (st_chained s) (st_cancelled s).
Definition set_taken (s : state) (w : nat) : state :=
  mkState (st_phase s) (st_created s) (st_gor s) (st_chan s) (upd (st_taken s) w true) (st_abandoned s) (st_pend s) (st_chained s) (st_cancelled s).
Definition set_abandoned (s : state) (w : nat) : state :=
  mkState (st_phase s) (st_created s) (st_gor s) (st_chan s) (st_taken s) (upd (st_abandoned s) w true) (st_pend s) (st_chained s) (st_cancelled s).
Definition set_pend (s : state) (l : list (nat * nat)) : state :=
  mkState (st_phase s) (st_created s) (st_gor s) (st_chan s) (st_taken s) (st_abandoned s) l (st_chained s) (st_cancelled s).
Definition set_chained (s : state) (f : nat -> bool) : state :=
  mkState (st_phase s) (st_created s) (st_gor s) (st_chan s) (st_taken s) (st_abandoned s) (st_pend s) f (st_cancelled s).

Definition set_cancelled (s : state) : state :=
  mkState (st_phase s) (st_created s) (st_gor s) (st_chan s) (st_taken s) (st_abandoned s) (st_pend s) (st_chained s) true.

(** an item whose promise the executor still waits for *)
Definition live (p : prog) (s : state) (w : nat) : bool :=
  match lookup p w with
  | Some it => is_promise (it_kind it) && negb (it_inner it) && st_created s w
               && negb (st_taken s w) && negb (st_abandoned s w)
  | None => false
  end.

Definition chan_empty (s : state) (w : nat) : bool :=
  match st_chan s w with None => true | Some _ => false end.

Definition is_parked (g : gst) : bool := match g with GParked _ => true | _ => false end.
Definition is_nil {A} (l : list A) : bool := match l with [] => true | _ => false end.

Fixpoint list_eqb (a b : list nat) : bool :=
  match a, b with
  | [], [] => true
  | x :: a', y :: b' => Nat.eqb x y && list_eqb a' b'
  | _, _ => false
  end.

(** ** Labels *)

Inductive label :=
| LCreate (w : nat)
| LConsume (w : nat)
| LAbandon (w : nat)
| LIdleEnter
| LFlush (k : nat) (its : list nat)
| LFlushDone
| LFinish (w : nat)
| LRead (c : nat)
| LArrive (w : nat)
| LRecv (w : nat)
| LIdleExit
| LEnd
| LExit (w : nat)
| LCancel.

(** ** Variants of the code covered by the model
    [v_fix]: the goroutines select on executionDone (the [fix:] commit; false = pinned code).
    [v_loop]: after delivering to a chained promise the idle handler loops ([continue], the code
    that exists); false = it falls through to the drain loop and returns to the executor, which
    calls it again — a rewrite that keeps the property; every theorem is proved for both. *)
Record variant := mkVariant { v_fix : bool; v_loop : bool }.
Definition current : variant := mkVariant true true.
Definition pinned : variant := mkVariant false true.

(** ** Executor thread *)

Definition parent_ready (s : state) (it : item) : bool :=
  match it_parent it with
  | None => true
  | Some q => st_created s q && st_taken s q
  end.

(** a resolver is invoked.  Sync: the value is there at once.  Go (api.go:172-191): a goroutine
    starts computing.  Batch (api.go:203-218): [b.items = append(b.items, ctx); b.dests =
    append(b.dests, ch)].  chain/join (api.go:135-170): every inner promise is put into
    chainedAsyncResolutions, then a Go goroutine starts that reads them in order. *)
Definition do_create (p : prog) (s : state) (w : nat) : option state :=
  match st_phase s, lookup p w with
  | PPoll, Some it =>
      if negb (st_created s w) && parent_ready s it then
        match it_kind it with
        | KSync => Some (set_taken (set_created s w) w)
        | KGo => Some (set_gor (set_created s w) w GComputing)
        | KBatch _ => Some (set_pend (set_created s w) (st_pend s ++ [(w, w)]))
        | KChain inn =>
            if forallb (st_created s) inn then
              Some (set_gor (set_chained (set_created s w) (upd_list (st_chained s) inn true)) w (GWaiting 0 []))
            else None
        end
      else None
  | _, _ => None
  end.

(** the executor's poll finds a delivered result in a promise it owns (executor.go:335-345) *)
Definition do_consume (p : prog) (s : state) (w : nat) : option state :=
  match st_phase s, lookup p w, st_chan s w with
  | PPoll, Some it, Some _ =>
      if negb (it_inner it) then Some (set_taken (set_chan s w None) w) else None
  | _, _, _ => None
  end.

Definition do_abandon (p : prog) (s : state) (w : nat) : option state :=
  match st_phase s with
  | PPoll => if live p s w then Some (set_abandoned s w) else None
  | _ => None
  end.

(** executor.go:227-233: the idle handler is invoked when the root future is not done after a poll;
    then some promise the executor waits for is still empty (C02: a pending future is [Blocked]).
    Nothing is assumed about awaited promises whose result the poll did not reach. *)
Definition do_idle_enter (p : prog) (s : state) : option state :=
  match st_phase s with
  | PPoll =>
      if existsb (fun w => live p s w && chan_empty s w) (ids p)
      then Some (set_phase s PTop) else None
  | _ => None
  end.

Definition do_end (p : prog) (s : state) : option state :=
  match st_phase s with
  | PPoll => if forallb (fun w => negb (live p s w)) (ids p) then Some (set_phase s PEnded) else None
  | _ => None
  end.

(** ** Idle handler (api.go:88-125) *)

Definition entries_of (p : prog) (k : nat) (l : list (nat * nat)) : list (nat * nat) :=
  filter (fun e => key_is p k (fst e)) l.
Definition rest_of (p : prog) (k : nat) (l : list (nat * nat)) : list (nat * nat) :=
  filter (fun e => negb (key_is p k (fst e))) l.

(** [for i, result := range b.resolver(b.items) { b.dests[i] <- result }]; a send into a full
    promise channel would block for ever: [None] *)
Fixpoint deliver_all (ch : nat -> option result) (ds : list nat) (rs : list result) : option (nat -> option result) :=
  match ds, rs with
  | d :: ds', r :: rs' =>
      match ch d with
      | None => deliver_all (upd ch d (Some r)) ds' rs'
      | Some _ => None
      end
  | _, _ => Some ch
  end.

(** one of the goroutines started at api.go:93-102: batch k's resolver is called with all its
    items, results go to the destinations by position.  Taken at the top of the loop only when
    [len(r.batches) > 0].  The entries leave [st_pend] here (nothing reads r.batches between the
    start of the goroutines and its reset at api.go:104); [LFlushDone] = wg.Wait() returned. *)
Definition do_flush (p : prog) (s : state) (k : nat) (its : list nat) : option state :=
  match st_phase s with
  | PTop | PFlush =>
      let es := entries_of p k (st_pend s) in
      if list_eqb its (map fst es) && negb (is_nil its) then
        let rs := p_bfun p k its in
        if Nat.ltb (length its) (length rs) then Some (set_phase s PPanic)
        else match deliver_all (st_chan s) (map snd es) rs with
             | Some ch' => Some (set_phase (set_pend (set_chans s ch') (rest_of p k (st_pend s))) PFlush)
             | None => None
             end
      else None
  | _ => None
  end.

Definition do_flush_done (s : state) : option state :=
  match st_phase s with
  | PFlush => if is_nil (st_pend s) then Some (set_phase s PDrain) else None
  | _ => None
  end.

(** [resolution := <-r.asyncResolutions; resolution.Dest <- resolution.Result]: blocking at the top
    of the loop when there are no batches (api.go:107-112, [continue] when the destination is a
    chained promise), non-blocking in the drain loop (api.go:116-123) *)
Definition do_recv (fx : variant) (s : state) (w : nat) : option state :=
  match st_gor s w, st_chan s w with
  | GParked r, None =>
      let s1 := set_gor (set_chan s w (Some r)) w GDone in
      match st_phase s with
      | PTop =>
          if is_nil (st_pend s) then
            if st_chained s w then
              if v_loop fx then Some (set_chained s1 (upd (st_chained s) w false))
              else Some (set_phase (set_chained s1 (upd (st_chained s) w false)) PDrain)
            else Some (set_phase s1 PDrain)
          else None
      | PDrain => Some s1
      | _ => None
      end
  | _, _ => None
  end.

(** the [default] case of the select: taken only when no sender is waiting *)
Definition do_idle_exit (p : prog) (s : state) : option state :=
  match st_phase s with
  | PDrain => if forallb (fun w => negb (is_parked (st_gor s w))) (ids p) then Some (set_phase s PPoll) else None
  | _ => None
  end.

(** ** Goroutines *)

Definition do_finish (p : prog) (s : state) (w : nat) : option state :=
  match st_gor s w, lookup p w with
  | GComputing, Some it => Some (set_gor s w (GFinished (it_res it)))
  | _, _ => None
  end.

Definition do_arrive (s : state) (w : nat) : option state :=
  match st_gor s w with
  | GFinished r => Some (set_gor s w (GParked r))
  | _ => None
  end.

(** chain: [result := <-p; if error return it; return f(value)]; join: the same in a loop *)
Definition do_read (p : prog) (s : state) (c : nat) : option state :=
  match st_gor s c, lookup p c with
  | GWaiting j vals, Some it =>
      match it_kind it with
      | KChain inn =>
          match nth_error inn j with
          | Some q =>
              match st_chan s q with
              | Some r =>
                  let s1 := set_taken (set_chan s q None) q in
                  match r with
                  | RErr e => Some (set_gor s1 c (GFinished (RErr e)))
                  | ROk v =>
                      if Nat.eqb (S j) (length inn)
                      then Some (set_gor s1 c (GFinished (p_cfun p c (vals ++ [v]))))
                      else Some (set_gor s1 c (GWaiting (S j) (vals ++ [v])))
                  end
              | None => None
              end
          | None => None
          end
      | _ => None
      end
  | _, _ => None
  end.

(** fixed code only: after the execution returned, the [executionDone] case releases a goroutine
    that is at the send or waits for an inner promise *)
Definition do_exit (fx : variant) (s : state) (w : nat) : option state :=
  match st_phase s with
  | PEnded =>
      if v_fix fx then
        match st_gor s w with
        | GWaiting _ _ | GFinished _ | GParked _ => Some (set_gor s w GExited)
        | _ => None
        end
      else None
  | _ => None
  end.

(** the request context is cancelled (client gone, deadline): an event of the environment that may
    come at any point, once.  What the code does with it: executeField (executor.go:319) no longer
    invokes resolvers — in the model the executor simply stops taking [LCreate]; functions given to
    Go may look at the context and return something else — their result is part of [prog]; the
    idle handler, the hand-over in Go, chain and join do not look at the context at all: no effect
    on any other label. *)
Definition do_cancel (s : state) : option state :=
  if st_cancelled s then None else Some (set_cancelled s).

(** ** The transition function *)

Definition step (fx : variant) (p : prog) (s : state) (l : label) : option state :=
  match l with
  | LCreate w => do_create p s w
  | LConsume w => do_consume p s w
  | LAbandon w => do_abandon p s w
  | LIdleEnter => do_idle_enter p s
  | LFlush k its => do_flush p s k its
  | LFlushDone => do_flush_done s
  | LFinish w => do_finish p s w
  | LRead c => do_read p s c
  | LArrive w => do_arrive s w
  | LRecv w => do_recv fx s w
  | LIdleExit => do_idle_exit p s
  | LEnd => do_end p s
  | LExit w => do_exit fx s w
  | LCancel => do_cancel s
  end.

Fixpoint run (fx : variant) (p : prog) (s : state) (tr : list label) : option state :=
  match tr with
  | [] => Some s
  | l :: tr' => match step fx p s l with Some s' => run fx p s' tr' | None => None end
  end.

(** the acceptor used by the correspondence check: index of the first label that is not enabled *)
Fixpoint accept (fx : variant) (p : prog) (s : state) (i : nat) (tr : list label) : state + nat :=
  match tr with
  | [] => inl s
  | l :: tr' => match step fx p s l with Some s' => accept fx p s' (S i) tr' | None => inr i end
  end.

(** ** Well-formed programs (what the harness generates; checked on every case) *)

Definition inner_of (p : prog) (c : nat) : list nat :=
  match lookup p c with
  | Some it => match it_kind it with KChain inn => inn | _ => [] end
  | None => []
  end.

(** every inner promise of a chain/join: has a smaller id, is flagged inner, is a promise item;
    no promise is inner of two chains or twice of one; a chain has at least one inner promise;
    inner-flagged items are inner of some chain *)
Definition all_inner (p : prog) : list nat := flat_map (inner_of p) (ids p).

Fixpoint nodupb (l : list nat) : bool :=
  match l with
  | [] => true
  | x :: l' => negb (existsb (Nat.eqb x) l') && nodupb l'
  end.

Definition wf_item (p : prog) (w : nat) (it : item) : bool :=
  match it_kind it with
  | KChain inn =>
      negb (is_nil inn) &&
      forallb (fun q => Nat.ltb q w &&
                        match lookup p q with
                        | Some iq => it_inner iq && is_promise (it_kind iq)
                        | None => false
                        end) inn
  | KSync => negb (it_inner it)
  | _ => true
  end &&
  (if it_inner it then existsb (Nat.eqb w) (all_inner p) else true).

Definition wf_items (p : prog) : bool :=
  forallb (fun w => match lookup p w with Some it => wf_item p w it | None => false end) (ids p)
  && nodupb (all_inner p).

(** Batch resolvers must return one result for every field context (documented contract,
    api.go:197-199) *)
Definition bfun_ok (p : prog) : Prop := forall k l, length (p_bfun p k l) = length l.
