(** * Idle/IdleHist.v — C15: what acceptance by the Spec monitor means for a whole history
    (delivery of exactly the produced result, at most once; each field context handed to its batch
    function at most once), and batch coalescing per idle round, proved on the model. *)
From Coq Require Import List NArith ZArith Bool Arith Lia.
From ApiFu Require Import Idle.IdleModel Idle.IdleSpec Idle.IdleProofs.
Import ListNotations.

Definition is_batch (p : prog) (w : nat) : bool :=
  match lookup p w with
  | Some it => match it_kind it with KBatch _ => true | _ => false end
  | None => false
  end.

Definition promise_item (p : prog) (w : nat) : bool :=
  match lookup p w with Some it => is_promise (it_kind it) | None => false end.

Lemma key_is_promise p k w : key_is p k w = true -> promise_item p w = true.
Proof.
  unfold key_is, promise_item. destruct (lookup p w) as [it|]; [|discriminate].
  destruct (it_kind it); auto; discriminate.
Qed.

Lemma key_is_is_batch p k w : key_is p k w = true -> is_batch p w = true.
Proof.
  unfold key_is, is_batch. destruct (lookup p w) as [it|]; [|discriminate].
  destruct (it_kind it); auto; discriminate.
Qed.

Lemma key_is_unique p k k' w : key_is p k w = true -> key_is p k' w = true -> k = k'.
Proof.
  unfold key_is. destruct (lookup p w) as [it|]; [|discriminate].
  destruct (it_kind it); try discriminate. intros A B. apply Nat.eqb_eq in A, B. congruence.
Qed.

(** ** list lemmas *)

Lemma filter_filter_and {A} (f g : A -> bool) l : filter f (filter g l) = filter (fun x => g x && f x) l.
Proof. induction l as [|a l IH]; simpl; auto. destruct (g a); simpl; [destruct (f a)|]; simpl; now rewrite IH. Qed.

Lemma NoDup_app_intro2 {A} (l l' : list A) :
  NoDup l -> NoDup l' -> (forall x, In x l -> ~ In x l') -> NoDup (l ++ l').
Proof.
  induction 1 as [|a l Ha ND IH]; simpl; intros N2 D; auto.
  constructor.
  - intro X. apply in_app_or in X as [X|X]; [tauto|]. apply (D a); auto.
  - apply IH; auto.
Qed.

Lemma mem_app x l l' : mem x (l ++ l') = mem x l || mem x l'.
Proof. unfold mem. apply existsb_app. Qed.

Lemma created_of_snoc tr l :
  created_of (tr ++ [l]) = created_of tr ++ match l with LCreate w => [w] | _ => [] end.
Proof. unfold created_of. rewrite flat_map_app. simpl. now rewrite app_nil_r. Qed.

Lemma flush_calls_snoc tr l :
  flush_calls (tr ++ [l]) = flush_calls tr ++ match l with LFlush k its => [(k, its)] | _ => [] end.
Proof. unfold flush_calls. rewrite flat_map_app. simpl. now rewrite app_nil_r. Qed.

Lemma flushed_snoc tr l :
  flushed (tr ++ [l]) = flushed tr ++ match l with LFlush _ its => its | _ => [] end.
Proof.
  unfold flushed. rewrite flush_calls_snoc, flat_map_app. destruct l; simpl; rewrite ?app_nil_r; auto.
Qed.

Lemma deliveries_snoc tr l :
  deliveries (tr ++ [l]) =
  deliveries tr ++ match l with LRecv w => [w] | LFlush _ its => its | _ => [] end.
Proof. unfold deliveries. rewrite flat_map_app. simpl. now rewrite app_nil_r. Qed.

Lemma mon_run_app p t1 : forall t2 m m',
  mon_run p m (t1 ++ t2) = Some m' <-> exists m1, mon_run p m t1 = Some m1 /\ mon_run p m1 t2 = Some m'.
Proof.
  induction t1 as [|l t1 IH]; intros t2 m m'; simpl.
  - split; [eauto|]. intros [m1 [E H]]. inversion E; subst; auto.
  - destruct (mon_step p m l) as [m1|]; [apply IH|]. split; [discriminate|]. intros [m1 [E _]]. discriminate.
Qed.

(** what a successful positional delivery did *)
Lemma mon_deliver_inv k its : forall ws call dlv i rs call' dlv',
  mon_deliver k its call dlv i ws rs = Some (call', dlv') ->
  length rs = length ws /\ NoDup ws /\ (forall w, In w ws -> dlv w = None) /\
  (forall w, ~ In w ws -> dlv' w = dlv w) /\
  (forall j w, nth_error ws j = Some w -> dlv' w = nth_error rs j).
Proof.
  induction ws as [|w ws IH]; intros call dlv i rs call' dlv' H.
  - destruct rs; simpl in H; [|discriminate]. inversion H; subst.
    split; auto. split; [constructor|]. split; [intros ? []|]. split; auto. intros [|j] w Hj; discriminate.
  - destruct rs as [|r rs]; simpl in H; [discriminate|].
    destruct (call w) eqn:CW; destruct (dlv w) eqn:DW; try discriminate.
    apply IH in H as [L [ND [NN [UN PO]]]].
    assert (NI : ~ In w ws). { intro X. specialize (NN w X). rewrite upd_same in NN. discriminate. }
    split; [simpl; lia|]. split; [constructor; auto|]. split; [|split].
    + intros w' [<-|X]; auto. specialize (NN w' X). rewrite upd_other in NN; auto. intro; subst; tauto.
    + intros w' X. simpl in X. rewrite UN by tauto. apply upd_other. intro; subst. apply X. now left.
    + intros [|j] w' Hj; simpl in *.
      * inversion Hj; subst. rewrite UN by auto. apply upd_same.
      * eauto.
Qed.

(** the two ways a chain / join reference result comes about *)
Lemma chain_ref_cases cf (dlv : nat -> option result) suf : forall acc r,
  chain_ref cf dlv suf acc = Some r ->
  (exists vals, Forall2 (fun q v => dlv q = Some (ROk v)) suf vals /\ r = cf (acc ++ vals)) \/
  (exists s1 q s2 vals e, suf = s1 ++ q :: s2 /\ Forall2 (fun q v => dlv q = Some (ROk v)) s1 vals /\
                          dlv q = Some (RErr e) /\ r = RErr e).
Proof.
  induction suf as [|q suf IH]; intros acc r H; simpl in H.
  - left. exists []. split; [constructor|]. rewrite app_nil_r. congruence.
  - destruct (dlv q) as [[v|e]|] eqn:DQ; [| |discriminate].
    + apply IH in H as [[vals [F E]]|[s1 [q' [s2 [vals [e [E1 [F [DE E2]]]]]]]]].
      * left. exists (v :: vals). split; [constructor; auto|]. rewrite E, <- app_assoc. reflexivity.
      * right. exists (q :: s1), q', s2, (v :: vals), e. subst suf. repeat split; auto.
    + right. exists [], q, suf, [], e. repeat split; auto. congruence.
Qed.

(** ** The monitor's bookkeeping, read off the history *)

Record Hist (p : prog) (tr : list label) (m : mon) : Prop := mkHist {
  h_created : m_created m = created_of tr;
  h_nodup : NoDup (created_of tr);
  h_unfl : m_unflushed m = filter (fun w => is_batch p w && negb (mem w (flushed tr))) (created_of tr);
  h_fl_nodup : NoDup (flushed tr);
  h_fl_created : forall w, In w (flushed tr) -> In w (created_of tr);
  h_dlv_in : forall w, m_dlv m w <> None <-> In w (deliveries tr);
  h_dlv_nodup : NoDup (deliveries tr);
  h_produced : forall w r, m_dlv m w = Some r -> forall T, incl tr T -> produced p T w r;
  h_dlv_promise : forall w, m_dlv m w <> None -> promise_item p w = true
}.

Lemma hist_init p : Hist p [] mon_init.
Proof.
  constructor; simpl; auto; try constructor; try tauto; try discriminate.
Qed.

Lemma incl_snoc {A} (tr : list A) l T : incl (tr ++ [l]) T -> incl tr T /\ In l T.
Proof.
  intro H. split.
  - intros x Hx. apply H. apply in_or_app. now left.
  - apply H. apply in_or_app. right. now left.
Qed.

(** labels that leave the bookkeeping alone *)
Lemma hist_silent p tr m l m' :
  Hist p tr m ->
  match l with LCreate _ | LFlush _ _ | LRecv _ => False | _ => True end ->
  m_created m' = m_created m -> m_unflushed m' = m_unflushed m -> m_dlv m' = m_dlv m ->
  Hist p (tr ++ [l]) m'.
Proof.
  intros [H1 H2 H3 H4 H5 H6 H7 H8 H9] SL E1 E2 E3.
  assert (C : created_of (tr ++ [l]) = created_of tr) by (rewrite created_of_snoc; destruct l; try tauto; apply app_nil_r).
  assert (F : flushed (tr ++ [l]) = flushed tr) by (rewrite flushed_snoc; destruct l; try tauto; apply app_nil_r).
  assert (D : deliveries (tr ++ [l]) = deliveries tr) by (rewrite deliveries_snoc; destruct l; try tauto; apply app_nil_r).
  constructor; rewrite ?C, ?F, ?D, ?E1, ?E2, ?E3; auto.
  intros w r X T I. apply incl_snoc in I as [I _]. eauto.
Qed.

Lemma hist_step p tr m l m' : Hist p tr m -> mon_step p m l = Some m' -> Hist p (tr ++ [l]) m'.
Proof.
  intros HH H.
  destruct l as [w|w|w| |k its| |w|c|w|w| | |w| ]; simpl in H.
  - (* create *)
    destruct HH as [H1 H2 H3 H4 H5 H6 H7 H8 H9].
    destruct (lookup p w) as [it|] eqn:L; [|discriminate].
    destruct (mem w (m_created m)) eqn:MC; [discriminate|]. inversion H; subst m'; clear H.
    apply mem_false in MC. rewrite H1 in MC.
    assert (NF : mem w (flushed tr) = false) by (apply mem_false; intro X; apply MC, H5, X).
    assert (F : flushed (tr ++ [LCreate w]) = flushed tr) by (rewrite flushed_snoc; apply app_nil_r).
    assert (D : deliveries (tr ++ [LCreate w]) = deliveries tr) by (rewrite deliveries_snoc; apply app_nil_r).
    constructor; simpl; rewrite ?created_of_snoc, ?F, ?D; auto.
    + now rewrite H1.
    + apply NoDup_app_intro; auto.
    + rewrite filter_app. simpl. unfold is_batch at 2. rewrite L, NF.
      destruct (it_kind it); simpl; rewrite ?app_nil_r; auto; now rewrite H3.
    + intros w0 X. apply in_or_app. left. auto.
    + intros w0 r X T I. apply incl_snoc in I as [I _]. eauto.
  - (* consume *)
    destruct (lookup p w) as [it|]; [|discriminate]. destruct (m_dlv m w); [|discriminate].
    destruct (_ && _); [|discriminate]. inversion H; subst m'. apply (hist_silent p tr m); simpl; auto.
  - inversion H; subst m'. apply (hist_silent p tr m); simpl; auto.
  - destruct (m_round m); [discriminate|]. inversion H; subst m'. apply (hist_silent p tr m); simpl; auto.
  - (* flush *)
    destruct HH as [H1 H2 H3 H4 H5 H6 H7 H8 H9].
    destruct (m_round m) as [ks|]; [|discriminate]. destruct (mem k ks); [discriminate|].
    destruct (negb (list_eqb its (filter (key_is p k) (m_unflushed m)))) eqn:E1; [discriminate|].
    apply negb_false_iff, list_eqb_eq in E1. destruct (is_nil its) eqn:E2; [discriminate|].
    destruct (mon_deliver k its (m_call m) (m_dlv m) 0 its (p_bfun p k its)) as [[call' dlv']|] eqn:MD; [|discriminate].
    inversion H; subst m'; clear H. apply mon_deliver_inv in MD as [LN [ND [NN [UN PO]]]].
    assert (INI : forall w, In w its <-> In w (created_of tr) /\ key_is p k w = true /\ ~ In w (flushed tr)).
    { intro w. rewrite E1, H3, filter_In, filter_In. split.
      - intros [[A B] C]. apply andb_true_iff in B as [_ B]. apply negb_true_iff, mem_false in B. auto.
      - intros [A [B C]]. repeat split; auto. apply andb_true_iff. split; [eapply key_is_is_batch; eauto|].
        apply negb_true_iff, mem_false; auto. }
    assert (C : created_of (tr ++ [LFlush k its]) = created_of tr) by (rewrite created_of_snoc; apply app_nil_r).
    constructor; simpl; rewrite ?C, ?flushed_snoc, ?deliveries_snoc; auto.
    + rewrite H3, filter_filter_and. apply filter_ext_in. intros w Hw.
      rewrite mem_app. destruct (is_batch p w); simpl; auto. destruct (mem w (flushed tr)) eqn:MF; simpl; auto.
      apply mem_false in MF. destruct (key_is p k w) eqn:KW; simpl.
      * symmetry. apply negb_false_iff, mem_In, INI. auto.
      * symmetry. apply negb_true_iff, mem_false. intro X. apply INI in X as [_ [X _]]. congruence.
    + apply NoDup_app_intro2; auto. intros x X Y. apply INI in Y. tauto.
    + intros w X. apply in_app_or in X as [X|X]; auto. apply INI in X. tauto.
    + intro w. rewrite in_app_iff. destruct (in_dec Nat.eq_dec w its) as [Y|Y].
      * split; auto. intros _. destruct (In_nth_error _ _ Y) as [j Hj]. rewrite (PO j w Hj).
        apply nth_error_Some. rewrite LN. apply nth_error_Some. congruence.
      * rewrite (UN w Y), H6. tauto.
    + apply NoDup_app_intro2; auto. intros x X Y. apply H6 in X. apply X, NN, Y.
    + intros w r X T I. apply incl_snoc in I as [I IL]. destruct (in_dec Nat.eq_dec w its) as [Y|Y].
      * destruct (In_nth_error _ _ Y) as [j Hj]. rewrite (PO j w Hj) in X. eapply pr_batch; eauto.
      * rewrite (UN w Y) in X. eauto.
    + intros w X. destruct (in_dec Nat.eq_dec w its) as [Y|Y].
      * apply INI in Y as [_ [Y _]]. eapply key_is_promise; eauto.
      * rewrite (UN w Y) in X. auto.
  - inversion H; subst m'. apply (hist_silent p tr m); simpl; auto.
  - inversion H; subst m'. apply (hist_silent p tr m); simpl; auto.
  - inversion H; subst m'. apply (hist_silent p tr m); simpl; auto.
  - inversion H; subst m'. apply (hist_silent p tr m); simpl; auto.
  - (* recv *)
    destruct HH as [H1 H2 H3 H4 H5 H6 H7 H8 H9].
    destruct (m_round m) as [ks|]; [|discriminate]. destruct (lookup p w) as [it|] eqn:L; [|discriminate].
    destruct (m_dlv m w) eqn:DW; [discriminate|].
    assert (EX : exists r, m' = mkMon (m_created m) (m_unflushed m) (Some ks) (m_call m) (upd (m_dlv m) w (Some r))
                                      (m_taken m) (m_abandoned m) /\
                           (forall T, incl tr T -> produced p T w r) /\ promise_item p w = true).
    { destruct (it_kind it) as [| |k|inn] eqn:K; try discriminate.
      - inversion H; subst m'. eexists; split; [reflexivity|]. split; [|unfold promise_item; now rewrite L, K].
        intros T I. eapply pr_go; eauto.
      - destruct (chain_ref (p_cfun p w) (m_dlv m) inn []) as [r|] eqn:CR; [|discriminate].
        inversion H; subst m'. eexists; split; [reflexivity|]. split; [|unfold promise_item; now rewrite L, K].
        intros T I.
        apply chain_ref_cases in CR as [[vals [F E]]|[s1 [q [s2 [vals [e [E1 [F [DE E2]]]]]]]]].
        + subst r. simpl. eapply pr_chain_ok; eauto. eapply Forall2_imp; [|exact F]. intros a b X. simpl in X. eauto.
        + subst r. eapply pr_chain_err; eauto. eapply Forall2_imp; [|exact F]. intros a b X. simpl in X. eauto. }
    destruct EX as [r [-> [PR PI]]]. clear H.
    assert (NI : ~ In w (deliveries tr)) by (intro X; apply H6 in X; congruence).
    assert (C : created_of (tr ++ [LRecv w]) = created_of tr) by (rewrite created_of_snoc; apply app_nil_r).
    assert (F : flushed (tr ++ [LRecv w]) = flushed tr) by (rewrite flushed_snoc; apply app_nil_r).
    constructor; simpl; rewrite ?C, ?F, ?deliveries_snoc; auto.
    + intro w0. rewrite in_app_iff. destruct (upd_cases (m_dlv m) w (Some r) w0) as [[-> E]|[N E]]; rewrite E.
      * split; [intros _; right; now left|congruence].
      * rewrite H6. simpl. split; [tauto|]. intros [X|[X|[]]]; auto. congruence.
    + apply NoDup_app_intro; auto.
    + intros w0 r0 X T I. apply incl_snoc in I as [I _].
      destruct (upd_cases (m_dlv m) w (Some r) w0) as [[-> E]|[N E]]; rewrite E in X.
      * inversion X; subst. auto.
      * eauto.
    + intros w0 X. destruct (upd_cases (m_dlv m) w (Some r) w0) as [[-> E]|[N E]]; rewrite E in X; auto.
  - (* idle exit *)
    destruct (m_round m); [|discriminate]. destruct (is_nil (m_unflushed m)); [|discriminate].
    inversion H; subst m'. apply (hist_silent p tr m); simpl; auto.
  - (* end *)
    destruct (m_round m); [discriminate|]. destruct (forallb _ _); [|discriminate].
    inversion H; subst m'. apply (hist_silent p tr m); simpl; auto.
  - inversion H; subst m'. apply (hist_silent p tr m); simpl; auto.
  - inversion H; subst m'. apply (hist_silent p tr m); simpl; auto.
Qed.

Theorem hist_run p tr : forall m, mon_run p mon_init tr = Some m -> Hist p tr m.
Proof.
  induction tr as [|l tr IH] using rev_ind; intros m H.
  - simpl in H. inversion H; subst. apply hist_init.
  - apply mon_run_app in H as [m1 [H1 H2]]. simpl in H2.
    destruct (mon_step p m1 l) as [m2|] eqn:E; [|discriminate]. inversion H2; subst m2.
    eapply hist_step; eauto.
Qed.

(** the pending field contexts of one resolver, from the monitor's list *)
Lemma pending_from_hist p tr m k :
  Hist p tr m -> filter (key_is p k) (m_unflushed m) = pending_after p k tr.
Proof.
  intros HH. rewrite (h_unfl p tr m HH), filter_filter_and. unfold pending_after. apply filter_ext.
  intro w. fold (flushed tr). destruct (key_is p k w) eqn:KW.
  - rewrite (key_is_is_batch p k w KW). simpl. now rewrite andb_true_r.
  - now rewrite andb_false_r.
Qed.

(** ** One idle round of the model: every pending batch is called once, with everything pending *)

Definition in_idle (ph : phase) : Prop := ph = PTop \/ ph = PFlush \/ ph = PDrain.

Definition opt_call (p : prog) (k : nat) (pend : list (nat * nat)) : list (nat * list nat) :=
  match map fst (entries_of p k pend) with [] => [] | its => [(k, its)] end.

Lemma entries_rest_same p k pend : entries_of p k (rest_of p k pend) = [].
Proof. unfold entries_of, rest_of. apply (filter_negb_nil (fun e : nat * nat => key_is p k (fst e))). Qed.

Lemma entries_rest_other p k k' pend : k <> k' -> entries_of p k (rest_of p k' pend) = entries_of p k pend.
Proof.
  intro NE. unfold entries_of, rest_of. rewrite filter_filter_and. apply filter_ext.
  intros [a b]. simpl. destruct (key_is p k a) eqn:KA; [|apply andb_false_r].
  destruct (key_is p k' a) eqn:KB; auto. exfalso. apply NE. eapply key_is_unique; eauto.
Qed.

Section Round.
Variable p : prog.
Hypothesis WF : wf_items p = true.
Hypothesis BF : bfun_ok p.
Variable fx : variant.

Lemma step_in_idle s l s' :
  in_idle (st_phase s) -> step fx p s l = Some s' -> l <> LIdleExit ->
  in_idle (st_phase s') /\
  match l with
  | LFlush k its => its = map fst (entries_of p k (st_pend s)) /\ its <> [] /\ st_pend s' = rest_of p k (st_pend s)
  | LCreate _ => False
  | _ => st_pend s' = st_pend s
  end.
Proof.
  intros HI H NX. unfold in_idle in *.
  destruct l as [w|w|w| |k its| |w|c|w|w| | |w| ]; simpl in H.
  - unfold do_create in H. destruct HI as [E|[E|E]]; rewrite E in H; discriminate.
  - unfold do_consume in H. destruct HI as [E|[E|E]]; rewrite E in H; discriminate.
  - unfold do_abandon in H. destruct HI as [E|[E|E]]; rewrite E in H; discriminate.
  - unfold do_idle_enter in H. destruct HI as [E|[E|E]]; rewrite E in H; discriminate.
  - unfold do_flush in H.
    assert (PHH : st_phase s = PTop \/ st_phase s = PFlush) by (destruct (st_phase s); try discriminate; auto).
    assert (H' : (if list_eqb its (map fst (entries_of p k (st_pend s))) && negb (is_nil its)
                  then let rs := p_bfun p k its in
                       if Nat.ltb (length its) (length rs) then Some (set_phase s PPanic)
                       else match deliver_all (st_chan s) (map snd (entries_of p k (st_pend s))) rs with
                            | Some ch' => Some (set_phase (set_pend (set_chans s ch') (rest_of p k (st_pend s))) PFlush)
                            | None => None
                            end
                  else None) = Some s') by (destruct PHH as [E|E]; rewrite E in H; exact H).
    clear H. destruct (list_eqb its _ && negb (is_nil its)) eqn:GD; [|discriminate].
    apply andb_true_iff in GD as [E1 E2]. apply list_eqb_eq in E1. apply negb_true_iff in E2.
    cbv zeta in H'. rewrite (proj2 (Nat.ltb_ge _ _)) in H' by (rewrite BF; lia).
    destruct (deliver_all _ _ _) as [ch'|]; [|discriminate]. inversion H'; subst s'; clear H'. simpl.
    split; auto. split; auto. split; auto. intro Z. rewrite Z in E2. discriminate.
  - unfold do_flush_done in H. destruct (st_phase s) eqn:PH; try discriminate.
    destruct (is_nil (st_pend s)); [|discriminate]. inversion H; subst s'. simpl. auto.
  - unfold do_finish in H. destruct (st_gor s w); try discriminate. destruct (lookup p w); [|discriminate].
    inversion H; subst s'. simpl. auto.
  - unfold do_read in H. destruct (st_gor s c); try discriminate. destruct (lookup p c) as [it|]; [|discriminate].
    destruct (it_kind it) as [| | |inn]; try discriminate. destruct (nth_error inn j) as [q|]; [|discriminate].
    destruct (st_chan s q) as [r|]; [|discriminate].
    destruct r; [destruct (Nat.eqb (S j) (length inn))|]; inversion H; subst s'; simpl; auto.
  - unfold do_arrive in H. destruct (st_gor s w); try discriminate. inversion H; subst s'. simpl. auto.
  - unfold do_recv in H. destruct (st_gor s w); try discriminate. destruct (st_chan s w); [discriminate|].
    cbv zeta in H. destruct (st_phase s) eqn:PH; try discriminate.
    + destruct (is_nil (st_pend s)); [|discriminate].
      destruct (st_chained s w); [destruct (v_loop fx)|]; inversion H; subst s'; simpl; rewrite ?PH; auto.
    + inversion H; subst s'. simpl. rewrite PH. auto.
  - congruence.
  - unfold do_end in H. destruct HI as [E|[E|E]]; rewrite E in H; discriminate.
  - unfold do_exit in H. destruct HI as [E|[E|E]]; rewrite E in H; discriminate.
  - unfold do_cancel in H. destruct (st_cancelled s); [discriminate|]. inversion H; subst s'. simpl. auto.
Qed.

Lemma calls_of_cons k l tr :
  calls_of k (l :: tr) =
  match l with LFlush k' its => if Nat.eqb k' k then [(k', its)] else [] | _ => [] end ++ calls_of k tr.
Proof.
  unfold calls_of. unfold flush_calls at 1. simpl. fold (flush_calls tr). rewrite filter_app.
  destruct l as [w|w|w| |k' its| |w|c|w|w| | |w| ]; simpl; auto.
Qed.

Lemma created_of_cons l tr :
  created_of (l :: tr) = match l with LCreate w => [w] | _ => [] end ++ created_of tr.
Proof. reflexivity. Qed.

(** inside the idle handler (between an entry and the matching return) no resolver is invoked, and
    for every batch resolver: its calls so far, plus one call for what is still pending, is exactly
    one call for what was pending at the start *)
Lemma segment : forall mid s s1,
  in_idle (st_phase s) -> run fx p s mid = Some s1 -> ~ In LIdleExit mid ->
  in_idle (st_phase s1) /\ created_of mid = [] /\
  forall k, calls_of k mid ++ opt_call p k (st_pend s1) = opt_call p k (st_pend s).
Proof.
  induction mid as [|l mid IH]; intros s s1 HI R NX; simpl in R.
  - inversion R; subst. repeat split; auto.
  - destruct (step fx p s l) as [s'|] eqn:E; [|discriminate].
    assert (NL : l <> LIdleExit) by (intro; subst; apply NX; now left).
    destruct (step_in_idle s l s' HI E NL) as [HI' EFF].
    destruct (IH s' s1 HI' R) as [HI1 [CR CL]]; [intro X; apply NX; now right|].
    split; auto. split.
    + rewrite created_of_cons, CR. destruct l; auto. destruct EFF.
    + intro k. rewrite calls_of_cons, <- app_assoc, CL.
      destruct l as [w|w|w| |k' its| |w|c|w|w| | |w| ]; try (rewrite EFF; reflexivity); [destruct EFF|].
      destruct EFF as [E1 [E2 E3]]. rewrite E3.
      destruct (Nat.eqb_spec k' k) as [->|NE].
      * unfold opt_call. rewrite entries_rest_same. simpl. rewrite <- E1. destruct its; [congruence|reflexivity].
      * unfold opt_call. rewrite entries_rest_other by auto. reflexivity.
Qed.

(** COALESCED, on the model, for all interleavings: in the round between an entry into the idle
    handler and its return, batch resolver [k] is called exactly once if some invocation of it was
    pending at the entry — with all of them, in invocation order — and not at all otherwise *)
Theorem batch_coalesced pre mid s :
  run fx p init (pre ++ LIdleEnter :: mid ++ [LIdleExit]) = Some s -> ~ In LIdleExit mid ->
  forall k, calls_of k mid = match pending_after p k pre with [] => [] | its => [(k, its)] end.
Proof.
  intros R NX k.
  apply run_app in R as [sa [Ra R]]. cbn [run] in R.
  destruct (step fx p sa LIdleEnter) as [sb|] eqn:EB; [|discriminate].
  apply run_app in R as [sc [Rc R]]. cbn [run] in R.
  destruct (step fx p sc LIdleExit) as [sd|] eqn:ED; [|discriminate].
  destruct (run_refines p WF BF fx pre sa Ra) as [ma [MA [IVa SMa]]].
  assert (Rbc : run fx p init (pre ++ LIdleEnter :: mid) = Some sc).
  { apply run_app. exists sa. split; auto. cbn [run]. now rewrite EB. }
  destruct (run_refines p WF BF fx _ sc Rbc) as [mc [_ [IVc _]]].
  simpl in EB. unfold do_idle_enter in EB. destruct (st_phase sa) eqn:PA; try discriminate.
  destruct (existsb _ _); [|discriminate]. inversion EB; subst sb; clear EB.
  destruct (segment mid (set_phase sa PTop) sc) as [_ [_ CL]]; auto; [left; reflexivity|].
  specialize (CL k). simpl in CL.
  simpl in ED. unfold do_idle_exit in ED. destruct (st_phase sc) eqn:PC; try discriminate.
  rewrite (c_drain p sc IVc PC) in CL. unfold opt_call at 1 in CL. simpl in CL. rewrite app_nil_r in CL.
  rewrite CL. unfold opt_call, entries_of. rewrite map_fst_filter.
  rewrite <- (s_unflushed p sa ma SMa). rewrite (pending_from_hist p pre ma k (hist_run p pre ma MA)). reflexivity.
Qed.

(** DELIVERY: whatever a promise holds is the result produced for it *)
Theorem delivery_exact tr s w r :
  run fx p init tr = Some s -> st_chan s w = Some r -> produced p tr w r.
Proof.
  intros R C. destruct (run_refines p WF BF fx tr s R) as [m [M [_ SM]]].
  apply (h_produced p tr m (hist_run p tr m M) w r); [|apply incl_refl].
  apply (s_chan p s m SM w r C).
Qed.

(** ... and no promise receives a result twice; no field context is handed to a batch function twice *)
Theorem delivered_once tr s : run fx p init tr = Some s -> NoDup (deliveries tr).
Proof.
  intros R. destruct (run_refines p WF BF fx tr s R) as [m [M _]]. apply (h_dlv_nodup p tr m (hist_run p tr m M)).
Qed.

Theorem batch_once_per_item tr s : run fx p init tr = Some s -> once_per_item tr.
Proof.
  intros R. destruct (run_refines p WF BF fx tr s R) as [m [M _]]. apply (h_fl_nodup p tr m (hist_run p tr m M)).
Qed.

(** what the executor takes was produced for that promise *)
Theorem consumed_was_produced tr w s :
  run fx p init (tr ++ [LConsume w]) = Some s -> exists r, produced p tr w r.
Proof.
  intros R. apply run_app in R as [s1 [R1 R2]]. cbn [run step] in R2.
  destruct (do_consume p s1 w) as [s2|] eqn:E; [|discriminate].
  unfold do_consume in E. destruct (st_phase s1); try discriminate. destruct (lookup p w); [|discriminate].
  destruct (st_chan s1 w) as [r|] eqn:C; [|discriminate]. exists r. eapply delivery_exact; eauto.
Qed.

(** every history of the model is accepted by the Spec monitor *)
Theorem run_accepted tr s : run fx p init tr = Some s -> exists m, mon_run p mon_init tr = Some m.
Proof. intro R. destruct (run_refines p WF BF fx tr s R) as [m [M _]]. eauto. Qed.

End Round.
