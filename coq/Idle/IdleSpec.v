(** * Idle/IdleSpec.v — C15: the reference semantics, written from the property statement.

    The property speaks about what can be seen of a request from outside the idle handler: which
    resolvers were invoked ([LCreate]), when execution got stuck and resumed ([LIdleEnter],
    [LIdleExit]), which batch function was called with which field contexts ([LFlush]), which
    promise received a result ([LRecv], and the positional deliveries of [LFlush]), which results
    the executor took ([LConsume]) and when the request returned ([LEnd]).  [mon_step] is a monitor
    over such a history: it keeps only bookkeeping that can be read off the history (no phases, no
    goroutine states, no channels) and answers [None] as soon as a clause of the property is
    violated:

    - DELIVERY      a promise receives a result at most once, and it is the result produced for it:
                    Go: the result of its function; chain/join: the first error among its inner
                    promises' results, else its function applied to their values ([chain_ref]);
                    Batch: the entry of the batch function's answer at the position at which the
                    field context was passed;
    - ONCE          a batch function is never handed a field context twice;
    - COALESCED     within one idle entry a batch resolver is called at most once, with ALL its
                    field contexts pending at that moment in invocation order, and when the idle
                    handler returns no batch item is pending;
    - NO PHANTOM    the executor only takes results that were delivered, each once;
    - NO LOST       at request end every promise the executor was given is taken or abandoned.

    [mon_run] is executable: it is the oracle of the correspondence check, run on every observed
    history.  IdleProofs.v shows that every run of the model is accepted (for all interleavings). *)
From Coq Require Import List NArith ZArith Bool Arith.
From ApiFu Require Import Idle.IdleModel.
Import ListNotations.

(** reference result of a chain/join from the results its inner promises received *)
Fixpoint chain_ref (cf : list Z -> result) (dl : nat -> option result) (inn : list nat) (acc : list Z) : option result :=
  match inn with
  | [] => Some (cf acc)
  | q :: inn' =>
      match dl q with
      | Some (ROk v) => chain_ref cf dl inn' (acc ++ [v])
      | Some (RErr e) => Some (RErr e)
      | None => None
      end
  end.

Record mon := mkMon {
  m_created : list nat;                        (* resolvers invoked so far, in order *)
  m_unflushed : list nat;                      (* batch field contexts not yet handed to their resolver *)
  m_round : option (list nat);                 (* inside an idle entry: batch resolvers called in it *)
  m_call : nat -> option (nat * list nat * nat); (* batch item: resolver, argument list and position it was seen at *)
  m_dlv : nat -> option result;                (* the result a promise received *)
  m_taken : nat -> bool;
  m_abandoned : nat -> bool
}.

Definition mon_init : mon :=
  mkMon [] [] None (fun _ => None) (fun _ => None) (fun _ => false) (fun _ => false).

Definition mem (x : nat) (l : list nat) : bool := existsb (Nat.eqb x) l.

(** hand the answer [rs] of batch resolver [k] called with [its] to the items by position *)
Fixpoint mon_deliver (k : nat) (its : list nat) (call : nat -> option (nat * list nat * nat)) (dlv : nat -> option result)
         (i : nat) (ws : list nat) (rs : list result)
  : option ((nat -> option (nat * list nat * nat)) * (nat -> option result)) :=
  match ws, rs with
  | w :: ws', r :: rs' =>
      match call w, dlv w with
      | None, None => mon_deliver k its (upd call w (Some (k, its, i))) (upd dlv w (Some r)) (S i) ws' rs'
      | _, _ => None                                   (* ONCE / DELIVERY at most once *)
      end
  | [], [] => Some (call, dlv)
  | _, _ => None                                       (* not one result per field context *)
  end.

(** the promises the executor has been given and must account for *)
Definition owed (p : prog) (m : mon) (w : nat) : bool :=
  match lookup p w with
  | Some it => is_promise (it_kind it) && negb (it_inner it) && negb (m_taken m w) && negb (m_abandoned m w)
  | None => false
  end.

Definition mon_step (p : prog) (m : mon) (l : label) : option mon :=
  match l with
  | LCreate w =>
      match lookup p w with
      | Some it =>
          if mem w (m_created m) then None else
          let unf := match it_kind it with KBatch _ => m_unflushed m ++ [w] | _ => m_unflushed m end in
          let tk := match it_kind it with KSync => upd (m_taken m) w true | _ => m_taken m end in
          Some (mkMon (m_created m ++ [w]) unf (m_round m) (m_call m) (m_dlv m) tk (m_abandoned m))
      | None => None
      end
  | LIdleEnter =>
      match m_round m with
      | None => Some (mkMon (m_created m) (m_unflushed m) (Some []) (m_call m) (m_dlv m) (m_taken m) (m_abandoned m))
      | Some _ => None
      end
  | LFlush k its =>
      match m_round m with
      | Some ks =>
          if mem k ks then None                                                    (* COALESCED: one call *)
          else if negb (list_eqb its (filter (key_is p k) (m_unflushed m))) then None   (* COALESCED: all pending, in order *)
          else if is_nil its then None
          else match mon_deliver k its (m_call m) (m_dlv m) 0 its (p_bfun p k its) with
               | Some (call', dlv') =>
                   Some (mkMon (m_created m) (filter (fun w => negb (key_is p k w)) (m_unflushed m)) (Some (k :: ks))
                               call' dlv' (m_taken m) (m_abandoned m))
               | None => None
               end
      | None => None
      end
  | LRecv w =>
      match m_round m, lookup p w, m_dlv m w with
      | Some _, Some it, None =>
          let expected :=
            match it_kind it with
            | KGo => Some (it_res it)
            | KChain inn => chain_ref (p_cfun p w) (m_dlv m) inn []
            | _ => None
            end in
          match expected with
          | Some r => Some (mkMon (m_created m) (m_unflushed m) (m_round m) (m_call m) (upd (m_dlv m) w (Some r))
                                  (m_taken m) (m_abandoned m))
          | None => None
          end
      | _, _, _ => None
      end
  | LIdleExit =>
      match m_round m with
      | Some _ =>
          if is_nil (m_unflushed m)                                                (* COALESCED: nothing left pending *)
          then Some (mkMon (m_created m) (m_unflushed m) None (m_call m) (m_dlv m) (m_taken m) (m_abandoned m))
          else None
      | None => None
      end
  | LConsume w =>
      match lookup p w, m_dlv m w with
      | Some it, Some _ =>
          if negb (it_inner it) && negb (m_taken m w)
          then Some (mkMon (m_created m) (m_unflushed m) (m_round m) (m_call m) (m_dlv m) (upd (m_taken m) w true) (m_abandoned m))
          else None
      | _, _ => None
      end
  | LAbandon w =>
      Some (mkMon (m_created m) (m_unflushed m) (m_round m) (m_call m) (m_dlv m) (m_taken m) (upd (m_abandoned m) w true))
  | LEnd =>
      match m_round m with
      | None => if forallb (fun w => negb (owed p m w)) (m_created m) then Some m else None
      | Some _ => None
      end
  | LFlushDone | LFinish _ | LRead _ | LArrive _ | LExit _ | LCancel => Some m
  end.

Fixpoint mon_run (p : prog) (m : mon) (tr : list label) : option mon :=
  match tr with
  | [] => Some m
  | l :: tr' => match mon_step p m l with Some m' => mon_run p m' tr' | None => None end
  end.

(** index of the first label the monitor rejects (for the oracle's report) *)
Fixpoint mon_accept (p : prog) (m : mon) (i : nat) (tr : list label) : mon + nat :=
  match tr with
  | [] => inl m
  | l :: tr' => match mon_step p m l with Some m' => mon_accept p m' (S i) tr' | None => inr i end
  end.

(** ** The same clauses as predicates on a whole history (what the theorems are stated with) *)

Definition flush_calls (tr : list label) : list (nat * list nat) :=
  flat_map (fun l => match l with LFlush k its => [(k, its)] | _ => [] end) tr.

(** ONCE: no field context occurs twice in the arguments of the batch calls of a history *)
Definition once_per_item (tr : list label) : Prop := NoDup (flat_map snd (flush_calls tr)).

(** the batch items of resolver [k] invoked in [tr] and not handed to it in [tr] *)
Definition created_of (tr : list label) : list nat :=
  flat_map (fun l => match l with LCreate w => [w] | _ => [] end) tr.
Definition pending_after (p : prog) (k : nat) (tr : list label) : list nat :=
  filter (fun w => key_is p k w && negb (mem w (flat_map snd (flush_calls tr)))) (created_of tr).

(** an idle round: a history segment from an entry to the matching return *)
Definition no_idle_boundary (tr : list label) : Prop :=
  ~ In LIdleEnter tr /\ ~ In LIdleExit tr.

(** the field contexts handed to batch functions, and every promise that received a result *)
Definition flushed (tr : list label) : list nat := flat_map snd (flush_calls tr).
Definition deliveries (tr : list label) : list nat :=
  flat_map (fun l => match l with LRecv w => [w] | LFlush _ its => its | _ => [] end) tr.

(** the calls of batch resolver [k] in a history *)
Definition calls_of (k : nat) (tr : list label) : list (nat * list nat) :=
  filter (fun c => Nat.eqb (fst c) k) (flush_calls tr).

(** DELIVERY, declaratively: [produced p tr w r] = "r is the result produced for promise w in
    history tr".  Go: what its function returned.  Batch: the entry, at the position at which w's
    field context was passed, of the answer of the batch function to the call it was passed in.
    chain / join: its function applied to the values produced for all its inner promises, or the
    first error produced for one of them (those before it having produced values). *)
Inductive produced (p : prog) (tr : list label) : nat -> result -> Prop :=
| pr_go w it :
    lookup p w = Some it -> it_kind it = KGo -> produced p tr w (it_res it)
| pr_batch w k its i r :
    In (LFlush k its) tr -> nth_error its i = Some w -> nth_error (p_bfun p k its) i = Some r ->
    produced p tr w r
| pr_chain_ok c it inn vals :
    lookup p c = Some it -> it_kind it = KChain inn ->
    Forall2 (fun q v => produced p tr q (ROk v)) inn vals ->
    produced p tr c (p_cfun p c vals)
| pr_chain_err c it inn pre q suf vals e :
    lookup p c = Some it -> it_kind it = KChain inn -> inn = pre ++ q :: suf ->
    Forall2 (fun q v => produced p tr q (ROk v)) pre vals -> produced p tr q (RErr e) ->
    produced p tr c (RErr e).
