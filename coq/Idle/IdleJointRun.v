(** * Idle/IdleJointRun.v — C15 + C02: the joint system "C02's executor, api-fu's idle handler" and
    the theorem that its response is the all-synchronous response.

    [JLoop] is C02's wait loop with the oracle [sigma] replaced by the LTS: in every iteration the
    handler is one idle round of the LTS ([LIdleEnter :: mid ++ [LIdleExit]]) and the promises it
    fulfils in the executor's table are exactly the round's [deliveries]; the executor's poll
    ([ExecAsync.invoke]) is C02's, mirrored in the LTS by executor steps.  [JRun] wraps it like
    [ExecAsync.run] (query).  Every joint run is a run of C02's model under the scheduler
    [sched_of_rounds cs] read off the rounds ([jrun_is_run]); that scheduler is fair; hence C02's
    [run_conforms] applies ([response_eq_sync]).

    That the joint system's steps are forced/possible — the handler round never fails to fulfil an
    outstanding promise, the poll can be mirrored, the guards of [LIdleEnter] / [LEnd] hold — is
    IdleJoint.v (coupling [KG]). *)
From Coq Require Import List NArith ZArith Bool Arith Lia.
From ApiFu Require Import Idle.IdleModel Idle.IdleSpec Idle.IdleFair.
From ApiFu Require Fut.Plan Fut.Future Fut.ExecAsync Fut.ExecSync Fut.AsyncWrap Fut.AsyncRun Fut.FutSpec Fut.FutProofs.
Import ListNotations.

Module E := ExecAsync.

Section JointRun.
Variable p : prog.
Variable fx : variant.

Inductive JLoop : list (list nat) -> E.fut -> E.st -> state -> Plan.result * E.st -> state -> Prop :=
| JL_ready r st s : JLoop [] (Future.Ready r) st s (r, st) s
| JL_pending c st s mid s1 st1 c1 ro st2 tr s2 cs rs sE :
    (* the handler: one idle round of the LTS *)
    IdleModel.run fx p s (LIdleEnter :: mid ++ [LIdleExit]) = Some s1 -> ~ In LIdleExit mid ->
    (* the promises it fulfilled, in the executor's table *)
    E.idle (fun _ _ => deliveries mid) st = Some st1 ->
    (* the executor polls the root future *)
    E.invoke E.fixed_flags c st1 = (c1, ro, st2) -> E.s_round st2 = E.s_round st1 ->
    (* ... mirrored in the LTS by executor steps *)
    IdleModel.run fx p s1 tr = Some s2 ->
    JLoop cs (AsyncWrap.fut_of c1 ro) st2 s2 rs sE ->
    JLoop (deliveries mid :: cs) (Future.Pending c) st s rs sE.

Lemma idle_const_sched D cs st st1 :
  E.idle (fun _ _ => D) st = Some st1 -> nth (E.s_round st) cs [] = D ->
  E.idle (sched_of_rounds cs) st = Some st1.
Proof.
  intros H N. unfold E.idle in *. unfold sched_of_rounds. rewrite N.
  assert (X : existsb (fun x => E.mem_nat x (map fst (E.outstanding st))) D = true).
  { destruct (filter (fun q => negb (E.p_done q) && E.mem_nat (E.p_id q) D) (E.s_proms st)) as [|h hs] eqn:F;
      [discriminate|].
    assert (HI : In h (filter (fun q => negb (E.p_done q) && E.mem_nat (E.p_id q) D) (E.s_proms st)))
      by (rewrite F; now left).
    apply filter_In in HI as [HP HB]. apply andb_true_iff in HB as [ND MD].
    apply existsb_exists. exists (E.p_id h). split.
    - apply IdleFair.mem_nat_In in MD. exact MD.
    - apply IdleFair.mem_nat_In. unfold E.outstanding. rewrite map_map. apply in_map_iff.
      exists h. split; auto. apply filter_In. auto. }
  rewrite X. exact H.
Qed.

Lemma jloop_wait_loop cs f st s rs sE :
  JLoop cs f st s rs sE ->
  forall pre, length pre = E.s_round st ->
  E.wait_loop E.fixed_flags (sched_of_rounds (pre ++ cs)) (length cs) f st = E.Done rs.
Proof.
  induction 1 as [r st s|c st s mid s1 st1 c1 ro st2 tr s2 cs rs sE R NX ID IV RD R2 J IH]; intros pre LP.
  - reflexivity.
  - cbn [length]. rewrite AsyncRun.wait_loop_pending.
    assert (N : nth (E.s_round st) (pre ++ deliveries mid :: cs) [] = deliveries mid)
      by (rewrite <- LP; apply nth_middle).
    rewrite (idle_const_sched _ _ _ _ ID N), IV.
    replace (pre ++ deliveries mid :: cs) with ((pre ++ [deliveries mid]) ++ cs) by (rewrite <- app_assoc; reflexivity).
    apply IH. rewrite app_length. simpl. rewrite RD.
    unfold E.idle in ID. destruct (filter _ _); [discriminate|]. inversion ID; subst st1. simpl. lia.
Qed.

Lemma wait_loop_mono sigma : forall n f st rs k,
  E.wait_loop E.fixed_flags sigma n f st = E.Done rs ->
  E.wait_loop E.fixed_flags sigma (n + k) f st = E.Done rs.
Proof.
  induction n as [|n IH]; intros f st rs k H; destruct f as [r|c].
  - destruct k; exact H.
  - discriminate.
  - destruct k; exact H.
  - cbn [Nat.add]. rewrite AsyncRun.wait_loop_pending in *. destruct (E.idle sigma st) as [s1|]; [|discriminate].
    destruct (E.invoke E.fixed_flags c s1) as [[c1 ro] s2]. now apply IH.
Qed.

(** a joint run of a query: the root future is built, polled once (inside [wait]) — [f1], [st1] are
    where [wait] hands over to its loop, no idle round has happened yet —, the LTS has mirrored that
    ([tr0] from the initial state), then the joint loop, then the response is projected *)
Definition JRun (root : Plan.selset) (jfuel : nat) (cs : list (list nat)) (resp : E.resp) : Prop :=
  let '(f, st0') := E.exec_sel E.fixed_flags root [] E.st0 in
  exists f1 st1 tr0 s0 rs sE,
    (forall sigma fuel, E.wait E.fixed_flags sigma fuel f st0' = E.wait_loop E.fixed_flags sigma fuel f1 st1) /\
    E.s_round st1 = 0 /\
    IdleModel.run fx p init tr0 = Some s0 /\
    JLoop cs f1 st1 s0 rs sE /\
    E.finish jfuel rs = E.Done resp.

Lemma jrun_is_run root jfuel cs resp k :
  JRun root jfuel cs resp ->
  E.run E.fixed_flags (sched_of_rounds cs) E.Query (length cs + k) jfuel root = E.Done resp.
Proof.
  unfold JRun, E.run. destruct (E.exec_sel E.fixed_flags root [] E.st0) as [f st0'].
  intros (f1 & st1 & tr0 & s0 & rs & sE & W & R0 & _ & J & F).
  rewrite W. pose proof (jloop_wait_loop cs f1 st1 s0 rs sE J [] (eq_sym R0)) as WL. simpl in WL.
  rewrite (wait_loop_mono _ _ _ _ _ k WL). exact F.
Qed.

(** RESPONSE == ALL-SYNCHRONOUS RESPONSE for every joint run *)
Theorem response_eq_sync root jfuel cs resp :
  FutProofs.resp_depth root < jfuel ->
  JRun root jfuel cs resp ->
  E.r_data resp = ExecSync.sr_data (ExecSync.run_sync root) /\
  FutSpec.conforms root (E.r_data resp) (E.r_errors resp).
Proof.
  intros J R.
  pose proof (jrun_is_run root jfuel cs resp (Plan.count_async root) R) as RUN.
  destruct (FutProofs.run_conforms E.Query (sched_of_rounds cs) (length cs + Plan.count_async root) jfuel root
              (sched_of_rounds_fair cs)) as [r [E1 [C [D _]]]]; [lia|exact J|].
  rewrite RUN in E1. inversion E1; subst r.
  destruct (FutProofs.sync_reference_lands root) as [SD _]. split; [congruence|exact C].
Qed.

End JointRun.
