(** * Idle/IdleJointRun.v — C15 + C02: the joint system "C02's executor, api-fu's idle handler" and
    the theorem that its response is the all-synchronous response.

    [JLoop] is C02's wait loop with the oracle [sigma] replaced by the LTS: in every iteration the
    handler is one idle round of the LTS ([LIdleEnter :: mid ++ [LIdleExit]]) and the promises it
    fulfils in the executor's table are exactly the round's [deliveries]; the executor's poll
    ([ExecAsync.invoke]) is C02's, mirrored in the LTS by executor steps.  [JRun] wraps it like
    [ExecAsync.run] (query).  Every joint run is a run of C02's model under the scheduler
    [sched_of_rounds cs] read off the rounds ([jrun_is_run]); that scheduler is fair; hence C02's
    [run_conforms] applies ([response_eq_sync]).

    That the joint system's steps are forced/possible — the handler round never fails to fulfil an
    outstanding promise, the poll can be mirrored, the guards of [LIdleEnter] / [LEnd] hold — is
    IdleJoint.v (coupling [KG]). *)
From Coq Require Import List NArith ZArith Bool Arith Lia.
From ApiFu Require Import Idle.IdleModel Idle.IdleSpec Idle.IdleFair.
From ApiFu Require Fut.Plan Fut.Future Fut.ExecAsync Fut.ExecSync Fut.AsyncWrap Fut.AsyncRun Fut.FutSpec Fut.FutProofs.
Import ListNotations.

Module E := ExecAsync.

Section JointRun.
Variable p : prog.
Variable fx : variant.

Inductive JLoop : list (list nat) -> E.fut -> E.st -> state -> Plan.result * E.st -> state -> Prop :=
| JL_ready r st s : JLoop [] (Future.Ready r) st s (r, st) s
| JL_pending c st s mid s1 st1 c1 ro st2 tr s2 cs rs sE :
    (* the handler: one idle round of the LTS *)
    IdleModel.run fx p s (LIdleEnter :: mid ++ [LIdleExit]) = Some s1 -> ~ In LIdleExit mid ->
    (* the promises it fulfilled, in the executor's table *)
    E.idle (fun _ _ => deliveries mid) st = Some st1 ->
    (* the executor polls the root future *)
    E.invoke E.fixed_flags c st1 = (c1, ro, st2) -> E.s_round st2 = E.s_round st1 ->
    (* ... mirrored in the LTS by executor steps *)
    IdleModel.run fx p s1 tr = Some s2 ->
    JLoop cs (AsyncWrap.fut_of c1 ro) st2 s2 rs sE ->
    JLoop (deliveries mid :: cs) (Future.Pending c) st s rs sE.

Lemma idle_const_sched D cs st st1 :
  E.idle (fun _ _ => D) st = Some st1 -> nth (E.s_round st) cs [] = D ->
  E.idle (sched_of_rounds cs) st = Some st1.
Proof.
  intros H N. unfold E.idle in *. unfold sched_of_rounds. rewrite N.
  assert (X : existsb (fun x => E.mem_nat x (map fst (E.outstanding st))) D = true).
  { destruct (filter (fun q => negb (E.p_done q) && E.mem_nat (E.p_id q) D) (E.s_proms st)) as [|h hs] eqn:F;
      [discriminate|].
    assert (HI : In h (filter (fun q => negb (E.p_done q) && E.mem_nat (E.p_id q) D) (E.s_proms st)))
      by (rewrite F; now left).
    apply filter_In in HI as [HP HB]. apply andb_true_iff in HB as [ND MD].
    apply existsb_exists. exists (E.p_id h). split.
    - apply IdleFair.mem_nat_In in MD. exact MD.
    - apply IdleFair.mem_nat_In. unfold E.outstanding. rewrite map_map. apply in_map_iff.
      exists h. split; auto. apply filter_In. auto. }
  rewrite X. exact H.
Qed.

Lemma jloop_wait_loop cs f st s rs sE :
  JLoop cs f st s rs sE ->
  forall pre, length pre = E.s_round st ->
  E.wait_loop E.fixed_flags (sched_of_rounds (pre ++ cs)) (length cs) f st = E.Done rs.
Proof.
  induction 1 as [r st s|c st s mid s1 st1 c1 ro st2 tr s2 cs rs sE R NX ID IV RD R2 J IH]; intros pre LP.
  - reflexivity.
  - cbn [length]. rewrite AsyncRun.wait_loop_pending.
    assert (N : nth (E.s_round st) (pre ++ deliveries mid :: cs) [] = deliveries mid)
      by (rewrite <- LP; apply nth_middle).
    rewrite (idle_const_sched _ _ _ _ ID N), IV.
    replace (pre ++ deliveries mid :: cs) with ((pre ++ [deliveries mid]) ++ cs) by (rewrite <- app_assoc; reflexivity).
    apply IH. rewrite app_length. simpl. rewrite RD.
    unfold E.idle in ID. destruct (filter _ _); [discriminate|]. inversion ID; subst st1. simpl. lia.
Qed.

Lemma wait_loop_mono sigma : forall n f st rs k,
  E.wait_loop E.fixed_flags sigma n f st = E.Done rs ->
  E.wait_loop E.fixed_flags sigma (n + k) f st = E.Done rs.
Proof.
  induction n as [|n IH]; intros f st rs k H; destruct f as [r|c].
  - destruct k; exact H.
  - discriminate.
  - destruct k; exact H.
  - cbn [Nat.add]. rewrite AsyncRun.wait_loop_pending in *. destruct (E.idle sigma st) as [s1|]; [|discriminate].
    destruct (E.invoke E.fixed_flags c s1) as [[c1 ro] s2]. now apply IH.
Qed.

(** a joint run of a query: the root future is built, polled once (inside [wait]) — [f1], [st1] are
    where [wait] hands over to its loop, no idle round has happened yet —, the LTS has mirrored that
    ([tr0] from the initial state), then the joint loop, then the response is projected *)
Definition JRun (root : Plan.selset) (jfuel : nat) (cs : list (list nat)) (resp : E.resp) : Prop :=
  let '(f, st0') := E.exec_sel E.fixed_flags root [] E.st0 in
  exists f1 st1 tr0 s0 rs sE,
    (forall sigma fuel, E.wait E.fixed_flags sigma fuel f st0' = E.wait_loop E.fixed_flags sigma fuel f1 st1) /\
    E.s_round st1 = 0 /\
    IdleModel.run fx p init tr0 = Some s0 /\
    JLoop cs f1 st1 s0 rs sE /\
    E.finish jfuel rs = E.Done resp.

Lemma jrun_is_run root jfuel cs resp k :
  JRun root jfuel cs resp ->
  E.run E.fixed_flags (sched_of_rounds cs) E.Query (length cs + k) jfuel root = E.Done resp.
Proof.
  unfold JRun, E.run. destruct (E.exec_sel E.fixed_flags root [] E.st0) as [f st0'].
  intros (f1 & st1 & tr0 & s0 & rs & sE & W & R0 & _ & J & F).
  rewrite W. pose proof (jloop_wait_loop cs f1 st1 s0 rs sE J [] (eq_sym R0)) as WL. simpl in WL.
  rewrite (wait_loop_mono _ _ _ _ _ k WL). exact F.
Qed.

(** RESPONSE == ALL-SYNCHRONOUS RESPONSE for every joint run *)
Theorem response_eq_sync root jfuel cs resp :
  FutProofs.resp_depth root < jfuel ->
  JRun root jfuel cs resp ->
  E.r_data resp = ExecSync.sr_data (ExecSync.run_sync root) /\
  FutSpec.conforms root (E.r_data resp) (E.r_errors resp).
Proof.
  intros J R.
  pose proof (jrun_is_run root jfuel cs resp (Plan.count_async root) R) as RUN.
  destruct (FutProofs.run_conforms E.Query (sched_of_rounds cs) (length cs + Plan.count_async root) jfuel root
              (sched_of_rounds_fair cs)) as [r [E1 [C [D _]]]]; [lia|exact J|].
  rewrite RUN in E1. inversion E1; subst r.
  destruct (FutProofs.sync_reference_lands root) as [SD _]. split; [congruence|exact C].
Qed.

(** ** Mutations: the root fields one after the other ([ExecAsync.serial_loop]), each field's
    future waited for by the joint loop before the next field starts; then the joint loop once more
    on the (ready) result.  The idle rounds of all the waits are numbered consecutively. *)

Lemma jloop_rounds cs f st s r st' sE :
  JLoop cs f st s (r, st') sE -> E.s_round st' = E.s_round st + length cs.
Proof.
  intro J. remember (r, st') as rs eqn:ER. revert r st' ER.
  induction J as [r0 st s|c st s mid s1 st1 c1 ro st2 tr s2 cs rs sE R NX ID IV RD R2 J IH]; intros r st' ER.
  - inversion ER; subst. simpl. lia.
  - rewrite (IH r st' ER), RD. unfold E.idle in ID. destruct (filter _ _); [discriminate|].
    inversion ID; subst st1. simpl. lia.
Qed.

Lemma jloop_wait_loop_gen cs f st s rs sE :
  JLoop cs f st s rs sE ->
  forall pre post, length pre = E.s_round st ->
  E.wait_loop E.fixed_flags (sched_of_rounds (pre ++ cs ++ post)) (length cs) f st = E.Done rs.
Proof.
  induction 1 as [r st s|c st s mid s1 st1 c1 ro st2 tr s2 cs rs sE R NX ID IV RD R2 J IH]; intros pre post LP.
  - reflexivity.
  - cbn [length]. rewrite AsyncRun.wait_loop_pending.
    assert (N : nth (E.s_round st) (pre ++ (deliveries mid :: cs) ++ post) [] = deliveries mid)
      by (rewrite <- LP; simpl; apply nth_middle).
    rewrite (idle_const_sched _ _ _ _ ID N), IV.
    replace (pre ++ (deliveries mid :: cs) ++ post) with ((pre ++ [deliveries mid]) ++ cs ++ post)
      by (rewrite <- app_assoc; reflexivity).
    apply IH. rewrite app_length. simpl. rewrite RD.
    unfold E.idle in ID. destruct (filter _ _); [discriminate|]. inversion ID; subst st1. simpl. lia.
Qed.

(** [wait]: the future handed to the loop after the first poll, as in [JRun] *)
Definition JWait (cs : list (list nat)) (f : E.fut) (st : E.st) (s : state) (rs : Plan.result * E.st) (sE : state) : Prop :=
  exists f1 st1 tr s0,
    (forall sigma fuel, E.wait E.fixed_flags sigma fuel f st = E.wait_loop E.fixed_flags sigma fuel f1 st1) /\
    E.s_round st1 = E.s_round st /\
    IdleModel.run fx p s tr = Some s0 /\
    JLoop cs f1 st1 s0 rs sE.

Lemma jwait_wait cs f st s r st' sE :
  JWait cs f st s (r, st') sE ->
  forall pre post k, length pre = E.s_round st ->
  E.wait E.fixed_flags (sched_of_rounds (pre ++ cs ++ post)) (length cs + k) f st = E.Done (r, st') /\
  E.s_round st' = E.s_round st + length cs.
Proof.
  intros (f1 & st1 & tr & s0 & W & R1 & _ & J) pre post k LP. split.
  - rewrite W. apply wait_loop_mono. apply (jloop_wait_loop_gen _ _ _ _ _ _ J). now rewrite R1.
  - rewrite (jloop_rounds _ _ _ _ _ _ _ J). now rewrite R1.
Qed.

Inductive JSerial : list (list nat) -> Plan.selset -> nat -> nat -> Plan.rpath -> E.st -> state ->
                    option Plan.err * E.st -> state -> Prop :=
| JS_nil m i q st s : JSerial [] [] m i q st s (None, st) s
| JS_err key tag nn res tl m i q st s f s1 f1 s2 cs e s3 sE :
    E.exec_field E.fixed_flags (Plan.FP tag nn res) (Plan.PKey key :: q) st = (f, s1) ->
    E.catch_if_nullable nn f s1 = (f1, s2) -> E.s_round s2 = E.s_round st ->
    JWait cs f1 s2 s (Plan.RErr e, s3) sE ->
    JSerial cs ((key, Plan.FP tag nn res) :: tl) m i q st s (Some e, s3) sE
| JS_ok key tag nn res tl m i q st s f s1 f1 s2 cs1 v s3 s' cs2 out sE :
    E.exec_field E.fixed_flags (Plan.FP tag nn res) (Plan.PKey key :: q) st = (f, s1) ->
    E.catch_if_nullable nn f s1 = (f1, s2) -> E.s_round s2 = E.s_round st ->
    JWait cs1 f1 s2 s (Plan.ROk v, s3) s' ->
    JSerial cs2 tl m (S i) q (E.heap_set m i key v s3) s' out sE ->
    JSerial (cs1 ++ cs2) ((key, Plan.FP tag nn res) :: tl) m i q st s out sE.

Lemma jserial_serial cs l m i q st s out sE :
  JSerial cs l m i q st s out sE ->
  forall pre post k, length pre = E.s_round st ->
  E.serial_loop E.fixed_flags (sched_of_rounds (pre ++ cs ++ post)) (length cs + k) l m i q st = E.Done out /\
  E.s_round (snd out) = E.s_round st + length cs.
Proof.
  induction 1 as [m i q st s
                 |key tag nn res tl m i q st s f s1 f1 s2 cs e s3 sE EF CI RD JW
                 |key tag nn res tl m i q st s f s1 f1 s2 cs1 v s3 s' cs2 out sE EF CI RD JW JS IH];
    intros pre post k LP.
  - split; [reflexivity|simpl; lia].
  - cbn [E.serial_loop]. rewrite EF, CI.
    destruct (jwait_wait _ _ _ _ _ _ _ JW pre post k) as [WE WR]; [now rewrite RD|].
    rewrite WE. split; [reflexivity|]. simpl. rewrite WR, RD. reflexivity.
  - cbn [E.serial_loop]. rewrite EF, CI.
    destruct (jwait_wait _ _ _ _ _ _ _ JW pre (cs2 ++ post) (length cs2 + k)) as [WE WR]; [now rewrite RD|].
    replace (pre ++ (cs1 ++ cs2) ++ post) with (pre ++ cs1 ++ cs2 ++ post) by (now rewrite <- app_assoc).
    replace (length (cs1 ++ cs2) + k) with (length cs1 + (length cs2 + k)) by (rewrite app_length; lia).
    rewrite WE.
    destruct (IH (pre ++ cs1) post (length cs1 + k)) as [SE SR].
    { rewrite app_length. simpl. rewrite WR, RD, LP. reflexivity. }
    replace (pre ++ cs1 ++ cs2 ++ post) with ((pre ++ cs1) ++ cs2 ++ post) by (now rewrite <- app_assoc).
    replace (length cs1 + (length cs2 + k)) with (length cs2 + (length cs1 + k)) by lia.
    split; [exact SE|]. rewrite SR. simpl. rewrite WR, RD, app_length. lia.
Qed.

Definition JRunM (root : Plan.selset) (jfuel : nat) (cs : list (list nat)) (resp : E.resp) : Prop :=
  let '(m, st1) := E.alloc_map (length root) E.st0 in
  exists cs1 cs2 oe st2 sS f rs sE,
    cs = cs1 ++ cs2 /\
    JSerial cs1 root m 0 [] st1 init (oe, st2) sS /\
    f = match oe with Some e => Future.Err e | None => Future.MapOkValue (Future.After nil) (Plan.GMap m) end /\
    JWait cs2 f st2 sS rs sE /\
    E.finish jfuel rs = E.Done resp.

Lemma jrunm_is_run root jfuel cs resp k :
  JRunM root jfuel cs resp ->
  E.run E.fixed_flags (sched_of_rounds cs) E.Mutation (length cs + k) jfuel root = E.Done resp.
Proof.
  unfold JRunM, E.run, E.exec_sel_serial. destruct (E.alloc_map (length root) E.st0) as [m st1] eqn:AM.
  intros (cs1 & cs2 & oe & st2 & sS & f & [r st3] & sE & -> & JS & -> & JW & F).
  assert (R0 : E.s_round st1 = 0) by (unfold E.alloc_map in AM; inversion AM; reflexivity).
  destruct (jserial_serial _ _ _ _ _ _ _ _ _ JS [] cs2 (length cs2 + k)) as [SE SR]; [now rewrite R0|].
  simpl in SE, SR.
  replace (length (cs1 ++ cs2) + k) with (length cs1 + (length cs2 + k)) by (rewrite app_length; lia).
  rewrite SE.
  destruct (jwait_wait _ _ _ _ _ _ _ JW cs1 [] (length cs1 + k)) as [WE _]; [rewrite SR, R0; reflexivity|].
  rewrite app_nil_r in WE.
  replace (length cs1 + (length cs2 + k)) with (length cs2 + (length cs1 + k)) by lia.
  destruct oe as [e|]; rewrite WE; exact F.
Qed.

Theorem response_eq_sync_mutation root jfuel cs resp :
  FutProofs.resp_depth root < jfuel ->
  JRunM root jfuel cs resp ->
  E.r_data resp = ExecSync.sr_data (ExecSync.run_sync root) /\
  FutSpec.conforms root (E.r_data resp) (E.r_errors resp).
Proof.
  intros J R.
  pose proof (jrunm_is_run root jfuel cs resp (Plan.count_async root) R) as RUN.
  destruct (FutProofs.run_conforms E.Mutation (sched_of_rounds cs) (length cs + Plan.count_async root) jfuel root
              (sched_of_rounds_fair cs)) as [r [E1 [C [D _]]]]; [lia|exact J|].
  rewrite RUN in E1. inversion E1; subst r.
  destruct (FutProofs.sync_reference_lands root) as [SD _]. split; [congruence|exact C].
Qed.

End JointRun.
