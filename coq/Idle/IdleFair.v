(** * Idle/IdleFair.v — C15 meets C02: is api-fu's idle handler a *fair* handler in the sense of
    C02's executor model (graphql/executor: "before the idle handler returns, a result must be sent
    to at least one previously returned ResolvePromise"; Fut/AsyncRun.v: [fair sigma] = every idle
    round fulfils at least one outstanding promise)?

    - every idle round fills at least one promise that was created and empty at the entry
      ([round_fulfils]);
    - for requests without chaining (Go / Batch resolvers, no connection whose getter returns a
      promise) that promise is one the executor holds: literally C02's fairness
      ([round_fair_unchained]);
    - with chaining a round may fill only promises the executor never saw (inner promises of
      chain/join): the literal contract is violated ([round_fairness_refuted_with_chaining]); the
      executor's wait loop simply calls the handler again, and the number of handler calls of a
      request is bounded by its number of promises ([rounds_bounded]);
    - what a handler did round by round, read as a C02 scheduler ([sched_of_rounds]), is fair, so
      C02's theorems apply to it ([response_independent_of_handler_rounds]). *)
From Coq Require Import List NArith ZArith Bool Arith Lia.
From ApiFu Require Import Idle.IdleModel Idle.IdleSpec Idle.IdleProofs Idle.IdleHist.
From ApiFu Require Fut.Plan Fut.Future Fut.ExecAsync Fut.ExecSync Fut.AsyncRun Fut.FutSpec Fut.FutProofs.
Import ListNotations.

(** promises the executor holds (returned to it by a resolver): not read by a chain/join goroutine *)
Definition visible (p : prog) (w : nat) : bool :=
  match lookup p w with
  | Some it => is_promise (it_kind it) && negb (it_inner it)
  | None => false
  end.

(** requests without chain / join: no promise is read by a goroutine *)
Definition no_chaining (p : prog) : Prop := forall w it, lookup p w = Some it -> it_inner it = false.

Definition exits (tr : list label) : nat :=
  length (filter (fun l => match l with LIdleExit => true | _ => false end) tr).

Lemma deliveries_cons l tr :
  deliveries (l :: tr) = match l with LRecv w => [w] | LFlush _ its => its | _ => [] end ++ deliveries tr.
Proof. reflexivity. Qed.

Lemma deliveries_app t1 t2 : deliveries (t1 ++ t2) = deliveries t1 ++ deliveries t2.
Proof. unfold deliveries. apply flat_map_app. Qed.

Lemma created_of_app t1 t2 : created_of (t1 ++ t2) = created_of t1 ++ created_of t2.
Proof. unfold created_of. apply flat_map_app. Qed.

Section Fair.
Variable p : prog.
Hypothesis WF : wf_items p = true.
Hypothesis BF : bfun_ok p.
Variable fx : variant.

(** at the top of the handler's loop nothing but a flush or a receive leads on *)
Lemma step_top_silent s l s' :
  st_phase s = PTop -> step fx p s l = Some s' ->
  match l with LRecv _ | LIdleExit => False | LFlush _ its => its = [] | _ => True end ->
  st_phase s' = PTop.
Proof.
  intros PT H SL.
  destruct l as [w|w|w| |k its| |w|c|w|w| | |w| ]; simpl in H; try tauto.
  - unfold do_create in H. rewrite PT in H. discriminate.
  - unfold do_consume in H. rewrite PT in H. discriminate.
  - unfold do_abandon in H. rewrite PT in H. discriminate.
  - unfold do_idle_enter in H. rewrite PT in H. discriminate.
  - subst its. unfold do_flush in H. rewrite PT in H. simpl in H. rewrite andb_false_r in H. discriminate.
  - unfold do_flush_done in H. rewrite PT in H. discriminate.
  - unfold do_finish in H. destruct (st_gor s w); try discriminate. destruct (lookup p w); [|discriminate].
    inversion H; subst s'. exact PT.
  - unfold do_read in H. destruct (st_gor s c); try discriminate. destruct (lookup p c) as [it|]; [|discriminate].
    destruct (it_kind it) as [| | |inn]; try discriminate. destruct (nth_error inn j) as [q|]; [|discriminate].
    destruct (st_chan s q) as [r|]; [|discriminate].
    destruct r; [destruct (Nat.eqb (S j) (length inn))|]; inversion H; subst s'; exact PT.
  - unfold do_arrive in H. destruct (st_gor s w); try discriminate. inversion H; subst s'. exact PT.
  - unfold do_end in H. rewrite PT in H. discriminate.
  - unfold do_exit in H. rewrite PT in H. discriminate.
  - unfold do_cancel in H. destruct (st_cancelled s); [discriminate|]. inversion H; subst s'. exact PT.
Qed.

Lemma top_without_delivery : forall mid s s1,
  st_phase s = PTop -> run fx p s mid = Some s1 -> ~ In LIdleExit mid -> deliveries mid = [] ->
  st_phase s1 = PTop.
Proof.
  induction mid as [|l mid IH]; intros s s1 PT R NX ND; simpl in R.
  - inversion R; subst. exact PT.
  - destruct (step fx p s l) as [s'|] eqn:E; [|discriminate].
    rewrite deliveries_cons in ND. apply app_eq_nil in ND as [N1 N2].
    apply (IH s' s1); auto.
    + apply (step_top_silent s l s' PT E).
      destruct l; auto; try discriminate. apply NX. now left.
    + intro X. apply NX. now right.
Qed.

(** the promises filled in a history are promise items that had been created *)
Lemma delivered_is_created_promise tr s w :
  run fx p init tr = Some s -> In w (deliveries tr) ->
  In w (created_of tr) /\ promise_item p w = true.
Proof.
  intros R D. destruct (run_refines p WF BF fx tr s R) as [m [M [IV SM]]].
  pose proof (hist_run p tr m M) as HH.
  apply (h_dlv_in p tr m HH) in D.
  assert (CR : st_created s w = true).
  { destruct (st_created s w) eqn:E; auto. destruct (s_fresh p s m SM w E) as [X _]. congruence. }
  split.
  - rewrite <- (h_created p tr m HH). apply mem_In. now rewrite (s_created p s m SM).
  - apply (h_dlv_promise p tr m HH w D).
Qed.

(** FAIR, in general: every idle round fills at least one promise that existed and was empty when
    the handler was entered *)
Theorem round_fulfils pre mid s :
  run fx p init (pre ++ LIdleEnter :: mid ++ [LIdleExit]) = Some s -> ~ In LIdleExit mid ->
  exists w, In w (deliveries mid) /\ In w (created_of pre) /\ ~ In w (deliveries pre) /\ promise_item p w = true.
Proof.
  intros R NX.
  pose proof (delivered_once p WF BF fx _ s R) as ND.
  pose proof R as R0.
  apply run_app in R as [sa [Ra R]]. cbn [run] in R.
  destruct (step fx p sa LIdleEnter) as [sb|] eqn:EB; [|discriminate].
  apply run_app in R as [sc [Rc R]]. cbn [run] in R.
  destruct (step fx p sc LIdleExit) as [sd|] eqn:ED; [|discriminate].
  assert (PB : st_phase sb = PTop).
  { simpl in EB. unfold do_idle_enter in EB. destruct (st_phase sa); try discriminate.
    destruct (existsb _ _); [|discriminate]. inversion EB; subst sb. reflexivity. }
  assert (PC : st_phase sc = PDrain).
  { simpl in ED. unfold do_idle_exit in ED. destruct (st_phase sc); try discriminate. reflexivity. }
  destruct (deliveries mid) as [|w dl] eqn:DM.
  - pose proof (top_without_delivery mid sb sc PB Rc NX DM). congruence.
  - exists w. split; [now left|].
    assert (Rbc : run fx p init (pre ++ LIdleEnter :: mid) = Some sc).
    { apply run_app. exists sa. split; auto. cbn [run]. now rewrite EB. }
    destruct (delivered_is_created_promise _ sc w Rbc) as [CR PR].
    { rewrite deliveries_app, deliveries_cons, DM. apply in_or_app. right. simpl. now left. }
    destruct (segment p BF fx mid sb sc) as [_ [CM _]]; auto; [left; exact PB|].
    split; [|split; auto].
    + rewrite created_of_app in CR. apply in_app_or in CR as [CR|CR]; auto.
      rewrite created_of_cons, CM in CR. destruct CR.
    + rewrite deliveries_app, deliveries_cons, deliveries_app, DM in ND. simpl in ND.
      apply NoDup_app_inv in ND as [_ [_ D]]. intro X. apply (D w X). now left.
Qed.

(** FAIR, literally C02's contract, for requests without chaining: the promise filled is one the
    executor holds and is still waiting for a result on ("outstanding") *)
Theorem round_fair_unchained pre mid s :
  no_chaining p ->
  run fx p init (pre ++ LIdleEnter :: mid ++ [LIdleExit]) = Some s -> ~ In LIdleExit mid ->
  exists w, In w (deliveries mid) /\
            visible p w = true /\ In w (created_of pre) /\ ~ In w (deliveries pre).
Proof.
  intros NC R NX. destruct (round_fulfils pre mid s R NX) as [w [D [C [N PR]]]].
  exists w. repeat split; auto. unfold visible. unfold promise_item in PR.
  destruct (lookup p w) as [it|] eqn:L; [|discriminate]. rewrite PR, (NC w it L). reflexivity.
Qed.

(** ... and everything a round fills is outstanding at its entry: one idle round of the LTS is one
    [idle] transition of C02's promise table ([ExecAsync.idle]: the chosen outstanding promises
    become done and their results are appended to the channels) with chosen = [deliveries mid] —
    the handler's half of a joint executor + handler model *)
Theorem round_deliveries_outstanding pre mid s :
  no_chaining p ->
  run fx p init (pre ++ LIdleEnter :: mid ++ [LIdleExit]) = Some s -> ~ In LIdleExit mid ->
  deliveries mid <> [] /\
  forall w, In w (deliveries mid) ->
    visible p w = true /\ In w (created_of pre) /\ ~ In w (deliveries pre).
Proof.
  intros NC R NX.
  destruct (round_fulfils pre mid s R NX) as [w0 [D0 _]].
  split; [intro E; rewrite E in D0; destruct D0|].
  intros w D.
  pose proof (delivered_once p WF BF fx _ s R) as ND.
  apply run_app in R as [sa [Ra R]]. cbn [run] in R.
  destruct (step fx p sa LIdleEnter) as [sb|] eqn:EB; [|discriminate].
  apply run_app in R as [sc [Rc R]].
  assert (PB : st_phase sb = PTop).
  { simpl in EB. unfold do_idle_enter in EB. destruct (st_phase sa); try discriminate.
    destruct (existsb _ _); [|discriminate]. inversion EB; subst sb. reflexivity. }
  assert (Rbc : run fx p init (pre ++ LIdleEnter :: mid) = Some sc).
  { apply run_app. exists sa. split; auto. cbn [run]. now rewrite EB. }
  destruct (delivered_is_created_promise _ sc w Rbc) as [CR PR].
  { rewrite deliveries_app, deliveries_cons. apply in_or_app. right. simpl. exact D. }
  destruct (segment p BF fx mid sb sc) as [_ [CM _]]; auto; [left; exact PB|].
  split; [|split].
  - unfold visible. unfold promise_item in PR. destruct (lookup p w) as [it|] eqn:L; [|discriminate].
    rewrite PR, (NC w it L). reflexivity.
  - rewrite created_of_app in CR. apply in_app_or in CR as [CR|CR]; auto.
    rewrite created_of_cons, CM in CR. destruct CR.
  - rewrite deliveries_app, deliveries_cons, deliveries_app in ND. simpl in ND.
    apply NoDup_app_inv in ND as [_ [_ DJ]]. intro X. apply (DJ w X). apply in_or_app. now left.
Qed.

(** the executor's calls of the handler are bounded: never more returns of the handler than
    promises filled so far *)
Definition in_round_delivered (ph : phase) : nat := match ph with PFlush | PDrain => 1 | _ => 0 end.

Lemma step_counts s l s' :
  step fx p s l = Some s' ->
  exits [l] + in_round_delivered (st_phase s') + length (deliveries []) <=
  in_round_delivered (st_phase s) + length (deliveries [l]).
Proof.
  intro H. destruct l as [w|w|w| |k its| |w|c|w|w| | |w| ]; simpl in H; simpl.
  - unfold do_create in H. destruct (st_phase s) eqn:PH; try discriminate. destruct (lookup p w) as [it|]; [|discriminate].
    destruct (_ && _); [|discriminate].
    destruct (it_kind it); [| | |destruct (forallb _ _); [|discriminate]]; inversion H; subst s'; simpl; rewrite PH; simpl; lia.
  - unfold do_consume in H. destruct (st_phase s) eqn:PH; try discriminate. destruct (lookup p w) as [it|]; [|discriminate].
    destruct (st_chan s w); [|discriminate]. destruct (negb _); [|discriminate]. inversion H; subst s'. simpl. rewrite PH. simpl. lia.
  - unfold do_abandon in H. destruct (st_phase s) eqn:PH; try discriminate. destruct (live p s w); [|discriminate].
    inversion H; subst s'. simpl. rewrite PH. simpl. lia.
  - unfold do_idle_enter in H. destruct (st_phase s) eqn:PH; try discriminate. destruct (existsb _ _); [|discriminate].
    inversion H; subst s'. simpl. lia.
  - unfold do_flush in H.
    assert (PHH : st_phase s = PTop \/ st_phase s = PFlush) by (destruct (st_phase s); try discriminate; auto).
    assert (H' : (if list_eqb its (map fst (entries_of p k (st_pend s))) && negb (is_nil its)
                  then let rs := p_bfun p k its in
                       if Nat.ltb (length its) (length rs) then Some (set_phase s PPanic)
                       else match deliver_all (st_chan s) (map snd (entries_of p k (st_pend s))) rs with
                            | Some ch' => Some (set_phase (set_pend (set_chans s ch') (rest_of p k (st_pend s))) PFlush)
                            | None => None
                            end
                  else None) = Some s') by (destruct PHH as [E|E]; rewrite E in H; exact H).
    clear H. destruct (list_eqb its _ && negb (is_nil its)) eqn:GD; [|discriminate].
    apply andb_true_iff in GD as [_ E2]. apply negb_true_iff in E2.
    cbv zeta in H'. rewrite (proj2 (Nat.ltb_ge _ _)) in H' by (rewrite BF; lia).
    destruct (deliver_all _ _ _) as [ch'|]; [|discriminate]. inversion H'; subst s'; clear H'. simpl.
    rewrite app_nil_r. destruct its; [discriminate|]. simpl. destruct PHH as [E|E]; rewrite E; simpl; lia.
  - unfold do_flush_done in H. destruct (st_phase s) eqn:PH; try discriminate.
    destruct (is_nil (st_pend s)); [|discriminate]. inversion H; subst s'. simpl. lia.
  - unfold do_finish in H. destruct (st_gor s w); try discriminate. destruct (lookup p w); [|discriminate].
    inversion H; subst s'. simpl. lia.
  - unfold do_read in H. destruct (st_gor s c); try discriminate. destruct (lookup p c) as [it|]; [|discriminate].
    destruct (it_kind it) as [| | |inn]; try discriminate. destruct (nth_error inn j) as [q|]; [|discriminate].
    destruct (st_chan s q) as [r|]; [|discriminate].
    destruct r; [destruct (Nat.eqb (S j) (length inn))|]; inversion H; subst s'; simpl; lia.
  - unfold do_arrive in H. destruct (st_gor s w); try discriminate. inversion H; subst s'. simpl. lia.
  - unfold do_recv in H. destruct (st_gor s w); try discriminate. destruct (st_chan s w); [discriminate|].
    cbv zeta in H. destruct (st_phase s) eqn:PH; try discriminate.
    + destruct (is_nil (st_pend s)); [|discriminate].
      destruct (st_chained s w); [destruct (v_loop fx)|]; inversion H; subst s'; simpl; rewrite ?PH; simpl; lia.
    + inversion H; subst s'. simpl. rewrite PH. simpl. lia.
  - unfold do_idle_exit in H. destruct (st_phase s) eqn:PH; try discriminate.
    destruct (forallb _ _); [|discriminate]. inversion H; subst s'. simpl. lia.
  - unfold do_end in H. destruct (st_phase s) eqn:PH; try discriminate.
    destruct (forallb _ _); [|discriminate]. inversion H; subst s'. simpl. lia.
  - unfold do_exit in H. destruct (st_phase s) eqn:PH; try discriminate. destruct (v_fix fx); [|discriminate].
    destruct (st_gor s w); try discriminate; inversion H; subst s'; simpl; rewrite PH; simpl; lia.
  - unfold do_cancel in H. destruct (st_cancelled s); [discriminate|]. inversion H; subst s'. simpl. lia.
Qed.

Lemma run_counts : forall tr s s',
  run fx p s tr = Some s' ->
  exits tr + in_round_delivered (st_phase s') <= in_round_delivered (st_phase s) + length (deliveries tr).
Proof.
  induction tr as [|l tr IH]; intros s s' R; simpl in R.
  - inversion R; subst. simpl. lia.
  - destruct (step fx p s l) as [s1|] eqn:E; [|discriminate].
    pose proof (step_counts s l s1 E) as SC. specialize (IH s1 s' R).
    change (l :: tr) with ([l] ++ tr). unfold exits in *. rewrite filter_app, app_length.
    rewrite deliveries_app, app_length. simpl (length (deliveries [])) in SC. lia.
Qed.

Lemma NoDup_incl_filter_length (l : list nat) (f : nat -> bool) (u : list nat) :
  NoDup l -> NoDup u -> (forall x, In x l -> In x u /\ f x = true) -> length l <= length (filter f u).
Proof.
  intros NL NU H. apply NoDup_incl_length; auto. intros x Hx. apply filter_In. apply H, Hx.
Qed.

(** BOUNDED: a request never gets more idle rounds than it has promises (executor-held or inner) *)
Theorem rounds_bounded tr s :
  run fx p init tr = Some s -> exits tr <= length (filter (promise_item p) (ids p)).
Proof.
  intro R. pose proof (run_counts tr init s R) as RC. simpl in RC.
  assert (length (deliveries tr) <= length (filter (promise_item p) (ids p))); [|lia].
  apply NoDup_incl_filter_length.
  - apply (delivered_once p WF BF fx tr s R).
  - unfold ids. apply seq_NoDup.
  - intros w Hw. destruct (delivered_is_created_promise tr s w R Hw) as [_ PR]. split; auto.
    unfold promise_item in PR. destruct (lookup p w) as [it|] eqn:L; [|discriminate]. eapply lookup_ids; eauto.
Qed.

End Fair.

(** ** With chaining the literal contract fails: a round that fills only a promise the executor
    never saw (the Batch getter of a connection), while the promise it waits for stays empty *)

Definition stutter_prog : prog :=
  mkProg [mkItem (KBatch 0) None true (ROk 1); mkItem (KChain [0]) None false (ROk 2)]
         (fun _ l => map (fun _ => ROk 1) l) (fun _ _ => ROk 2).

Theorem round_fairness_refuted_with_chaining :
  exists p pre mid s,
    wf_items p = true /\ bfun_ok p /\
    run current p init (pre ++ LIdleEnter :: mid ++ [LIdleExit]) = Some s /\ ~ In LIdleExit mid /\
    (exists w, visible p w = true /\ In w (created_of pre) /\ ~ In w (deliveries pre)) /\
    forall w, In w (deliveries mid) -> visible p w = false.
Proof.
  exists stutter_prog, [LCreate 0; LCreate 1], [LFlush 0 [0]; LFlushDone].
  eexists. split; [reflexivity|]. split; [intros k l; simpl; apply map_length|].
  split; [vm_compute; reflexivity|]. split.
  - simpl. intros [H|[H|[]]]; discriminate.
  - split.
    + exists 1. split; [reflexivity|]. split; [simpl; auto|]. simpl. tauto.
    + intros w [<-|[]]. reflexivity.
Qed.

(** ** Composition with C02 *)

Import Fut.Plan Fut.ExecAsync Fut.ExecSync Fut.AsyncRun Fut.FutSpec Fut.FutProofs.

(** What a handler did, round by round, as a C02 scheduler: in its r-th call it fulfils the
    promises [nth r cs []].  C02's schedulers are total functions of (round, outstanding set); the
    completion for pairs on which the handler's record does not hit the outstanding set (pairs that
    do not arise when the record comes from a handler honouring the contract) fulfils everything. *)
Definition sched_of_rounds (cs : list (list nat)) : sched :=
  fun r out =>
    let c := nth r cs [] in
    if existsb (fun x => mem_nat x (map fst out)) c then c else map fst out.

Lemma mem_nat_In x l : mem_nat x l = true <-> In x l.
Proof.
  unfold mem_nat. rewrite existsb_exists. split.
  - intros [y [Hy E]]. apply Nat.eqb_eq in E. now subst.
  - intro H. exists x. split; auto. apply Nat.eqb_refl.
Qed.

Theorem sched_of_rounds_fair cs : fair (sched_of_rounds cs).
Proof.
  intros r out NE. unfold sched_of_rounds.
  destruct (existsb (fun x => mem_nat x (map fst out)) (nth r cs [])) eqn:E.
  - apply existsb_exists in E as [x [Hx M]]. apply mem_nat_In in M. eauto.
  - destruct out as [|[a b] out]; [congruence|]. exists a. simpl. auto.
Qed.

(** on every (round, outstanding set) that the record hits, the scheduler does what the handler did *)
Theorem sched_of_rounds_agrees cs r out x :
  In x (nth r cs []) -> In x (map fst out) -> sched_of_rounds cs r out = nth r cs [].
Proof.
  intros H1 H2. unfold sched_of_rounds.
  assert (E : existsb (fun x => mem_nat x (map fst out)) (nth r cs []) = true).
  { apply existsb_exists. exists x. split; auto. now apply mem_nat_In. }
  now rewrite E.
Qed.

(** Whatever two handlers did round by round (any completion orders, any timing, any grouping into
    rounds), both executions finish, with the data of the all-synchronous reference, and both
    responses conform to the plan (C02's [conforms]: errors one-to-one with admissible landing
    sites, an error for every visible failure-null). *)
Theorem response_independent_of_handler_rounds md root (cs1 cs2 : list (list nat)) fuel jfuel :
  count_async root <= fuel -> resp_depth root < jfuel ->
  exists r1 r2,
    ExecAsync.run fixed_flags (sched_of_rounds cs1) md fuel jfuel root = Done r1 /\
    ExecAsync.run fixed_flags (sched_of_rounds cs2) md fuel jfuel root = Done r2 /\
    r_data r1 = sr_data (run_sync root) /\ r_data r2 = sr_data (run_sync root) /\
    conforms root (r_data r1) (r_errors r1) /\ conforms root (r_data r2) (r_errors r2).
Proof.
  intros F J.
  destruct (run_conforms md (sched_of_rounds cs1) fuel jfuel root (sched_of_rounds_fair cs1) F J)
    as [r1 [R1 [C1 [D1 _]]]].
  destruct (run_conforms md (sched_of_rounds cs2) fuel jfuel root (sched_of_rounds_fair cs2) F J)
    as [r2 [R2 [C2 [D2 _]]]].
  destruct (sync_reference_lands root) as [SD _].
  exists r1, r2. split; [exact R1|]. split; [exact R2|]. split; [congruence|]. split; [congruence|]. split; assumption.
Qed.
