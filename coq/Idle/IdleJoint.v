(** * Idle/IdleJoint.v — C15 + C02: towards the joint executor + handler model, for requests without
    chaining.  The handler's half, at the level of states:

    [K st s] couples C02's executor state (promise table [s_proms] with done flags, channel
    contents [s_chans]) with the LTS state (item w = promise id w; created / delivered / channel).
    One idle round of the LTS ([LIdleEnter :: mid ++ [LIdleExit]]) is exactly one [ExecAsync.idle]
    transition with chosen = [deliveries mid], and the coupling is preserved
    ([round_preserves_coupling]).

    Still missing for the composed theorem (the executor's half): that C02's [poll] between two idle
    calls, seen through the coupling, is a sequence of [LCreate] (the promises it appends),
    [LConsume] (the channel entries it removes) and [LAbandon] steps, and that it leaves the LTS in
    a state in which [LIdleEnter] is enabled exactly when C02's [wait_loop] calls [idle]. *)
From Coq Require Import List NArith ZArith Bool Arith Lia.
From ApiFu Require Import Idle.IdleModel Idle.IdleSpec Idle.IdleProofs Idle.IdleLive Idle.IdleHist Idle.IdleFair.
From ApiFu Require Fut.Plan Fut.Future Fut.ExecAsync Fut.AsyncRun.
Import ListNotations.

Notation ids0 := IdleModel.ids.

Section Joint.
Variable p : prog.
Hypothesis WF : wf_items p = true.
Hypothesis BF : bfun_ok p.
Hypothesis NC : no_chaining p.
Variable fx : variant.

Lemma no_chain_items c it inn : lookup p c = Some it -> it_kind it = KChain inn -> False.
Proof.
  intros L K. destruct (wf_chain p WF c it inn L K) as [NE W].
  destruct inn as [|q inn]; [congruence|].
  destruct (W q (or_introl eq_refl)) as [_ [iq [Lq [Iq _]]]]. rewrite (NC q iq Lq) in Iq. discriminate.
Qed.

Definition dl (l : label) : list nat :=
  match l with LRecv w => [w] | LFlush _ its => its | _ => [] end.

(** one step inside the idle handler: what it does to the promises *)
Lemma step_idle_effect s l s' :
  Inv p s -> in_idle (st_phase s) -> step fx p s l = Some s' -> l <> LIdleExit ->
  (forall x, st_created s' x = st_created s x) /\
  (forall x, st_taken s' x = st_taken s x) /\
  (forall x, st_chan s' x <> None <-> st_chan s x <> None \/ In x (dl l)) /\
  (forall x, In x (dl l) -> st_chan s x = None /\ st_taken s x = false /\ st_created s x = true).
Proof.
  intros IV HI H NX. unfold in_idle in HI.
  assert (TRIV : forall t, (forall x, st_created t x = st_created s x) -> (forall x, st_taken t x = st_taken s x) ->
                           (forall x, st_chan t x = st_chan s x) -> dl l = [] ->
            (forall x, st_created t x = st_created s x) /\ (forall x, st_taken t x = st_taken s x) /\
            (forall x, st_chan t x <> None <-> st_chan s x <> None \/ In x (dl l)) /\
            (forall x, In x (dl l) -> st_chan s x = None /\ st_taken s x = false /\ st_created s x = true)).
  { intros t A B C D. rewrite D. split; [exact A|]. split; [exact B|]. split.
    - intro x. rewrite C. simpl. tauto.
    - intros x []. }
  destruct l as [w|w|w| |k its| |w|c|w|w| | |w| ]; simpl in H.
  - unfold do_create in H. destruct HI as [E|[E|E]]; rewrite E in H; discriminate.
  - unfold do_consume in H. destruct HI as [E|[E|E]]; rewrite E in H; discriminate.
  - unfold do_abandon in H. destruct HI as [E|[E|E]]; rewrite E in H; discriminate.
  - unfold do_idle_enter in H. destruct HI as [E|[E|E]]; rewrite E in H; discriminate.
  - (* flush *)
    unfold do_flush in H.
    assert (PHH : st_phase s = PTop \/ st_phase s = PFlush) by (destruct (st_phase s); try discriminate; auto).
    assert (H' : (if list_eqb its (map fst (entries_of p k (st_pend s))) && negb (is_nil its)
                  then let rs := p_bfun p k its in
                       if Nat.ltb (length its) (length rs) then Some (set_phase s PPanic)
                       else match deliver_all (st_chan s) (map snd (entries_of p k (st_pend s))) rs with
                            | Some ch' => Some (set_phase (set_pend (set_chans s ch') (rest_of p k (st_pend s))) PFlush)
                            | None => None
                            end
                  else None) = Some s') by (destruct PHH as [E|E]; rewrite E in H; exact H).
    clear H. destruct (list_eqb its _ && negb (is_nil its)) eqn:GD; [|discriminate].
    apply andb_true_iff in GD as [E1 _]. apply list_eqb_eq in E1.
    cbv zeta in H'. rewrite (proj2 (Nat.ltb_ge _ _)) in H' by (rewrite BF; lia).
    assert (EQ : map snd (entries_of p k (st_pend s)) = its).
    { rewrite E1. apply map_snd_fst_eq. intros a b X. apply filter_In in X as [X _].
      now destruct (c_pend_shape p s IV a b X). }
    rewrite EQ in H'.
    assert (ITS : its = filter (key_is p k) (map fst (st_pend s))).
    { rewrite E1. unfold entries_of. apply map_fst_filter. }
    assert (ND : NoDup its) by (rewrite ITS; apply NoDup_filter, (c_pend_nodup p s IV)).
    assert (UND : forall d, In d its -> st_chan s d = None /\ st_taken s d = false).
    { intros d X. rewrite ITS in X. apply filter_In in X as [X _]. apply (c_pend_undel p s IV d X). }
    assert (CRE : forall d, In d its -> st_created s d = true).
    { intros d X. rewrite ITS in X. apply filter_In in X as [X _]. apply in_map_iff in X as [[a b] [E X]].
      simpl in E; subst a. now destruct (c_pend_shape p s IV d b X) as [_ [Y _]]. }
    destruct (deliver_all_spec (st_chan s) its (p_bfun p k its) ND) as [ch'' [DA [CH1 CH2]]].
    { intros d X. apply UND, X. } { rewrite BF. lia. }
    rewrite DA in H'. inversion H'; subst s'; clear H'. simpl.
    split; [auto|]. split; [auto|]. split.
    + intro x. destruct (in_dec Nat.eq_dec x its) as [Y|Y].
      * split; auto. intros _. destruct (In_nth_error _ _ Y) as [i Hi]. rewrite (CH2 i x Hi).
        apply nth_error_Some. rewrite BF. apply nth_error_Some. congruence.
      * rewrite (CH1 x Y). tauto.
    + intros x X. destruct (UND x X). auto.
  - unfold do_flush_done in H. destruct (st_phase s); try discriminate.
    destruct (is_nil (st_pend s)); [|discriminate]. inversion H; subst s'. apply TRIV; auto.
  - unfold do_finish in H. destruct (st_gor s w); try discriminate. destruct (lookup p w); [|discriminate].
    inversion H; subst s'. apply TRIV; auto.
  - unfold do_read in H. destruct (st_gor s c); try discriminate. destruct (lookup p c) as [it|] eqn:L; [|discriminate].
    destruct (it_kind it) as [| | |inn] eqn:K; try discriminate. exfalso. eapply no_chain_items; eauto.
  - unfold do_arrive in H. destruct (st_gor s w); try discriminate. inversion H; subst s'. apply TRIV; auto.
  - (* recv *)
    unfold do_recv in H. destruct (st_gor s w) eqn:G; try discriminate. destruct (st_chan s w) eqn:C; [discriminate|].
    cbv zeta in H.
    assert (AC : active (st_gor s w)) by (rewrite G; exact I).
    destruct (c_active p s IV w AC) as [_ NT].
    destruct (gor_facts p s w IV) as [CR _]; [congruence|].
    assert (GEN : forall t, (forall x, st_created t x = st_created s x) -> (forall x, st_taken t x = st_taken s x) ->
                            (forall x, st_chan t x = upd (st_chan s) w (Some r) x) ->
              (forall x, st_created t x = st_created s x) /\ (forall x, st_taken t x = st_taken s x) /\
              (forall x, st_chan t x <> None <-> st_chan s x <> None \/ In x [w]) /\
              (forall x, In x [w] -> st_chan s x = None /\ st_taken s x = false /\ st_created s x = true)).
    { intros t A B D. split; auto. split; auto. split.
      - intro x. rewrite D. destruct (upd_cases (st_chan s) w (Some r) x) as [[-> E]|[N E]]; rewrite E.
        + split; [intros _; right; now left|congruence].
        + split; [tauto|]. intros [X|[X|[]]]; auto; congruence.
      - intros x [<-|[]]. auto. }
    destruct (st_phase s); try discriminate.
    + destruct (is_nil (st_pend s)); [|discriminate].
      destruct (st_chained s w); [destruct (v_loop fx)|]; inversion H; subst s'; apply GEN; auto.
    + inversion H; subst s'. apply GEN; auto.
  - congruence.
  - unfold do_end in H. destruct HI as [E|[E|E]]; rewrite E in H; discriminate.
  - unfold do_exit in H. destruct HI as [E|[E|E]]; rewrite E in H; discriminate.
  - unfold do_cancel in H. destruct (st_cancelled s); [discriminate|]. inversion H; subst s'. apply TRIV; auto.
Qed.

(** the whole stay inside the handler *)
Lemma idle_effect : forall mid s m s1,
  Inv p s -> Sim p s m -> in_idle (st_phase s) -> run fx p s mid = Some s1 -> ~ In LIdleExit mid ->
  (forall x, st_created s1 x = st_created s x) /\
  (forall x, st_taken s1 x = st_taken s x) /\
  (forall x, st_chan s1 x <> None <-> st_chan s x <> None \/ In x (deliveries mid)) /\
  (forall x, In x (deliveries mid) -> st_chan s x = None /\ st_taken s x = false /\ st_created s x = true).
Proof.
  induction mid as [|l mid IH]; intros s m s1 IV SM HI R NX; simpl in R.
  - inversion R; subst. split; [auto|]. split; [auto|]. split; [intro x; simpl; tauto|intros x []].
  - destruct (step fx p s l) as [s'|] eqn:E; [|discriminate].
    assert (NL : l <> LIdleExit) by (intro; subst; apply NX; now left).
    destruct (step_idle_effect s l s' IV HI E NL) as [A [B [C D]]].
    destruct (step_preserves p WF BF fx s m l s' IV SM E) as [m' [_ [IV' SM']]].
    destruct (step_in_idle p BF fx s l s' HI E NL) as [HI' _].
    destruct (IH s' m' s1 IV' SM' HI' R) as [A1 [B1 [C1 D1]]]; [intro X; apply NX; now right|].
    change (deliveries (l :: mid)) with (dl l ++ deliveries mid).
    split; [intro x; now rewrite A1, A|]. split; [intro x; now rewrite B1, B|]. split.
    + intro x. rewrite C1, C, in_app_iff. tauto.
    + intros x X. apply in_app_or in X as [X|X]; [apply D, X|].
      destruct (D1 x X) as [U [V W]]. rewrite A in W. rewrite B in V. repeat split; auto.
      destruct (st_chan s x) eqn:Z; auto. exfalso. assert (Y : st_chan s' x <> None) by (apply C; left; congruence).
      congruence.
Qed.

(** ** The coupling with C02's executor state *)

Record K (st : ExecAsync.st) (s : state) : Prop := mkK {
  k_pid : AsyncRun.pid_ok st;
  k_created : forall w, st_created s w = true <-> w < length (ExecAsync.s_proms st);
  k_done : forall w pr, nth_error (ExecAsync.s_proms st) w = Some pr ->
             (ExecAsync.p_done pr = true <-> (st_chan s w <> None \/ st_taken s w = true));
  k_chans : forall w, (exists ok, In (w, ok) (ExecAsync.s_chans st)) <-> st_chan s w <> None
}.

Lemma mem_nat_In x l : ExecAsync.mem_nat x l = true <-> In x l.
Proof.
  unfold ExecAsync.mem_nat. rewrite existsb_exists. split.
  - intros [y [Hy E]]. apply Nat.eqb_eq in E. now subst.
  - intro H. exists x. split; auto. apply Nat.eqb_refl.
Qed.

(** one idle round of the LTS = one [idle] transition of C02's promise table, chosen = the round's
    deliveries; the coupling survives *)
Theorem round_preserves_coupling st s m mid s' :
  K st s -> Inv p s -> Sim p s m -> st_phase s = PPoll ->
  run fx p s (LIdleEnter :: mid ++ [LIdleExit]) = Some s' -> ~ In LIdleExit mid ->
  exists st', ExecAsync.idle (fun _ _ => deliveries mid) st = Some st' /\ K st' s' /\
              ExecAsync.s_round st' = S (ExecAsync.s_round st) /\ st_phase s' = PPoll.
Proof.
  intros KK IV SM PP R NX.
  cbn [run] in R. destruct (step fx p s LIdleEnter) as [sb|] eqn:EB; [|discriminate].
  destruct (step_preserves p WF BF fx s m LIdleEnter sb IV SM EB) as [mb [_ [IVb SMb]]].
  apply run_app in R as [sc [Rc R]]. cbn [run] in R.
  destruct (step fx p sc LIdleExit) as [sd|] eqn:ED; [|discriminate]. inversion R; subst sd; clear R.
  assert (EBs : sb = set_phase s PTop).
  { simpl in EB. unfold do_idle_enter in EB. rewrite PP in EB. destruct (existsb _ _); [|discriminate]. now inversion EB. }
  assert (PC : st_phase sc = PDrain /\ s' = set_phase sc PPoll).
  { simpl in ED. unfold do_idle_exit in ED. destruct (st_phase sc); try discriminate.
    destruct (forallb _ _); [|discriminate]. inversion ED. auto. }
  destruct PC as [PC ->].
  assert (HIb : in_idle (st_phase sb)) by (subst sb; left; reflexivity).
  destruct (idle_effect mid sb mb sc IVb SMb HIb Rc NX) as [A [B [C D]]].
  subst sb. simpl in A, B, C, D.
  set (Dl := deliveries mid) in *.
  assert (DNE : Dl <> []).
  { intro Z. pose proof (top_without_delivery p fx mid (set_phase s PTop) sc eq_refl Rc NX Z). congruence. }
  (* the promises the round filled, in C02's table *)
  assert (HITS : forall x, In x Dl -> exists pr, nth_error (ExecAsync.s_proms st) x = Some pr /\
                                          ExecAsync.p_id pr = x /\ ExecAsync.p_done pr = false).
  { intros x X. destruct (D x X) as [U [V W]]. apply (k_created st s KK) in W.
    destruct (nth_error (ExecAsync.s_proms st) x) as [pr|] eqn:N; [|apply nth_error_None in N; lia].
    exists pr. split; auto. split; [apply (k_pid st s KK x pr N)|].
    destruct (ExecAsync.p_done pr) eqn:DN; auto. apply (k_done st s KK x pr N) in DN. destruct DN; congruence. }
  set (hitf := fun q => negb (ExecAsync.p_done q) && ExecAsync.mem_nat (ExecAsync.p_id q) Dl).
  assert (HITIN : forall x, In x (map ExecAsync.p_id (filter hitf (ExecAsync.s_proms st))) <-> In x Dl).
  { intro x. rewrite in_map_iff. split.
    - intros [q [E Q]]. apply filter_In in Q as [_ Q]. unfold hitf in Q. apply andb_true_iff in Q as [_ Q].
      apply mem_nat_In in Q. now subst.
    - intro X. destruct (HITS x X) as [pr [N [PI DN]]]. exists pr. split; auto. apply filter_In. split.
      + eapply nth_error_In; eauto.
      + unfold hitf. rewrite DN, PI. simpl. now apply mem_nat_In. }
  assert (HNE : filter hitf (ExecAsync.s_proms st) <> []).
  { destruct Dl as [|x Dl'] eqn:EDl; [congruence|]. intro Z.
    assert (X : In x (map ExecAsync.p_id (filter hitf (ExecAsync.s_proms st)))) by (apply HITIN; now left).
    rewrite Z in X. destruct X. }
  unfold ExecAsync.idle. fold hitf.
  destruct (filter hitf (ExecAsync.s_proms st)) as [|h0 hs] eqn:HF; [congruence|].
  eexists. split; [reflexivity|]. split; [|split; [reflexivity|reflexivity]].
  rewrite <- HF in *. clear HF.
  constructor; simpl.
  - (* ids are positions *)
    unfold AsyncRun.pid_ok. simpl.
    intros i pr N. rewrite nth_error_map in N. destruct (nth_error (ExecAsync.s_proms st) i) as [q|] eqn:NQ; [|discriminate].
    simpl in N. inversion N; subst pr. pose proof (k_pid st s KK i q NQ) as PI.
    destruct (negb (ExecAsync.p_done q) && ExecAsync.mem_nat (ExecAsync.p_id q) Dl); simpl; auto.
  - intro w. rewrite A, map_length. apply (k_created st s KK).
  - intros w pr N. rewrite nth_error_map in N. destruct (nth_error (ExecAsync.s_proms st) w) as [q|] eqn:NQ; [|discriminate].
    simpl in N. inversion N; subst pr; clear N. pose proof (k_pid st s KK w q NQ) as PI.
    pose proof (k_done st s KK w q NQ) as DQ. rewrite B, C.
    destruct (negb (ExecAsync.p_done q) && ExecAsync.mem_nat (ExecAsync.p_id q) Dl) eqn:HQ; simpl.
    + apply andb_true_iff in HQ as [_ HQ]. apply mem_nat_In in HQ. rewrite PI in HQ. split; auto.
    + split.
      * intro X. apply DQ in X. tauto.
      * intros [[X|X]|X]; [apply DQ; auto| |apply DQ; auto].
        destruct (ExecAsync.p_done q) eqn:DN; auto. simpl in HQ.
        assert (Y : ExecAsync.mem_nat (ExecAsync.p_id q) Dl = true) by (apply mem_nat_In; now rewrite PI).
        rewrite Y in HQ. discriminate.
  - intro w. rewrite C. split.
    + intros [ok X]. apply in_app_or in X as [X|X].
      * left. apply (k_chans st s KK). eauto.
      * right. apply HITIN. apply in_map_iff in X as [q [E Q]]. inversion E; subst. apply in_map_iff. eauto.
    + intros [X|X].
      * apply (k_chans st s KK) in X as [ok X]. exists ok. apply in_or_app. now left.
      * apply HITIN in X. apply in_map_iff in X as [q [E Q]]. exists (ExecAsync.p_ok q).
        apply in_or_app. right. apply in_map_iff. exists q. split; auto. now rewrite E.
Qed.

(** ** The executor's half, first part: what a poll of C02's executor does to the promise table
    (appends promises that are not done, removes channel entries; Fut/Acct.v: [ac_proms],
    [ac_chans], [ac_taken]) is, seen through the coupling, a sequence of [LCreate] and [LConsume]
    steps of the LTS.  The request's promises are modelled by a flat program: every promise of
    C02's table is a Go or Batch item without parent (the most permissive executor abstraction). *)

Definition gob (k : kind) : bool := match k with KGo | KBatch _ => true | _ => false end.

Definition flat_async : Prop :=
  forall w it, lookup p w = Some it -> it_parent it = None /\ it_inner it = false /\ gob (it_kind it) = true.

Hypothesis FLAT : flat_async.

Lemma create_flat s w it :
  lookup p w = Some it -> st_phase s = PPoll -> st_created s w = false ->
  exists s', step fx p s (LCreate w) = Some s' /\ st_phase s' = PPoll /\
             (forall x, st_created s' x = upd (st_created s) w true x) /\
             (forall x, st_chan s' x = st_chan s x) /\ (forall x, st_taken s' x = st_taken s x).
Proof.
  intros L PH C. destruct (FLAT w it L) as [PA [_ GB]].
  simpl. unfold do_create. rewrite PH, L, C. unfold parent_ready. rewrite PA. simpl.
  destruct (it_kind it); try discriminate; eexists; (split; [reflexivity|]); simpl; rewrite ?PH; auto.
Qed.

Lemma creates_run : forall n c s m,
  Inv p s -> Sim p s m -> st_phase s = PPoll ->
  (forall x, st_created s x = true <-> x < c) -> c + n <= length (p_items p) ->
  exists s' m', run fx p s (map LCreate (seq c n)) = Some s' /\ Inv p s' /\ Sim p s' m' /\
                st_phase s' = PPoll /\ (forall x, st_created s' x = true <-> x < c + n) /\
                (forall x, st_chan s' x = st_chan s x) /\ (forall x, st_taken s' x = st_taken s x).
Proof.
  induction n as [|n IH]; intros c s m IV SM PH CR LE.
  - exists s, m. split; [reflexivity|]. split; [auto|]. split; [auto|]. split; [auto|].
    split; [intro x; rewrite Nat.add_0_r; apply CR|]. split; auto.
  - destruct (lookup p c) as [it|] eqn:L; [|unfold lookup in L; apply nth_error_None in L; lia].
    assert (NCR0 : st_created s c = false).
    { destruct (st_created s c) eqn:E; auto. apply CR in E. lia. }
    destruct (create_flat s c it L PH NCR0) as [s1 [E [PH1 [A [B D]]]]].
    destruct (step_preserves p WF BF fx s m (LCreate c) s1 IV SM E) as [m1 [_ [IV1 SM1]]].
    destruct (IH (S c) s1 m1 IV1 SM1 PH1) as [s' [m' [R [IV' [SM' [PH' [A' [B' D']]]]]]]]; [|lia|].
    + intro x. rewrite A. destruct (upd_cases (st_created s) c true x) as [[-> U]|[N U]]; rewrite U.
      * split; [lia|auto].
      * rewrite CR. lia.
    + exists s', m'. cbn [seq map run]. rewrite E. split; [exact R|].
      split; auto. split; auto. split; auto. split; [intro x; rewrite A'; lia|].
      split; intro x; [rewrite B', B|rewrite D', D]; reflexivity.
Qed.

Lemma consume_flat s w r :
  Inv p s -> st_phase s = PPoll -> st_chan s w = Some r ->
  step fx p s (LConsume w) = Some (set_taken (set_chan s w None) w).
Proof.
  intros IV PH C.
  assert (CR : st_created s w = true).
  { destruct (st_created s w) eqn:E; auto. destruct (c_fresh p s IV w E) as [_ [X _]]. congruence. }
  destruct (c_created p s IV w CR) as [it L]. destruct (FLAT w it L) as [_ [NI _]].
  simpl. unfold do_consume. rewrite PH, L, C, NI. reflexivity.
Qed.

Lemma consumes_run : forall T s m,
  Inv p s -> Sim p s m -> st_phase s = PPoll -> NoDup T -> (forall w, In w T -> st_chan s w <> None) ->
  exists s' m', run fx p s (map LConsume T) = Some s' /\ Inv p s' /\ Sim p s' m' /\ st_phase s' = PPoll /\
                (forall x, st_created s' x = st_created s x) /\
                (forall x, st_chan s' x = if mem x T then None else st_chan s x) /\
                (forall x, st_taken s' x = st_taken s x || mem x T).
Proof.
  induction T as [|w T IH]; intros s m IV SM PH ND F.
  - exists s, m. split; [reflexivity|]. split; [auto|]. split; [auto|]. split; [auto|]. split; [auto|].
    split; intro x; unfold mem; simpl; [reflexivity|now rewrite orb_false_r].
  - inversion ND as [|? ? NI ND']; subst.
    destruct (st_chan s w) as [r|] eqn:C; [|exfalso; apply (F w); [now left|auto]].
    pose proof (consume_flat s w r IV PH C) as E.
    destruct (step_preserves p WF BF fx s m (LConsume w) _ IV SM E) as [m1 [_ [IV1 SM1]]].
    destruct (IH (set_taken (set_chan s w None) w) m1 IV1 SM1) as [s' [m' [R [IV' [SM' [PH' [A [B D]]]]]]]]; auto.
    + intros x X. simpl. rewrite upd_other; [apply F; now right|]. intro; subst; tauto.
    + exists s', m'. cbn [map run]. rewrite E. split; [exact R|].
      split; auto. split; auto. split; auto. split; [intro x; rewrite A; reflexivity|]. split.
      * intro x. rewrite B. simpl. unfold mem. simpl.
        destruct (upd_cases (st_chan s) w None x) as [[-> U]|[N U]]; rewrite U.
        -- rewrite Nat.eqb_refl. simpl. destruct (existsb (Nat.eqb w) T); reflexivity.
        -- destruct (Nat.eqb_spec x w); [congruence|]. reflexivity.
      * intro x. rewrite D. simpl. unfold mem. simpl.
        destruct (upd_cases (st_taken s) w true x) as [[-> U]|[N U]]; rewrite U.
        -- rewrite Nat.eqb_refl. simpl. now rewrite orb_true_r.
        -- destruct (Nat.eqb_spec x w); [congruence|]. reflexivity.
Qed.

Lemma step_abandoned_same s l s' :
  step fx p s l = Some s' -> (forall w, l <> LAbandon w) -> forall x, st_abandoned s' x = st_abandoned s x.
Proof.
  intros H NA x. destruct l as [w|w|w| |k its| |w|c|w|w| | |w| ]; simpl in H.
  - unfold do_create in H. destruct (st_phase s); try discriminate. destruct (lookup p w) as [it|]; [|discriminate].
    destruct (_ && _); [|discriminate].
    destruct (it_kind it); [| | |destruct (forallb _ _); [|discriminate]]; inversion H; reflexivity.
  - unfold do_consume in H. destruct (st_phase s); try discriminate. destruct (lookup p w) as [it|]; [|discriminate].
    destruct (st_chan s w); [|discriminate]. destruct (negb _); [|discriminate]. inversion H; reflexivity.
  - exfalso. apply (NA w). reflexivity.
  - unfold do_idle_enter in H. destruct (st_phase s); try discriminate. destruct (existsb _ _); [|discriminate].
    inversion H; reflexivity.
  - unfold do_flush in H.
    assert (H' : (if list_eqb its (map fst (entries_of p k (st_pend s))) && negb (is_nil its)
                  then let rs := p_bfun p k its in
                       if Nat.ltb (length its) (length rs) then Some (set_phase s PPanic)
                       else match deliver_all (st_chan s) (map snd (entries_of p k (st_pend s))) rs with
                            | Some ch' => Some (set_phase (set_pend (set_chans s ch') (rest_of p k (st_pend s))) PFlush)
                            | None => None
                            end
                  else None) = Some s') by (destruct (st_phase s); try discriminate; exact H).
    clear H. destruct (_ && _); [|discriminate]. cbv zeta in H'.
    destruct (Nat.ltb _ _); [inversion H'; reflexivity|].
    destruct (deliver_all _ _ _); [|discriminate]. inversion H'; reflexivity.
  - unfold do_flush_done in H. destruct (st_phase s); try discriminate.
    destruct (is_nil (st_pend s)); [|discriminate]. inversion H; reflexivity.
  - unfold do_finish in H. destruct (st_gor s w); try discriminate. destruct (lookup p w); [|discriminate].
    inversion H; reflexivity.
  - unfold do_read in H. destruct (st_gor s c); try discriminate. destruct (lookup p c) as [it|]; [|discriminate].
    destruct (it_kind it) as [| | |inn]; try discriminate. destruct (nth_error inn j) as [q|]; [|discriminate].
    destruct (st_chan s q) as [r|]; [|discriminate].
    destruct r; [destruct (Nat.eqb (S j) (length inn))|]; inversion H; reflexivity.
  - unfold do_arrive in H. destruct (st_gor s w); try discriminate. inversion H; reflexivity.
  - unfold do_recv in H. destruct (st_gor s w); try discriminate. destruct (st_chan s w); [discriminate|].
    cbv zeta in H. destruct (st_phase s); try discriminate.
    + destruct (is_nil (st_pend s)); [|discriminate].
      destruct (st_chained s w); [destruct (v_loop fx)|]; inversion H; reflexivity.
    + inversion H; reflexivity.
  - unfold do_idle_exit in H. destruct (st_phase s); try discriminate. destruct (forallb _ _); [|discriminate].
    inversion H; reflexivity.
  - unfold do_end in H. destruct (st_phase s); try discriminate. destruct (forallb _ _); [|discriminate].
    inversion H; reflexivity.
  - unfold do_exit in H. destruct (st_phase s); try discriminate. destruct (v_fix fx); [|discriminate].
    destruct (st_gor s w); try discriminate; inversion H; reflexivity.
  - unfold do_cancel in H. destruct (st_cancelled s); [discriminate|]. inversion H; reflexivity.
Qed.

Lemma run_abandoned_same : forall tr s s',
  run fx p s tr = Some s' -> (forall w, ~ In (LAbandon w) tr) -> forall x, st_abandoned s' x = st_abandoned s x.
Proof.
  induction tr as [|l tr IH]; intros s s' R NA x; simpl in R.
  - inversion R; reflexivity.
  - destruct (step fx p s l) as [s1|] eqn:E; [|discriminate].
    rewrite (IH s1 s' R); [|intros w X; apply (NA w); now right].
    apply (step_abandoned_same s l s1 E). intros w ->. apply (NA w). now left.
Qed.

(** the promises a poll received: in the channels before, not after *)
Definition taken_ids (st st' : ExecAsync.st) : list nat :=
  filter (fun w => negb (mem w (map fst (ExecAsync.s_chans st'))))
         (nodup Nat.eq_dec (map fst (ExecAsync.s_chans st))).

Lemma ex_chan_mem (c : list (nat * bool)) w : (exists ok, In (w, ok) c) <-> In w (map fst c).
Proof.
  rewrite in_map_iff. split.
  - intros [ok X]. exists (w, ok). auto.
  - intros [[a b] [E X]]. simpl in E. subst. eauto.
Qed.

Theorem poll_cc st st' s m new :
  K st s -> Inv p s -> Sim p s m -> st_phase s = PPoll ->
  ExecAsync.s_proms st' = ExecAsync.s_proms st ++ new ->
  (forall k pr, nth_error new k = Some pr ->
     ExecAsync.p_id pr = length (ExecAsync.s_proms st) + k /\ ExecAsync.p_done pr = false) ->
  (forall x, In x (ExecAsync.s_chans st') -> In x (ExecAsync.s_chans st)) ->
  length (ExecAsync.s_proms st') <= length (p_items p) ->
  exists s' m',
    run fx p s (map LCreate (seq (length (ExecAsync.s_proms st)) (length new)) ++
                map LConsume (taken_ids st st')) = Some s' /\
    K st' s' /\ Inv p s' /\ Sim p s' m' /\ st_phase s' = PPoll /\
    (forall x, st_created s' x = true <-> x < length (ExecAsync.s_proms st')) /\
    (forall x, st_taken s' x = st_taken s x || mem x (taken_ids st st')) /\
    (forall x, st_abandoned s' x = st_abandoned s x).
Proof.
  intros KK IV SM PH EP NEW SUB LEN.
  set (c := length (ExecAsync.s_proms st)) in *.
  assert (LE : c + length new <= length (p_items p)) by (rewrite EP, app_length in LEN; exact LEN).
  destruct (creates_run (length new) c s m IV SM PH (k_created st s KK) LE)
    as [s1 [m1 [R1 [IV1 [SM1 [PH1 [A1 [B1 D1]]]]]]]].
  assert (TF : forall w, In w (taken_ids st st') -> st_chan s1 w <> None).
  { intros w X. apply filter_In in X as [X _]. apply nodup_In in X. rewrite B1.
    apply (k_chans st s KK). now apply ex_chan_mem. }
  assert (TND : NoDup (taken_ids st st')) by (apply NoDup_filter, NoDup_nodup).
  destruct (consumes_run (taken_ids st st') s1 m1 IV1 SM1 PH1 TND TF)
    as [s2 [m2 [R2 [IV2 [SM2 [PH2 [A2 [B2 D2]]]]]]]].
  exists s2, m2. split; [apply run_app; eauto|].
  assert (REST : (forall x, st_created s2 x = true <-> x < length (ExecAsync.s_proms st')) /\
                 (forall x, st_taken s2 x = st_taken s x || mem x (taken_ids st st')) /\
                 (forall x, st_abandoned s2 x = st_abandoned s x)).
  { split; [intro x; rewrite A2, A1, EP, app_length; reflexivity|]. split; [intro x; rewrite D2, D1; reflexivity|].
    intro x. rewrite (run_abandoned_same _ _ _ R2); [apply (run_abandoned_same _ _ _ R1)|];
      intros w X; apply in_map_iff in X as [y [Y _]]; discriminate. }
  split; [|repeat (split; auto); apply REST].
  assert (TIN : forall w, mem w (taken_ids st st') = true <->
                          In w (map fst (ExecAsync.s_chans st)) /\ ~ In w (map fst (ExecAsync.s_chans st'))).
  { intro w. rewrite mem_In. unfold taken_ids. rewrite filter_In, nodup_In, negb_true_iff. split.
    - intros [X Y]. split; auto. now apply mem_false.
    - intros [X Y]. split; auto. now apply mem_false. }
  constructor.
  - (* ids are positions *)
    intros i pr N. rewrite EP in N. destruct (Nat.lt_ge_cases i c) as [LT|GE].
    + rewrite nth_error_app1 in N by exact LT. apply (k_pid st s KK i pr N).
    + rewrite nth_error_app2 in N by exact GE. destruct (NEW _ _ N) as [PI _]. fold c in PI. lia.
  - intro w. rewrite A2, A1, EP, app_length. reflexivity.
  - intros w pr N. rewrite EP in N. rewrite B2, D2, B1, D1.
    destruct (Nat.lt_ge_cases w c) as [LT|GE].
    + rewrite nth_error_app1 in N by exact LT. pose proof (k_done st s KK w pr N) as DQ.
      destruct (mem w (taken_ids st st')) eqn:MT.
      * apply TIN in MT as [X _]. apply ex_chan_mem in X. apply (k_chans st s KK) in X.
        rewrite orb_true_r. split; auto. intros _. apply DQ. auto.
      * rewrite orb_false_r. exact DQ.
    + rewrite nth_error_app2 in N by exact GE. destruct (NEW _ _ N) as [_ DN]. rewrite DN.
      assert (NCR : st_created s w = false).
      { destruct (st_created s w) eqn:E; auto. apply (k_created st s KK) in E. fold c in E. lia. }
      destruct (c_fresh p s IV w NCR) as [_ [CN [TN _]]]. rewrite CN, TN.
      assert (MT : mem w (taken_ids st st') = false).
      { destruct (mem w (taken_ids st st')) eqn:E; auto. apply TIN in E as [X _].
        apply ex_chan_mem in X. apply (k_chans st s KK) in X. congruence. }
      rewrite MT. simpl. split; [discriminate|]. intros [X|X]; [congruence|discriminate].
  - intro w. rewrite ex_chan_mem, B2, B1.
    destruct (mem w (taken_ids st st')) eqn:MT.
    + apply TIN in MT as [_ Y]. split; [tauto|congruence].
    + split.
      * intro X. apply (k_chans st s KK). apply ex_chan_mem. apply in_map_iff in X as [[a b] [E X]].
        simpl in E; subst a. apply in_map_iff. exists (w, b). split; auto.
      * intro X. apply (k_chans st s KK) in X. apply ex_chan_mem in X.
        destruct (in_dec Nat.eq_dec w (map fst (ExecAsync.s_chans st'))) as [Y|Y]; auto.
        assert (Z : mem w (taken_ids st st') = true) by (apply TIN; auto). congruence.
Qed.

Theorem poll_is_creates_and_consumes st st' s m new :
  K st s -> Inv p s -> Sim p s m -> st_phase s = PPoll ->
  ExecAsync.s_proms st' = ExecAsync.s_proms st ++ new ->
  (forall k pr, nth_error new k = Some pr ->
     ExecAsync.p_id pr = length (ExecAsync.s_proms st) + k /\ ExecAsync.p_done pr = false) ->
  (forall x, In x (ExecAsync.s_chans st') -> In x (ExecAsync.s_chans st)) ->
  length (ExecAsync.s_proms st') <= length (p_items p) ->
  exists s' m',
    run fx p s (map LCreate (seq (length (ExecAsync.s_proms st)) (length new)) ++
                map LConsume (taken_ids st st')) = Some s' /\
    K st' s' /\ Inv p s' /\ Sim p s' m' /\ st_phase s' = PPoll.
Proof.
  intros KK IV SM PH EP NEW SUB LEN.
  destruct (poll_cc st st' s m new KK IV SM PH EP NEW SUB LEN) as [s' [m' [R [A [B [C [D _]]]]]]].
  exists s', m'. auto.
Qed.

(** ** The executor's half, second part: abandonment and the guards

    [KG st g s]: the coupling together with C02's ghost [g] — [g_ids g] are the promises the future
    being waited for still awaits ([Live.v]); in the LTS: the live items. *)

Lemma live_flat s w : Inv p s ->
  (live p s w = true <-> st_created s w = true /\ st_taken s w = false /\ st_abandoned s w = false).
Proof.
  intro IV. split.
  - intro LV. destruct (live_inv p s w LV) as [it [_ [_ [_ [A [B C]]]]]]. auto.
  - intros [A [B C]]. destruct (c_created p s IV w A) as [it L]. destruct (FLAT w it L) as [_ [NI GB]].
    unfold live. rewrite L, NI, A, B, C. destruct (it_kind it); try discriminate; reflexivity.
Qed.

Lemma abandons_run : forall A s m,
  Inv p s -> Sim p s m -> st_phase s = PPoll -> NoDup A -> (forall w, In w A -> live p s w = true) ->
  exists s' m', run fx p s (map LAbandon A) = Some s' /\ Inv p s' /\ Sim p s' m' /\ st_phase s' = PPoll /\
                (forall x, st_created s' x = st_created s x) /\ (forall x, st_chan s' x = st_chan s x) /\
                (forall x, st_taken s' x = st_taken s x) /\
                (forall x, st_abandoned s' x = st_abandoned s x || mem x A).
Proof.
  induction A as [|w A IH]; intros s m IV SM PH ND LV.
  - exists s, m. split; [reflexivity|]. repeat (split; [auto|]). intro x. unfold mem. simpl. now rewrite orb_false_r.
  - inversion ND as [|? ? NI ND']; subst.
    assert (E : step fx p s (LAbandon w) = Some (set_abandoned s w)).
    { simpl. unfold do_abandon. rewrite PH, (LV w (or_introl eq_refl)). reflexivity. }
    destruct (step_preserves p WF BF fx s m (LAbandon w) _ IV SM E) as [m1 [_ [IV1 SM1]]].
    destruct (IH (set_abandoned s w) m1 IV1 SM1) as [s' [m' [R [IV' [SM' [PH' [A1 [B1 [C1 D1]]]]]]]]]; auto.
    + intros x X. apply (live_flat _ _ IV1). pose proof (LV x (or_intror X)) as LX. apply (live_flat _ _ IV) in LX.
      destruct LX as [P [Q U]]. simpl. repeat split; auto. rewrite upd_other; auto. intro; subst; tauto.
    + exists s', m'. cbn [map run]. rewrite E. split; [exact R|].
      repeat (split; [auto|]). intro x. rewrite D1. simpl. unfold mem. simpl.
      destruct (upd_cases (st_abandoned s) w true x) as [[-> U]|[N U]]; rewrite U.
      * rewrite Nat.eqb_refl. simpl. now rewrite orb_true_r.
      * destruct (Nat.eqb_spec x w); [congruence|]. reflexivity.
Qed.

Record KG (st : ExecAsync.st) (ids : list nat) (s : state) : Prop := mkKG {
  kg_k : K st s;
  kg_await : forall w, In w ids <-> live p s w = true
}.

(** the handler's round keeps the awaited set *)
Theorem round_preserves_KG st ids s m mid s' :
  KG st ids s -> Inv p s -> Sim p s m -> st_phase s = PPoll ->
  run fx p s (LIdleEnter :: mid ++ [LIdleExit]) = Some s' -> ~ In LIdleExit mid ->
  exists st', ExecAsync.idle (fun _ _ => deliveries mid) st = Some st' /\ KG st' ids s' /\
              ExecAsync.s_round st' = S (ExecAsync.s_round st) /\ st_phase s' = PPoll.
Proof.
  intros [KK AW] IV SM PP R NX.
  destruct (round_preserves_coupling st s m mid s' KK IV SM PP R NX) as [st' [ID [KK' [RD PH']]]].
  exists st'. split; auto. split; [|auto]. constructor; auto.
  (* live is unchanged by the round *)
  destruct (run_preserves p WF BF fx _ s m s' IV SM R) as [m' [_ [IV' SM']]].
  intro w. rewrite AW, (live_flat s w IV), (live_flat s' w IV').
  pose proof R as R0. cbn [run] in R. destruct (step fx p s LIdleEnter) as [sb|] eqn:EB; [|discriminate].
  destruct (step_preserves p WF BF fx s m LIdleEnter sb IV SM EB) as [mb [_ [IVb SMb]]].
  apply run_app in R as [sc [Rc R]]. cbn [run] in R.
  destruct (step fx p sc LIdleExit) as [sd|] eqn:ED; [|discriminate]. inversion R; subst sd; clear R.
  assert (EBs : sb = set_phase s PTop).
  { simpl in EB. unfold do_idle_enter in EB. rewrite PP in EB. destruct (existsb _ _); [|discriminate]. now inversion EB. }
  assert (EDs : s' = set_phase sc PPoll).
  { simpl in ED. unfold do_idle_exit in ED. destruct (st_phase sc); try discriminate.
    destruct (forallb _ _); [|discriminate]. now inversion ED. }
  assert (HIb : in_idle (st_phase sb)) by (subst sb; left; reflexivity).
  destruct (idle_effect mid sb mb sc IVb SMb HIb Rc NX) as [A [B _]].
  assert (AB : forall x, st_abandoned sc x = st_abandoned sb x).
  { apply (run_abandoned_same mid sb sc Rc). intros a X.
    destruct (segment p BF fx mid sb sc HIb Rc NX) as [_ _].
    (* an abandon step is not enabled inside the handler *)
    apply in_split in X as [t1 [t2 ->]]. apply run_app in Rc as [sx [R1 R2]]. cbn [run] in R2.
    destruct (segment p BF fx t1 sb sx HIb R1) as [HIx _]; [intro Y; apply NX; apply in_or_app; now left|].
    simpl in R2. unfold do_abandon in R2. destruct HIx as [Z|[Z|Z]]; rewrite Z in R2; discriminate. }
  subst sb s'. simpl in *. rewrite A, B, AB. reflexivity.
Qed.

(** (a) + the poll: creates, consumes and abandons; the awaited set afterwards is [ids'] *)
Theorem poll_preserves_KG st st' ids ids' s m new :
  KG st ids s -> Inv p s -> Sim p s m -> st_phase s = PPoll ->
  ExecAsync.s_proms st' = ExecAsync.s_proms st ++ new ->
  (forall k pr, nth_error new k = Some pr ->
     ExecAsync.p_id pr = length (ExecAsync.s_proms st) + k /\ ExecAsync.p_done pr = false) ->
  (forall x, In x (ExecAsync.s_chans st') -> In x (ExecAsync.s_chans st)) ->
  length (ExecAsync.s_proms st') <= length (p_items p) ->
  (* Acct: ac_ids, ac_taken *)
  (forall id, In id ids' -> In id ids \/ length (ExecAsync.s_proms st) <= id < length (ExecAsync.s_proms st')) ->
  (forall x, In x (ExecAsync.s_chans st) -> ~ In x (ExecAsync.s_chans st') -> ~ In (fst x) ids') ->
  exists tr s' m',
    run fx p s tr = Some s' /\
    Forall (fun l => match l with LCreate _ | LConsume _ | LAbandon _ => True | _ => False end) tr /\
    KG st' ids' s' /\ Inv p s' /\ Sim p s' m' /\ st_phase s' = PPoll.
Proof.
  intros [KK AW] IV SM PH EP NEW SUB LEN AID ATK.
  destruct (poll_cc st st' s m new KK IV SM PH EP NEW SUB LEN)
    as [s2 [m2 [R2 [KK2 [IV2 [SM2 [PH2 [CR2 [TK2 AB2]]]]]]]]].
  set (c := length (ExecAsync.s_proms st)) in *.
  set (c' := length (ExecAsync.s_proms st')) in *.
  assert (CC : c' = c + length new) by (unfold c', c; rewrite EP, app_length; reflexivity).
  set (A := filter (fun w => live p s2 w && negb (mem w ids')) (seq 0 c')).
  assert (AND : NoDup A) by (apply NoDup_filter, seq_NoDup).
  assert (ALV : forall w, In w A -> live p s2 w = true).
  { intros w X. apply filter_In in X as [_ X]. now apply andb_true_iff in X as [X _]. }
  destruct (abandons_run A s2 m2 IV2 SM2 PH2 AND ALV) as [s3 [m3 [R3 [IV3 [SM3 [PH3 [C3 [H3 [T3 B3]]]]]]]]].
  exists ((map LCreate (seq c (length new)) ++ map LConsume (taken_ids st st')) ++ map LAbandon A), s3, m3.
  split; [apply run_app; eauto|]. split.
  { apply Forall_app. split; [apply Forall_app; split|]; apply Forall_forall; intros l X;
      apply in_map_iff in X as [w [<- _]]; exact I. }
  split; [|auto]. constructor.
  - (* K does not look at the abandoned flags *)
    destruct KK2 as [P1 P2 P3 P4]. constructor; auto.
    + intro w. rewrite C3. apply P2.
    + intros w pr N. rewrite H3, T3. apply (P3 w pr N).
    + intro w. rewrite H3. apply P4.
  - intro w. rewrite (live_flat s3 w IV3), C3, T3, B3.
    assert (L2 : live p s2 w = true <-> st_created s2 w = true /\ st_taken s2 w = false /\ st_abandoned s2 w = false)
      by (apply live_flat; auto).
    assert (MA : mem w A = true <-> live p s2 w = true /\ ~ In w ids' /\ w < c').
    { rewrite mem_In. unfold A. rewrite filter_In, in_seq, andb_true_iff, negb_true_iff. split.
      - intros [X [Y Z]]. apply mem_false in Z. repeat split; auto. lia.
      - intros [X [Y Z]]. split; [lia|]. split; auto. now apply mem_false. }
    assert (NOTT : forall x, In x ids' -> mem x (taken_ids st st') = false).
    { intros x X. destruct (mem x (taken_ids st st')) eqn:MT; auto. exfalso.
      apply mem_In in MT. unfold taken_ids in MT. apply filter_In in MT as [M1 M2]. apply nodup_In in M1.
      apply negb_true_iff, mem_false in M2. apply in_map_iff in M1 as [[a b] [E M1]]. simpl in E; subst a.
      apply (ATK (x, b) M1); auto. intro Y. apply M2. apply in_map_iff. exists (x, b). auto. }
    split.
    + (* awaited => live *)
      intro X.
      assert (LW : live p s2 w = true).
      { apply L2. destruct (AID w X) as [Y|Y].
        - apply AW in Y. apply (live_flat s w IV) in Y as [P [Q U]].
          apply (k_created st s KK) in P. fold c in P.
          split; [apply CR2; fold c'; lia|]. split; [rewrite TK2, Q, (NOTT w X); reflexivity|]. now rewrite AB2.
        - fold c c' in Y.
          assert (NCR : st_created s w = false).
          { destruct (st_created s w) eqn:E; auto. apply (k_created st s KK) in E. fold c in E. lia. }
          destruct (c_fresh p s IV w NCR) as [_ [_ [TN AN]]].
          split; [apply CR2; fold c'; lia|]. split; [rewrite TK2, TN, (NOTT w X); reflexivity|]. now rewrite AB2. }
      apply L2 in LW as [P [Q U]]. repeat split; auto. rewrite U. simpl.
      destruct (Bool.bool_dec (mem w A) true) as [MW|MW]; [|now destruct (mem w A)].
      apply MA in MW as [_ [Y _]]. tauto.
    + intros [P [Q U]]. apply orb_false_iff in U as [U MW].
      assert (LW : live p s2 w = true) by (apply L2; auto).
      destruct (in_dec Nat.eq_dec w ids') as [Y|Y]; auto. exfalso.
      assert (WC : w < c') by (apply CR2; auto).
      assert (Z : mem w A = true) by (apply MA; auto). congruence.
Qed.

(** (b) the guards *)
Theorem pending_enables_idle_enter st ids s :
  KG st ids s -> st_phase s = PPoll ->
  (exists id, In id ids /\ id < length (ExecAsync.s_proms st) /\ forall ok, ~ In (id, ok) (ExecAsync.s_chans st)) ->
  exists s', step fx p s LIdleEnter = Some s'.
Proof.
  intros [KK AW] PH [id [X [LT NO]]].
  assert (LV : live p s id = true) by (apply AW; auto).
  assert (CE : chan_empty s id = true).
  { unfold chan_empty. destruct (st_chan s id) eqn:C; auto. exfalso.
    assert (Y : st_chan s id <> None) by congruence. apply (k_chans st s KK) in Y as [ok Y]. exact (NO ok Y). }
  simpl. unfold do_idle_enter. rewrite PH.
  assert (EX : existsb (fun w => live p s w && chan_empty s w) (ids0 p) = true).
  { apply existsb_exists. exists id. split; [|now rewrite LV, CE].
    destruct (live_inv p s id LV) as [it [L _]]. eapply lookup_ids; eauto. }
  rewrite EX. eauto.
Qed.

Theorem ready_enables_end st s :
  KG st [] s -> st_phase s = PPoll -> exists s', step fx p s LEnd = Some s'.
Proof.
  intros [KK AW] PH. simpl. unfold do_end. rewrite PH.
  assert (NL : forallb (fun w => negb (live p s w)) (ids0 p) = true).
  { apply forallb_forall. intros w _. destruct (live p s w) eqn:LV; auto. apply AW in LV. destruct LV. }
  rewrite NL. eauto.
Qed.

End Joint.

(** ** What C02's accounting of a poll ([Acct], under its [World] invariant) provides of the hypotheses
    of [poll_preserves_KG]: the shape of the promise table, the awaited ids, the received entries.
    NOT provided (the one missing lemma, see Properties/C15.v): that the appended promises are not
    done and that no channel entry is added — true of plans without prefilled tags (api-fu's Go and
    Batch never send before they return) by reading ExecAsync.exec_field, not proved. *)
From ApiFu Require Fut.Live Fut.Acct.
Lemma acct_provides st st' g g' :
  Acct.Acct st st' g g' -> Acct.chans_wf st -> Acct.ids_wf st g ->
  (exists new, ExecAsync.s_proms st' = ExecAsync.s_proms st ++ new /\
               forall k pr, nth_error new k = Some pr -> ExecAsync.p_id pr = length (ExecAsync.s_proms st) + k) /\
  (forall id, In id (Live.g_ids g') ->
     In id (Live.g_ids g) \/ length (ExecAsync.s_proms st) <= id < length (ExecAsync.s_proms st')) /\
  (forall x, In x (ExecAsync.s_chans st) -> ~ In x (ExecAsync.s_chans st') -> ~ In (fst x) (Live.g_ids g')) /\
  ExecAsync.s_round st' = ExecAsync.s_round st.
Proof.
  intros A CW IW. split; [|split; [|split]].
  - destruct (Acct.ac_proms _ _ _ _ A) as [new [E N]]. exists new. split; auto.
  - intros id X. destruct (Acct.ac_ids _ _ _ _ A id X) as [Y|Y]; auto.
  - intros x X Y. destruct (Acct.ac_taken _ _ _ _ A CW IW x X Y) as [_ Z]. exact Z.
  - apply (Acct.ac_round _ _ _ _ A).
Qed.
