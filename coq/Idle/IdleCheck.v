(** * Idle/IdleCheck.v — C15 correspondence: decode one case (the work-item forest the harness
    generated, the linearised history of what the real code did, the observed deliveries, both
    responses, the goroutine accounting), run the Spec monitor (oracle, every case) and replay the
    history through the model LTS as an acceptor.  Executable only (extracted / vm_compute). *)
From Coq Require Import List NArith ZArith Bool Arith String.
From ApiFu Require Import Base.Sexp Idle.IdleModel Idle.IdleSpec.
Import ListNotations.
Open Scope string_scope.

Definition dec_res (s : sexp) : option result :=
  match untag s with
  | Some (t, [v]) =>
      match as_Z v with
      | Some z => if String.eqb t "ok" then Some (ROk z) else if String.eqb t "err" then Some (RErr z) else None
      | None => None
      end
  | _ => None
  end.

Definition dec_kind (s : sexp) : option kind :=
  match untag s with
  | Some (t, []) => if String.eqb t "sync" then Some KSync else if String.eqb t "go" then Some KGo else None
  | Some (t, [a]) =>
      if String.eqb t "batch" then match as_nat a with Some k => Some (KBatch k) | None => None end
      else if String.eqb t "chain" then match as_list_of as_nat a with Some l => Some (KChain l) | None => None end
      else None
  | _ => None
  end.

Definition dec_item (s : sexp) : option item :=
  match s with
  | SL [k; par; inn; r] =>
      match dec_kind k, as_Z par, as_bool inn, dec_res r with
      | Some k', Some z, Some b, Some r' =>
          Some (mkItem k' (if Z.ltb z 0 then None else Some (Z.to_nat z)) b r')
      | _, _, _, _ => None
      end
  | _ => None
  end.

Definition dec_label (s : sexp) : option label :=
  match untag s with
  | Some (t, []) =>
      if String.eqb t "idle-enter" then Some LIdleEnter
      else if String.eqb t "flush-done" then Some LFlushDone
      else if String.eqb t "idle-exit" then Some LIdleExit
      else if String.eqb t "end" then Some LEnd
      else if String.eqb t "cancel" then Some LCancel
      else None
  | Some (t, [a]) =>
      match as_nat a with
      | Some w =>
          if String.eqb t "create" then Some (LCreate w)
          else if String.eqb t "consume" then Some (LConsume w)
          else if String.eqb t "abandon" then Some (LAbandon w)
          else if String.eqb t "finish" then Some (LFinish w)
          else if String.eqb t "read" then Some (LRead w)
          else if String.eqb t "arrive" then Some (LArrive w)
          else if String.eqb t "recv" then Some (LRecv w)
          else if String.eqb t "exit" then Some (LExit w)
          else None
      | None => None
      end
  | Some (t, [a; b]) =>
      if String.eqb t "flush" then
        match as_nat a, as_list_of as_nat b with
        | Some k, Some its => Some (LFlush k its)
        | _, _ => None
        end
      else None
  | _ => None
  end.

Definition label_name (l : label) : string :=
  match l with
  | LCreate _ => "create" | LConsume _ => "consume" | LAbandon _ => "abandon" | LIdleEnter => "idle-enter"
  | LFlush _ _ => "flush" | LFlushDone => "flush-done" | LFinish _ => "finish" | LRead _ => "read"
  | LArrive _ => "arrive" | LRecv _ => "recv" | LIdleExit => "idle-exit" | LEnd => "end" | LExit _ => "exit"
  | LCancel => "cancel"
  end.

Definition label_arg (l : label) : sexp :=
  match l with
  | LCreate w | LConsume w | LAbandon w | LFinish w | LRead w | LArrive w | LRecv w | LExit w => of_nat w
  | LFlush k _ => of_nat k
  | _ => SL []
  end.

Definition dec_delivery (s : sexp) : option (nat * result) :=
  match s with
  | SL [w; r] => match as_nat w, dec_res r with Some w', Some r' => Some (w', r') | _, _ => None end
  | _ => None
  end.

(** the harness' functions: a batch resolver answers every field context with that item's own
    result; the function given to chain/join returns the chain item's own result *)
Definition mk_prog (its : list item) : prog :=
  mkProg its
         (fun _ l => map (fun w => match nth_error its w with Some it => it_res it | None => RErr (-1) end) l)
         (fun c _ => match nth_error its c with Some it => it_res it | None => RErr (-1) end).

Definition res_eqb (a b : result) : bool :=
  match a, b with
  | ROk x, ROk y => Z.eqb x y
  | RErr x, RErr y => Z.eqb x y
  | _, _ => false
  end.

(** stable keys of oracle failures: which clause of the property the history violates *)
Definition spec_key (l : label) : string :=
  match l with
  | LFlush _ _ => "batch-call-not-once-coalesced-positional"
  | LIdleExit => "idle-return-with-pending-batch-items"
  | LRecv _ => "result-delivered-twice-or-not-the-produced-one"
  | LConsume _ => "executor-took-undelivered-result"
  | LEnd => "request-ended-with-owed-results"
  | LCreate _ => "resolver-invoked-twice"
  | _ => "history-shape"
  end.

(** evidence classes *)
Definition count_lab (f : label -> bool) (tr : list label) : nat := List.length (filter f tr).

Fixpoint max_recv_per_round (tr : list label) (cur best : nat) : nat :=
  match tr with
  | [] => Nat.max cur best
  | LIdleEnter :: tr' => max_recv_per_round tr' 0 (Nat.max cur best)
  | LRecv _ :: tr' => max_recv_per_round tr' (S cur) best
  | _ :: tr' => max_recv_per_round tr' cur best
  end.

Fixpoint max_flush_per_round (tr : list label) (cur best : nat) : nat :=
  match tr with
  | [] => Nat.max cur best
  | LIdleEnter :: tr' => max_flush_per_round tr' 0 (Nat.max cur best)
  | LFlush _ _ :: tr' => max_flush_per_round tr' (S cur) best
  | _ :: tr' => max_flush_per_round tr' cur best
  end.

(** an idle round in which the handler neither called a batch function nor received a resolution of
    this execution: it returned without having sent a result to any promise (the executor's contract;
    impossible in the LTS: C15_idle_round_fulfils) *)
Fixpoint empty_round (tr : list label) (in_round delivered : bool) : bool :=
  match tr with
  | [] => false
  | LIdleEnter :: tr' => empty_round tr' true false
  | LFlush _ _ :: tr' => empty_round tr' in_round true
  | LRecv _ :: tr' => empty_round tr' in_round true
  | LIdleExit :: tr' => (in_round && negb delivered) || empty_round tr' false false
  | _ :: tr' => empty_round tr' in_round delivered
  end.

(** "pending when execution can no longer proceed": the executor must not enter the idle handler
    while a promise it still awaits holds an unread result.  The harness declares a visible promise
    abandoned when it finds its result unread at an idle entry; if the executor reads it after all
    ([LConsume] after [LAbandon]), it had entered the idle handler although it could proceed — and
    the work revealed by that result came too late for the batch calls of that round. *)
Fixpoint consume_after_abandon (tr : list label) (ab : list nat) : option nat :=
  match tr with
  | [] => None
  | LAbandon w :: tr' => consume_after_abandon tr' (w :: ab)
  | LConsume w :: tr' => if existsb (Nat.eqb w) ab then Some w else consume_after_abandon tr' ab
  | _ :: tr' => consume_after_abandon tr' ab
  end.

(** a round that both flushes and receives *)
Fixpoint flush_then_recv (tr : list label) (flushed : bool) : bool :=
  match tr with
  | [] => false
  | LIdleEnter :: tr' => flush_then_recv tr' false
  | LFlush _ _ :: tr' => flush_then_recv tr' true
  | LRecv _ :: tr' => flushed || flush_then_recv tr' flushed
  | _ :: tr' => flush_then_recv tr' flushed
  end.

Definition classes (its : list item) (tr : list label) (m : mon) : list string :=
  let has k := existsb k its in
  let go := has (fun it => match it_kind it with KGo => true | _ => false end) in
  let bat := has (fun it => match it_kind it with KBatch _ => true | _ => false end) in
  let chn := has (fun it => match it_kind it with KChain _ => true | _ => false end) in
  let jn := has (fun it => match it_kind it with KChain (_ :: _ :: _) => true | _ => false end) in
  let nested := has (fun it => match it_kind it with KChain _ => it_inner it | _ => false end) in
  let inner_batch := has (fun it => match it_kind it with KBatch _ => it_inner it | _ => false end) in
  let err := has (fun it => match it_res it with RErr _ => is_promise (it_kind it) | _ => false end) in
  let rounds := count_lab (fun l => match l with LIdleEnter => true | _ => false end) tr in
  let aband := existsb (fun l => match l with LAbandon _ => true | _ => false end) tr in
  let aband_undelivered :=
      existsb (fun l => match l with
                        | LAbandon w => match m_dlv m w with None => true | Some _ => false end
                        | _ => false end) tr in
  let big_flush := existsb (fun l => match l with LFlush _ (_ :: _ :: _) => true | _ => false end) tr in
  let cont := existsb (fun l => match l with
                                | LRecv w => match nth_error its w with Some it => it_inner it | None => false end
                                | _ => false end) tr in
  let promises := List.length (filter (fun it => is_promise (it_kind it)) its) in
  (if go then ["go"] else []) ++ (if bat then ["batch"] else []) ++ (if chn then ["chain"] else []) ++
  (if jn then ["join"] else []) ++ (if nested then ["nested-chain"] else []) ++
  (if inner_batch then ["chained-batch"] else []) ++
  (if err then ["async-error"] else []) ++
  (if Nat.ltb 1 rounds then ["waves"] else []) ++
  (if Nat.eqb rounds 0 then ["no-idle"] else []) ++
  (if aband then ["abandoned"] else []) ++
  (if aband_undelivered then ["abandoned-undelivered"] else []) ++
  (if big_flush then ["coalesced-items"] else []) ++
  (if Nat.ltb 1 (max_flush_per_round tr 0 0) then ["multi-batch-flush"] else []) ++
  (if Nat.ltb 1 (max_recv_per_round tr 0 0) then ["drain-delivery"] else []) ++
  (if flush_then_recv tr false then ["flush-then-recv"] else []) ++
  (if cont then ["chained-delivery"] else []) ++
  (if Nat.ltb 0 rounds && Nat.ltb 1 promises then ["nontrivial"] else []).

Definition sym_class (l : list sexp) (k : string) : list string :=
  match field1 k l with
  | Some (SZ z) => [String.append k (match z with
                                      | 0%Z => "0" | 1%Z => "1" | 2%Z => "2" | 4%Z => "4" | 16%Z => "16" | _ => "n" end)]
  | _ => []
  end.

Definition check (c : sexp) : sexp :=
  match tagged "case" c with
  | Some l =>
      match field1 "items" l, field1 "trace" l, field1 "delivered" l, field "resp" l, field1 "leak" l, field1 "hang" l with
      | Some (SL its), Some (SL trs), Some (SL dls), Some [ra; rs], Some lk, Some hg =>
          match map_opt dec_item its, map_opt dec_label trs, map_opt dec_delivery dls,
                as_bytes ra, as_bytes rs, as_nat lk, as_bool hg with
          | Some items, Some tr, Some dl, Some respa, Some resps, Some leak, Some hang =>
              let p := mk_prog items in
              (* a field with two failing getters, the first through a promise, the second
                 synchronously: either admissible error, identical data (the harness offers the second
                 reference only there and only when its data equals the reference's; C02's known
                 finding admissible-error-differs) *)
              let alt_ok := match field1 "respalt" l with
                            | Some a => match as_bytes a with Some ab => bytes_eqb respa ab | None => false end
                            | None => false
                            end in
              (* the request context was cancelled: the response legitimately differs from the
                 all-synchronous one (fields not invoked / functions returning the context's error);
                 every other clause is judged as usual *)
              let cancelled := match field1 "cancelled" l with
                               | Some b => match as_bool b with Some true => true | _ => false end
                               | None => false
                               end in
              if negb (wf_items p) then v_bad "ill-formed-program" else
              (* ---- the Spec oracle, on every case ---- *)
              if hang then v_oracle_fail "request-did-not-return" [] else
              match mon_accept p mon_init 0 tr with
              | inr i =>
                  let lab := nth i tr LEnd in
                  v_oracle_fail (spec_key lab) [of_nat i; SSym (label_name lab); label_arg lab]
              | inl m =>
                  match find (fun d => negb match m_dlv m (fst d) with
                                            | Some r => res_eqb r (snd d)
                                            | None => false end) dl with
                  | Some d => v_oracle_fail "promise-holds-wrong-result" [of_nat (fst d)]
                  | None =>
                      if negb cancelled && negb (bytes_eqb respa resps) && negb alt_ok then v_oracle_fail "response-differs-from-synchronous" []
                      else if negb (Nat.eqb leak 0) then v_oracle_fail "goroutine-blocked-after-request" [of_nat leak]
                      else if empty_round tr false false then v_oracle_fail "idle-round-filled-no-promise-of-this-execution" []
                      else if match consume_after_abandon tr [] with Some _ => true | None => false end
                           then v_oracle_fail "idle-entered-while-an-awaited-result-was-unread" []
                      else
                        (* ---- the model as an acceptor of the observed history ---- *)
                        (* the code that exists ([current]); a history it rejects is tried against
                           the proved variant that does not loop after a chained delivery *)
                        let acc := match accept current p init 0 tr with
                                   | inl s => (inl s, false)
                                   | inr i => match accept (mkVariant true false) p init 0 tr with
                                              | inl s => (inl s, true)
                                              | inr _ => (inr i, false)
                                              end
                                   end in
                        match fst acc with
                        | inr i =>
                            let lab := nth i tr LEnd in
                            v_mismatch "step-not-enabled-in-model" [of_nat i; SSym (label_name lab); label_arg lab]
                        | inl s =>
                            match st_phase s with
                            | PEnded => v_ok (classes items tr m ++ sym_class l "gmp" ++ sym_class l "ws" ++
                                              (if alt_ok && negb (bytes_eqb respa resps) then ["admissible-error-differs"] else []) ++
                                              (if cancelled then sym_class l "cancelkind" else []) ++
                                              (if cancelled && existsb (fun it => match it_res it with RErr (-3) => true | _ => false end) items
                                               then ["function-returned-ctx-error"] else []) ++
                                              (if snd acc then ["variant-no-loop-after-chained"] else []))
                            | _ => v_mismatch "history-does-not-end" []
                            end
                        end
                  end
              end
          | _, _, _, _, _, _, _ => v_bad "decode"
          end
      | _, _, _, _, _, _ => v_bad "fields"
      end
  | None => v_bad "shape"
  end.
