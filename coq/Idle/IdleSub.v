(** * Idle/IdleSub.v — C15: a graphql-ws subscription as a sequence of executions that share one
    apiRequest (graphqlws.go: one [h.API.execute] per event of the source stream, each followed by
    [apiRequest.finishExecution()]).

    Between two executions everything that belongs to an execution is new (the executor, its
    promises, the goroutines it starts); what is carried over is the apiRequest: [batches],
    [chainedAsyncResolutions] (and the cancellation state of the connection's context).
    [finish_exec fixed s] is the state the next execution starts from: with the repair (api-fu
    786cdc5) finishExecution drops both maps, before it they were kept.

    - repaired: the next execution starts from a fresh request state, hence every event of a
      subscription is a run of the single-execution LTS and all theorems of Properties/C15.v hold of
      it, in particular its history is accepted by the Spec monitor ([events_isolated]);
    - before the repair: a Batch invocation left pending by an event that returned without
      another idle round is handed to the batch function in the next event's call, a history the
      Spec rejects ([batch_leak_before_fix]).

    Not modelled: a goroutine of event e that is still inside f() when event e+1 runs shares the
    asyncResolutions channel with it; its select may hand a stale resolution to the next event's
    idle handler (an idle round without progress for that event; the promise it fills is unread). *)
From Coq Require Import List NArith ZArith Bool Arith Lia.
From ApiFu Require Import Idle.IdleModel Idle.IdleSpec Idle.IdleProofs Idle.IdleHist.
Import ListNotations.

Definition fresh (cancelled : bool) : state := if cancelled then set_cancelled init else init.

(** finishExecution followed by the start of the next event's execution *)
Definition finish_exec (fixed : bool) (s : state) : state :=
  mkState PPoll (fun _ => false) (fun _ => GNone) (fun _ => None) (fun _ => false) (fun _ => false)
          (if fixed then [] else st_pend s)
          (if fixed then (fun _ => false) else st_chained s)
          (st_cancelled s).

Section Sub.
Variable fixed : bool.
Variable fx : variant.
Variable p : prog.

(** the events' histories, one list per event; every execution but the last has returned *)
Fixpoint sub_run (s : state) (trs : list (list label)) : option state :=
  match trs with
  | [] => Some s
  | [tr] => run fx p s tr
  | tr :: rest =>
      match run fx p s tr with
      | Some s' => match st_phase s' with PEnded => sub_run (finish_exec fixed s') rest | _ => None end
      | None => None
      end
  end.
End Sub.

Lemma finish_exec_fixed s : finish_exec true s = fresh (st_cancelled s).
Proof. unfold finish_exec, fresh. destruct (st_cancelled s); reflexivity. Qed.

Section Isolated.
Variable p : prog.
Hypothesis WF : wf_items p = true.
Hypothesis BF : bfun_ok p.
Variable fx : variant.

Lemma inv_fresh c : Inv p (fresh c) /\ Sim p (fresh c) mon_init.
Proof.
  destruct c; simpl; [|split; [apply inv_init | apply sim_init]].
  destruct (pres_cancel p init mon_init (set_cancelled init) (inv_init p) (sim_init p)) as [A B]; [reflexivity|].
  split; assumption.
Qed.

(** every event of a subscription, on the repaired code, is a run of the single-execution LTS from a
    fresh request state; its history is accepted by the Spec monitor and satisfies the invariant *)
Theorem events_isolated : forall trs c s,
  sub_run true fx p (fresh c) trs = Some s ->
  Forall (fun tr => exists c' s' m, run fx p (fresh c') tr = Some s' /\
                                    mon_run p mon_init tr = Some m /\ Inv p s' /\ Sim p s' m) trs.
Proof.
  induction trs as [|tr rest IH]; intros c s H; [constructor|].
  destruct (inv_fresh c) as [IV SM].
  destruct rest as [|tr2 rest].
  - simpl in H. constructor; [|constructor].
    destruct (run_preserves p WF BF fx tr (fresh c) mon_init s IV SM H) as [m [M [IV' SM']]].
    exists c, s, m. auto.
  - cbn [sub_run] in H. destruct (run fx p (fresh c) tr) as [s'|] eqn:R; [|discriminate].
    destruct (st_phase s') eqn:PH; try discriminate.
    rewrite finish_exec_fixed in H. constructor.
    + destruct (run_preserves p WF BF fx tr (fresh c) mon_init s' IV SM R) as [m [M [IV' SM']]].
      exists c, s', m. auto.
    + eapply IH; eauto.
Qed.
End Isolated.

(** ** Before the repair: the cross-event batch leak *)

(** subscription{ev{a0:b0{a1:lb0 a2:lsN}}} with a2 failing: 0 = the Batch object field, 1 = its Batch
    child (same resolver), 2 = its failing non-null child *)
Definition leak2_prog : prog :=
  mkProg [mkItem (KBatch 0) None false (ROk 0); mkItem (KBatch 0) (Some 0) false (ROk 1);
          mkItem KSync (Some 0) false (RErr 2)]
         (fun _ l => map (fun w => ROk (Z.of_nat w)) l) (fun _ _ => ROk 0).

Definition leak2_event1 : list label :=
  [LCreate 0; LIdleEnter; LFlush 0 [0]; LFlushDone; LIdleExit; LConsume 0; LCreate 1; LCreate 2; LAbandon 1; LEnd].
Definition leak2_event2 : list label := [LCreate 0; LIdleEnter; LFlush 0 [1; 0]].

Theorem batch_leak_before_fix :
  exists p tr1 tr2 s,
    wf_items p = true /\ bfun_ok p /\
    sub_run false current p init [tr1; tr2] = Some s /\
    (exists k its w, In (LFlush k its) tr2 /\ In w its /\ ~ In w (created_of tr2)) /\
    mon_run p mon_init tr2 = None /\
    sub_run true current p init [tr1; tr2] = None.
Proof.
  exists leak2_prog, leak2_event1, leak2_event2. eexists.
  split; [reflexivity|]. split; [intros k l; simpl; apply map_length|].
  split; [vm_compute; reflexivity|]. split; [|split; vm_compute; reflexivity].
  exists 0, [1; 0], 1. split; [simpl; auto|]. split; [simpl; auto|].
  simpl. intros [H|[]]. discriminate.
Qed.
