(** * Idle/IdleJointTotal.v — C15 + C02: the joint system runs to completion, and every step of it
    is forced, for plans without prefilled promises ([nopre root], C02's Fut/NoPrefill.v).

    [joint_loop_exists] follows C02's [wait_loop_spec] with the oracle replaced by the LTS: under
    C02's [World] invariant, the coupling [KG] and "every pending closure is [NPclo]",
    - a pending future enables [LIdleEnter] (C02: [Blocked]);
    - the handler can complete a round ([round_exists], from C15's [completes]);
    - whatever round it is, it fulfils exactly its deliveries in C02's table ([round_preserves_KG]);
    - C02's poll ([StepSpec]) is mirrored by creates / consumes / abandons ([poll_preserves_KG], its
      hypotheses from [acct_provides] and [no_prefill_poll]);
    and so on until the future is ready.  [joint_run_exists] wraps it like C02's [run_query_ok]. *)
From Coq Require Import List NArith ZArith Bool Arith Lia.
From ApiFu Require Import Base.Sexp Fut.Plan Fut.Future Fut.ExecAsync Fut.ExecSync Fut.Denote Fut.Live Fut.LiveFacts
     Fut.Acct Fut.AsyncWrap Fut.AsyncSel Fut.AsyncMain Fut.AsyncRun Fut.NoPrefill.
From ApiFu Require Import Idle.IdleModel Idle.IdleSpec Idle.IdleProofs Idle.IdleLive Idle.IdleHist Idle.IdleFair
     Idle.IdleJoint Idle.IdleJointRun.
Import ListNotations.

Lemma label_eq_dec (a b : label) : {a = b} + {a <> b}.
Proof. repeat decide equality. Defined.

Lemma split_first (x : label) : forall tr, In x tr -> exists a b, tr = a ++ x :: b /\ ~ In x a.
Proof.
  induction tr as [|y tr IH]; intros H; [destruct H|].
  destruct (label_eq_dec y x) as [->|NE].
  - exists [], tr. split; auto.
  - destruct H as [H|H]; [congruence|]. destruct (IH H) as [a [b [E N]]].
    exists (y :: a), b. split; [simpl; now rewrite E|]. intros [X|X]; [congruence|tauto].
Qed.

Section Total.
Variable p : prog.
Hypothesis WF : wf_items p = true.
Hypothesis BF : bfun_ok p.
Hypothesis NC : no_chaining p.
Hypothesis FLAT : flat_async p.
Variable fx : variant.

(** the handler can always complete a round it has entered *)
Lemma round_exists s m sb :
  Inv p s -> Sim p s m -> IdleModel.step fx p s LIdleEnter = Some sb ->
  exists mid s1, IdleModel.run fx p s (LIdleEnter :: mid ++ [LIdleExit]) = Some s1 /\ ~ In LIdleExit mid.
Proof.
  intros IV SM EB.
  destruct (step_preserves p WF BF fx s m LIdleEnter sb IV SM EB) as [mb [_ [IVb SMb]]].
  assert (PB : in_idle (st_phase sb)).
  { simpl in EB. unfold do_idle_enter in EB. destruct (st_phase s); try discriminate.
    destruct (existsb _ _); [|discriminate]. inversion EB. left. reflexivity. }
  destruct (completes p WF BF fx (measure p sb) sb mb (le_n _) IVb SMb) as [tr [sE [_ [R PE]]]].
  destruct (in_dec label_eq_dec LIdleExit tr) as [X|X].
  - destruct (split_first LIdleExit tr X) as [a [b [E N]]]. subst tr.
    apply run_app in R as [sx [R1 R2]]. cbn [IdleModel.run] in R2.
    destruct (IdleModel.step fx p sx LIdleExit) as [s1|] eqn:ES; [|discriminate].
    exists a, s1. split; auto. cbn [IdleModel.run]. rewrite EB. apply run_app. exists sx. split; auto.
    cbn [IdleModel.run]. now rewrite ES.
  - exfalso. destruct (segment p BF fx tr sb sE PB R X) as [[Z|[Z|Z]] _]; congruence.
Qed.

Section Loop.
Variables (ALL : list site) (N : nat) (R : ghost).
Variable L : ghe -> st -> clo -> ghost -> Prop.
Variable sp : pspec.
Hypothesis LS : StepSpec L sp.
Hypothesis LM : forall G s G' s' c g, gle G G' -> sle s s' -> L G s c g -> L G' s' c g.
Hypothesis BIG : N <= length (p_items p).

Lemma joint_loop_exists :
  forall fuel f st G g s m,
    World ALL N G st g R -> Outcome L sp G st g f -> N <= fuel + ExecAsync.s_round st ->
    KG p st (g_ids g) s -> Inv p s -> Sim p s m -> st_phase s = PPoll -> NPfut f ->
    exists cs r st' G' sE,
      JLoop p fx cs f st s (r, st') sE /\
      World ALL N G' st' g0 R /\ ResOK G' st' sp r.
Proof.
  induction fuel as [|n IH]; intros f st G g s m W O Hf KGH IV SM PH NPF.
  - destruct f as [r|c]; simpl in O.
    + destruct O as [RO ->]. exists [], r, st, G, s. split; [constructor|]. auto.
    + exfalso. destruct O as [_ (id & Hin & _ & Hno)].
      pose proof (w_pot _ _ _ _ _ _ W). pose proof (w_rounds _ _ _ _ _ _ W). pose proof (ndone_le st).
      assert (Hlt : id < np st) by (apply (w_ids _ _ _ _ _ _ W); auto).
      assert (Hd : done_at st id = true) by (apply all_done; lia).
      destruct (w_done _ _ _ _ _ _ W id Hin Hd) as [ok Hok]. exact (Hno ok Hok).
  - destruct f as [r|c]; simpl in O.
    + destruct O as [RO ->]. exists [], r, st, G, s. split; [constructor|]. auto.
    + destruct O as [Lc B].
      (* (b) the guard *)
      destruct (pending_enables_idle_enter p fx st (g_ids g) s KGH PH B) as [sb EB].
      (* the handler's round *)
      destruct (round_exists s m sb IV SM EB) as [mid [s1 [RND NX]]].
      destruct (round_preserves_KG p WF BF NC fx FLAT st (g_ids g) s m mid s1 KGH IV SM PH RND NX)
        as [st1 [ID [KG1 [RD1 PH1]]]].
      destruct (run_preserves p WF BF fx _ s m s1 IV SM RND) as [m1 [_ [IV1 SM1]]].
      destruct (World_idle (fun _ _ => deliveries mid) ALL N G st g R st1 W ID) as (W1 & S1 & R1).
      (* the executor's poll *)
      destruct (invoke FX c st1) as [[c1 ro] st2] eqn:E.
      assert (Lc1 : L G st1 c g) by (eapply LM; eauto; apply gle_refl).
      destruct (LS G st1 c g c1 ro st2 (w_inv _ _ _ _ _ _ W1) (w_chans _ _ _ _ _ _ W1) Lc1 E)
        as (G' & g' & St & O').
      pose proof (World_step _ _ _ _ _ _ _ _ _ W1 St) as W2.
      assert (NPc : NPclo c) by (inversion NPF; auto).
      destruct (no_prefill_poll c st1 c1 ro st2 NPc E) as [[(new & EP & NEW) SUB] NPc1].
      destruct St as (Sg & Ss & _ & A).
      destruct (acct_provides st1 st2 g g' A (w_chans _ _ _ _ _ _ W1) (w_ids _ _ _ _ _ _ W1))
        as [_ [AID [ATK RD2]]].
      assert (LEN : length (s_proms st2) <= length (p_items p)).
      { pose proof (w_pot _ _ _ _ _ _ W2). unfold np in *. lia. }
      destruct (poll_preserves_KG p WF BF fx FLAT st1 st2 (g_ids g) (g_ids g') s1 m1 new
                  KG1 IV1 SM1 PH1 EP NEW SUB LEN AID ATK)
        as [tr [s2 [m2 [RT [_ [KG2 [IV2 [SM2 PH2]]]]]]]].
      assert (NPF' : NPfut (fut_of c1 ro)) by (destruct ro; simpl; constructor; auto).
      destruct (IH (fut_of c1 ro) st2 G' g' s2 m2 W2 O') as (cs & r & st' & G'' & sE & J & W' & RO); auto; [lia|].
      exists (deliveries mid :: cs), r, st', G'', sE. split; auto.
      eapply JL_pending; eauto.
Qed.
End Loop.

(** the initial states are coupled *)
Lemma KG_init : KG p st0 [] init.
Proof.
  constructor.
  - constructor; simpl.
    + intros i pr H. destruct i; discriminate.
    + intro w. split; [discriminate|intro H; inversion H].
    + intros w pr H. destruct w; discriminate.
    + intro w. split; [intros [ok []]|congruence].
  - intro w. split; [intros []|]. unfold live. simpl. destruct (lookup p w) as [it|]; [|discriminate].
    rewrite !andb_false_r. discriminate.
Qed.

(** THE JOINT SYSTEM COMPLETES: for every plan without prefilled promises and a program with an item
    for each of its promises there is a joint run *)
Theorem joint_run_exists root jfuel :
  nopre root = true -> count_async root <= length (p_items p) -> jdepth (jv (VObj root)) < jfuel ->
  exists cs resp, JRun p fx root jfuel cs resp.
Proof.
  intros NPR BIG Hj. unfold JRun, exec_sel.
  destruct (sel_body (exec_field FX) root [] st0) as [f s1] eqn:E.
  pose proof (World0 root) as W0.
  destruct (S_build root [] (sel_build_all root) [] st0 f s1 (w_inv _ _ _ _ _ _ W0) (w_chans _ _ _ _ _ _ W0) E)
    as (G1 & g1 & St & O).
  pose proof (World_step _ _ _ _ _ _ _ _ _ W0 St) as W1.
  destruct (no_prefill_build root [] st0 f s1 NPR E) as [[(new0 & EP0 & NEW0) SUB0] NPF].
  assert (GI : g_ids (budget_I (VObj root) []) = []) by reflexivity.
  (* the LTS mirrors the construction of the root future *)
  pose proof KG_init as KG0. rewrite <- GI in KG0.
  destruct St as (Sg & Ss & SI & A).
  destruct (acct_provides st0 s1 _ g1 A (w_chans _ _ _ _ _ _ W0) (w_ids _ _ _ _ _ _ W0)) as [_ [AID0 [ATK0 RD0]]].
  assert (LEN1 : length (s_proms s1) <= length (p_items p)).
  { pose proof (w_pot _ _ _ _ _ _ W1). unfold np in *. lia. }
  destruct (poll_preserves_KG p WF BF fx FLAT st0 s1 _ (g_ids g1) init mon_init new0
              KG0 (inv_init p) (sim_init p) eq_refl EP0 NEW0 SUB0 LEN1 AID0 ATK0)
    as [tr0 [sa [ma [RT0 [_ [KGa [IVa [SMa PHa]]]]]]]].
  destruct f as [r|c]; simpl in O.
  - (* ready at once *)
    destruct O as [RO ->].
    destruct (finish_ok root G1 s1 r jfuel W1 RO Hj) as [resp [F _]].
    exists [], resp, (Ready r), s1, tr0, sa, (r, s1), sa.
    split; [intros sigma fuel; destruct fuel; reflexivity|].
    split; [simpl in RD0; exact RD0|]. split; [exact RT0|]. split; [constructor|exact F].
  - (* the first poll, inside [wait] *)
    destruct O as [Lc _].
    destruct (invoke FX (CMap wait_fn c) s1) as [[c1 ro] s2] eqn:E1.
    assert (Lw : LW (fun G s => LiveS G s root []) G1 s1 (CMap wait_fn c) g1) by (exists c; auto).
    destruct (LW_step _ _ (S_step root [] (sel_step_all root)) G1 s1 _ g1 c1 ro s2
                (w_inv _ _ _ _ _ _ W1) (w_chans _ _ _ _ _ _ W1) Lw E1) as (G2 & g2 & St2 & O2).
    pose proof (World_step _ _ _ _ _ _ _ _ _ W1 St2) as W2.
    assert (NPc : NPclo c) by (inversion NPF; auto).
    destruct (no_prefill_poll _ s1 c1 ro s2 (no_prefill_wait_wrap c NPc) E1) as [[(new1 & EP1 & NEW1) SUB1] NPc1].
    destruct St2 as (Sg2 & Ss2 & SI2 & A2).
    destruct (acct_provides s1 s2 g1 g2 A2 (w_chans _ _ _ _ _ _ W1) (w_ids _ _ _ _ _ _ W1)) as [_ [AID1 [ATK1 RD1]]].
    assert (LEN2 : length (s_proms s2) <= length (p_items p)).
    { pose proof (w_pot _ _ _ _ _ _ W2). unfold np in *. lia. }
    destruct (poll_preserves_KG p WF BF fx FLAT s1 s2 (g_ids g1) (g_ids g2) sa ma new1
                KGa IVa SMa PHa EP1 NEW1 SUB1 LEN2 AID1 ATK1)
      as [tr1 [sb [mb [RT1 [_ [KGb [IVb [SMb PHb]]]]]]]].
    assert (NPF2 : NPfut (fut_of c1 ro)) by (destruct ro; simpl; constructor; auto).
    assert (R2 : ExecAsync.s_round s2 = 0) by (rewrite RD1, RD0; reflexivity).
    destruct (joint_loop_exists (root_sites root) (count_async root) g0
                (LW (fun G s => LiveS G s root [])) (spec_I (VObj root) [])
                (LW_step _ _ (S_step root [] (sel_step_all root)))
                (LW_mono _ (fun G s G' s' c g Hg Hs => LiveS_mono G s G' s' Hg Hs root [] c g))
                BIG (count_async root) (fut_of c1 ro) s2 G2 g2 sb mb W2 O2)
      as (cs & r & st' & G' & sE & J & W' & RO); auto; [lia|].
    destruct (finish_ok root G' st' r jfuel W' RO Hj) as [resp [F _]].
    exists cs, resp, (fut_of c1 ro), s2, (tr0 ++ tr1), sb, (r, st'), sE.
    split.
    { intros sigma fuel. unfold wait, Map, poll, Future.poll, poll_with, invoke in *. simpl in *.
      rewrite E1. destruct ro; reflexivity. }
    split; [exact R2|]. split; [apply run_app; eauto|]. split; [exact J|exact F].
Qed.

End Total.
