(** * Idle/IdleLive.v — C15: deadlock freedom, termination (a measure every label decreases),
    completion, release of the goroutines after the request returned.  All statements are about
    every state reachable by any interleaving ([Inv] is established by IdleProofs.run_refines). *)
From Coq Require Import List NArith ZArith Bool Arith Lia.
From ApiFu Require Import Idle.IdleModel Idle.IdleSpec Idle.IdleProofs.
Import ListNotations.

(** labels the system takes by itself: everything except those whose enabledness depends on what
    the abstracted query does (a resolver being invoked, a sibling failure discarding work) or on
    the environment (the request context being cancelled) *)
Definition forced (l : label) : bool :=
  match l with LCreate _ | LAbandon _ | LCancel => false | _ => true end.

Lemma existsb_false_forallb {A} (f : A -> bool) l :
  existsb f l = false -> forallb (fun x => negb (f x)) l = true.
Proof.
  induction l as [|a l IH]; simpl; auto. intro H. apply orb_false_iff in H as [H1 H2].
  rewrite H1. simpl. auto.
Qed.

Lemma filter_length_split {A} (f : A -> bool) l :
  length (filter f l) + length (filter (fun x => negb (f x)) l) = length l.
Proof. induction l as [|a l IH]; simpl; auto. destruct (f a); simpl; lia. Qed.

(** ** sums over the item ids *)

Fixpoint sumf (f : nat -> nat) (l : list nat) : nat :=
  match l with [] => 0 | x :: l' => f x + sumf f l' end.

Lemma sumf_ext f g l : (forall x, In x l -> f x = g x) -> sumf f l = sumf g l.
Proof.
  induction l as [|a l IH]; simpl; intro H; [reflexivity|].
  rewrite (H a) by (left; reflexivity). rewrite IH; [reflexivity|]. intros x Hx. apply H. now right.
Qed.

Lemma sumf_upd {A} (g : A -> nat) (f : nat -> A) w v l :
  NoDup l -> In w l ->
  sumf (fun x => g (upd f w v x)) l + g (f w) = sumf (fun x => g (f x)) l + g v.
Proof.
  induction l as [|a l IH]; intros ND IN; [destruct IN|].
  inversion ND as [|? ? NA ND']; subst. simpl.
  destruct (Nat.eq_dec a w) as [->|NE].
  - rewrite upd_same.
    rewrite (sumf_ext (fun x => g (upd f w v x)) (fun x => g (f x)) l); [lia|].
    intros x Hx. rewrite upd_other; auto. intro; subst; tauto.
  - destruct IN as [IN|IN]; [congruence|]. rewrite upd_other by auto. specialize (IH ND' IN). lia.
Qed.

Lemma sumf_const c l : sumf (fun _ => c) l = c * length l.
Proof. induction l as [|a l IH]; simpl; [lia|]. rewrite IH. lia. Qed.

Definition b2n (b : bool) : nat := if b then 0 else 1.

Definition grank (g : gst) : nat :=
  match g with
  | GNone => 5 | GComputing => 4 | GWaiting _ _ => 3 | GFinished _ => 2 | GParked _ => 1
  | GDone | GExited => 0
  end.

Definition prank (ph : phase) : nat :=
  match ph with PTop => 0 | PPoll => 1 | PDrain => 2 | PFlush => 3 | PEnded => 0 | PPanic => 0 end.

Lemma phase_eq_dec_ended s : {st_phase s = PEnded} + {st_phase s <> PEnded}.
Proof. destruct (st_phase s); (left; reflexivity) || (right; discriminate). Qed.

Section Live.
Variable p : prog.
Hypothesis WF : wf_items p = true.
Hypothesis BF : bfun_ok p.

Lemma ids_nodup : NoDup (ids p).
Proof. unfold ids. apply seq_NoDup. Qed.

Lemma key_is_batch w it k : lookup p w = Some it -> it_kind it = KBatch k -> key_is p k w = true.
Proof. intros L K. unfold key_is. rewrite L, K. apply Nat.eqb_refl. Qed.

Lemma gor_in_ids s w : Inv p s -> st_gor s w <> GNone -> In w (ids p).
Proof.
  intros IV H. destruct (gor_facts p s w IV H) as [CR _].
  destruct (c_created p s IV w CR) as [it L]. eapply lookup_ids; eauto.
Qed.

(** ** Deadlock freedom *)

Section Fx.
Variable fx : variant.

(** a batch goroutine of the flush can always run: its sends never block *)
Lemma flush_enabled s a b rest :
  Inv p s -> (st_phase s = PTop \/ st_phase s = PFlush) -> st_pend s = (a, b) :: rest ->
  exists k its s', step fx p s (LFlush k its) = Some s'.
Proof.
  intros IV PH PE.
  destruct (c_pend_shape p s IV a b) as [AB [CR [it [k [L K]]]]]; [rewrite PE; now left|].
  pose proof (key_is_batch a it k L K) as KA.
  remember (map fst (entries_of p k (st_pend s))) as its eqn:Eits.
  assert (INA : In a its).
  { subst its. unfold entries_of. apply in_map_iff. exists (a, b). split; auto.
    apply filter_In. split; [rewrite PE; now left|]. exact KA. }
  assert (EQ : map snd (entries_of p k (st_pend s)) = its).
  { subst its. apply map_snd_fst_eq. intros x y X. apply filter_In in X as [X _].
    now destruct (c_pend_shape p s IV x y X). }
  assert (ITS : its = filter (key_is p k) (map fst (st_pend s))).
  { subst its. unfold entries_of. apply map_fst_filter. }
  assert (ND : NoDup its) by (rewrite ITS; apply NoDup_filter, (c_pend_nodup p s IV)).
  assert (UND : forall d, In d its -> st_chan s d = None).
  { intros d X. rewrite ITS in X. apply filter_In in X as [X _]. now destruct (c_pend_undel p s IV d X). }
  destruct (deliver_all_spec (st_chan s) its (p_bfun p k its) ND UND) as [ch' [DA _]]; [rewrite BF; lia|].
  assert (G : list_eqb its (map fst (entries_of p k (st_pend s))) && negb (is_nil its) = true).
  { apply andb_true_iff. split; [apply list_eqb_eq; exact Eits|]. destruct its; [destruct INA|reflexivity]. }
  exists k, its. simpl. unfold do_flush.
  assert (LT : Nat.ltb (length its) (length (p_bfun p k its)) = false) by (apply Nat.ltb_ge; rewrite BF; lia).
  destruct PH as [E|E]; rewrite E, G; cbv zeta; rewrite LT, EQ, DA; eauto.
Qed.

(** an undelivered promise always has a goroutine that can move towards the idle handler's
    receive (strong induction over the chain nesting: inner promises have smaller ids) *)
Lemma undelivered_progress s :
  Inv p s -> st_phase s = PTop -> st_pend s = [] ->
  forall n w it, w < n -> lookup p w = Some it -> is_promise (it_kind it) = true ->
    st_created s w = true -> st_chan s w = None -> st_taken s w = false ->
    exists l s', forced l = true /\ step fx p s l = Some s'.
Proof.
  intros IV PT PE. induction n as [|n IH]; intros w it LT L PR CR CH TK; [lia|].
  assert (ND : ~ delivered s w) by (unfold delivered; intros [X|X]; congruence).
  assert (COMMON : forall r, st_gor s w = GFinished r \/ st_gor s w = GParked r ->
            exists l s', forced l = true /\ step fx p s l = Some s').
  { intros r [G|G].
    - exists (LArrive w). simpl. unfold do_arrive. rewrite G. eauto.
    - exists (LRecv w). simpl. unfold do_recv. rewrite G, CH. cbv zeta. rewrite PT, PE. simpl.
      destruct (st_chained s w); [destruct (v_loop fx)|]; eauto. }
  destruct (it_kind it) as [| |k|inn] eqn:K; [discriminate| | |].
  - (* Go *)
    assert (GS : st_gor s w <> GNone) by (eapply (c_gor_some p s IV); eauto; rewrite K; reflexivity).
    destruct (st_gor s w) as [| |j vals|r|r| |] eqn:G.
    + congruence.
    + exists (LFinish w). simpl. unfold do_finish. rewrite G, L. eauto.
    + destruct (c_wait_kind p s IV w j vals G) as [it' [inn [L' K']]]. rewrite L in L'. inversion L'; subst. congruence.
    + eapply COMMON; eauto.
    + eapply COMMON; eauto.
    + exfalso. apply ND. apply (c_done p s IV w G).
    + pose proof (c_exited p s IV w G). congruence.
  - (* Batch: flushed already *)
    exfalso. destruct (c_batch p s IV w it k L K CR) as [X|X]; [rewrite PE in X; destruct X|auto].
  - (* chain / join *)
    assert (GS : st_gor s w <> GNone) by (eapply (c_gor_some p s IV); eauto; rewrite K; reflexivity).
    destruct (st_gor s w) as [| |j vals|r|r| |] eqn:G.
    + congruence.
    + destruct (c_comp_kind p s IV w G) as [it' [L' K']]. rewrite L in L'. inversion L'; subst. congruence.
    + destruct (c_wait p s IV w it inn j vals L K G) as [JL [VL NT]].
      destruct (nth_error inn j) as [q|] eqn:NQ; [|apply nth_error_None in NQ; lia].
      destruct (wf_chain p WF w it inn L K) as [_ WC].
      destruct (WC q (nth_error_In _ _ NQ)) as [QW [iq [Lq [Iq Pq]]]].
      pose proof (c_chain_created p s IV w it inn L K CR q (nth_error_In _ _ NQ)) as CQ.
      pose proof (NT j q (le_n j) NQ) as TQ.
      destruct (st_chan s q) as [r|] eqn:CQH.
      * exists (LRead w). simpl. unfold do_read. rewrite G, L, K, NQ, CQH.
        destruct r; [destruct (Nat.eqb (S j) (length inn))|]; eauto.
      * eapply (IH q iq); eauto. lia.
    + eapply COMMON; eauto.
    + eapply COMMON; eauto.
    + exfalso. apply ND. apply (c_done p s IV w G).
    + pose proof (c_exited p s IV w G). congruence.
Qed.

(** in every reachable state in which the request has not returned, some label is enabled that
    does not depend on the query's own choices *)
Theorem deadlock_free s :
  Inv p s -> st_phase s <> PEnded -> exists l s', forced l = true /\ step fx p s l = Some s'.
Proof.
  intros IV NE. destruct (st_phase s) eqn:PH.
  - (* polling *)
    destruct (existsb (fun w => negb (chan_empty s w) &&
                                match lookup p w with Some it => negb (it_inner it) | None => false end) (ids p)) eqn:E1.
    + apply existsb_exists in E1 as [w [_ E]]. apply andb_true_iff in E as [A B].
      destruct (lookup p w) as [it|] eqn:L; [|discriminate]. apply negb_true_iff in B.
      unfold chan_empty in A. destruct (st_chan s w) as [r|] eqn:C; [|discriminate].
      exists (LConsume w). simpl. unfold do_consume. rewrite PH, L, C, B. simpl. eauto.
    + pose proof (existsb_false_forallb _ _ E1) as F1. rewrite forallb_forall in F1.
      assert (LE : forall w, In w (ids p) -> live p s w = true -> chan_empty s w = true).
      { intros w Hw LV. specialize (F1 w Hw). destruct (live_inv p s w LV) as [it [L [_ [NI _]]]].
        rewrite L, NI in F1. simpl in F1. rewrite andb_true_r, negb_involutive in F1. exact F1. }
      assert (IM : forallb (fun w => implb (live p s w) (chan_empty s w)) (ids p) = true).
      { apply forallb_forall. intros w Hw. destruct (live p s w) eqn:LV; simpl; auto. }
      destruct (existsb (fun w => live p s w && chan_empty s w) (ids p)) eqn:E2.
      * exists LIdleEnter. simpl. unfold do_idle_enter. rewrite PH, E2. simpl. eauto.
      * exists LEnd. simpl. unfold do_end. rewrite PH.
        assert (NL : forallb (fun w => negb (live p s w)) (ids p) = true).
        { apply forallb_forall. intros w Hw. pose proof (existsb_false_forallb _ _ E2) as F2.
          rewrite forallb_forall in F2. specialize (F2 w Hw).
          destruct (live p s w) eqn:LV; auto. rewrite (LE w Hw LV) in F2. discriminate. }
        rewrite NL. eauto.
  - (* top of the idle handler's loop *)
    destruct (st_pend s) as [|[a b] rest] eqn:PE.
    + destruct (c_top p s IV PH) as [w [Hw [LV CE]]].
      destruct (live_inv p s w LV) as [it [L [PR [NI [CR [NT NA]]]]]].
      unfold chan_empty in CE. destruct (st_chan s w) eqn:C; [discriminate|].
      apply (undelivered_progress s IV PH PE (S w) w it); auto.
    + destruct (flush_enabled s a b rest IV (or_introl PH) PE) as [k [its [s' E]]].
      exists (LFlush k its), s'. split; auto.
  - (* wg.Wait() *)
    destruct (st_pend s) as [|[a b] rest] eqn:PE.
    + exists LFlushDone. simpl. unfold do_flush_done. rewrite PH, PE. simpl. eauto.
    + destruct (flush_enabled s a b rest IV (or_intror PH) PE) as [k [its [s' E]]].
      exists (LFlush k its), s'. split; auto.
  - (* non-blocking drain *)
    destruct (existsb (fun w => is_parked (st_gor s w)) (ids p)) eqn:E.
    + apply existsb_exists in E as [w [_ E]]. destruct (st_gor s w) as [| | | |r| |] eqn:G; try discriminate.
      assert (AC : active (st_gor s w)) by (rewrite G; exact I).
      destruct (c_active p s IV w AC) as [C _].
      exists (LRecv w). simpl. unfold do_recv. rewrite G, C. cbv zeta. rewrite PH. eauto.
    + exists LIdleExit. simpl. unfold do_idle_exit. rewrite PH, (existsb_false_forallb _ _ E). eauto.
  - congruence.
  - exfalso. apply (c_nopanic p s IV PH).
Qed.

(** ** Termination: a measure that every label decreases *)

Definition work (s : state) : nat :=
  2 * sumf (fun w => b2n (st_created s w)) (ids p) + sumf (fun w => b2n (st_taken s w)) (ids p)
  + sumf (fun w => b2n (st_abandoned s w)) (ids p) + sumf (fun w => grank (st_gor s w)) (ids p)
  + length (st_pend s) + b2n (st_cancelled s).

Definition measure (s : state) : nat := 4 * work s + prank (st_phase s).

Lemma work_set_gor s w g : In w (ids p) -> work (set_gor s w g) + grank (st_gor s w) = work s + grank g.
Proof. intro H. unfold work. simpl. pose proof (sumf_upd grank (st_gor s) w g (ids p) ids_nodup H). lia. Qed.

Lemma work_set_created s w : In w (ids p) -> work (set_created s w) + 2 * b2n (st_created s w) = work s.
Proof. intro H. unfold work. simpl. pose proof (sumf_upd b2n (st_created s) w true (ids p) ids_nodup H). simpl in *. lia. Qed.

Lemma work_set_taken s w : In w (ids p) -> work (set_taken s w) + b2n (st_taken s w) = work s.
Proof. intro H. unfold work. simpl. pose proof (sumf_upd b2n (st_taken s) w true (ids p) ids_nodup H). simpl in *. lia. Qed.

Lemma work_set_abandoned s w : In w (ids p) -> work (set_abandoned s w) + b2n (st_abandoned s w) = work s.
Proof. intro H. unfold work. simpl. pose proof (sumf_upd b2n (st_abandoned s) w true (ids p) ids_nodup H). simpl in *. lia. Qed.

Lemma work_set_pend s l : work (set_pend s l) + length (st_pend s) = work s + length l.
Proof. unfold work. simpl. lia. Qed.

Lemma work_set_chan s w c : work (set_chan s w c) = work s.
Proof. reflexivity. Qed.
Lemma work_set_chans s ch : work (set_chans s ch) = work s.
Proof. reflexivity. Qed.
Lemma work_set_chained s f : work (set_chained s f) = work s.
Proof. reflexivity. Qed.
Lemma work_set_phase s ph : work (set_phase s ph) = work s.
Proof. reflexivity. Qed.

Lemma step_decreases s l s' : Inv p s -> step fx p s l = Some s' -> measure s' < measure s.
Proof.
  intros IV H. destruct l as [w|w|w| |k its| |w|c|w|w| | |w| ]; simpl in H.
  - (* create *)
    unfold do_create in H. destruct (st_phase s) eqn:PH; try discriminate.
    destruct (lookup p w) as [it|] eqn:L; [|discriminate].
    destruct (negb (st_created s w) && parent_ready s it) eqn:GD; [|discriminate].
    apply andb_true_iff in GD as [NC _]. apply negb_true_iff in NC.
    destruct (c_fresh p s IV w NC) as [GN [CN [TN AN]]]. pose proof (lookup_ids p w it L) as IN.
    pose proof (work_set_created s w IN) as W1. rewrite NC in W1. simpl in W1.
    destruct (it_kind it) as [| |k|inn].
    + inversion H; subst s'. unfold measure.
      pose proof (work_set_taken (set_created s w) w IN) as W2. simpl in W2. rewrite TN in W2. simpl in W2.
      simpl (st_phase _). rewrite PH. lia.
    + inversion H; subst s'. unfold measure.
      pose proof (work_set_gor (set_created s w) w GComputing IN) as W2. simpl in W2. rewrite GN in W2. simpl in W2.
      simpl (st_phase _). rewrite PH. lia.
    + inversion H; subst s'. unfold measure.
      pose proof (work_set_pend (set_created s w) (st_pend s ++ [(w, w)])) as W2. simpl in W2.
      rewrite app_length in W2. simpl in W2.
      simpl (st_phase _). rewrite PH. lia.
    + destruct (forallb (st_created s) inn); [|discriminate]. inversion H; subst s'. unfold measure.
      pose proof (work_set_gor (set_chained (set_created s w) (upd_list (st_chained s) inn true)) w (GWaiting 0 []) IN) as W2.
      rewrite work_set_chained in W2. simpl in W2. rewrite GN in W2. simpl in W2.
      simpl (st_phase _). rewrite PH. lia.
  - (* consume *)
    unfold do_consume in H. destruct (st_phase s) eqn:PH; try discriminate.
    destruct (lookup p w) as [it|] eqn:L; [|discriminate]. destruct (st_chan s w) as [r|] eqn:C; [|discriminate].
    destruct (negb (it_inner it)); [|discriminate]. inversion H; subst s'.
    assert (NT : st_taken s w = false) by (apply (c_chan_taken p s IV); congruence).
    pose proof (work_set_taken (set_chan s w None) w (lookup_ids p w it L)) as W. rewrite work_set_chan in W.
    simpl in W. rewrite NT in W. simpl in W. unfold measure. simpl (st_phase _). lia.
  - (* abandon *)
    unfold do_abandon in H. destruct (st_phase s) eqn:PH; try discriminate.
    destruct (live p s w) eqn:LV; [|discriminate]. inversion H; subst s'.
    destruct (live_inv p s w LV) as [it [L [_ [_ [_ [_ NA]]]]]].
    pose proof (work_set_abandoned s w (lookup_ids p w it L)) as W. rewrite NA in W. simpl in W.
    unfold measure. simpl (st_phase _). lia.
  - (* idle enter *)
    unfold do_idle_enter in H. destruct (st_phase s) eqn:PH; try discriminate.
    destruct (existsb _ _); [|discriminate]. inversion H; subst s'.
    unfold measure. rewrite work_set_phase. simpl (st_phase _). rewrite PH. simpl. lia.
  - (* flush *)
    unfold do_flush in H.
    assert (PHH : st_phase s = PTop \/ st_phase s = PFlush) by (destruct (st_phase s); try discriminate; auto).
    assert (H' : (if list_eqb its (map fst (entries_of p k (st_pend s))) && negb (is_nil its)
                  then let rs := p_bfun p k its in
                       if Nat.ltb (length its) (length rs) then Some (set_phase s PPanic)
                       else match deliver_all (st_chan s) (map snd (entries_of p k (st_pend s))) rs with
                            | Some ch' => Some (set_phase (set_pend (set_chans s ch') (rest_of p k (st_pend s))) PFlush)
                            | None => None
                            end
                  else None) = Some s') by (destruct PHH as [E|E]; rewrite E in H; exact H).
    clear H. destruct (list_eqb its _ && negb (is_nil its)) eqn:GD; [|discriminate].
    apply andb_true_iff in GD as [E1 E2]. apply list_eqb_eq in E1. apply negb_true_iff in E2.
    cbv zeta in H'. rewrite (proj2 (Nat.ltb_ge _ _)) in H' by (rewrite BF; lia).
    destruct (deliver_all _ _ _) as [ch'|]; [|discriminate]. inversion H'; subst s'; clear H'.
    assert (LEN : length (rest_of p k (st_pend s)) < length (st_pend s)).
    { pose proof (filter_length_split (fun e : nat * nat => key_is p k (fst e)) (st_pend s)) as FL.
      cbv beta in FL.
      assert (NZ : length (entries_of p k (st_pend s)) <> 0).
      { intro Z. apply length_zero_iff_nil in Z. rewrite Z in E1. simpl in E1. subst its. discriminate. }
      unfold entries_of in NZ. unfold rest_of. lia. }
    pose proof (work_set_pend (set_chans s ch') (rest_of p k (st_pend s))) as W. rewrite work_set_chans in W.
    simpl in W. unfold measure. rewrite work_set_phase. simpl (st_phase _). simpl (prank PFlush).
    destruct PHH as [E|E]; rewrite E; simpl; lia.
  - (* flush done *)
    unfold do_flush_done in H. destruct (st_phase s) eqn:PH; try discriminate.
    destruct (is_nil (st_pend s)); [|discriminate]. inversion H; subst s'.
    unfold measure. rewrite work_set_phase. simpl (st_phase _). rewrite PH. simpl. lia.
  - (* finish *)
    unfold do_finish in H. destruct (st_gor s w) eqn:G; try discriminate.
    destruct (lookup p w) as [it|] eqn:L; [|discriminate]. inversion H; subst s'.
    pose proof (work_set_gor s w (GFinished (it_res it)) (lookup_ids p w it L)) as W. rewrite G in W. simpl in W.
    unfold measure. simpl (st_phase _). lia.
  - (* read *)
    unfold do_read in H. destruct (st_gor s c) as [| |j vals| | | |] eqn:G; try discriminate.
    destruct (lookup p c) as [it|] eqn:L; [|discriminate].
    destruct (it_kind it) as [| | |inn] eqn:K; try discriminate.
    destruct (nth_error inn j) as [q|] eqn:NQ; [|discriminate].
    destruct (st_chan s q) as [r|] eqn:C; [|discriminate].
    destruct (wf_chain p WF c it inn L K) as [_ WC].
    destruct (WC q (nth_error_In _ _ NQ)) as [QC [iq [Lq _]]].
    assert (NT : st_taken s q = false) by (apply (c_chan_taken p s IV); congruence).
    pose proof (lookup_ids p c it L) as INC. pose proof (lookup_ids p q iq Lq) as INQ.
    pose proof (work_set_taken (set_chan s q None) q INQ) as W1. rewrite work_set_chan in W1.
    simpl in W1. rewrite NT in W1. simpl in W1.
    assert (GEN : forall g', grank g' <= 3 ->
              measure (set_gor (set_taken (set_chan s q None) q) c g') < measure s).
    { intros g' LE. pose proof (work_set_gor (set_taken (set_chan s q None) q) c g' INC) as W2.
      simpl in W2. rewrite G in W2. simpl in W2. unfold measure. simpl (st_phase _). lia. }
    destruct r as [v|e].
    + destruct (Nat.eqb (S j) (length inn)); inversion H; subst s'; apply GEN; simpl; lia.
    + inversion H; subst s'; apply GEN; simpl; lia.
  - (* arrive *)
    unfold do_arrive in H. destruct (st_gor s w) eqn:G; try discriminate. inversion H; subst s'.
    assert (IN : In w (ids p)) by (apply (gor_in_ids s w IV); congruence).
    pose proof (work_set_gor s w (GParked r) IN) as W. rewrite G in W. simpl in W.
    unfold measure. simpl (st_phase _). lia.
  - (* recv *)
    unfold do_recv in H. destruct (st_gor s w) eqn:G; try discriminate.
    destruct (st_chan s w) eqn:C; [discriminate|]. cbv zeta in H.
    assert (IN : In w (ids p)) by (apply (gor_in_ids s w IV); congruence).
    pose proof (work_set_gor (set_chan s w (Some r)) w GDone IN) as W. rewrite work_set_chan in W.
    simpl in W. rewrite G in W. simpl in W.
    destruct (st_phase s) eqn:PH; try discriminate.
    + destruct (is_nil (st_pend s)); [|discriminate].
      destruct (st_chained s w); [destruct (v_loop fx)|]; inversion H; subst s'.
      * unfold measure. rewrite work_set_chained. simpl (st_phase _). rewrite PH. lia.
      * unfold measure. rewrite work_set_phase, work_set_chained. simpl (st_phase _). rewrite PH. simpl. lia.
      * unfold measure. rewrite work_set_phase. simpl (st_phase _). rewrite PH. simpl. lia.
    + inversion H; subst s'. unfold measure. simpl (st_phase _). rewrite PH. lia.
  - (* idle exit *)
    unfold do_idle_exit in H. destruct (st_phase s) eqn:PH; try discriminate.
    destruct (forallb _ _); [|discriminate]. inversion H; subst s'.
    unfold measure. rewrite work_set_phase. simpl (st_phase _). rewrite PH. simpl. lia.
  - (* end *)
    unfold do_end in H. destruct (st_phase s) eqn:PH; try discriminate.
    destruct (forallb _ _); [|discriminate]. inversion H; subst s'.
    unfold measure. rewrite work_set_phase. simpl (st_phase _). rewrite PH. simpl. lia.
  - (* exit *)
    unfold do_exit in H. destruct (st_phase s) eqn:PH; try discriminate. destruct (v_fix fx); [|discriminate].
    assert (A : 1 <= grank (st_gor s w) /\ st_gor s w <> GNone /\ s' = set_gor s w GExited).
    { destruct (st_gor s w); try discriminate; inversion H; simpl; repeat split; auto; try lia; congruence. }
    destruct A as [A1 [A2 ->]].
    pose proof (work_set_gor s w GExited (gor_in_ids s w IV A2)) as W. simpl in W.
    unfold measure. simpl (st_phase _). lia.
  - (* cancel *)
    unfold do_cancel in H. destruct (st_cancelled s) eqn:C; [discriminate|]. inversion H; subst s'.
    unfold measure, work. simpl. rewrite C. simpl. lia.
Qed.

Lemma measure_init : measure init = 36 * length (p_items p) + 5.
Proof.
  unfold measure, work. simpl. rewrite !sumf_const. unfold ids. rewrite seq_length. lia.
Qed.

Lemma run_measure tr : forall s m s',
  Inv p s -> Sim p s m -> run fx p s tr = Some s' -> length tr + measure s' <= measure s.
Proof.
  induction tr as [|l tr IH]; intros s m s' IV SM H; simpl in *.
  - inversion H; subst. lia.
  - destruct (step fx p s l) as [s1|] eqn:E; [|discriminate].
    destruct (step_preserves p WF BF fx s m l s1 IV SM E) as [m1 [_ [IV1 SM1]]].
    pose proof (step_decreases s l s1 IV E). specialize (IH s1 m1 s' IV1 SM1 H). lia.
Qed.

(** no interleaving is longer than 36 n + 5 steps (n work items): no livelock, no infinite run *)
Theorem terminates tr s :
  run fx p init tr = Some s -> length tr <= 36 * length (p_items p) + 5.
Proof.
  intro H. pose proof (run_measure tr init mon_init s (inv_init p) (sim_init p) H).
  rewrite measure_init in H0. lia.
Qed.

(** from every reachable state the request returns, by forced steps alone *)
Theorem completes : forall n s m, measure s <= n -> Inv p s -> Sim p s m ->
  exists tr s', Forall (fun l => forced l = true) tr /\ run fx p s tr = Some s' /\ st_phase s' = PEnded.
Proof.
  induction n as [|n IH]; intros s m LE IV SM.
  - destruct (phase_eq_dec_ended s) as [E|NE].
    + exists [], s. repeat split; auto.
    + destruct (deadlock_free s IV NE) as [l [s1 [_ E]]]. pose proof (step_decreases s l s1 IV E). lia.
  - destruct (phase_eq_dec_ended s) as [E|NE].
    + exists [], s. repeat split; auto.
    + destruct (deadlock_free s IV NE) as [l [s1 [F E]]].
      destruct (step_preserves p WF BF fx s m l s1 IV SM E) as [m1 [_ [IV1 SM1]]].
      pose proof (step_decreases s l s1 IV E) as D.
      destruct (IH s1 m1) as [tr [s' [FA [R PE]]]]; auto; [lia|].
      exists (l :: tr), s'. repeat split; auto. simpl. now rewrite E.
Qed.

End Fx.

(** ** After the request returned: nothing stays blocked (repaired code, [v_fix fx = true]) *)

Section Fixed.
Variable fx : variant.
Hypothesis FIX : v_fix fx = true.

Definition own_label (w : nat) (l : label) : Prop := l = LFinish w \/ l = LArrive w \/ l = LExit w.

(** every goroutine that still exists after the return can take a step of its own, whatever the
    others do: f() returns, or the executionDone case of its select fires *)
Theorem no_leak s w :
  Inv p s -> st_phase s = PEnded -> active (st_gor s w) ->
  exists l s', own_label w l /\ step fx p s l = Some s' /\ st_phase s' = PEnded.
Proof.
  intros IV PH AC. destruct (st_gor s w) as [| |j vals|r|r| |] eqn:G; simpl in AC; try tauto.
  - destruct (c_comp_kind p s IV w G) as [it [L K]].
    exists (LFinish w). eexists. split; [unfold own_label; auto|]. simpl. unfold do_finish. rewrite G, L. split; eauto.
  - exists (LExit w). eexists. split; [unfold own_label; auto|]. simpl. unfold do_exit. rewrite PH, FIX, G. split; eauto.
  - exists (LExit w). eexists. split; [unfold own_label; auto|]. simpl. unfold do_exit. rewrite PH, FIX, G. split; eauto.
  - exists (LExit w). eexists. split; [unfold own_label; auto|]. simpl. unfold do_exit. rewrite PH, FIX, G. split; eauto.
Qed.

(** hence a state in which nothing can move any more has no goroutine left *)
Corollary quiescent_clean s :
  Inv p s -> st_phase s = PEnded -> (forall l, step fx p s l = None) -> forall w, ~ active (st_gor s w).
Proof.
  intros IV PH Q w AC. destruct (no_leak s w IV PH AC) as [l [s' [_ [E _]]]]. rewrite Q in E. discriminate.
Qed.

(** and such a state is reached: all remaining goroutines end *)
Theorem drains : forall n s m, measure s <= n -> Inv p s -> Sim p s m -> st_phase s = PEnded ->
  exists tr s', run fx p s tr = Some s' /\ st_phase s' = PEnded /\ forall w, ~ active (st_gor s' w).
Proof.
  induction n as [|n IH]; intros s m LE IV SM PH.
  - exists [], s. repeat split; auto. intros w AC.
    destruct (no_leak s w IV PH AC) as [l [s1 [_ [E _]]]]. pose proof (step_decreases fx s l s1 IV E). lia.
  - destruct (existsb (fun w => match st_gor s w with GComputing | GWaiting _ _ | GFinished _ | GParked _ => true | _ => false end) (ids p)) eqn:EX.
    + apply existsb_exists in EX as [w [_ EW]].
      assert (AC : active (st_gor s w)) by (destruct (st_gor s w); try discriminate; exact I).
      destruct (no_leak s w IV PH AC) as [l [s1 [_ [E PH1]]]].
      destruct (step_preserves p WF BF fx s m l s1 IV SM E) as [m1 [_ [IV1 SM1]]].
      pose proof (step_decreases fx s l s1 IV E) as D.
      destruct (IH s1 m1) as [tr [s' [R [PE NA]]]]; auto; [lia|].
      exists (l :: tr), s'. repeat split; auto. simpl. now rewrite E.
    + exists [], s. repeat split; auto. intros w AC.
      pose proof (existsb_false_forallb _ _ EX) as F. rewrite forallb_forall in F.
      assert (IN : In w (ids p)) by (apply (gor_in_ids s w IV); destruct (st_gor s w); simpl in AC; try tauto; congruence).
      specialize (F w IN). destruct (st_gor s w); simpl in AC; try tauto; discriminate.
Qed.

End Fixed.

End Live.

(** ** The pinned code ([pinned]) leaks: the defect repaired by the [fix:] commit *)

Definition leak_prog : prog :=
  mkProg [mkItem KGo None false (ROk 7)] (fun _ l => map (fun _ => ROk 0) l) (fun _ _ => ROk 0).

Definition leak_trace : list label := [LCreate 0; LAbandon 0; LEnd; LFinish 0; LArrive 0; LCancel].

Lemma leak_prog_wf : wf_items leak_prog = true.
Proof. reflexivity. Qed.

Lemma leak_prog_bf : bfun_ok leak_prog.
Proof. intros k l. simpl. apply map_length. Qed.

(** {slow bad}: the Go resolver's promise is abandoned, the request returns, the goroutine reaches
    its send and stays there: no label is enabled any more, for ever *)
Theorem leak_before_fix :
  exists s, run pinned leak_prog init leak_trace = Some s /\ st_phase s = PEnded /\
            st_gor s 0 = GParked (ROk 7) /\ forall l, step pinned leak_prog s l = None.
Proof.
  eexists. split; [reflexivity|]. split; [reflexivity|]. split; [reflexivity|].
  intro l. destruct l as [w|w|w| |k its| |w|c|w|w| | |w| ]; try reflexivity.
  - destruct w as [|w]; reflexivity.
  - destruct c as [|c]; reflexivity.
  - destruct w as [|w]; reflexivity.
  - destruct w as [|w]; reflexivity.
Qed.

(** ** The same statements for every state reached by any interleaving from the initial state *)

Section Reach.
Variable p : prog.
Hypothesis WF : wf_items p = true.
Hypothesis BF : bfun_ok p.

Lemma reach fx tr s : run fx p init tr = Some s -> exists m, Inv p s /\ Sim p s m.
Proof. intro R. destruct (run_refines p WF BF fx tr s R) as [m [_ [IV SM]]]. eauto. Qed.

Theorem deadlock_free_run fx tr s :
  run fx p init tr = Some s -> st_phase s <> PEnded ->
  exists l s', forced l = true /\ step fx p s l = Some s'.
Proof. intros R NE. destruct (reach fx tr s R) as [m [IV _]]. now apply (deadlock_free p WF BF). Qed.

Theorem completes_run fx tr s :
  run fx p init tr = Some s ->
  exists tr' s', Forall (fun l => forced l = true) tr' /\ run fx p init (tr ++ tr') = Some s' /\ st_phase s' = PEnded.
Proof.
  intros R. destruct (reach fx tr s R) as [m [IV SM]].
  destruct (completes p WF BF fx (measure p s) s m (le_n _) IV SM) as [tr' [s' [F [R' PE]]]].
  exists tr', s'. repeat split; auto. apply run_app. eauto.
Qed.

Theorem no_leak_run fx tr s w :
  v_fix fx = true ->
  run fx p init tr = Some s -> st_phase s = PEnded -> active (st_gor s w) ->
  exists l s', own_label w l /\ step fx p s l = Some s' /\ st_phase s' = PEnded.
Proof. intros FIX R PE AC. destruct (reach fx tr s R) as [m [IV _]]. now apply (no_leak p fx FIX). Qed.

Theorem drains_run fx tr s :
  v_fix fx = true ->
  run fx p init tr = Some s -> st_phase s = PEnded ->
  exists tr' s', run fx p init (tr ++ tr') = Some s' /\ st_phase s' = PEnded /\ forall w, ~ active (st_gor s' w).
Proof.
  intros FIX R PE. destruct (reach fx tr s R) as [m [IV SM]].
  destruct (drains p WF BF fx FIX (measure p s) s m (le_n _) IV SM PE) as [tr' [s' [R' [PE' NA]]]].
  exists tr', s'. repeat split; auto. apply run_app. eauto.
Qed.

End Reach.

Theorem leak_refuted_before_fix :
  exists p tr s w r, wf_items p = true /\ bfun_ok p /\ run pinned p init tr = Some s /\ st_phase s = PEnded /\
                     st_gor s w = GParked r /\ forall l, step pinned p s l = None.
Proof.
  destruct leak_before_fix as [s [R [PE [G Q]]]].
  exists leak_prog, leak_trace, s, 0, (ROk 7). repeat split; auto using leak_prog_wf, leak_prog_bf.
Qed.

(** ** A hand-over that also selects on the request context (seeded change C15-2): after [LCancel] a
    goroutine that has its result may end without handing it over, while the executor still
    waits for the promise — the idle handler then blocks in its receive for ever *)

Definition step_ctxdrop (fx : variant) (p : prog) (s : state) (l : label) : option state :=
  match l with
  | LExit w =>
      if st_cancelled s then
        match st_gor s w with
        | GFinished _ | GParked _ => Some (set_gor s w GExited)
        | _ => step fx p s l
        end
      else step fx p s l
  | _ => step fx p s l
  end.

Fixpoint run_ctxdrop (fx : variant) (p : prog) (s : state) (tr : list label) : option state :=
  match tr with
  | [] => Some s
  | l :: tr' => match step_ctxdrop fx p s l with Some s' => run_ctxdrop fx p s' tr' | None => None end
  end.

Definition ctxdrop_trace : list label := [LCreate 0; LIdleEnter; LCancel; LFinish 0; LArrive 0; LExit 0].

Theorem completes_refuted_with_ctx_drop :
  exists p tr s, wf_items p = true /\ bfun_ok p /\ run_ctxdrop current p init tr = Some s /\
                 st_phase s = PTop /\ live p s 0 = true /\
                 forall l, forced l = true -> step_ctxdrop current p s l = None.
Proof.
  exists leak_prog, ctxdrop_trace. eexists.
  split; [exact leak_prog_wf|]. split; [exact leak_prog_bf|]. split; [reflexivity|].
  split; [reflexivity|]. split; [reflexivity|].
  intros l F. destruct l as [w|w|w| |k its| |w|c|w|w| | |w| ]; try discriminate; try reflexivity.
  all: try (destruct w as [|w]; reflexivity); try (destruct c as [|c]; reflexivity);
       try (destruct its; reflexivity).
Qed.

(** ** One awaiting chain per promise

    A promise channel carries one result; [wf_items] says (among other things) that no promise is the
    inner promise of two chains or twice of one — what api-fu's callers of chain / join guarantee by
    obtaining a fresh promise from the getter for every chain.  Hence in no reachable state do two
    chain / join goroutines wait for the same promise. *)
Theorem one_reader_per_promise (p : prog) (WF : wf_items p = true) (BF : bfun_ok p) fx tr s c1 c2 j1 j2 v1 v2 q :
  run fx p init tr = Some s ->
  st_gor s c1 = GWaiting j1 v1 -> st_gor s c2 = GWaiting j2 v2 ->
  nth_error (inner_of p c1) j1 = Some q -> nth_error (inner_of p c2) j2 = Some q -> c1 = c2.
Proof.
  intros _ _ _ N1 N2. apply (inner_unique p WF c1 c2 q); eapply nth_error_In; eauto.
Qed.

(** The shape of the seeded change "memoized edge resolver call on the zero-count path": totalCount
    and pageInfo chain onto the SAME getter promise (items 1 and 2 both have inner promise 0; not
    [wf_items]).  One chain takes the result, the other waits for ever: the handler is blocked in
    its receive, promise 2 is awaited, no forced label is enabled. *)
Definition share_prog : prog :=
  mkProg [mkItem KGo None true (ROk 0); mkItem (KChain [0]) None false (ROk 1); mkItem (KChain [0]) None false (ROk 2)]
         (fun _ l => map (fun _ => ROk 0) l) (fun c _ => ROk (Z.of_nat c)).

Definition share_trace : list label :=
  [LCreate 0; LCreate 1; LCreate 2; LIdleEnter; LFinish 0; LArrive 0; LRecv 0; LRead 1; LArrive 1; LRecv 1;
   LIdleExit; LConsume 1; LIdleEnter].

Theorem deadlock_when_promise_has_two_chains :
  exists p tr s, wf_items p = false /\ nodupb (all_inner p) = false /\ bfun_ok p /\
                 run current p init tr = Some s /\ st_phase s = PTop /\ live p s 2 = true /\
                 forall l, forced l = true -> step current p s l = None.
Proof.
  exists share_prog, share_trace. eexists.
  split; [reflexivity|]. split; [reflexivity|]. split; [intros k l; simpl; apply map_length|].
  split; [reflexivity|]. split; [reflexivity|]. split; [reflexivity|].
  intros l F. destruct l as [w|w|w| |k its| |w|c|w|w| | |w| ]; try discriminate; try reflexivity.
  all: try (destruct w as [|[|[|w]]]; reflexivity); try (destruct c as [|[|[|c]]]; reflexivity);
       try (destruct its; reflexivity).
Qed.
