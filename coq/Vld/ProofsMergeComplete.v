(** * Vld/ProofsMergeComplete.v — 5.3.2 in the Spec's own encoding, completeness: when
    FieldsInSetCanMerge holds of [collected parent ss] for every selection set of the document (and
    the other sections the argument uses hold), the validator's overlapping-fields pass reports
    nothing.

    The validator pairs the fields it filed under one key; every one of them stands for a field of the
    Spec's [collected] list (ProofsMergeBridge, ProofsSpecCollectP).  Two entries of one key stand
    for two fields with one response name: either two different members of the list, which the Spec
    compared in one order or the other (and its comparisons are symmetric, ProofsSpecMergeTheory),
    or the same member — the validator files a field twice when it is reached through both of two
    merged fields' selection sets — and then what is needed is that a field merges with itself:
    its sub-selections are the [collected] list of a selection set of the document (ProofsSpecLoc),
    of which 5.3.2 speaks directly. *)
From Coq Require Import List NArith Arith Bool Lia.
From ApiFu Require Import Base.Sexp Vld.Ast Vld.AstInd Vld.Inspect Vld.InspectProofs Vld.TypeInfoModel Vld.TypeInfoPure Vld.Enumerate Vld.SpecEnum
     Vld.ValidatorModel Vld.ValidSpec Vld.Hyps Vld.ProofsCommon Vld.ProofsCycles Vld.ProofsArguments Vld.ProofsOrder Vld.ProofsTotal Vld.ProofsDepth
     Vld.ProofsSpecReach Vld.ProofsVarsSpec Vld.ProofsCollect Vld.ProofsCollectEntries Vld.ProofsSpecCollect Vld.ProofsSubscription
     Vld.MemoEquiv Vld.ProofsMemo Vld.ProofsSecondaryMerge Vld.ProofsMergeSound Vld.ProofsMergeNames Vld.ProofsMergeLocal Vld.ProofsSpecSym Vld.ProofsMergeSpec
     Vld.ProofsSpecMergeTheory Vld.ProofsSpecCollectP Vld.ProofsSpecLoc Vld.ProofsMergeBridge.
Import ListNotations.

Lemma pairs_first_all {X} (f : X -> X -> mres) l : (forall x y, In x l -> In y l -> f x y = MOk) -> pairs_first f l = MOk.
Proof.
  induction l as [|x r IH]; intros H; [reflexivity |]. cbn [pairs_first].
  rewrite (proj2 (first_err_ok (f x) r)) by (intros y Hy; apply H; [left; reflexivity | right; exact Hy]).
  apply IH. intros a b Ha Hb. apply H; right; assumption.
Qed.

Lemma can_merge_unfold pi S A d m :
  can_merge repaired pi S A d m =
  first_err (fun g => pairs_first (pair_check repaired pi S A (match d with O => fun _ => MOk | Datatypes.S d' => can_merge repaired pi S A d' end) d) (snd g)) (pi _ m).
Proof. destruct d; reflexivity. Qed.

Section Complete.
  Variable pi : order.
  Hypothesis Hpi : order_ok pi.
  Variable S : schema.
  Variable F : features.
  Variable D : document.
  Notation qo := (q_unwrap_obj repaired).
  Notation A := (pti_doc qo S F D).
  Hypothesis names_unique : NoDup (frag_names D).
  Hypothesis types_wf : forall top n fd, field_of_scope S F top n = Some fd -> wf_sty (f_type fd) = true.
  Hypothesis spreads_defined : forall a sels p n np dirs e,
      In (SelSet a sels p) (all_subs A) -> In (SSpread n np dirs e) sels -> frag_last A n <> None.
  Hypothesis sets_fine : forall a sels p fa al n np args dirs sub,
      In (SelSet a sels p) (all_subs A) -> In (SField fa al n np args dirs sub) sels ->
      a <> None /\ (name_eqb n n_typename = true \/ fa <> None).
  Hypothesis names_unique_A : NoDup (frag_names A).
  Hypothesis acyclic_A : forall n, In n (frag_names A) -> ~ exists x, reach A n x /\ edge A x n.
  Hypothesis Hstr : composite_name S n_String = false.
  Hypothesis H533 : valid_5_3_3 S F D = true.
  Hypothesis H5522 : valid_5_5_2_2 D = true.
  Hypothesis H532 : valid_5_3_2 S F D = true.
  Hypothesis Hfk : forall o, In o (all_fields S F D) -> fo_def S F o <> None.
  Hypothesis H542 : valid_5_4_2 S F D = true.

  Notation Loc := (Loc S F D).
  Notation srs := (same_response_shape S F D).
  Notation fcm := (fields_can_merge S F D).
  Notation sub := (cf_sub S F D).

  Lemma loc_def c : Loc c -> exists d, cf_def S F c = Some d.
  Proof.
    intros HL. pose proof (Hfk _ (loc_fields S F D c HL)) as H.
    change (fo_def S F {| fo_parent := snd c; fo_field := fst c |}) with (cf_def S F c) in H.
    destruct (cf_def S F c) as [d|]; [exists d; reflexivity | congruence].
  Qed.
  Lemma loc_args c : Loc c -> NoDup (map a_name (cf_args c)).
  Proof.
    intros HL. pose proof (loc_fields S F D c HL) as Hof. unfold valid_5_4_2 in H542. rewrite forallb_forall in H542. apply nodupb_NoDup.
    apply (H542 (cf_args c, match fo_def S F {| fo_parent := snd c; fo_field := fst c |} with Some dd => Some (f_args dd) | None => None end)).
    unfold all_argument_lists. apply in_or_app. left.
    apply (in_map (fun o => (match fo_field o with SField _ _ _ _ a1 _ _ => a1 | _ => [] end, match fo_def S F o with Some d1 => Some (f_args d1) | None => None end)) _ _ Hof).
  Qed.
  Lemma loc_isfield c : Loc c -> is_fieldb (fst c) = true.
  Proof. intros [o [_ [_ [_ H]]]]. exact H. Qed.

  (** an entry of the validator's map that stands for a field of the Spec's list *)
  Definition Good (n : nat) (c : cfield) (x : fp) : Prop := Loc c /\ Rep S F c x /\ Hle A n (fst3 x) /\ P A x.
  Definition Covers (n : nat) (L : list cfield) (m : fmap) : Prop :=
    forall k l x, In (k, l) m -> In x l -> exists g, In g L /\ Good n g x /\ k = resp_name (fst g).

  Lemma covers_fmP n L m : Covers n L m -> fmP A m.
  Proof. intros H k l x Hk Hx. destruct (H k l x Hk Hx) as [g [_ [[_ [_ [_ HP]]] _]]]. exact HP. Qed.
  Lemma covers_mono n L L' m : incl L L' -> Covers n L m -> Covers n L' m.
  Proof. intros Hi H k l x Hk Hx. destruct (H k l x Hk Hx) as [g [Hg Hr]]. exists g. split; [apply Hi, Hg | exact Hr]. Qed.
  Lemma covers_nil n L : Covers n L [].
  Proof. intros k l x []. Qed.

  Lemma add_ok m sb : (forall ss, sb = Some ss -> In ss (all_subs A)) -> fmP A m -> exists m' v, add_selections repaired A m sb = COk m' v /\ fmP A m'.
  Proof.
    intros Hsb Hm. pose proof (add_selections_fine A spreads_defined sets_fine m sb Hsb Hm) as H1. pose proof (add_selections_total repaired A m sb Hsb) as H2.
    destruct (add_selections repaired A m sb) as [m' v | e |]; [exists m', v; split; [reflexivity | exact H1] | destruct H1 | destruct H2].
  Qed.

  (** the entries addFieldSelections files for the selection set of a field stand for the field's [cf_sub] *)
  Lemma sub_cover n c u m m' v L L' :
    Good (Datatypes.S n) c u -> add_selections repaired A m (sel_sub (fst3 u)) = COk m' v ->
    incl L L' -> incl (sub c) L' -> Covers n L m -> Covers n L' m'.
  Proof.
    intros [HL [[Hr Hp] [HH HP]]] Hadd Hi1 Hi2 Hc.
    pose proof (loc_isfield c HL) as Hfld. destruct (loc_def c HL) as [d Ed].
    destruct c as [s par]. cbn [fst snd] in *. destruct s as [fa al fname np args dirs sb | |]; try discriminate Hfld.
    destruct sb as [ss|].
    - destruct (loc_sub_decl S F D Hstr H533 _ fa al fname np args dirs ss d HL eq_refl Ed) as [pn [Epn Hdecl]]. cbn [snd] in Epn. rewrite Epn in *. clear Epn.
      assert (field_scope S F (Some pn) fname = Some (result_type d)) as Hscope by (unfold field_scope; rewrite <- declared_field_eq, Hdecl; reflexivity).
      rewrite Hr, pti_sel_field_eq in Hadd, HH. cbn [sel_sub] in Hadd. rewrite Hscope in Hadd, HH.
      set (t := pti_ss qo S F (Some (result_type d)) ss) in *.
      assert (In t (all_subs A)) as Ht.
      { destruct HP as [_ [_ Hok]]. apply Hok. rewrite Hr, pti_sel_field_eq. cbn [sel_sub]. rewrite Hscope. reflexivity. }
      pose proof (add_selections_fine A spreads_defined sets_fine m (Some t) (fun ss0 E => ltac:(inversion E; subst; exact Ht)) (covers_fmP n L m Hc)) as Hfine.
      rewrite Hadd in Hfine.
      intros k l x Hk Hx. unfold add_selections in Hadd.
      destruct (collect_InCw A _ _ _ _ _ _ Hadd k l x Hk Hx) as [[l0 [Hk0 Hx0]] | [Hkey [w [Hw [Ha Hpos]]]]].
      + destruct (Hc k l0 x Hk0 Hx0) as [g [Hg Hrest]]. exists g. split; [apply Hi1, Hg | exact Hrest].
      + destruct (incw_incsp S F D names_unique t w _ Hw (Some (result_type d)) ss eq_refl) as [g [Hg [Hf Hann]]].
        assert (In g (sub (SField fa al fname np args dirs (Some ss), Some pn))) as Hgs.
        { unfold cf_sub. cbn [fst]. rewrite Ed. apply (collected_complete_p S F D _ _ g Hg). }
        exists g. split; [apply Hi2, Hgs |]. split.
        * split; [apply (loc_sub S F D Hstr H533 _ g HL Hgs) |]. split; [split; [exact Hf | rewrite Ha; exact Hann] |].
          split; [| apply (Hfine k l x Hk Hx)]. cbn [Hle] in HH. apply (HH t _ eq_refl). apply (incw_inc A t w _ Hw).
        * rewrite Hkey, Hf, response_name_pti. symmetry. apply resp_name_field. apply (loc_isfield g). apply (loc_sub S F D Hstr H533 _ g HL Hgs).
    - rewrite Hr, pti_sel_field_eq in Hadd. cbn [sel_sub add_selections] in Hadd. inversion Hadd; subst m' v. apply (covers_mono n L L' m Hi1 Hc).
  Qed.

  Lemma good_sub_ok n c u : Good n c u -> forall ss, sel_sub (fst3 u) = Some ss -> In ss (all_subs A).
  Proof. intros [_ [_ [_ [_ [_ Hok]]]]]. exact Hok. Qed.

  (** the merged map of two entries *)
  Lemma merged_cover n c c' u v :
    Good (Datatypes.S n) c u -> Good (Datatypes.S n) c' v ->
    exists m1 v1 m2 v2, add_selections repaired A [] (sel_sub (fst3 u)) = COk m1 v1 /\ add_selections repaired A m1 (sel_sub (fst3 v)) = COk m2 v2 /\
                        Covers n (sub c ++ sub c') m2.
  Proof.
    intros Hu Hv. destruct (add_ok [] (sel_sub (fst3 u)) (good_sub_ok _ c u Hu) (fmP_nil A)) as [m1 [v1 [E1 F1]]].
    destruct (add_ok m1 (sel_sub (fst3 v)) (good_sub_ok _ c' v Hv) F1) as [m2 [v2 [E2 F2]]]. exists m1, v1, m2, v2. split; [exact E1 |]. split; [exact E2 |].
    assert (Covers n (sub c) m1) as C1 by (apply (sub_cover n c u [] m1 v1 [] (sub c) Hu E1 (incl_nil_l _) (incl_refl _) (covers_nil n []))).
    apply (sub_cover n c' v m1 m2 v2 (sub c) (sub c ++ sub c') Hv E2 (incl_appl _ (incl_refl _)) (incl_appr _ (incl_refl _)) C1).
  Qed.

  (** ** SameResponseShape *)
  Definition SRSr (c c' : cfield) : Prop := c = c' \/ exists f, srs f c c' = true.
  Definition MRGr (c c' : cfield) : Prop := c = c' \/ exists f, mrg S F D f c c' = true.

  Lemma self_pairs c g g' : Loc c -> In g (sub c ++ sub c) -> In g' (sub c ++ sub c) -> same_resp g g' = true -> MRGr g g'.
  Proof.
    intros HL Hg Hg' Hsr. assert (In g (sub c)) as Hg1 by (apply in_app_or in Hg; tauto). assert (In g' (sub c)) as Hg2 by (apply in_app_or in Hg'; tauto).
    pose proof (loc_fcm S F D Hstr H533 H5522 H532 c HL) as Hf. unfold nesting_bound in Hf. rewrite fcm_unfold in Hf.
    destruct (all_pairs_In _ _ Hf g g' Hg1 Hg2) as [E | [H | H]]; [left; exact E | right; eexists; exact H | right; eexists; rewrite mrg_sym; exact H].
  Qed.
  Lemma mrgr_srsr g g' : same_resp g g' = true -> MRGr g g' -> SRSr g g'.
  Proof.
    intros Hsr [E | [f H]]; [left; exact E | right]. unfold mrg in H. rewrite Hsr in H. apply andb_true_iff in H as [H _]. eexists; exact H.
  Qed.

  Definition Sc (n : nat) : Prop :=
    forall d c c' u v, n <= d -> Good n c u -> Good n c' v -> SRSr c c' -> same_shape repaired pi S A d (fst3 u) (fst3 v) = MOk.

  Lemma key_same_resp g g' k : k = resp_name (fst g) -> k = resp_name (fst g') -> same_resp g g' = true.
  Proof. intros H1 H2. unfold same_resp. rewrite <- H1, <- H2. apply name_eqb_refl. Qed.

  Lemma shape_step n : Sc n -> Sc (Datatypes.S n).
  Proof.
    intros IH d c c' u v Hd Hu Hv Hrel. destruct d as [|d']; [lia |]. assert (n <= d') as Hd' by lia.
    pose proof Hu as [HLc [[Hru Hpu] [HHu HPu]]]. pose proof Hv as [HLc' [[Hrv Hpv] [HHv HPv]]].
    destruct (loc_def c HLc) as [dx Edx]. destruct (loc_def c' HLc') as [dy Edy].
    pose proof (cf_def_shape S F c dx (loc_isfield c HLc) Edx) as Stx. pose proof (cf_def_shape S F c' dy (loc_isfield c' HLc') Edy) as Sty.
    rewrite <- Hru in Stx. rewrite <- Hrv in Sty.
    cbn [same_shape]. rewrite Stx, Sty.
    assert (exists a b, strip_shape (f_type dx) (f_type dy) = Some (a, b) /\
                        (leaf_sty S a || leaf_sty S b = true -> sty_eqb a b = true) /\
                        (leaf_sty S a || leaf_sty S b = false ->
                         forall g g', In g (sub c ++ sub c') -> In g' (sub c ++ sub c') -> same_resp g g' = true -> SRSr g g')) as [a [b [Est [Hleaf Hsub]]]].
    { destruct Hrel as [<- | [f Hf]].
      - assert (dy = dx) as -> by congruence. destruct (strip_shape_refl (f_type dx)) as [a Ea]. exists a, a. split; [exact Ea |]. split; [intros _; apply sty_eqb_refl |].
        intros _ g g' Hg Hg' Hsr. apply (mrgr_srsr g g' Hsr). apply (self_pairs c g g' HLc Hg Hg' Hsr).
      - destruct f as [|f']; [discriminate Hf |]. rewrite srs_unfold, Edx, Edy in Hf.
        destruct (strip_shape (f_type dx) (f_type dy)) as [[a b]|]; [| discriminate Hf]. exists a, b. split; [reflexivity |].
        destruct (leaf_sty S a || leaf_sty S b); [split; [intros _; exact Hf | discriminate] |]. split; [discriminate |].
        intros _ g g' Hg Hg' Hsr. destruct (all_pairs_In _ _ Hf g g' Hg Hg') as [E | [H | H]]; [left; exact E | |]; right; exists f'; unfold shp in H.
        + rewrite Hsr in H. exact H.
        + rewrite same_resp_sym, Hsr in H. rewrite srs_sym. exact H. }
    rewrite (proj2 (shape_loop_strip _ _ a b (cf_def_wf S F types_wf c dx Edx) (cf_def_wf S F types_wf c' dy Edy)) Est).
    change (is_leaf_sty S a || is_leaf_sty S b) with (leaf_sty S a || leaf_sty S b).
    destruct (leaf_sty S a || leaf_sty S b) eqn:Elf; [rewrite (Hleaf eq_refl); reflexivity |].
    destruct (merged_cover n c c' u v Hu Hv) as [m1 [v1 [m2 [v2 [E1 [E2 Hcov]]]]]]. rewrite E1, E2.
    apply (first_err_ok_order pi Hpi). intros [k l] Hkl. cbn [snd]. apply pairs_first_all. intros x y Hx Hy.
    destruct (Hcov k l x Hkl Hx) as [g [Hg [Hgx Hkx]]]. destruct (Hcov k l y Hkl Hy) as [g' [Hg' [Hgy Hky]]].
    apply (IH d' g g' x y Hd' Hgx Hgy). apply (Hsub eq_refl g g' Hg Hg' (key_same_resp g g' k Hkx Hky)).
  Qed.

  Lemma shape_all n : Sc n.
  Proof. induction n as [|n IH]; [| apply shape_step; exact IH]. intros d c c' u v _ [_ [_ [H _]]]. destruct H. Qed.

  (** ** FieldsInSetCanMerge *)
  Definition Mc (n : nat) : Prop :=
    forall d L m, n <= d -> Covers n L m -> (forall g g', In g L -> In g' L -> same_resp g g' = true -> MRGr g g') ->
                  can_merge repaired pi S A d m = MOk.

  Lemma good_args n c x : Good n c x -> NoDup (map a_name (sel_args (fst3 x))).
  Proof.
    intros [HL [Hr _]]. destruct (rep_args S F c x Hr (loc_isfield c HL)) as [defs [dn E]]. rewrite E, ti_args_names. apply (loc_args c HL).
  Qed.

  Lemma merge_step n : Mc n -> Mc (Datatypes.S n).
  Proof.
    intros IH d L m Hd Hcov Hpairs. destruct d as [|d']; [lia |]. assert (n <= d') as Hd' by lia.
    rewrite can_merge_unfold. apply (first_err_ok_order pi Hpi). intros [k l] Hkl. cbn [snd]. apply pairs_first_all. intros x y Hx Hy.
    destruct (Hcov k l x Hkl Hx) as [g [Hg [Hgx Hkx]]]. destruct (Hcov k l y Hkl Hy) as [g' [Hg' [Hgy Hky]]].
    pose proof (key_same_resp g g' k Hkx Hky) as Hsr. pose proof (Hpairs g g' Hg Hg' Hsr) as Hm.
    unfold pair_check. rewrite (shape_all (Datatypes.S n) (Datatypes.S d') g g' x y Hd Hgx Hgy (mrgr_srsr g g' Hsr Hm)).
    pose proof Hgx as [HLg [Hrx [HHx HPx]]]. pose proof Hgy as [HLg' [Hry [HHy HPy]]].
    pose proof Hrx as [Hrx1 Hrx2]. pose proof Hry as [Hry1 Hry2].
    destruct (snd (fst x)) as [pa|] eqn:Epa; [| destruct HPx as [Hn _]; congruence].
    destruct (snd (fst y)) as [pb|] eqn:Epb; [| destruct HPy as [Hn _]; congruence].
    change (name_eqb pa pb || negb (is_object_name S pa) || negb (is_object_name S pb)) with (overlap S pa pb).
    destruct (overlap S pa pb) eqn:Eov; [| reflexivity].
    rewrite (rep_name S F g x Hrx (loc_isfield g HLg)), (rep_name S F g' y Hry (loc_isfield g' HLg')).
    destruct (rep_args S F g x Hrx (loc_isfield g HLg)) as [dfx [dnx Eax]]. destruct (rep_args S F g' y Hry (loc_isfield g' HLg')) as [dfy [dny Eay]].
    assert (name_eqb (cf_name g) (cf_name g') = true /\ same_args (cf_args g) (cf_args g') = true /\
            (forall h h', In h (sub g ++ sub g') -> In h' (sub g ++ sub g') -> same_resp h h' = true -> MRGr h h')) as [Hname [Hargs Hrest]].
    { destruct Hm as [<- | [f Hf]].
      - split; [apply name_eqb_refl |]. split; [apply same_args_refl |]. intros h h' Hh Hh' Hs. apply (self_pairs g h h' HLg Hh Hh' Hs).
      - unfold mrg in Hf. rewrite Hsr in Hf. apply andb_true_iff in Hf as [_ Hf]. unfold rest in Hf. rewrite <- Hrx2, <- Hry2 in Hf. rewrite Eov in Hf.
        rewrite !andb_true_iff in Hf. destruct Hf as [[H1 H2] H3]. split; [exact H1 |]. split; [exact H2 |].
        destruct f as [|f']; [discriminate H3 |]. rewrite fcm_unfold in H3.
        intros h h' Hh Hh' Hs. destruct (all_pairs_In _ _ H3 h h' Hh Hh') as [E | [H | H]]; [left; exact E | right; eexists; exact H | right; eexists; rewrite mrg_sym; exact H]. }
    rewrite Hname. cbn [negb].
    assert (args_check repaired (fst3 x) (fst3 y) = MOk) as ->.
    { apply (args_check_same_args _ _ (good_args _ g x Hgx) (good_args _ g' y Hgy)). rewrite Eax, Eay, same_args_annot. exact Hargs. }
    destruct (merged_cover n g g' x y Hgx Hgy) as [m1 [v1 [m2 [v2 [E1 [E2 Hcov2]]]]]]. rewrite E1, E2.
    apply (IH d' (sub g ++ sub g') m2 Hd' Hcov2 Hrest).
  Qed.

  Lemma merge_all n : Mc n.
  Proof.
    induction n as [|n IH]; [| apply merge_step; exact IH]. intros d L m _ Hcov _.
    rewrite can_merge_unfold. apply (first_err_ok_order pi Hpi). intros [k l] Hkl. cbn [snd]. apply pairs_first_all. intros x y Hx _.
    destruct (Hcov k l x Hkl Hx) as [g [_ [[_ [_ [H _]]] _]]]. destruct H.
  Qed.
  (** ** every selection set of the annotated document is one the Spec enumerates *)
  Lemma subs_sets :
    (forall s parent t, In t (subs_sel (pti_sel qo S F parent s)) -> exists o, In o (sets_sel S F parent s) /\ t = pti_ss qo S F (so_parent o) (so_set o)) /\
    (forall ss parent t, In t (subs_ss (pti_ss qo S F parent ss)) -> exists o, In o (sets_ss S F parent ss) /\ t = pti_ss qo S F (so_parent o) (so_set o)).
  Proof.
    apply sel_ss_ind.
    - intros a al n np args dirs sb IH parent t Ht. rewrite (pti_sel_field_eq qo S F parent a al n np args dirs sb) in Ht.
      destruct sb as [ss|]; [| destruct Ht]. cbn [subs_sel] in Ht. cbn [sets_sel]. rewrite sub_scope_field. apply (IH ss eq_refl _ t Ht).
    - intros n np dirs e parent t [].
    - intros cond dirs sb e IH parent t Ht. rewrite (pti_sel_inline_eq qo S F parent cond dirs sb e) in Ht. cbn [subs_sel] in Ht. cbn [sets_sel]. rewrite sub_scope_inline.
      apply (IH _ t Ht).
    - intros a sels p IH parent t Ht. rewrite pti_ss_eq, subs_ss_eq in Ht. cbn [sets_ss]. destruct Ht as [<- | Ht].
      + exists {| so_parent := parent; so_set := SelSet a sels p |}. split; [left; reflexivity |]. cbn [so_parent so_set]. rewrite pti_ss_eq. reflexivity.
      + apply in_flat_map in Ht as [s' [Hs' Ht]]. apply in_map_iff in Hs' as [s [<- Hs]]. rewrite Forall_forall in IH.
        destruct (IH s Hs parent t Ht) as [o [Ho Eo]]. exists o. split; [right; apply in_flat_map; exists s; auto | exact Eo].
  Qed.
  Lemma all_subs_sets t : In t (all_subs A) -> exists o, In o (all_sets S F D) /\ t = pti_ss qo S F (so_parent o) (so_set o).
  Proof.
    unfold all_subs, pti_doc. intros H. apply in_flat_map in H as [d' [Hd' H]]. apply in_map_iff in Hd' as [d [<- Hd]]. rewrite pti_def_sub in H.
    destruct (proj2 subs_sets _ _ t H) as [o [Ho Eo]]. exists o. split; [| exact Eo]. unfold all_sets. apply in_flat_map. exists d. split; [exact Hd |].
    rewrite spec_def_scope_eq. exact Ho.
  Qed.

  Lemma all_sets_self o : In o (all_sets S F D) -> incl (sets_ss S F (so_parent o) (so_set o)) (all_sets S F D).
  Proof.
    intros Ho x Hx. destruct o as [par [a sels p]]. cbn [so_parent so_set sets_ss] in Hx. destruct Hx as [<- | Hx]; [exact Ho |].
    apply in_flat_map in Hx as [s [Hs Hx]]. apply (all_sets_closed S F D _ s Ho Hs x Hx).
  Qed.

  Lemma top_cover o m v :
    In o (all_sets S F D) -> add_selections repaired A [] (Some (pti_ss qo S F (so_parent o) (so_set o))) = COk m v ->
    Covers (max_depth A) (collected S F D (so_parent o) (so_set o)) m.
  Proof.
    intros Ho E. set (t := pti_ss qo S F (so_parent o) (so_set o)) in *.
    assert (In t (all_subs A)) as Ht by (apply (all_sets_pti S F D o Ho)).
    pose proof (add_selections_fine A spreads_defined sets_fine [] (Some t) (fun ss0 E0 => ltac:(inversion E0; subst; exact Ht)) (fmP_nil A)) as Hfine. rewrite E in Hfine.
    intros k l x Hk Hx. unfold add_selections in E.
    destruct (collect_InCw A _ _ _ _ _ _ E k l x Hk Hx) as [[l0 [[] _]] | [Hkey [w [Hw [Ha Hpos]]]]].
    destruct (incw_incsp S F D names_unique t w _ Hw (so_parent o) (so_set o) eq_refl) as [g [Hg [Hf Hann]]].
    assert (Loc g) as HLg by (apply (incsp_loc S F D _ _ g Hg (all_sets_self o Ho))).
    exists g. split; [apply (collected_complete_p S F D _ _ g Hg) |]. split.
    - split; [exact HLg |]. split; [split; [exact Hf | rewrite Ha; exact Hann] |]. split; [| apply (Hfine k l x Hk Hx)].
      apply (depth_suffices A names_unique_A acyclic_A t _ Ht (incw_inc A t w _ Hw)).
    - rewrite Hkey, Hf, response_name_pti. symmetry. apply resp_name_field. apply (loc_isfield g HLg).
  Qed.

  Lemma top_pairs o g g' :
    In o (all_sets S F D) -> In g (collected S F D (so_parent o) (so_set o)) -> In g' (collected S F D (so_parent o) (so_set o)) -> MRGr g g'.
  Proof.
    intros Ho Hg Hg'. pose proof (set_fcm S F D H5522 H532 o Ho) as Hf. unfold nesting_bound in Hf. rewrite fcm_unfold in Hf.
    destruct (all_pairs_In _ _ Hf g g' Hg Hg') as [E | [H | H]]; [left; exact E | right; eexists; exact H | right; eexists; rewrite mrg_sym; exact H].
  Qed.

  (** ** the pass *)
  Theorem merge_pass_accepts ss : In ss (all_subs A) -> merge_ok repaired S A pi (NSelSet ss) = true.
  Proof.
    intros Hss. destruct (all_subs_sets ss Hss) as [o [Ho ->]]. unfold merge_ok.
    destruct (add_ok [] (Some (pti_ss qo S F (so_parent o) (so_set o))) (fun ss0 E0 => ltac:(inversion E0; subst; exact Hss)) (fmP_nil A)) as [m [v [E _]]]. rewrite E.
    rewrite (merge_all (max_depth A) (max_depth A) _ m (le_n _) (top_cover o m v Ho E) (fun g g' Hg Hg' _ => top_pairs o g g' Ho Hg Hg')). reflexivity.
  Qed.

  Theorem rule_fields_accepts :
    r_errs (inspect (fields_enter S F) pop (tree_doc A) rst0) = [] -> rule_fields repaired pi S F A = Done [].
  Proof.
    intros Hpass. unfold rule_fields. apply finish_clean.
    apply (inspect_guard rst clean (merge_ok repaired S A pi) _ (merge_enter_ok repaired S A pi) (merge_enter_bad repaired S A pi)). split.
    - split; [exact Hpass |]. rewrite (inspect_doc_safe (fields_enter S F) (fields_enter_true S F) (fields_enter_push S F) (fields_enter_abort S F)). reflexivity.
    - intros n Hn. destruct n; try reflexivity. apply merge_pass_accepts. apply (selset_nodes_doc A _ Hn).
  Qed.

  Corollary rule_fields_m_accepts :
    r_errs (inspect (fields_enter S F) pop (tree_doc A) rst0) = [] -> rule_fields_m repaired pi S F A = Done [].
  Proof. intros Hpass. apply rule_fields_memo_accepts. apply rule_fields_accepts. exact Hpass. Qed.
End Complete.
