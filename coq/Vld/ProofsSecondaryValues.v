(** * Vld/ProofsSecondaryValues.v — towards secondary_never_alone, value by value: a top-level
    literal that validateCoercion passes without any error has an expected type (or the mark of a
    custom scalar) at every variable nested in it, so validateVariables cannot report "no location
    type" inside it. *)
From Coq Require Import List NArith Arith Bool Lia.
From ApiFu Require Import Base.Sexp Vld.Ast Vld.AstInd Vld.Inspect Vld.InspectProofs Vld.TypeInfoModel Vld.TypeInfoPure
     Vld.ValidatorModel Vld.ValidSpec Vld.Hyps Vld.ProofsCommon Vld.ProofsVarsOrder Vld.ProofsValues Vld.ProofsTypeInfoValues.
Import ListNotations.

Definition noloc (l : list verror) : Prop := forall e, In e l -> e_kind e <> EVarNoLocation.
Lemma noloc_nil : noloc [].
Proof. intros e []. Qed.
Lemma noloc_app a b : noloc a -> noloc b -> noloc (a ++ b).
Proof. intros Ha Hb e He. apply in_app_or in He as [He | He]; [apply Ha | apply Hb]; exact He. Qed.
Lemma noloc_flat_map {A} (f : A -> list verror) l : (forall x, In x l -> noloc (f x)) -> noloc (flat_map f l).
Proof. intros H e He. apply in_flat_map in He as [x [Hx He]]. apply (H x Hx e He). Qed.

Lemma unwrapped_nullable t : unwrapped (nullable t) = unwrapped t.
Proof. induction t as [n | t IH | t IH]; [reflexivity | reflexivity | exact IH]. Qed.

Section Clean.
  Variable pi : order.
  Variable S : schema.
  Notation qo := (q_unwrap_obj repaired).
  Notation coercion := (coercion repaired pi S).
  Variable vars : list vardef.
  Notation ue := (usage_errs qo S vars).

  Lemma variable_usage_some def t dm sc p :
    noloc (variable_usage def {| va_expected := Some t; va_default := dm; va_scalar := sc |} p).
  Proof.
    unfold variable_usage. cbn [va_expected va_default va_scalar]. destruct (vd_ann def) as [vt|]; [| intros e [<- | []]; discriminate].
    assert (forall l, noloc (if types_compatible vt l then [] else [err EVarIncompatible p])) as Hc
        by (intros l; destruct (types_compatible vt l); [apply noloc_nil | intros e [<- | []]; discriminate]).
    destruct t as [b | l | l]; try apply Hc.
    destruct (negb (is_nonnull vt)); [| apply Hc].
    destruct (negb match vd_default def with Some x => negb (is_null x) | None => false end && negb dm); [intros e [<- | []]; discriminate | apply Hc].
  Qed.

  Lemma usage_var_noloc a n dl np sc e dm :
    (e = None -> sc = true) -> noloc (ue sc e dm (VVar a n dl np)).
  Proof.
    intros He. cbn [usage_errs]. destruct (vardef_first n vars) as [def|]; [| intros x [<- | []]; discriminate].
    destruct e as [t|]; [apply variable_usage_some |]. rewrite (He eq_refl).
    unfold variable_usage. cbn [va_expected va_scalar]. destruct (vd_ann def); [apply noloc_nil | intros x [<- | []]; discriminate].
  Qed.

  (** inside a literal given for a custom scalar *)
  Lemma usage_scalar_none v : forall dm, noloc (ue true None dm v).
  Proof.
    induction v as [a n dl np | | | | | | | a vs p IH | a fs p IH] using value_ind'; intros dm; try apply noloc_nil.
    - apply usage_var_noloc. reflexivity.
    - cbn [usage_errs list_item]. apply noloc_flat_map. intros x Hx. rewrite Forall_forall in IH. apply (IH x Hx).
    - cbn [usage_errs]. apply noloc_flat_map. intros [[fn fp] x] Hx. rewrite Forall_forall in IH. specialize (IH _ Hx). cbn [snd] in IH.
      cbn [object_fields]. apply IH.
  Qed.

  Lemma items_loop_nil t vs : items_loop coercion t vs = VR [] -> forall x, In x vs -> coercion x t false = VR [].
  Proof.
    induction vs as [|y r IH]; intros H x Hx; [destruct Hx |]. cbn [items_loop] in H.
    destruct (coercion y t false) as [[|e l]|] eqn:Ey; try discriminate H.
    destruct Hx as [<- | Hx]; [exact Ey | apply IH; assumption].
  Qed.

  Lemma fields_loop_nil defs p fs : forall seen acc,
    fields_loop pi coercion defs p fs seen acc = VR [] ->
    acc = [] /\ forall n np x, In (n, np, x) fs -> exists def, assoc n defs = Some def /\ coercion x (in_type def) true = VR [].
  Proof.
    induction fs as [|[[n np] x] r IH]; intros seen acc H.
    - cbn [fields_loop] in H. injection H as H'. apply app_eq_nil in H' as [Hacc _]. split; [exact Hacc | intros ? ? ? []].
    - cbn [fields_loop] in H. destruct (assoc n defs) as [def|] eqn:Ed.
      + destruct (coercion x (in_type def) true) as [[|e l]|] eqn:Ex; try discriminate H.
        destruct (IH _ _ H) as [Hacc Hr]. split.
        * destruct (mem n seen); [apply app_eq_nil in Hacc as [-> _]; reflexivity | exact Hacc].
        * intros n' np' x' [Heq | Hin]; [inversion Heq; subst; exists def; auto | apply (Hr _ _ _ Hin)].
      + destruct (IH _ _ H) as [Hacc _]. apply app_eq_nil in Hacc as [_ Hacc]. discriminate Hacc.
  Qed.

  Lemma coercion_list_inv a vs p : forall t allow,
    coercion (VList a vs p) t allow = VR [] ->
    (exists t', nullable t = StList t' /\ items_loop coercion t' vs = VR []) \/
    (exists tn k, nullable t = StNamed tn /\ raw_body S tn = Some (TScalar k)).
  Proof.
    induction t as [tn | t' IH | t' IH]; intros allow H; rewrite coercion_unfold in H; cbn [is_var is_null] in H.
    - right. destruct (raw_body S tn) as [[k | vals | defs | fs0 ifs0 | fs0 | ms0]|] eqn:Eb; try discriminate H. exists tn, k. auto.
    - left. exists t'. auto.
    - apply (IH allow H).
  Qed.

  Lemma coercion_object_inv a fs p : forall t allow,
    coercion (VObject a fs p) t allow = VR [] ->
    (exists k, raw_body S (unwrapped t) = Some (TScalar k)) \/
    (exists defs, raw_body S (unwrapped t) = Some (TInput defs) /\ fields_loop pi coercion defs p fs [] [] = VR []).
  Proof.
    induction t as [tn | t' IH | t' IH]; intros allow H; rewrite coercion_unfold in H; cbn [is_var is_null unwrapped] in H |- *.
    - destruct (raw_body S tn) as [[k | vals | defs | fs0 ifs0 | fs0 | ms0]|] eqn:Eb; try discriminate H; [left; exists k; reflexivity | right; exists defs; auto].
    - destruct allow; [apply (IH true H) | discriminate H].
    - apply (IH allow H).
  Qed.

  (** the core: a literal coerced without any error leaves no nested variable without location type *)
  Theorem clean_coercion_noloc v : forall t allow sc dm, coercion v t allow = VR [] -> noloc (ue sc (Some t) dm v).
  Proof.
    induction v as [a n dl np | | | | | | | a vs p IH | a fs p IH] using value_ind'; intros t allow sc dm H; try apply noloc_nil.
    - apply usage_var_noloc. discriminate.
    - cbn [usage_errs]. apply noloc_flat_map. intros x Hx. rewrite Forall_forall in IH.
      destruct (coercion_list_inv a vs p t allow H) as [[t' [En Hi]] | [tn [k [En Eb]]]].
      + unfold list_item. rewrite En. unfold nested_mark. apply (IH x Hx t' false). apply (items_loop_nil t' vs Hi x Hx).
      + unfold list_item. rewrite En. unfold nested_mark, scalar_expected. rewrite <- unwrapped_nullable, En. cbn [unwrapped]. rewrite Eb, orb_true_r.
        apply usage_scalar_none.
    - cbn [usage_errs]. apply noloc_flat_map. intros [[fn fp] x] Hx. rewrite Forall_forall in IH. specialize (IH _ Hx). cbn [snd] in IH.
      unfold object_fields. cbn [q_unwrap_obj repaired].
      destruct (coercion_object_inv a fs p t allow H) as [[k Eb] | [defs [Eb Hf]]]; rewrite Eb.
      + unfold nested_mark, scalar_expected. rewrite Eb, orb_true_r. apply usage_scalar_none.
      + destruct (fields_loop_nil defs p fs _ _ Hf) as [_ Hfs]. destruct (Hfs fn fp x Hx) as [def [Ed Hc]]. rewrite Ed.
        apply (IH _ true). exact Hc.
  Qed.
End Clean.
