(** * Vld/ProofsVarsOrder.v — validateVariables walks the fragments an operation reaches with a
    work list whose order is Go's map order.  Whatever that order: the work list ends within its
    fuel, has then visited exactly the fragments reachable from the operation, and "no error" and the
    set of variables met are those of the operation and of these fragments. *)
From Coq Require Import List NArith Bool Lia Permutation.
From ApiFu Require Import Base.Sexp Vld.Ast Vld.Inspect Vld.InspectProofs Vld.TypeInfoModel Vld.ValidatorModel
     Vld.ProofsCommon Vld.ProofsCycles.
Import ListNotations.

(** a visitor whose decision to descend does not depend on the state is a fold over the nodes it
    visits *)
Lemma inspect_fold {St} (enter : St -> node -> St * bool) (g : node -> bool) t :
  (forall st n, snd (enter st n) = g n) ->
  forall st, inspect enter (fun s => s) t st = fold_left (fun s n => fst (enter s n)) (vnodes g t) st.
Proof.
  intros Hg. induction t as [n cs IH] using tree_ind'. intros st. simpl.
  pose proof (Hg st n) as Hn. destruct (enter st n) as [s1 b]. simpl in Hn. subst b. simpl.
  destruct (g n); [| reflexivity].
  revert s1. induction IH as [|c cs' Hc _ IHcs]; intros s1; [reflexivity |]. simpl.
  rewrite fold_left_app, <- Hc. apply IHcs.
Qed.

Section Vars.
  Variable D : document.
  Variable vars : list vardef.

  Definition var_g (n : node) : bool := match n with NVarDef _ => false | _ => true end.
  Definition var_fe (n : node) : list verror :=
    match n with
    | NValue (VVar a vname dollar _) =>
        match vardef_first vname vars with
        | None => [err EVarUndefined dollar]
        | Some def => variable_usage def a dollar
        end
    | _ => []
    end.
  Definition var_fn (n : node) : list name :=
    match n with NValue (VVar _ vname _ _) => [vname] | _ => [] end.

  Definition vstep (s : vst) (n : node) : vst := fst (vars_enter vars s n).

  Lemma vars_enter_g st n : snd (vars_enter vars st n) = var_g n.
  Proof. destruct n; try reflexivity. - destruct s; reflexivity. - destruct v; reflexivity. Qed.

  Lemma vars_inspect t st : inspect (vars_enter vars) (fun s => s) t st = fold_left vstep (vnodes var_g t) st.
  Proof. apply inspect_fold. apply vars_enter_g. Qed.

  (** what one node does to the four components *)
  Lemma vstep_errs s n : v_errs (vstep s n) = v_errs s ++ var_fe n.
  Proof.
    unfold vstep. destruct n; simpl; try (rewrite app_nil_r; reflexivity).
    - destruct s0; simpl; try (rewrite app_nil_r; reflexivity).
      destruct (mem n (v_val s) || mem n (v_unval s)); simpl; rewrite app_nil_r; reflexivity.
    - destruct v; simpl; try (rewrite app_nil_r; reflexivity). reflexivity.
  Qed.
  Lemma vstep_enc s n x : In x (v_enc (vstep s n)) <-> In x (v_enc s) \/ In x (var_fn n).
  Proof.
    unfold vstep. destruct n; simpl; try tauto.
    - destruct s0; simpl; try tauto. destruct (mem n (v_val s) || mem n (v_unval s)); simpl; tauto.
    - destruct v; simpl; tauto.
  Qed.
  Lemma vstep_val s n : v_val (vstep s n) = v_val s.
  Proof.
    unfold vstep. destruct n; simpl; try reflexivity.
    - destruct s0; simpl; try reflexivity. destruct (mem n (v_val s) || mem n (v_unval s)); reflexivity.
    - destruct v; reflexivity.
  Qed.
  Lemma vstep_unval s n x :
    In x (v_unval (vstep s n)) <-> In x (v_unval s) \/ (In x (spread_name_of n) /\ ~ In x (v_val s)).
  Proof.
    unfold vstep. destruct n; simpl; try tauto.
    - destruct s0 as [| f np dirs e |]; simpl; try tauto.
      destruct (mem f (v_val s)) eqn:E1; simpl.
      + apply mem_in in E1. split; [tauto | intros [H | [[<- | []] H]]; [exact H | contradiction]].
      + apply mem_false in E1. destruct (mem f (v_unval s)) eqn:E2; simpl.
        * apply mem_in in E2. split; [tauto | intros [H | [[<- | []] H]]; [exact H | exact E2]].
        * rewrite in_app_iff. simpl. split; [intros [H | [<- | []]]; [tauto | right; tauto] | intros [H | [[<- | []] _]]; tauto].
    - destruct v; simpl; tauto.
  Qed.
  Lemma vstep_nodup s n : NoDup (v_unval s) -> NoDup (v_unval (vstep s n)).
  Proof.
    unfold vstep. destruct n; simpl; try tauto.
    - destruct s0 as [| f np dirs e |]; simpl; try tauto.
      destruct (mem f (v_val s)) eqn:E1; simpl; [tauto |].
      destruct (mem f (v_unval s)) eqn:E2; simpl; [tauto |]. apply mem_false in E2.
      intros H. apply NoDup_app_intro; [exact H | constructor; [intros [] | constructor] |].
      intros y Hy [<- | []]. contradiction.
    - destruct v; simpl; tauto.
  Qed.

  (** what the nodes of a tree do to them *)
  Lemma vfold_errs l : forall s, v_errs (fold_left vstep l s) = v_errs s ++ flat_map var_fe l.
  Proof.
    induction l as [|n l IH]; intros s; simpl; [rewrite app_nil_r; reflexivity |].
    rewrite IH, vstep_errs, app_assoc. reflexivity.
  Qed.
  Lemma vfold_enc l : forall s x, In x (v_enc (fold_left vstep l s)) <-> In x (v_enc s) \/ In x (flat_map var_fn l).
  Proof.
    induction l as [|n l IH]; intros s x; simpl; [tauto |]. rewrite IH, vstep_enc, in_app_iff. tauto.
  Qed.
  Lemma vfold_val l : forall s, v_val (fold_left vstep l s) = v_val s.
  Proof. induction l as [|n l IH]; intros s; simpl; [reflexivity |]. rewrite IH. apply vstep_val. Qed.
  Lemma vfold_unval l : forall s x,
    In x (v_unval (fold_left vstep l s)) <-> In x (v_unval s) \/ (In x (flat_map spread_name_of l) /\ ~ In x (v_val s)).
  Proof.
    induction l as [|n l IH]; intros s x; simpl; [tauto |]. rewrite IH, vstep_unval, vstep_val, in_app_iff. tauto.
  Qed.
  Lemma vfold_nodup l : forall s, NoDup (v_unval s) -> NoDup (v_unval (fold_left vstep l s)).
  Proof. induction l as [|n l IH]; intros s H; simpl; [exact H |]. apply IH, vstep_nodup, H. Qed.

  (** ** the work list *)
  Variable d0 : definition.
  Hypothesis d0_in : In d0 D.

  Definition body (n : name) : list node :=
    match frag_last D n with Some d => vnodes var_g (tree_def d) | None => [] end.
  Definition body0 : list node := vnodes var_g (tree_def d0).
  Definition spreads (l : list node) : list name := flat_map spread_name_of l.

  Inductive reached : name -> Prop :=
  | reached0 x : In x (spreads body0) -> reached x
  | reached_step x y : reached x -> In y (spreads (body x)) -> reached y.

  Lemma reached_in_U x : reached x -> In x (all_spread_names D).
  Proof.
    assert (forall d l, In d D -> incl l (tree_nodes (tree_def d)) -> forall y, In y (spreads l) -> In y (all_spread_names D)) as H.
    { intros d l Hd Hl y Hy. unfold spreads in Hy. apply in_flat_map in Hy as [m [Hm Hy]].
      apply (inspect_set spread_name_of spread_names_enter spread_names_enter_desc spread_names_enter_in).
      right. exists m. split; [| exact Hy]. apply (def_nodes_in_doc D d m Hd). apply Hl. exact Hm. }
    intros Hr. destruct Hr as [x Hx | x y _ Hy].
    - apply (H d0 body0 d0_in); [| exact Hx]. intros m Hm. apply (vnodes_incl var_g). exact Hm.
    - unfold body in Hy. destruct (frag_last D x) as [d|] eqn:Ed; [| destruct Hy].
      apply (H d (vnodes var_g (tree_def d)) (frag_last_in D x d Ed)); [| exact Hy]. intros m Hm. apply (vnodes_incl var_g). exact Hm.
  Qed.

  Record inv (st : vst) : Prop := {
    inv_reached : forall x, In x (v_val st) \/ In x (v_unval st) -> reached x;
    inv_closed0 : forall x, In x (spreads body0) -> In x (v_val st) \/ In x (v_unval st);
    inv_closed : forall v y, In v (v_val st) -> In y (spreads (body v)) -> In y (v_val st) \/ In y (v_unval st);
    inv_errs : v_errs st = [] <-> flat_map var_fe body0 = [] /\ forall v, In v (v_val st) -> flat_map var_fe (body v) = [];
    inv_enc : forall x, In x (v_enc st) <-> In x (flat_map var_fn body0) \/ exists v, In v (v_val st) /\ In x (flat_map var_fn (body v));
    inv_nd_val : NoDup (v_val st);
    inv_nd_unval : NoDup (v_unval st);
    inv_disj : forall x, In x (v_unval st) -> ~ In x (v_val st) }.

  Definition vst0 : vst := {| v_errs := []; v_enc := []; v_unval := []; v_val := [] |}.

  Lemma inv_init : inv (fold_left vstep body0 vst0).
  Proof.
    constructor.
    - intros x [H | H]; [rewrite vfold_val in H; destruct H |]. apply vfold_unval in H as [[] | [H _]]. apply reached0. exact H.
    - intros x Hx. right. apply vfold_unval. right. split; [exact Hx | intros []].
    - intros v y Hv. rewrite vfold_val in Hv. destruct Hv.
    - rewrite vfold_errs, vfold_val. simpl. split; [intros H; split; [exact H | intros v []] | tauto].
    - intros x. rewrite vfold_enc, vfold_val. simpl. split; [intros [[] | H]; left; exact H | intros [H | [v [[] _]]]; right; exact H].
    - rewrite vfold_val. constructor.
    - apply vfold_nodup. constructor.
    - intros x _. rewrite vfold_val. intros [].
  Qed.

  Lemma remove_name_in n l x : In x (remove_name n l) <-> In x l /\ x <> n.
  Proof.
    unfold remove_name. rewrite filter_In, negb_true_iff, name_eqb_neq. split; intros [H1 H2]; split; auto.
  Qed.
  Lemma remove_name_nodup n l : NoDup l -> NoDup (remove_name n l).
  Proof. apply NoDup_filter. Qed.

  Definition pick (st : vst) (n : name) : vst :=
    let st1 := {| v_errs := v_errs st; v_enc := v_enc st; v_unval := remove_name n (v_unval st); v_val := n :: v_val st |} in
    fold_left vstep (body n) st1.

  Lemma inv_pick st n : inv st -> In n (v_unval st) -> inv (pick st n).
  Proof.
    intros I Hn. unfold pick.
    set (st1 := {| v_errs := v_errs st; v_enc := v_enc st; v_unval := remove_name n (v_unval st); v_val := n :: v_val st |}).
    assert (forall x, In x (v_unval (fold_left vstep (body n) st1)) <->
                      (In x (v_unval st) /\ x <> n) \/ (In x (spreads (body n)) /\ ~ In x (n :: v_val st))) as Hun.
    { intros x. rewrite vfold_unval. simpl. rewrite remove_name_in. reflexivity. }
    assert (forall (x : name), x = n \/ x <> n) as Hdec.
    { intros x. destruct (name_eqb x n) eqn:E; [left; apply name_eqb_eq; exact E | right; apply name_eqb_neq; exact E]. }
    assert (forall x, In x (v_val st) \/ ~ In x (v_val st)) as Hdecv.
    { intros x. destruct (mem x (v_val st)) eqn:E; [left; apply mem_in; exact E | right; apply mem_false; exact E]. }
    constructor.
    - intros x. rewrite vfold_val, Hun. simpl. intros [[<- | H] | [[H _] | [H _]]].
      + apply (inv_reached st I). right. exact Hn.
      + apply (inv_reached st I). left. exact H.
      + apply (inv_reached st I). right. exact H.
      + apply (reached_step n); [apply (inv_reached st I); right; exact Hn | exact H].
    - intros x Hx. rewrite vfold_val, Hun. simpl. destruct (inv_closed0 st I x Hx) as [H | H]; [left; right; exact H |].
      destruct (Hdec x) as [-> | Hne]; [left; left; reflexivity | right; left; split; assumption].
    - intros v y Hv Hy. rewrite vfold_val in Hv |- *. rewrite Hun. simpl in Hv |- *.
      destruct (Hdec y) as [-> | Hne]; [left; left; reflexivity |].
      destruct Hv as [<- | Hv].
      + destruct (Hdecv y) as [H | H]; [left; right; exact H |]. right. right. split; [exact Hy |]. intros [E | E]; [congruence | contradiction].
      + destruct (inv_closed st I v y Hv Hy) as [H | H]; [left; right; exact H | right; left; split; assumption].
    - rewrite vfold_errs, vfold_val. simpl. split.
      + intros H. apply app_eq_nil in H as [H1 H2]. apply (inv_errs st I) in H1 as [H0 H1]. split; [exact H0 |].
        intros v [<- | Hv]; [exact H2 | apply H1; exact Hv].
      + intros [H0 H1]. rewrite (H1 n (or_introl eq_refl)), app_nil_r. apply (inv_errs st I). split; [exact H0 |].
        intros v Hv. apply H1. right. exact Hv.
    - intros x. rewrite vfold_enc, vfold_val. simpl. rewrite (inv_enc st I). split.
      + intros [[H | [v [Hv Hx]]] | H]; [left; exact H | right; exists v; split; [right; exact Hv | exact Hx] | right; exists n; split; [left; reflexivity | exact H]].
      + intros [H | [v [[<- | Hv] Hx]]]; [left; left; exact H | right; exact Hx | left; right; exists v; split; assumption].
    - rewrite vfold_val. simpl. constructor; [apply (inv_disj st I); exact Hn | apply (inv_nd_val st I)].
    - apply vfold_nodup. simpl. apply remove_name_nodup, (inv_nd_unval st I).
    - intros x. rewrite vfold_val, Hun. simpl. intros [[H Hne] | [_ H]]; [| exact H].
      intros [E | E]; [congruence | apply (inv_disj st I x H); exact E].
  Qed.

  Lemma inv_final st : inv st -> v_unval st = [] -> forall x, reached x <-> In x (v_val st).
  Proof.
    intros I Hu x. split.
    - intros Hr. induction Hr as [x Hx | x y _ IHx Hy].
      + destruct (inv_closed0 st I x Hx) as [H | H]; [exact H | rewrite Hu in H; destruct H].
      + destruct (inv_closed st I x y IHx Hy) as [H | H]; [exact H | rewrite Hu in H; destruct H].
    - intros H. apply (inv_reached st I). left. exact H.
  Qed.

  Variable pi : order.
  Hypothesis Hpi : order_ok pi.

  Lemma worklist_unfold fuel st :
    vars_worklist pi D fuel vars st =
    match fuel with
    | O => None
    | Datatypes.S fuel' =>
        match pi _ (v_unval st) with
        | [] => Some st
        | n :: _ => vars_worklist pi D fuel' vars (pick st n)
        end
    end.
  Proof.
    destruct fuel; [reflexivity |]. cbn [vars_worklist]. destruct (pi name (v_unval st)) as [|n r]; [reflexivity |].
    unfold pick, body. destruct (frag_last D n) as [d|]; [rewrite vars_inspect |]; reflexivity.
  Qed.

  Lemma pi_nil {A} (l : list A) : pi A l = [] -> l = [].
  Proof. intros H. apply Permutation_nil. rewrite <- H. apply (Hpi A l). Qed.

  Theorem worklist_spec fuel : forall st,
    inv st -> length (all_spread_names D) - length (v_val st) < fuel ->
    exists st', vars_worklist pi D fuel vars st = Some st' /\ inv st' /\ v_unval st' = [].
  Proof.
    induction fuel as [|fuel IH]; intros st I Hlt; [lia |]. rewrite worklist_unfold.
    destruct (pi name (v_unval st)) as [|n r] eqn:E.
    - exists st. split; [reflexivity |]. split; [exact I | apply pi_nil; exact E].
    - assert (In n (v_unval st)) as Hn by (apply (proj1 (order_in pi Hpi _ _)); rewrite E; left; reflexivity).
      pose proof (inv_pick st n I Hn) as I'. apply IH; [exact I' |].
      assert (v_val (pick st n) = n :: v_val st) as Ev by (unfold pick; rewrite vfold_val; reflexivity).
      assert (length (v_val (pick st n)) <= length (all_spread_names D)) as Hle.
      { apply NoDup_incl_length; [apply (inv_nd_val _ I') |]. intros x Hx. apply reached_in_U. apply (inv_reached _ I'). left. exact Hx. }
      rewrite Ev in *. simpl in *. lia.
  Qed.
End Vars.
