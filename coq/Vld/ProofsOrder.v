(** * Vld/ProofsOrder.v — acceptance does not depend on the order in which Go ranges over its maps:
    rule by rule, "no error and no abort" under one order iff under any other.  Part 1: the rules
    whose traversal itself does not depend on the order (fields / overlapping fields, arguments,
    values, fragment declarations, spread possibility). *)
From Coq Require Import List NArith Bool Lia Permutation.
From ApiFu Require Import Base.Sexp Vld.Ast Vld.AstInd Vld.Inspect Vld.InspectProofs Vld.TypeInfoModel Vld.TypeInfoPure
     Vld.Enumerate Vld.ValidatorModel Vld.ValidSpec Vld.ProofsCommon Vld.ProofsArguments Vld.ProofsValues Vld.ProofsCycles Vld.ProofsVarsOrder.
Import ListNotations.

(** ** loops that stop at the first error *)
Lemma first_err_ok {A} (f : A -> mres) l : first_err f l = MOk <-> forall x, In x l -> f x = MOk.
Proof.
  induction l as [|x l IH]; simpl.
  - split; [intros _ ? [] | reflexivity].
  - destruct (f x) eqn:E.
    + rewrite IH. split.
      * intros H y [<- | Hy]; [exact E | apply H; exact Hy].
      * intros H y Hy. apply H. right. exact Hy.
    + split; [discriminate | intros H; rewrite <- E; apply H; left; reflexivity].
    + split; [discriminate | intros H; rewrite <- E; apply H; left; reflexivity].
    + split; [discriminate | intros H; rewrite <- E; apply H; left; reflexivity].
Qed.

Lemma first_err_ok_order pi (Hpi : order_ok pi) {A} (f : A -> mres) l :
  first_err f (pi A l) = MOk <-> forall x, In x l -> f x = MOk.
Proof.
  rewrite first_err_ok. split; intros H x Hx; apply H; apply (order_in pi Hpi); exact Hx.
Qed.

Lemma pairs_first_ok_ext {A} (f g : A -> A -> mres) l :
  (forall x y, f x y = MOk <-> g x y = MOk) -> (pairs_first f l = MOk <-> pairs_first g l = MOk).
Proof.
  intros Hfg. induction l as [|x l IH]; simpl; [tauto |].
  assert (first_err (f x) l = MOk <-> first_err (g x) l = MOk) as Hx.
  { rewrite !first_err_ok. split; intros H y Hy; apply Hfg, H, Hy. }
  destruct (first_err (f x) l) eqn:Ef; destruct (first_err (g x) l) eqn:Eg;
    try exact IH;
    try (exfalso; destruct Hx as [H1 H2]; first [specialize (H1 eq_refl) | specialize (H2 eq_refl)]; discriminate);
    split; discriminate.
Qed.

Section Merge.
  Variables pi1 pi2 : order.
  Hypothesis Hpi1 : order_ok pi1.
  Hypothesis Hpi2 : order_ok pi2.
  Variable q : quirks.
  Variable S : schema.
  Variable D : document.

  Lemma same_shape_order depth : forall A B,
    same_shape q pi1 S D depth A B = MOk <-> same_shape q pi2 S D depth A B = MOk.
  Proof.
    induction depth as [|d IH]; intros A B; simpl.
    - tauto.
    - destruct (shape_type A) as [tA | e]; [| tauto].
      destruct (shape_type B) as [tB | e]; [| tauto].
      destruct (shape_loop tA tB) as [[a b] | k]; [| tauto].
      destruct (is_leaf_sty S a || is_leaf_sty S b); [tauto |].
      destruct (add_selections q D [] (sel_sub A)) as [m1 v1 | e |]; try tauto.
      destruct (add_selections q D m1 (sel_sub B)) as [m2 v2 | e |]; try tauto.
      rewrite (first_err_ok_order pi1 Hpi1), (first_err_ok_order pi2 Hpi2).
      split; intros H g Hg; specialize (H g Hg); revert H; apply pairs_first_ok_ext; intros x y;
        [symmetry |]; apply IH.
  Qed.

  Lemma pair_check_order r1 r2 depth x y :
    (forall m, r1 m = MOk <-> r2 m = MOk) ->
    (pair_check q pi1 S D r1 depth x y = MOk <-> pair_check q pi2 S D r2 depth x y = MOk).
  Proof.
    intros Hr. unfold pair_check.
    pose proof (same_shape_order depth (fst3 x) (fst3 y)) as Hs.
    destruct (same_shape q pi1 S D depth (fst3 x) (fst3 y)) eqn:E1;
      destruct (same_shape q pi2 S D depth (fst3 x) (fst3 y)) eqn:E2;
      try (exfalso; destruct Hs as [H1 H2]; first [specialize (H1 eq_refl) | specialize (H2 eq_refl)]; discriminate);
      try (split; discriminate).
    destruct (snd (fst x)) as [pa|]; [| tauto].
    destruct (snd (fst y)) as [pb|]; [| tauto].
    destruct (name_eqb pa pb || negb (is_object_name S pa) || negb (is_object_name S pb)); [| tauto].
    destruct (negb (name_eqb (sel_name (fst3 x)) (sel_name (fst3 y)))); [tauto |].
    destruct (args_check q (fst3 x) (fst3 y)); try tauto.
    destruct (add_selections q D [] (sel_sub (fst3 x))) as [m1 v1 | e |]; try tauto.
    destruct (add_selections q D m1 (sel_sub (fst3 y))) as [m2 v2 | e |]; try tauto.
    apply Hr.
  Qed.

  Lemma can_merge_order depth : forall m,
    can_merge q pi1 S D depth m = MOk <-> can_merge q pi2 S D depth m = MOk.
  Proof.
    induction depth as [|d IH]; intros m.
    - cbn [can_merge]. rewrite (first_err_ok_order pi1 Hpi1), (first_err_ok_order pi2 Hpi2).
      split; intros H g Hg; specialize (H g Hg); revert H; apply pairs_first_ok_ext; intros x y;
        [symmetry |]; apply pair_check_order; tauto.
    - cbn [can_merge]. rewrite (first_err_ok_order pi1 Hpi1), (first_err_ok_order pi2 Hpi2).
      split; intros H g Hg; specialize (H g Hg); revert H; apply pairs_first_ok_ext; intros x y;
        [symmetry |]; apply pair_check_order; exact IH.
  Qed.
End Merge.

(** ** a visitor that leaves the state alone where all is well, and otherwise spoils it and does
    not descend *)
Section Guard.
  Variable St : Type.
  Variable clean : St -> Prop.
  Variable ok : node -> bool.
  Variable enter : St -> node -> St * bool.
  Hypothesis enter_ok : forall st n, ok n = true -> enter st n = (st, true).
  Hypothesis enter_bad : forall st n, ok n = false -> ~ clean (fst (enter st n)) /\ snd (enter st n) = false.

  Lemma inspect_guard t : forall st,
    clean (inspect enter (fun s => s) t st) <-> clean st /\ forall n, In n (tree_nodes t) -> ok n = true.
  Proof.
    induction t as [n cs IH] using tree_ind'. intros st.
    assert (forall st, clean (fold_left (fun a c => inspect enter (fun s => s) c a) cs st)
                       <-> clean st /\ forall m, In m (flat_map tree_nodes cs) -> ok m = true) as Hfold.
    { clear st. induction IH as [|c cs' Hc _ IHcs]; intros st; simpl.
      - split; [intros H; split; [exact H | intros m []] | tauto].
      - rewrite IHcs, Hc. split.
        + intros [[H1 H2] H3]. split; [exact H1 |]. intros m Hm. apply in_app_or in Hm as [Hm | Hm]; auto.
        + intros [H1 H2]. repeat split; [exact H1 | |]; intros m Hm; apply H2, in_or_app; tauto. }
    simpl. destruct (ok n) eqn:En.
    - rewrite (enter_ok st n En), Hfold. split.
      + intros [H1 H2]. split; [exact H1 |]. intros m [<- | Hm]; auto.
      + intros [H1 H2]. split; [exact H1 |]. intros m Hm. apply H2. right. exact Hm.
    - destruct (enter_bad st n En) as [Hb Hs]. destruct (enter st n) as [st' b]. simpl in Hb, Hs. subst b.
      split; [intros H; contradiction |]. intros [_ H]. rewrite (H n (or_introl eq_refl)) in En. discriminate.
  Qed.
End Guard.

Definition clean (st : rst) : Prop := r_errs st = [] /\ r_abort st = None.
Lemma finish_clean st : finish st = Done [] <-> clean st.
Proof.
  unfold finish, clean. destruct (r_abort st) as [[s|]|].
  - split; [discriminate | intros [_ H]; discriminate].
  - split; [discriminate | intros [_ H]; discriminate].
  - split; [intros H; inversion H; auto | intros [-> _]; reflexivity].
Qed.
Lemma add_errs_not_clean st e l : ~ clean (add_errs st (e :: l)).
Proof. unfold clean, add_errs. simpl. intros [H _]. apply app_eq_nil in H as [_ H]. discriminate. Qed.
Lemma set_abort_not_clean st a : ~ clean (set_abort st a).
Proof. unfold clean, set_abort. simpl. intros [_ H]. destruct (r_abort st); discriminate. Qed.

Section FieldsRule.
  Variables pi1 pi2 : order.
  Hypothesis Hpi1 : order_ok pi1.
  Hypothesis Hpi2 : order_ok pi2.
  Variable q : quirks.
  Variable S : schema.
  Variable F : features.
  Variable D : document.

  Definition merge_ok (pi : order) (n : node) : bool :=
    match n with
    | NSelSet ss =>
        match add_selections q D [] (Some ss) with
        | COk m _ => match can_merge q pi S D (max_depth D) m with MOk => true | _ => false end
        | _ => false
        end
    | _ => true
    end.

  Lemma merge_ok_order n : merge_ok pi1 n = merge_ok pi2 n.
  Proof.
    unfold merge_ok. destruct n; try reflexivity.
    destruct (add_selections q D [] (Some s)) as [m v | e |]; try reflexivity.
    pose proof (can_merge_order pi1 pi2 Hpi1 Hpi2 q S D (max_depth D) m) as H.
    destruct (can_merge q pi1 S D (max_depth D) m); destruct (can_merge q pi2 S D (max_depth D) m);
      try reflexivity; exfalso; destruct H as [H1 H2];
        first [specialize (H1 eq_refl) | specialize (H2 eq_refl)]; discriminate.
  Qed.

  Lemma merge_enter_ok pi st n : merge_ok pi n = true -> merge_enter q pi S D st n = (st, true).
  Proof.
    unfold merge_ok, merge_enter. destruct n; try reflexivity.
    destruct (add_selections q D [] (Some s)) as [m v | e |]; try discriminate.
    destruct (can_merge q pi S D (max_depth D) m); try discriminate. reflexivity.
  Qed.
  Lemma merge_enter_bad pi st n :
    merge_ok pi n = false -> ~ clean (fst (merge_enter q pi S D st n)) /\ snd (merge_enter q pi S D st n) = false.
  Proof.
    unfold merge_ok, merge_enter. destruct n; try discriminate.
    destruct (add_selections q D [] (Some s)) as [m v | e |].
    - destruct (can_merge q pi S D (max_depth D) m); try discriminate; intros _; simpl; split; try reflexivity.
      + apply add_errs_not_clean.
      + apply set_abort_not_clean.
      + apply set_abort_not_clean.
    - intros _. simpl. split; [apply add_errs_not_clean | reflexivity].
    - intros _. simpl. split; [apply set_abort_not_clean | reflexivity].
  Qed.

  Theorem rule_fields_order :
    rule_fields q pi1 S F D = Done [] <-> rule_fields q pi2 S F D = Done [].
  Proof.
    unfold rule_fields. rewrite !finish_clean.
    rewrite (inspect_guard rst clean (merge_ok pi1) _ (merge_enter_ok pi1) (merge_enter_bad pi1)).
    rewrite (inspect_guard rst clean (merge_ok pi2) _ (merge_enter_ok pi2) (merge_enter_bad pi2)).
    split; intros [H1 H2]; (split; [exact H1 |]); intros n Hn; specialize (H2 n Hn);
      [rewrite <- merge_ok_order | rewrite merge_ok_order]; exact H2.
  Qed.
End FieldsRule.

Lemma flat_map_nil_order pi (Hpi : order_ok pi) {A B} (h : A -> list B) l :
  flat_map h (pi A l) = [] <-> forall x, In x l -> h x = [].
Proof.
  rewrite flat_map_nil_iff. split; intros H x Hx; apply H; apply (order_in pi Hpi); exact Hx.
Qed.

(** ** validateArguments *)
Section ArgumentsRule.
  Variables pi1 pi2 : order.
  Hypothesis Hpi1 : order_ok pi1.
  Hypothesis Hpi2 : order_ok pi2.
  Variable S : schema.

  Lemma args_errs_order args defs npos :
    args_errs pi1 args defs npos = [] <-> args_errs pi2 args defs npos = [].
  Proof.
    unfold args_errs. destruct args as [|a r]; [destruct defs as [|d ds]; [tauto |] |];
      (destruct (args_given _ _ []) as [e1 by_name]; unfold args_required;
       split; intros H; apply app_eq_nil in H as [-> H]; simpl;
       [rewrite (flat_map_nil_order pi1 Hpi1) in H; rewrite (flat_map_nil_order pi2 Hpi2)
       |rewrite (flat_map_nil_order pi2 Hpi2) in H; rewrite (flat_map_nil_order pi1 Hpi1)]; exact H).
  Qed.

  Lemma arg_f_order n : arg_f pi1 S n = [] <-> arg_f pi2 S n = [].
  Proof.
    unfold arg_f. destruct n; try tauto.
    - destruct (assoc (d_name d) (s_directives S)); [apply args_errs_order | tauto].
    - destruct s as [a al n np args dirs sub | |]; try tauto.
      destruct a; [apply args_errs_order |]. destruct (negb (name_eqb n n_typename)); [tauto | apply args_errs_order].
  Qed.

  Theorem rule_arguments_order A :
    rule_arguments repaired pi1 S A = Done [] <-> rule_arguments repaired pi2 S A = Done [].
  Proof.
    unfold rule_arguments.
    rewrite (inspect_acc _ (arg_f pi1 S) (arg_g S) _ (arguments_enter_eq pi1 S)).
    rewrite (inspect_acc _ (arg_f pi2 S) (arg_g S) _ (arguments_enter_eq pi2 S)).
    rewrite !app_nil_l, !Done_nil_iff, !flat_map_nil_iff.
    split; intros H n Hn; apply arg_f_order, H, Hn.
  Qed.
End ArgumentsRule.

(** ** validateValues *)
Section ValuesRuleOrder.
  Variables pi1 pi2 : order.
  Hypothesis Hpi1 : order_ok pi1.
  Hypothesis Hpi2 : order_ok pi2.
  Variable S : schema.

  Lemma items_loop_order rec1 rec2 t vs :
    Forall (fun x => rec1 x t false = VR [] <-> rec2 x t false = VR []) vs ->
    (items_loop rec1 t vs = VR [] <-> items_loop rec2 t vs = VR []).
  Proof.
    induction 1 as [|x r Hx _ IH]; simpl; [tauto |].
    destruct (rec1 x t false) as [[|e1 l1]|] eqn:E1; destruct (rec2 x t false) as [[|e2 l2]|] eqn:E2;
      try exact IH;
      try (exfalso; destruct Hx as [H1 H2]; first [specialize (H1 eq_refl) | specialize (H2 eq_refl)]; discriminate);
      split; discriminate.
  Qed.

  Lemma fields_loop_order rec1 rec2 defs p fs :
    Forall (fun f => forall t, rec1 (snd f) t true = VR [] <-> rec2 (snd f) t true = VR []) fs ->
    forall seen acc,
      fields_loop pi1 rec1 defs p fs seen acc = VR [] <-> fields_loop pi2 rec2 defs p fs seen acc = VR [].
  Proof.
    induction 1 as [|[[n np] x] r Hx _ IH]; intros seen acc; simpl.
    - assert (forall (a b : list verror), VR (a ++ b) = VR [] <-> a = [] /\ b = []) as Hvr.
      { intros a b. split; [intros H; apply app_eq_nil; congruence | intros [-> ->]; reflexivity]. }
      rewrite !Hvr, (flat_map_nil_order pi1 Hpi1), (flat_map_nil_order pi2 Hpi2). tauto.
    - destruct (assoc n defs) as [def|]; [| apply IH].
      specialize (Hx (in_type def)). simpl in Hx.
      destruct (rec1 x (in_type def) true) as [[|e1 l1]|] eqn:E1; destruct (rec2 x (in_type def) true) as [[|e2 l2]|] eqn:E2;
        try apply IH;
        try (exfalso; destruct Hx as [H1 H2]; first [specialize (H1 eq_refl) | specialize (H2 eq_refl)]; discriminate);
        split; discriminate.
  Qed.

  Lemma coercion_order v : forall t allow,
    coercion repaired pi1 S v t allow = VR [] <-> coercion repaired pi2 S v t allow = VR [].
  Proof.
    induction v using value_ind'; intros t;
      (induction t as [tn | t' IHt | t' IHt]; intros allow;
       match goal with |- coercion _ _ _ ?v ?t ?a = _ <-> _ => rewrite (coercion_unfold pi1 S v t a), (coercion_unfold pi2 S v t a) end;
       cbn [is_var is_null];
       try tauto; try apply IHt;
       try (destruct allow; [apply IHt | tauto]);
       try (destruct (raw_body S tn) as [[k | vals | defs | | |]|]; try tauto)).
    - apply items_loop_order. eapply Forall_impl; [| exact H]. intros x Hx. apply Hx.
    - apply fields_loop_order. eapply Forall_impl; [| exact H]. intros f Hf t. apply Hf.
  Qed.

  Lemma val_f_order n : val_f pi1 S n = [] <-> val_f pi2 S n = [].
  Proof.
    unfold val_f. destruct n; try tauto. destruct (is_var v); [tauto |].
    destruct (va_expected (v_ann v)) as [t|]; [| tauto].
    pose proof (coercion_order v t true) as H.
    destruct (coercion_total pi1 S v t true) as [e1 E1]. destruct (coercion_total pi2 S v t true) as [e2 E2].
    rewrite E1, E2 in *. simpl. split; intros ->; [destruct H as [H _] | destruct H as [_ H]];
      specialize (H eq_refl); inversion H; reflexivity.
  Qed.

  Theorem rule_values_order A :
    rule_values repaired pi1 S A = Done [] <-> rule_values repaired pi2 S A = Done [].
  Proof.
    rewrite !rule_values_eq, !Done_nil_iff, !flat_map_nil_iff.
    split; intros H v Hv; apply val_f_order, H, Hv.
  Qed.
End ValuesRuleOrder.

(** ** validateFragments *)
Lemma existsb_order pi (Hpi : order_ok pi) {A} (f : A -> bool) l : existsb f (pi A l) = existsb f l.
Proof.
  destruct (existsb f l) eqn:E.
  - apply existsb_exists in E as [x [Hx Hf]]. apply existsb_exists. exists x. split; [apply (order_in pi Hpi); exact Hx | exact Hf].
  - destruct (existsb f (pi A l)) eqn:E'; [| reflexivity].
    apply existsb_exists in E' as [x [Hx Hf]]. apply (proj1 (order_in pi Hpi _ _)) in Hx.
    assert (existsb f l = true) as H by (apply existsb_exists; exists x; auto). congruence.
Qed.

Lemma inspect_ext {St} (e1 e2 : St -> node -> St * bool) leave t :
  (forall st n, e1 st n = e2 st n) -> forall st, inspect e1 leave t st = inspect e2 leave t st.
Proof.
  intros He. induction t as [n cs IH] using tree_ind'. intros st. simpl. rewrite He.
  destruct (e2 st n) as [s1 b]. destruct b; [| reflexivity]. f_equal.
  revert s1. induction IH as [|c cs' Hc _ IHcs]; intros s1; [reflexivity |]. simpl. rewrite Hc. apply IHcs.
Qed.

(** a visitor that never repairs a spoilt state *)
Lemma inspect_dirty {St} (dirty : St -> Prop) (enter : St -> node -> St * bool) leave t :
  (forall st n, dirty st -> dirty (fst (enter st n))) -> (forall st, dirty st -> dirty (leave st)) ->
  forall st, dirty st -> dirty (inspect enter leave t st).
Proof.
  intros He Hl. induction t as [n cs IH] using tree_ind'. intros st Hst. simpl.
  specialize (He st n Hst). destruct (enter st n) as [s1 b]. simpl in He. destruct b; [| exact He]. apply Hl.
  revert s1 He. induction IH as [|c cs' Hc _ IHcs]; intros s1 Hs1; [exact Hs1 |]. simpl. apply IHcs, Hc, Hs1.
Qed.

Lemma classic_clean st : clean st \/ ~ clean st.
Proof.
  unfold clean. destruct (r_errs st); [| right; intros [H _]; discriminate].
  destruct (r_abort st); [right; intros [_ H]; discriminate | left; auto].
Qed.
Lemma add_errs_dirty st l : ~ clean st -> ~ clean (add_errs st l).
Proof. unfold clean, add_errs. simpl. intros H [H1 H2]. apply H. apply app_eq_nil in H1 as [H1 _]. auto. Qed.
Lemma set_abort_dirty st a : ~ clean st -> ~ clean (set_abort st a).
Proof. intros _. apply set_abort_not_clean. Qed.
Lemma push_dirty st sc : ~ clean st -> ~ clean (push st sc).
Proof. unfold clean, push. simpl. tauto. Qed.
Lemma pop_dirty st : ~ clean st -> ~ clean (pop st).
Proof. unfold clean, pop. simpl. tauto. Qed.

(** a loop whose body leaves the state alone where all is well and otherwise spoils it *)
Lemma fold_guard {A} (ok : A -> bool) (step : rst -> A -> rst) l :
  (forall st x, ok x = true -> step st x = st) -> (forall st x, ok x = false -> ~ clean (step st x)) ->
  forall st, clean (fold_left step l st) <-> clean st /\ forall x, In x l -> ok x = true.
Proof.
  intros Hok Hbad. induction l as [|x l IH]; intros st; simpl.
  - split; [intros H; split; [exact H | intros x []] | tauto].
  - rewrite IH. destruct (ok x) eqn:E.
    + rewrite (Hok st x E). split; intros [H1 H2]; (split; [exact H1 |]).
      * intros y [<- | Hy]; auto.
      * intros y Hy. apply H2. right. exact Hy.
    + split; [intros [H _]; exfalso; exact (Hbad st x E H) |].
      intros [_ H]. rewrite (H x (or_introl eq_refl)) in E. discriminate.
Qed.

Section FragmentsRule.
  Variables pi1 pi2 : order.
  Hypothesis Hpi1 : order_ok pi1.
  Hypothesis Hpi2 : order_ok pi2.
  Variable q : quirks.
  Variable S : schema.
  Variable F : features.
  Variable D : document.

  Lemma rule_fragment_declarations_order :
    rule_fragment_declarations pi1 S F D = [] <-> rule_fragment_declarations pi2 S F D = [].
  Proof.
    unfold rule_fragment_declarations. destruct (frag_decls S F D []) as [e1 by_name].
    destruct (inspect (decl_enter S F) (fun s => s) (tree_doc D) (e1, [])) as [e2 used].
    split; intros H; apply app_eq_nil in H as [-> H]; simpl;
      [rewrite (flat_map_nil_order pi1 Hpi1) in H; apply (flat_map_nil_order pi2 Hpi2)
      |rewrite (flat_map_nil_order pi2 Hpi2) in H; apply (flat_map_nil_order pi1 Hpi1)]; exact H.
  Qed.

  Lemma validate_spread_order st tc parent :
    validate_spread q pi1 S F st tc parent = validate_spread q pi2 S F st tc parent.
  Proof.
    unfold validate_spread. destruct parent as [pn|]; [| reflexivity].
    destruct (q_leaf_parent q && negb (is_composite_name S pn)); [reflexivity |].
    destruct (named_type S F (fst tc)) as [b|]; [| reflexivity].
    destruct (is_composite_body b); [| reflexivity].
    destruct (possible_types q S F (fst tc)) as [a|]; [| reflexivity].
    destruct (possible_types q S F pn) as [b'|]; [| reflexivity].
    rewrite (existsb_order pi1 Hpi1), (existsb_order pi2 Hpi2). reflexivity.
  Qed.

  Lemma spreads_enter_order st n : spreads_enter q pi1 S F D st n = spreads_enter q pi2 S F D st n.
  Proof.
    unfold spreads_enter. destruct n; try reflexivity. destruct s as [| fname np dirs e | [tc|] dirs sub e]; try reflexivity.
    - destruct (frag_last D fname) as [[| kw n' np' cond dirs' sub']|]; try reflexivity.
      destruct (r_stack st); [reflexivity |]. rewrite validate_spread_order. reflexivity.
    - destruct (r_stack st); [reflexivity |]. rewrite validate_spread_order. reflexivity.
  Qed.

  Lemma validate_spread_dirty pi st tc parent : ~ clean st -> ~ clean (validate_spread q pi S F st tc parent).
  Proof.
    intros H. unfold validate_spread. destruct parent as [pn|]; [| apply add_errs_dirty; exact H].
    destruct (q_leaf_parent q && negb (is_composite_name S pn)); [apply add_errs_dirty; exact H |].
    destruct (named_type S F (fst tc)) as [b|]; [| exact H].
    destruct (is_composite_body b); [| exact H].
    destruct (possible_types q S F (fst tc)) as [a|]; [| apply set_abort_dirty; exact H].
    destruct (possible_types q S F pn) as [b'|]; [| apply set_abort_dirty; exact H].
    destruct (existsb _ _); [exact H | apply add_errs_dirty; exact H].
  Qed.

  Lemma spreads_enter_dirty pi st n : ~ clean st -> ~ clean (fst (spreads_enter q pi S F D st n)).
  Proof.
    intros H. unfold spreads_enter. destruct n; try (apply push_dirty; exact H).
    destruct s as [| fname np dirs e | [tc|] dirs sub e]; try (apply push_dirty; exact H).
    - destruct (frag_last D fname) as [[| kw n' np' cond dirs' sub']|]; simpl.
      + apply push_dirty; exact H.
      + destruct (r_stack st); simpl; apply push_dirty; [apply set_abort_dirty | apply validate_spread_dirty]; exact H.
      + apply push_dirty, add_errs_dirty; exact H.
    - destruct (r_stack st); simpl; apply push_dirty; [apply set_abort_dirty | apply validate_spread_dirty]; exact H.
  Qed.

  Definition cycle_step (pi : order) (st : rst) (n : name) : rst :=
    match cycle_search pi D (graph_fuel D) n [n] [] with
    | None => set_abort st AFuel
    | Some true => match frag_last D n with
                   | Some d => add_errs st [err EFragCycle (def_pos d)]
                   | None => st
                   end
    | Some false => st
    end.
  Definition cycle_ok (pi : order) (n : name) : bool :=
    match cycle_search pi D (graph_fuel D) n [n] [] with
    | None => false
    | Some true => match frag_last D n with Some _ => false | None => true end
    | Some false => true
    end.
  Lemma cycle_step_ok pi st n : cycle_ok pi n = true -> cycle_step pi st n = st.
  Proof.
    unfold cycle_ok, cycle_step. destruct (cycle_search pi D (graph_fuel D) n [n] []) as [[|]|]; try discriminate; [| reflexivity].
    destruct (frag_last D n); [discriminate | reflexivity].
  Qed.
  Lemma cycle_step_bad pi st n : cycle_ok pi n = false -> ~ clean (cycle_step pi st n).
  Proof.
    unfold cycle_ok, cycle_step. destruct (cycle_search pi D (graph_fuel D) n [n] []) as [[|]|]; try discriminate.
    - destruct (frag_last D n); [intros _; apply add_errs_not_clean | discriminate].
    - intros _. apply set_abort_not_clean.
  Qed.
  Lemma cycle_ok_order n : cycle_ok pi1 n = cycle_ok pi2 n.
  Proof. unfold cycle_ok. rewrite (cycle_search_order pi1 pi2 Hpi1 Hpi2 D n). reflexivity. Qed.

  Lemma cycle_fold_stack pi l : forall st, r_stack (fold_left (cycle_step pi) l st) = r_stack st.
  Proof.
    induction l as [|n l IH]; intros st; [reflexivity |]. simpl. rewrite IH. unfold cycle_step.
    destruct (cycle_search pi D (graph_fuel D) n [n] []) as [[|]|]; try reflexivity. destruct (frag_last D n); reflexivity.
  Qed.

  Lemma clean_rst0 st : clean st -> r_stack st = [] -> st = rst0.
  Proof. destruct st as [e s a]. unfold clean. simpl. intros [-> ->] ->. reflexivity. Qed.

  Lemma rule_fragment_spreads_eq pi :
    rule_fragment_spreads q pi S F D =
    finish (inspect (spreads_enter q pi S F D) pop (tree_doc D)
                    (fold_left (cycle_step pi) (pi _ (dedup (frag_names D))) rst0)).
  Proof. reflexivity. Qed.

  Lemma rule_fragment_spreads_half pa pb (Ha : order_ok pa) (Hb : order_ok pb) :
    (forall n, cycle_ok pa n = cycle_ok pb n) ->
    (forall st n, spreads_enter q pa S F D st n = spreads_enter q pb S F D st n) ->
    rule_fragment_spreads q pa S F D = Done [] -> rule_fragment_spreads q pb S F D = Done [].
  Proof.
    intros Hc He. rewrite !rule_fragment_spreads_eq, !finish_clean. intros H.
    set (sa := fold_left (cycle_step pa) (pa _ (dedup (frag_names D))) rst0) in *.
    set (sb := fold_left (cycle_step pb) (pb _ (dedup (frag_names D))) rst0).
    assert (clean sa) as Hsa.
    { destruct (classic_clean sa) as [Hc' | Hd]; [exact Hc' |]. exfalso.
      apply (inspect_dirty (fun st => ~ clean st) (spreads_enter q pa S F D) pop (tree_doc D)
                           (spreads_enter_dirty pa) pop_dirty sa Hd). exact H. }
    assert (clean sb) as Hsb.
    { unfold sa, sb in *. rewrite (fold_guard (cycle_ok pa) (cycle_step pa) _ (cycle_step_ok pa) (cycle_step_bad pa)) in Hsa.
      rewrite (fold_guard (cycle_ok pb) (cycle_step pb) _ (cycle_step_ok pb) (cycle_step_bad pb)).
      destruct Hsa as [H0 H1]. split; [exact H0 |]. intros n Hn. rewrite <- Hc. apply H1.
      apply (proj2 (order_in pa Ha _ _)). apply (proj1 (order_in pb Hb _ _)) in Hn. exact Hn. }
    assert (sa = rst0) as Ea by (apply clean_rst0; [exact Hsa | apply cycle_fold_stack]).
    assert (sb = rst0) as Eb by (apply clean_rst0; [exact Hsb | apply cycle_fold_stack]).
    rewrite Eb. rewrite Ea in H. rewrite <- (inspect_ext _ _ pop (tree_doc D) He). exact H.
  Qed.
End FragmentsRule.

(** ** validateVariables *)
Lemma clean_add_errs st l : clean (add_errs st l) <-> clean st /\ l = [].
Proof.
  unfold clean, add_errs. simpl. split.
  - intros [H1 H2]. apply app_eq_nil in H1 as [H1 H1']. auto.
  - intros [[H1 H2] ->]. rewrite H1. auto.
Qed.

Section VariablesRule.
  Variable S : schema.
  Variable D : document.

  (** what an operation needs, said without any traversal order *)
  Definition vars_fine (d : definition) : Prop :=
    match d with
    | DFrag _ _ _ _ _ _ => True
    | DOp _ _ vars _ _ =>
        vardefs_loop S vars [] = [] /\
        flat_map (var_fe vars) (body0 d) = [] /\
        (forall x, reached D d x -> flat_map (var_fe vars) (body D x) = []) /\
        (forall v, In v vars ->
                   In (vd_name v) (flat_map var_fn (body0 d)) \/
                   exists x, reached D d x /\ In (vd_name v) (flat_map var_fn (body D x)))
    end.

  Lemma vars_op_iff pi (Hpi : order_ok pi) st d :
    In d D -> (clean (vars_op pi S D st d) <-> clean st /\ vars_fine d).
  Proof.
    intros Hd. destruct d as [ot n vars dirs sub | kw n np cond dirs sub]; [| simpl; tauto].
    unfold vars_op. rewrite vars_inspect.
    change {| v_errs := []; v_enc := []; v_unval := []; v_val := [] |} with vst0.
    fold (body0 (DOp ot n vars dirs sub)).
    set (d := DOp ot n vars dirs sub) in *.
    destruct (worklist_spec D vars d Hd pi Hpi (graph_fuel D) _ (inv_init D vars d)) as [st' [E [I Hu]]].
    { assert (v_val (fold_left (vstep vars) (body0 d) vst0) = []) as -> by (rewrite vfold_val; reflexivity).
      unfold graph_fuel. simpl. lia. }
    rewrite E, !clean_add_errs. unfold vars_fine, d at 1. fold d.
    assert (forall (a b : list verror), a ++ b = [] <-> a = [] /\ b = []) as Happ.
    { intros a b. split; [apply app_eq_nil | intros [-> ->]; reflexivity]. }
    rewrite Happ, flat_map_nil_iff, (inv_errs D vars d st' I).
    pose proof (inv_final D vars d st' I Hu) as Hf. pose proof (inv_enc D vars d st' I) as He.
    split.
    - intros [[Hc H1] [[H2 H3] H4]]. split; [exact Hc |]. split; [exact H1 |]. split; [exact H2 |]. split.
      + intros x Hx. apply H3, Hf, Hx.
      + intros v Hv. specialize (H4 v Hv). destruct (mem (vd_name v) (v_enc st')) eqn:Em; [| discriminate].
        apply mem_in, He in Em as [Em | [x [Hx Em]]]; [left; exact Em | right; exists x; split; [apply Hf; exact Hx | exact Em]].
    - intros [Hc [H1 [H2 [H3 H4]]]]. split; [split; assumption |]. split; [split; [exact H2 |] |].
      + intros x Hx. apply H3, Hf, Hx.
      + intros v Hv. assert (In (vd_name v) (v_enc st')) as Hin.
        { apply He. destruct (H4 v Hv) as [H | [x [Hx H]]]; [left; exact H | right; exists x; split; [apply Hf; exact Hx | exact H]]. }
        apply mem_in in Hin. rewrite Hin. reflexivity.
  Qed.

  Lemma vars_fold_iff pi (Hpi : order_ok pi) l :
    incl l D -> forall st, clean (fold_left (vars_op pi S D) l st) <-> clean st /\ forall d, In d l -> vars_fine d.
  Proof.
    induction l as [|d l IH]; intros Hl st; simpl.
    - split; [intros H; split; [exact H | intros d []] | tauto].
    - rewrite IH by (intros x Hx; apply Hl; right; exact Hx).
      rewrite (vars_op_iff pi Hpi st d (Hl d (or_introl eq_refl))). split.
      + intros [[H1 H2] H3]. split; [exact H1 |]. intros x [<- | Hx]; auto.
      + intros [H1 H2]. split; [split; [exact H1 | apply H2; left; reflexivity] |]. intros x Hx. apply H2. right. exact Hx.
  Qed.

  Theorem rule_variables_fine pi (Hpi : order_ok pi) :
    rule_variables pi S D = Done [] <-> forall d, In d D -> vars_fine d.
  Proof.
    unfold rule_variables. rewrite finish_clean, (vars_fold_iff pi Hpi D (incl_refl D)).
    split; [tauto |]. intros H. split; [split; reflexivity | exact H].
  Qed.

  Theorem rule_variables_order pi1 pi2 (H1 : order_ok pi1) (H2 : order_ok pi2) :
    rule_variables pi1 S D = Done [] <-> rule_variables pi2 S D = Done [].
  Proof. rewrite (rule_variables_fine pi1 H1), (rule_variables_fine pi2 H2). tauto. Qed.
End VariablesRule.
