(** * Vld/Decode.v — s-expression -> schema / document (executable only; used by the C04 check). *)
From Coq Require Import List NArith ZArith Bool String.
From ApiFu Require Import Base.Sexp Vld.Ast.
Import ListNotations.
Local Open Scope string_scope.

Definition bind {A B} (o : option A) (f : A -> option B) : option B :=
  match o with Some x => f x | None => None end.
Notation "x <- e ;; k" := (bind e (fun x => k)) (at level 61, e at next level, right associativity).

Section MapO.
  Variables (A B : Type) (f : A -> option B).
  Fixpoint mapo (l : list A) : option (list B) :=
    match l with
    | [] => Some []
    | x :: xs => match f x, mapo xs with
                 | Some y, Some ys => Some (y :: ys)
                 | _, _ => None
                 end
    end.
End MapO.
Arguments mapo {A B} f l.

Definition dec_pos (s : sexp) : option pos :=
  match s with
  | SL [a; b] => l <- as_N a ;; c <- as_N b ;; Some (l, c)
  | _ => None
  end.

Definition dec_named (s : sexp) : option (name * pos) :=
  match s with
  | SL [n; a; b] => nm <- as_bytes n ;; l <- as_N a ;; c <- as_N b ;; Some (nm, (l, c))
  | _ => None
  end.

Definition dec_names (s : sexp) : option (list name) := as_list_of as_bytes s.

(** schema types *)
Fixpoint dec_sty (s : sexp) : option sty :=
  match s with
  | SL [SSym t; x] =>
      if String.eqb t "n" then n <- as_bytes x ;; Some (StNamed n)
      else if String.eqb t "l" then r <- dec_sty x ;; Some (StList r)
      else if String.eqb t "nn" then r <- dec_sty x ;; Some (StNonNull r)
      else None
  | _ => None
  end.

Definition dec_dflt (s : sexp) : option dflt :=
  if is_sym "none" s then Some DNone else if is_sym "null" s then Some DNull
  else if is_sym "value" s then Some DValue else None.

Definition dec_input_def (s : sexp) : option (name * input_def) :=
  match s with
  | SL [n; t; d] => nm <- as_bytes n ;; ty <- dec_sty t ;; df <- dec_dflt d ;;
                    Some (nm, {| in_type := ty; in_default := df |})
  | _ => None
  end.

Definition dec_field_def (s : sexp) : option (name * field_def) :=
  match s with
  | SL [n; t; a; r] =>
      nm <- as_bytes n ;; ty <- dec_sty t ;; args <- as_list_of dec_input_def a ;; req <- dec_names r ;;
      Some (nm, {| f_type := ty; f_args := args; f_req := req |})
  | _ => None
  end.

Definition dec_vkind (s : sexp) : option vkind :=
  match as_sym s with
  | Some t =>
      if String.eqb t "var" then Some KVar else if String.eqb t "int" then Some KInt
      else if String.eqb t "float" then Some KFloat else if String.eqb t "str" then Some KString
      else if String.eqb t "bool" then Some KBool else if String.eqb t "null" then Some KNull
      else if String.eqb t "enum" then Some KEnum else if String.eqb t "list" then Some KList
      else if String.eqb t "obj" then Some KObject else None
  | None => None
  end.

Definition dec_scalar (s : sexp) : option scalar :=
  match s with
  | SSym t =>
      if String.eqb t "int" then Some SInt else if String.eqb t "float" then Some SFloat
      else if String.eqb t "string" then Some SString else if String.eqb t "boolean" then Some SBoolean
      else if String.eqb t "id" then Some SID else if String.eqb t "any" then Some (SCustom None)
      else None
  | SL (SSym t :: ks) =>
      if String.eqb t "custom" then l <- map_opt dec_vkind ks ;; Some (SCustom (Some l)) else None
  | _ => None
  end.

Definition dec_body (s : sexp) : option type_body :=
  match untag s with
  | Some (t, [x]) =>
      if String.eqb t "scalar" then k <- dec_scalar x ;; Some (TScalar k)
      else if String.eqb t "enum" then v <- dec_names x ;; Some (TEnum v)
      else if String.eqb t "input" then f <- as_list_of dec_input_def x ;; Some (TInput f)
      else if String.eqb t "interface" then f <- as_list_of dec_field_def x ;; Some (TInterface f)
      else if String.eqb t "union" then m <- dec_names x ;; Some (TUnion m)
      else None
  | Some (t, [x; y]) =>
      if String.eqb t "object" then f <- as_list_of dec_field_def x ;; i <- dec_names y ;; Some (TObject f i)
      else None
  | _ => None
  end.

Definition dec_type_def (s : sexp) : option (name * type_def) :=
  match s with
  | SL [n; r; b] => nm <- as_bytes n ;; req <- dec_names r ;; body <- dec_body b ;;
                    Some (nm, {| t_req := req; t_body := body |})
  | _ => None
  end.

Definition dec_dirloc (s : sexp) : option dirloc :=
  match as_sym s with
  | Some t =>
      Some (if String.eqb t "QUERY" then LQuery else if String.eqb t "MUTATION" then LMutation
            else if String.eqb t "SUBSCRIPTION" then LSubscription else if String.eqb t "FIELD" then LField
            else if String.eqb t "FRAGMENT_DEFINITION" then LFragmentDefinition
            else if String.eqb t "FRAGMENT_SPREAD" then LFragmentSpread
            else if String.eqb t "INLINE_FRAGMENT" then LInlineFragment else LOther)
  | None => None
  end.

Definition dec_dir_def (s : sexp) : option (name * dir_def) :=
  match s with
  | SL [n; a; l] => nm <- as_bytes n ;; args <- as_list_of dec_input_def a ;; locs <- as_list_of dec_dirloc l ;;
                    Some (nm, {| dd_args := args; dd_locs := locs |})
  | _ => None
  end.

Definition dec_impl (s : sexp) : option (name * list name) :=
  match s with
  | SL [n; l] => nm <- as_bytes n ;; ns <- dec_names l ;; Some (nm, ns)
  | _ => None
  end.

Definition dec_schema (s : sexp) : option schema :=
  match tagged "schema" s with
  | Some l =>
      ts <- field1 "types" l ;; types <- as_list_of dec_type_def ts ;;
      qs <- field1 "query" l ;; qn <- as_bytes qs ;;
      ms <- field1 "mutation" l ;; mn <- as_option as_bytes ms ;;
      ss <- field1 "subscription" l ;; sn <- as_option as_bytes ss ;;
      ds <- field1 "directives" l ;; dirs <- as_list_of dec_dir_def ds ;;
      mt <- field1 "meta" l ;; meta <- as_list_of dec_field_def mt ;;
      is <- field1 "impls" l ;; impls <- as_list_of dec_impl is ;;
      Some {| s_types := types; s_query := qn; s_mutation := mn; s_subscription := sn;
              s_directives := dirs; s_meta := meta; s_impls := impls |}
  | None => None
  end.

(** documents *)
Fixpoint dec_value (s : sexp) : option value :=
  match s with
  | SL (SSym t :: args) =>
      if String.eqb t "var" then
        match args with [n; d; np] => nm <- as_bytes n ;; dp <- dec_pos d ;; npp <- dec_pos np ;; Some (VVar no_vann nm dp npp) | _ => None end
      else if String.eqb t "int" then
        match args with [x; p] => b <- as_bytes x ;; pp <- dec_pos p ;; Some (VInt no_vann b pp) | _ => None end
      else if String.eqb t "float" then
        match args with [x; p] => b <- as_bytes x ;; pp <- dec_pos p ;; Some (VFloat no_vann b pp) | _ => None end
      else if String.eqb t "str" then
        match args with [x; p] => b <- as_bytes x ;; pp <- dec_pos p ;; Some (VString no_vann b pp) | _ => None end
      else if String.eqb t "bool" then
        match args with [x; p] => b <- as_bool x ;; pp <- dec_pos p ;; Some (VBool no_vann b pp) | _ => None end
      else if String.eqb t "null" then
        match args with [p] => pp <- dec_pos p ;; Some (VNull no_vann pp) | _ => None end
      else if String.eqb t "enum" then
        match args with [x; p] => b <- as_bytes x ;; pp <- dec_pos p ;; Some (VEnum no_vann b pp) | _ => None end
      else if String.eqb t "list" then
        match args with
        | p :: vs => pp <- dec_pos p ;; l <- mapo dec_value vs ;; Some (VList no_vann l pp)
        | _ => None
        end
      else if String.eqb t "obj" then
        match args with
        | p :: fs =>
            pp <- dec_pos p ;;
            l <- mapo (fun f => match f with
                                   | SL [n; np; v] => nm <- as_bytes n ;; npp <- dec_pos np ;; x <- dec_value v ;; Some (nm, npp, x)
                                   | _ => None
                                   end) fs ;;
            Some (VObject no_vann l pp)
        | _ => None
        end
      else None
  | _ => None
  end.

Fixpoint dec_ty (s : sexp) : option ty :=
  match s with
  | SL [SSym t; x; p] =>
      if String.eqb t "n" then n <- as_bytes x ;; pp <- dec_pos p ;; Some (TNamed n pp)
      else if String.eqb t "l" then r <- dec_ty x ;; pp <- dec_pos p ;; Some (TList r pp)
      else None
  | SL [SSym t; x] => if String.eqb t "nn" then r <- dec_ty x ;; Some (TNonNull r) else None
  | _ => None
  end.

Definition dec_arg (s : sexp) : option argument :=
  match s with
  | SL [n; p; v] => nm <- as_bytes n ;; pp <- dec_pos p ;; x <- dec_value v ;;
                    Some {| a_name := nm; a_pos := pp; a_value := x |}
  | _ => None
  end.

Definition dec_dir (s : sexp) : option directive :=
  match s with
  | SL [n; np; at_; a] => nm <- as_bytes n ;; npp <- dec_pos np ;; ap <- dec_pos at_ ;; args <- as_list_of dec_arg a ;;
                          Some {| d_name := nm; d_npos := npp; d_at := ap; d_args := args |}
  | _ => None
  end.

Fixpoint dec_sel (s : sexp) : option selection :=
  match s with
  | SL (SSym t :: args) =>
      if String.eqb t "field" then
        match args with
        | [al; n; np; a; d; sub] =>
            alias <- as_option dec_named al ;; nm <- as_bytes n ;; npp <- dec_pos np ;;
            aa <- as_list_of dec_arg a ;; dd <- as_list_of dec_dir d ;;
            sb <- match sub with
                  | SL [SSym o; x] => if String.eqb o "some" then r <- dec_ss x ;; Some (Some r) else None
                  | _ => Some None
                  end ;;
            Some (SField None alias nm npp aa dd sb)
        | _ => None
        end
      else if String.eqb t "spread" then
        match args with
        | [n; np; d; e] => nm <- as_bytes n ;; npp <- dec_pos np ;; dd <- as_list_of dec_dir d ;; ep <- dec_pos e ;;
                           Some (SSpread nm npp dd ep)
        | _ => None
        end
      else if String.eqb t "inline" then
        match args with
        | [c; d; sub; e] => cond <- as_option dec_named c ;; dd <- as_list_of dec_dir d ;; sb <- dec_ss sub ;; ep <- dec_pos e ;;
                            Some (SInline cond dd sb ep)
        | _ => None
        end
      else None
  | _ => None
  end
with dec_ss (s : sexp) : option selset :=
  match s with
  | SL (SSym t :: p :: sels) =>
      if String.eqb t "ss" then pp <- dec_pos p ;; l <- mapo dec_sel sels ;; Some (SelSet None l pp) else None
  | _ => None
  end.

Definition dec_vardef (s : sexp) : option vardef :=
  match s with
  | SL [n; d; np; t; dv] =>
      nm <- as_bytes n ;; dp <- dec_pos d ;; npp <- dec_pos np ;; tt <- dec_ty t ;; df <- as_option dec_value dv ;;
      Some {| vd_ann := None; vd_name := nm; vd_dollar := dp; vd_npos := npp; vd_type := tt; vd_default := df |}
  | _ => None
  end.

Definition dec_def (s : sexp) : option definition :=
  match untag s with
  | Some (t, [ot; n; vs; ds; sub]) =>
      if String.eqb t "op" then
        o <- as_option dec_named ot ;; nm <- as_option dec_named n ;; vars <- as_list_of dec_vardef vs ;;
        dd <- as_list_of dec_dir ds ;; sb <- dec_ss sub ;; Some (DOp o nm vars dd sb)
      else None
  | Some (t, [kw; n; np; c; ds; sub]) =>
      if String.eqb t "frag" then
        k <- dec_pos kw ;; nm <- as_bytes n ;; npp <- dec_pos np ;; cond <- dec_named c ;;
        dd <- as_list_of dec_dir ds ;; sb <- dec_ss sub ;; Some (DFrag k nm npp cond dd sb)
      else None
  | _ => None
  end.

Definition dec_doc (s : sexp) : option document :=
  match tagged "doc" s with
  | Some l => map_opt dec_def l
  | None => None
  end.
