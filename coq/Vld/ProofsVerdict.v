(** * Vld/ProofsVerdict.v — validate_verdict: under the decidable hypotheses on the schema and on the
    positions of the document, the validator as it is (with the checked-pairs memo) accepts a document
    exactly when it is valid in the sense of the Spec, every section of chapter 5.
    "only if": ProofsValid.  "if": ProofsComplete up to the overlapping-fields pass, which is
    ProofsMergeComplete once its hypotheses are read off the other sections. *)
From Coq Require Import List NArith Arith Bool Lia.
From ApiFu Require Import Base.Sexp Vld.Ast Vld.Inspect Vld.InspectProofs Vld.TypeInfoModel Vld.TypeInfoPure Vld.Enumerate Vld.SpecEnum
     Vld.ValidatorModel Vld.ValidSpec Vld.Hyps Vld.ProofsCommon Vld.ProofsCycles Vld.ProofsDirectives Vld.ProofsArguments Vld.ProofsFragDecl Vld.ProofsValues
     Vld.ProofsTotal Vld.ProofsFields Vld.ProofsSpreads Vld.ProofsDepth Vld.ProofsMemo Vld.ValidatorProofs Vld.MemoEquiv Vld.MemoTransfer
     Vld.ProofsSecondary Vld.ProofsSecondaryRules Vld.ProofsSecondaryAll Vld.ProofsSpecReach Vld.ProofsSpreadsSpec Vld.ProofsFieldsConverse Vld.ProofsSubscription
     Vld.ProofsMergeLocal Vld.ProofsMergeSpec Vld.ProofsComplete Vld.ProofsValid Vld.ProofsMergeComplete.
Import ListNotations.

(** ** 5.3.2 and the sections it leans on => the overlapping-fields pass is silent *)
Theorem valid_merge_pass_silent pi S F D :
  order_ok pi -> schema_ok S = true -> schema_types_wf S = true ->
  valid_root S D = true -> valid_5_3_1 S F D = true -> valid_5_3_3 S F D = true -> valid_5_4_2 S F D = true ->
  valid_5_5_1 S F D = true -> valid_5_5_2_1 D = true -> valid_5_5_2_2 D = true ->
  valid_5_3_2 S F D = true ->
  rule_fields_m repaired pi S F (pti_doc (q_unwrap_obj repaired) S F D) = Done [].
Proof.
  intros Hpi Hs Hwf V3 V4 V5 H542 V7 V8 V9 H532.
  pose proof Hs as Hs'. unfold schema_ok in Hs'. apply andb_true_iff in Hs' as [Hs' Hs3]. apply andb_true_iff in Hs' as [Hs1 _].
  pose proof (schema_no_typename_spec S F Hs1) as Hnt.
  assert (composite_name S n_String = false) as Hstr.
  { unfold schema_roots_ok in Hs3. rewrite !andb_true_iff in Hs3. destruct Hs3 as [_ H]. apply negb_true_iff in H. exact H. }
  destruct (fields_valid_silent S F D Hs V3 V7 V4 V5) as [Hgood Hpass].
  pose proof (silent_fields_known S F D Hnt Hstr Hgood Hpass) as Hfk.
  assert (NoDup (frag_names D)) as Hnd.
  { unfold valid_5_5_1 in V7. rewrite !andb_true_iff in V7. destruct V7 as [[[H1 _] _] _]. apply nodupb_NoDup. exact H1. }
  set (A := pti_doc (q_unwrap_obj repaired) S F D).
  apply (rule_fields_m_accepts pi Hpi S F D Hnd (field_of_scope_types_wf S F Hwf) (spreads_defined_pti S F D V8)); try assumption.
  - (* every field is annotated, in a set with a parent type *)
    intros a sels p fa al n np args dirs sub Hss Hin.
    destruct (all_subs_pti_occ (q_unwrap_obj repaired) S F D a sels p _ Hss Hin) as [d [s0 [Hd [Ho Heq]]]].
    destruct s0 as [fa0 al0 n0 np0 args0 dirs0 sub0 | |]; try discriminate Heq.
    rewrite pti_sel_field_eq in Heq. inversion Heq; subst fa al n np. clear Heq.
    assert (In {| fo_parent := a; fo_field := SField fa0 al0 n0 np0 args0 dirs0 sub0 |} (all_fields S F D)) as Hof.
    { apply all_fields_enum. exists d, a, (SField fa0 al0 n0 np0 args0 dirs0 sub0). repeat split; assumption. }
    specialize (Hfk _ Hof). unfold fo_def in Hfk. cbn [fo_parent fo_field] in Hfk. destruct a as [tn|]; [| congruence].
    split; [discriminate |]. unfold field_def_of in Hfk. change s_typename with n_typename in Hfk.
    destruct (name_eqb n0 n_typename); [left; reflexivity | right]. rewrite declared_field_eq in Hfk. exact Hfk.
  - unfold A. rewrite frag_names_pti. exact Hnd.
  - (* no cycle of spreads *)
    intros n Hn Hcyc. unfold A in Hn. rewrite frag_names_pti in Hn. apply (model_cycle_spec S F D Hnd n) in Hcyc.
    unfold valid_5_5_2_2 in V9. rewrite forallb_forall in V9. specialize (V9 n Hn). apply negb_true_iff, mem_false in V9. contradiction.
Qed.

(** ** validate_verdict *)
Theorem validate_verdict pi S F D :
  order_ok pi ->
  schema_ok S = true -> schema_args_ok S = true -> schema_impls_ok S = true -> schema_defaults_ok S = true -> schema_types_wf S = true ->
  doc_set_positions_distinct D -> doc_field_positions_distinct D ->
  (validate_model_memo repaired pi S F D = Done [] <-> Valid S F D).
Proof.
  intros Hpi Hs Hargs Himpl Hdef Hwf Hpos Hfpos. split; [apply (memo_accepted_Valid pi S F D Hpi Hs Hargs Himpl Hdef Hwf Hpos Hfpos) |].
  intros H. unfold Valid, valid_all in H. rewrite !andb_true_iff in H.
  destruct H as [[[[[[[[[[[[[[[[[[[[[[[[[[[[[_ A1] A2] A3] A18] A4] A19] A5] B1] B2] B3] C1] C2] C3] C4] A8] A9] A17] D1] D2] D3] D4] E1] E2] E3] A12] A13] A14] A15] A16].
  assert (valid_5_5_1 S F D = true) as V7 by (unfold valid_5_5_1; rewrite C1, C2, C3, C4; reflexivity).
  apply (verdict_up_to_merge pi S F D Hpi Hs Hargs Himpl Hdef Hpos). split; [| split; [exact A18 |]].
  - unfold sections_but_two. repeat split; try assumption.
    + unfold ProofsArguments.valid_5_4. rewrite B1, B2, B3. reflexivity.
    + unfold ProofsValues.valid_5_6. rewrite D1, D2, D3, D4. reflexivity.
    + unfold valid_5_7. rewrite E1, E2, E3. reflexivity.
  - intros e2 R2. rewrite (valid_merge_pass_silent pi S F D Hpi Hs Hwf A3 A4 A5 B2 V7 A8 A9 A19) in R2. apply Done_inj in R2. subst e2. reflexivity.
Qed.

(** the same for the pipeline without the checked-pairs memo (the code before 92e8fdd) *)
Theorem validate_verdict_plain pi S F D :
  order_ok pi ->
  schema_ok S = true -> schema_args_ok S = true -> schema_impls_ok S = true -> schema_defaults_ok S = true -> schema_types_wf S = true ->
  doc_set_positions_distinct D -> doc_field_positions_distinct D ->
  (validate_model repaired pi S F D = Done [] <-> Valid S F D).
Proof.
  intros Hpi Hs Hargs Himpl Hdef Hwf Hpos Hfpos. rewrite <- (validate_memo_iff_parsed pi S F D Hpi Hfpos).
  apply (validate_verdict pi S F D Hpi Hs Hargs Himpl Hdef Hwf Hpos Hfpos).
Qed.

(** an invalid document is rejected: the validator returns a non-empty list of errors *)
Theorem invalid_rejected pi S F D :
  order_ok pi ->
  schema_ok S = true -> schema_args_ok S = true -> schema_impls_ok S = true -> schema_defaults_ok S = true -> schema_types_wf S = true ->
  doc_set_positions_distinct D -> doc_field_positions_distinct D ->
  valid_all S F D = false -> exists e errs, validate_model_memo repaired pi S F D = Done (e :: errs).
Proof.
  intros Hpi Hs Hargs Himpl Hdef Hwf Hpos Hfpos Hinv. destruct (validate_memo_no_panic pi S F D Hpi) as [errs Hv].
  destruct errs as [|e errs]; [| exists e, errs; exact Hv].
  apply (validate_verdict pi S F D Hpi Hs Hargs Himpl Hdef Hwf Hpos Hfpos) in Hv. unfold Valid in Hv. congruence.
Qed.
