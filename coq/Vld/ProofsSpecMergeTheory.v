(** * Vld/ProofsSpecMergeTheory.v — the Spec's SameResponseShape and FieldsInSetCanMerge as wholes:
    symmetric in the two fields, insensitive to the order in which two collections are appended, and
    monotone in the fuel. *)
From Coq Require Import List NArith Arith Bool Lia.
From ApiFu Require Import Base.Sexp Vld.Ast Vld.TypeInfoModel Vld.ValidSpec Vld.ProofsCommon Vld.ProofsVarsSpec Vld.ProofsMergeLocal Vld.ProofsSpecSym Vld.ProofsMergeSpec.
Import ListNotations.

(** ** all pairs of a list *)
Lemma all_pairs_app {X} (P : X -> X -> bool) l1 l2 :
  all_pairs P (l1 ++ l2) = all_pairs P l1 && all_pairs P l2 && forallb (fun x => forallb (P x) l2) l1.
Proof.
  induction l1 as [|x r IH]; cbn [app all_pairs forallb]; [rewrite andb_true_r; reflexivity |].
  rewrite IH, forallb_app. destruct (forallb (P x) r), (forallb (P x) l2), (all_pairs P r), (all_pairs P l2); reflexivity.
Qed.
Lemma forallb_swap {X} (P : X -> X -> bool) l1 l2 :
  (forall x y, P x y = P y x) -> forallb (fun x => forallb (P x) l2) l1 = forallb (fun y => forallb (P y) l1) l2.
Proof.
  intros Hs. induction l1 as [|x r IH]; cbn [forallb].
  - induction l2 as [|y r2 IH2]; [reflexivity | cbn [forallb]; exact IH2].
  - rewrite IH. clear IH. induction l2 as [|y r2 IH2]; [reflexivity |]. cbn [forallb]. rewrite <- IH2, (Hs y x).
    destruct (P x y), (forallb (P x) r2), (forallb (P y) r), (forallb (fun y0 => forallb (P y0) r) r2); reflexivity.
Qed.
Lemma all_pairs_comm {X} (P : X -> X -> bool) l1 l2 :
  (forall x y, P x y = P y x) -> all_pairs P (l1 ++ l2) = all_pairs P (l2 ++ l1).
Proof. intros Hs. rewrite !all_pairs_app, (forallb_swap P l1 l2 Hs). destruct (all_pairs P l1), (all_pairs P l2); reflexivity. Qed.
Lemma all_pairs_ext {X} (P Q : X -> X -> bool) l : (forall x y, P x y = Q x y) -> all_pairs P l = all_pairs Q l.
Proof. intros H. induction l as [|x r IH]; [reflexivity |]. cbn [all_pairs]. rewrite IH. f_equal. apply forallb_ext'. intros y. apply H. Qed.
Lemma all_pairs_mono {X} (P Q : X -> X -> bool) l : (forall x y, P x y = true -> Q x y = true) -> all_pairs P l = true -> all_pairs Q l = true.
Proof.
  intros H. induction l as [|x r IH]; [reflexivity |]. cbn [all_pairs]. rewrite !andb_true_iff, !forallb_forall. intros [H1 H2].
  split; [intros y Hy; apply H, H1, Hy | apply IH, H2].
Qed.
Lemma all_pairs_In {X} (P : X -> X -> bool) l : all_pairs P l = true -> forall a b, In a l -> In b l -> a = b \/ P a b = true \/ P b a = true.
Proof.
  induction l as [|x r IH]; intros H a b Ha Hb; [destruct Ha |]. cbn [all_pairs] in H. apply andb_true_iff in H as [H1 H2]. rewrite forallb_forall in H1.
  destruct Ha as [<- | Ha], Hb as [<- | Hb]; [left; reflexivity | right; left; apply H1, Hb | right; right; apply H1, Ha | apply (IH H2 a b Ha Hb)].
Qed.

Section Theory.
  Variable S : schema.
  Variable F : features.
  Variable D : document.
  Notation srs := (same_response_shape S F D).
  Notation fcm := (fields_can_merge S F D).
  Notation sub := (cf_sub S F D).

  Lemma same_resp_sym p q : same_resp p q = same_resp q p.
  Proof. unfold same_resp. apply name_eqb_sym. Qed.

  Definition shp (f : nat) (p q : cfield) : bool := if same_resp p q then srs f p q else true.
  Definition overlap (px py : name) : bool := name_eqb px py || negb (is_object S px) || negb (is_object S py).
  Definition rest (f : nat) (p q : cfield) : bool :=
    match snd p, snd q with
    | Some px, Some py =>
        if overlap px py then name_eqb (cf_name p) (cf_name q) && same_args (cf_args p) (cf_args q) && fcm f (sub p ++ sub q) else true
    | _, _ => true
    end.
  Definition mrg (f : nat) (p q : cfield) : bool := if same_resp p q then srs (Datatypes.S f) p q && rest f p q else true.

  Lemma srs_unfold f x y :
    srs (Datatypes.S f) x y =
    match cf_def S F x, cf_def S F y with
    | Some dx, Some dy =>
        match strip_shape (f_type dx) (f_type dy) with
        | None => false
        | Some (a, b) => if leaf_sty S a || leaf_sty S b then sty_eqb a b else all_pairs (shp f) (sub x ++ sub y)
        end
    | _, _ => true
    end.
  Proof. reflexivity. Qed.
  Lemma fcm_unfold f l : fcm (Datatypes.S f) l = all_pairs (mrg f) l.
  Proof. reflexivity. Qed.

  Lemma strip_sym_opt a b : strip_shape b a = match strip_shape a b with Some (x, y) => Some (y, x) | None => None end.
  Proof.
    destruct (strip_shape a b) as [[x y]|] eqn:E; [apply (strip_shape_sym a b x y E) |].
    destruct (strip_shape b a) as [[y x]|] eqn:E'; [| reflexivity]. apply strip_shape_sym in E'. congruence.
  Qed.

  (** ** symmetry *)
  Lemma srs_sym f : forall x y, srs f x y = srs f y x.
  Proof.
    induction f as [|f IH]; intros x y; [reflexivity |]. rewrite !srs_unfold.
    destruct (cf_def S F x) as [dx|], (cf_def S F y) as [dy|]; try reflexivity.
    rewrite (strip_sym_opt (f_type dx) (f_type dy)). destruct (strip_shape (f_type dx) (f_type dy)) as [[a b]|]; [| reflexivity].
    rewrite (orb_comm (leaf_sty S b)), (sty_eqb_sym b a). destruct (leaf_sty S a || leaf_sty S b); [reflexivity |].
    apply all_pairs_comm. intros p q. unfold shp. rewrite (same_resp_sym p q), (IH p q). reflexivity.
  Qed.

  Lemma overlap_sym px py : overlap px py = overlap py px.
  Proof. unfold overlap. rewrite (name_eqb_sym px py). destruct (name_eqb py px), (is_object S px), (is_object S py); reflexivity. Qed.

  Lemma fcm_comm f : forall l1 l2, fcm f (l1 ++ l2) = fcm f (l2 ++ l1).
  Proof.
    induction f as [|f IH]; intros l1 l2; [reflexivity |]. rewrite !fcm_unfold. apply all_pairs_comm. intros p q. unfold mrg.
    rewrite (same_resp_sym p q), (srs_sym _ p q). destruct (same_resp q p); [| reflexivity]. f_equal.
    unfold rest. destruct (snd p) as [px|], (snd q) as [py|]; try reflexivity. rewrite (overlap_sym px py). destruct (overlap py px); [| reflexivity].
    rewrite (name_eqb_sym (cf_name p)), (same_args_sym (cf_args p)), (IH (sub p) (sub q)). reflexivity.
  Qed.
  Lemma rest_sym f p q : rest f p q = rest f q p.
  Proof.
    unfold rest. destruct (snd p) as [px|], (snd q) as [py|]; try reflexivity. rewrite (overlap_sym px py). destruct (overlap py px); [| reflexivity].
    rewrite (name_eqb_sym (cf_name p)), (same_args_sym (cf_args p)), (fcm_comm f (sub p) (sub q)). reflexivity.
  Qed.
  Lemma mrg_sym f p q : mrg f p q = mrg f q p.
  Proof. unfold mrg. rewrite (same_resp_sym p q), (srs_sym _ p q), (rest_sym f p q). reflexivity. Qed.

  (** ** more fuel does no harm *)
  Lemma srs_mono f : forall x y, srs f x y = true -> srs (Datatypes.S f) x y = true.
  Proof.
    induction f as [|f IH]; intros x y H; [discriminate H |]. rewrite srs_unfold in *.
    destruct (cf_def S F x) as [dx|], (cf_def S F y) as [dy|]; try reflexivity.
    destruct (strip_shape (f_type dx) (f_type dy)) as [[a b]|]; [| discriminate H]. destruct (leaf_sty S a || leaf_sty S b); [exact H |].
    revert H. apply all_pairs_mono. intros p q. unfold shp. destruct (same_resp p q); [apply IH | reflexivity].
  Qed.
  Lemma srs_mono_le f f' x y : f <= f' -> srs f x y = true -> srs f' x y = true.
  Proof. intros Hle H. induction Hle as [|f' _ IH]; [exact H | apply srs_mono, IH]. Qed.

  Lemma fcm_mono f : forall l, fcm f l = true -> fcm (Datatypes.S f) l = true.
  Proof.
    induction f as [|f IH]; intros l H; [discriminate H |]. rewrite fcm_unfold in *. revert H. apply all_pairs_mono. intros p q. unfold mrg.
    destruct (same_resp p q); [| reflexivity]. rewrite !andb_true_iff. intros [H1 H2]. split; [apply srs_mono, H1 |].
    unfold rest in *. destruct (snd p) as [px|], (snd q) as [py|]; try reflexivity. destruct (overlap px py); [| reflexivity].
    rewrite !andb_true_iff in *. destruct H2 as [[H2 H3] H4]. split; [split; assumption | apply IH, H4].
  Qed.
  Lemma fcm_mono_le f f' l : f <= f' -> fcm f l = true -> fcm f' l = true.
  Proof. intros Hle H. induction Hle as [|f' _ IH]; [exact H | apply fcm_mono, IH]. Qed.
  Lemma rest_mono_le f f' p q : f <= f' -> rest f p q = true -> rest f' p q = true.
  Proof.
    intros Hle. unfold rest. destruct (snd p) as [px|], (snd q) as [py|]; try reflexivity. destruct (overlap px py); [| reflexivity].
    rewrite !andb_true_iff. intros [[H2 H3] H4]. split; [split; assumption | apply (fcm_mono_le f f' _ Hle H4)].
  Qed.
End Theory.
