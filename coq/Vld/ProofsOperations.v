(** * Vld/ProofsOperations.v — validateOperations is silent iff operation names are unique
    (5.2.1.1), an anonymous operation is alone (5.2.2.1), every operation has a root type, and every
    subscription collects exactly one response name (5.2.3.1, here still in the model's own terms:
    [addFieldSelections] succeeds with one entry — its equivalence with the Spec's CollectFields is
    part of the overlapping-fields work of stage 2). *)
From Coq Require Import List NArith Arith Bool Lia.
From ApiFu Require Import Base.Sexp Vld.Ast Vld.Inspect Vld.TypeInfoModel Vld.TypeInfoPure Vld.Enumerate Vld.SpecEnum
     Vld.ValidatorModel Vld.ValidSpec Vld.ProofsCommon Vld.ProofsOrder.
Import ListNotations.

Section Operations.
  Variable q : quirks.
  Variable A : document.

  (** the subscription clause, for one definition *)
  Definition sub_ok (d : definition) : bool :=
    match d with
    | DOp ot _ _ _ sub =>
        if is_subscription ot then
          match add_selections q A [] (Some sub) with
          | COk m _ => Nat.eqb (length m) 1
          | _ => false
          end
        else true
    | DFrag _ _ _ _ _ _ => true
    end.
  Definition root_ok (d : definition) : bool :=
    match d with
    | DOp _ _ _ _ sub => match ss_ann sub with Some _ => true | None => false end
    | DFrag _ _ _ _ _ _ => true
    end.
  Definition names_of (l : document) : list name :=
    flat_map (fun d => match d with DOp _ (Some (n, _)) _ _ _ => [n] | _ => [] end) l.
  Definition anon_count (l : document) : nat :=
    length (filter (fun d => match d with DOp _ None _ _ _ => true | _ => false end) l).

  Lemma ops_fold l : forall anon seen st,
    exists seen' st',
      fold_left (ops_step q A) l (anon, seen, st) = (anon + anon_count l, seen', st') /\
      (forall x, In x seen' <-> In x seen \/ In x (names_of l)) /\
      (clean st' <-> clean st /\ nodupb (names_of l) = true /\ (forall x, In x (names_of l) -> ~ In x seen) /\
                     forall d, In d l -> root_ok d = true /\ sub_ok d = true).
  Proof.
    induction l as [|d l IH]; intros anon seen st.
    - exists seen, st. simpl. rewrite Nat.add_0_r. split; [reflexivity |]. split; [tauto |].
      split; [intros H; split; [exact H |]; split; [reflexivity |]; split; [intros x [] | intros d []] | tauto].
    - cbn [fold_left]. destruct d as [ot n vars dirs sub | kw n np cond dirs sub].
      2:{ cbn [ops_step]. destruct (IH anon seen st) as [seen' [st' [E [Hs Hc]]]]. exists seen', st'.
          split; [exact E |]. split; [exact Hs |]. rewrite Hc. simpl. split.
          - intros [H1 [H2 [H3 H4]]]. split; [exact H1 |]. split; [exact H2 |]. split; [exact H3 |].
            intros d [<- | Hd]; [split; reflexivity | apply H4; exact Hd].
          - intros [H1 [H2 [H3 H4]]]. split; [exact H1 |]. split; [exact H2 |]. split; [exact H3 |].
            intros d Hd. apply H4. right. exact Hd. }
      (* an operation *)
      set (d := DOp ot n vars dirs sub).
      assert (exists anon1 seen1 st3,
                 ops_step q A (anon, seen, st) d = (anon1, seen1, st3) /\
                 anon1 = anon + anon_count [d] /\
                 (forall x, In x seen1 <-> In x seen \/ In x (names_of [d])) /\
                 (clean st3 <-> clean st /\ (forall x, In x (names_of [d]) -> ~ In x seen) /\ root_ok d = true /\ sub_ok d = true)) as Hstep.
      { unfold d. cbn [ops_step].
        (* name *)
        set (r1 := match n with
                   | None => (Datatypes.S anon, seen, st)
                   | Some (nm, p) => if mem nm seen then (anon, seen, add_errs st [err EOpDupName p]) else (anon, nm :: seen, st)
                   end).
        assert (exists anon1 seen1 st1, r1 = (anon1, seen1, st1) /\ anon1 = anon + anon_count [DOp ot n vars dirs sub] /\
                                        (forall x, In x seen1 <-> In x seen \/ In x (names_of [DOp ot n vars dirs sub])) /\
                                        (clean st1 <-> clean st /\ forall x, In x (names_of [DOp ot n vars dirs sub]) -> ~ In x seen)) as [anon1 [seen1 [st1 [E1 [Ha [Hs H1]]]]]].
        { unfold r1. destruct n as [[nm p]|].
          - destruct (mem nm seen) eqn:Em.
            + apply mem_in in Em. exists anon, seen, (add_errs st [err EOpDupName p]). split; [reflexivity |]. unfold anon_count, names_of. simpl.
              split; [lia |]. split; [intros x; split; [tauto | intros [H | [<- | []]]; assumption] |].
              split; [intros H; exfalso; exact (add_errs_not_clean _ _ _ H) | intros [_ H]; exfalso; apply (H nm); [left; reflexivity | exact Em]].
            + apply mem_false in Em. exists anon, (nm :: seen), st. split; [reflexivity |]. unfold anon_count, names_of. simpl. split; [lia |].
              split; [intros x; tauto |]. split; [intros H; split; [exact H | intros x [<- | []]; exact Em] | tauto].
          - exists (Datatypes.S anon), seen, st. split; [reflexivity |]. unfold anon_count, names_of. simpl. split; [lia |]. split; [intros x; tauto |].
            split; [intros H; split; [exact H | intros x []] | tauto]. }
        rewrite E1.
        (* root type *)
        set (st2 := match ss_ann sub with None => add_errs st1 [err EOpUnsupported (def_pos (DOp ot n vars dirs sub))] | Some _ => st1 end).
        assert (clean st2 <-> clean st1 /\ root_ok (DOp ot n vars dirs sub) = true) as H2.
        { unfold st2, root_ok. destruct (ss_ann sub).
          - tauto.
          - split; [intros H; exfalso; exact (add_errs_not_clean _ _ _ H) | intros [_ H]; discriminate]. }
        (* subscription *)
        set (st3 := if is_subscription ot then
                      match add_selections q A [] (Some sub) with
                      | CErr e => add_errs st2 [e]
                      | CFuel => set_abort st2 AFuel
                      | COk m _ => if Nat.eqb (length m) 1 then st2 else add_errs st2 [err EOpSubscriptionRoots (def_pos (DOp ot n vars dirs sub))]
                      end
                    else st2).
        assert (clean st3 <-> clean st2 /\ sub_ok (DOp ot n vars dirs sub) = true) as H3.
        { unfold st3, sub_ok. destruct (is_subscription ot); [| tauto].
          destruct (add_selections q A [] (Some sub)) as [m v | e |].
          - destruct (Nat.eqb (length m) 1); [tauto |].
            split; [intros H; exfalso; exact (add_errs_not_clean _ _ _ H) | intros [_ H]; discriminate].
          - split; [intros H; exfalso; exact (add_errs_not_clean _ _ _ H) | intros [_ H]; discriminate].
          - split; [intros H; exfalso; exact (set_abort_not_clean _ _ H) | intros [_ H]; discriminate]. }
        exists anon1, seen1, st3. split; [reflexivity |]. split; [exact Ha |]. split; [exact Hs |].
        rewrite H3, H2, H1. tauto. }
      destruct Hstep as [anon1 [seen1 [st3 [E [Ha [Hs Hc]]]]]]. rewrite E.
      destruct (IH anon1 seen1 st3) as [seen' [st' [E' [Hs' Hc']]]]. exists seen', st'.
      split.
      { rewrite E', Ha. f_equal. f_equal. unfold anon_count. simpl. destruct n as [[nm p]|]; simpl; lia. }
      split.
      assert (names_of (d :: l) = names_of [d] ++ names_of l) as En by (unfold names_of; simpl; rewrite app_nil_r; reflexivity).
      { intros x. rewrite Hs', Hs, En, in_app_iff. tauto. }
      rewrite Hc', Hc.
      assert (names_of (d :: l) = names_of [d] ++ names_of l) as En by (unfold names_of; simpl; rewrite app_nil_r; reflexivity).
      rewrite En.
      assert (nodupb (names_of [d] ++ names_of l) = true <->
              nodupb (names_of l) = true /\ forall x, In x (names_of [d]) -> ~ In x (names_of l)) as Hnd.
      { unfold d, names_of at 1 3. simpl. destruct n as [[nm p]|]; simpl.
        - rewrite andb_true_iff, negb_true_iff, mem_false. split; [intros [H1 H2]; split; [exact H2 | intros x [<- | []]; exact H1] | intros [H1 H2]; split; [apply H2; left; reflexivity | exact H1]].
        - split; [intros H; split; [exact H | intros x []] | tauto]. }
      rewrite Hnd. split.
      + intros [[H1 [H2 [H3 H4]]] [H5 [H6 H7]]]. split; [exact H1 |]. split; [split; [exact H5 |] |]. 2: split.
        * intros x Hx Hin. apply (H6 x Hin). apply Hs. right. exact Hx.
        * intros x Hx. apply in_app_or in Hx as [Hx | Hx]; [apply H2; exact Hx |].
          intros Hin. apply (H6 x Hx). apply Hs. left. exact Hin.
        * intros d' [<- | Hd']; [split; assumption | apply H7; exact Hd'].
      + intros [H1 [[H2 H3] [H4 H5]]]. split; [split; [exact H1 |]; split; [| split] |].
        * intros x Hx. apply H4. apply in_or_app. left. exact Hx.
        * apply H5. left. reflexivity.
        * apply H5. left. reflexivity.
        * split; [exact H2 |]. split.
          -- intros x Hx Hin. apply Hs in Hin as [Hin | Hin]; [apply (H4 x); [apply in_or_app; right; exact Hx | exact Hin] | apply (H3 x Hin Hx)].
          -- intros d' Hd'. apply H5. right. exact Hd'.
  Qed.

  Definition ops_silent : Prop :=
    nodupb (names_of A) = true /\
    (anon_count A = 0 \/ length (filter is_op A) <= 1) /\
    forall d, In d A -> root_ok d = true /\ sub_ok d = true.

  Theorem rule_operations_silent : rule_operations q A = Done [] <-> ops_silent.
  Proof.
    unfold rule_operations, ops_silent.
    destruct (ops_fold A 0 [] rst0) as [seen' [st' [E [_ Hc]]]]. rewrite E. simpl Nat.add.
    rewrite finish_clean.
    assert (clean rst0) as H0 by (split; reflexivity).
    assert (clean st' <-> nodupb (names_of A) = true /\ forall d, In d A -> root_ok d = true /\ sub_ok d = true) as Hc2.
    { rewrite Hc. split.
      - intros [_ [H1 [_ H2]]]. split; assumption.
      - intros [H1 H2]. split; [exact H0 |]. split; [exact H1 |]. split; [intros x _ [] | exact H2]. }
    destruct (Nat.ltb 0 (anon_count A)) eqn:El.
    - apply Nat.ltb_lt in El. destruct (filter is_op A) as [|d1 [|d2 r]] eqn:Ef.
      + rewrite Hc2. split.
        * intros [H1 H2]. split; [exact H1 |]. split; [right; simpl; lia | exact H2].
        * intros [H1 [_ H2]]. split; assumption.
      + rewrite Hc2. split.
        * intros [H1 H2]. split; [exact H1 |]. split; [right; simpl; lia | exact H2].
        * intros [H1 [_ H2]]. split; assumption.
      + split; [intros H; exfalso; exact (add_errs_not_clean _ _ _ H) |].
        intros [_ [[H | H] _]]; simpl in H; lia.
    - apply Nat.ltb_ge in El. rewrite Hc2. split.
      + intros [H1 H2]. split; [exact H1 |]. split; [left; lia | exact H2].
      + intros [H1 [_ H2]]. split; assumption.
  Qed.
End Operations.

(** ** against the Spec *)
Section OperationsSpec.
  Variable S : schema.
  Variable F : features.
  Variable D : document.
  Notation qo := (q_unwrap_obj repaired).
  Notation A := (pti_doc qo S F D).

  Lemma names_of_pti_gen l : names_of (pti_doc qo S F l) = op_names l.
  Proof.
    unfold names_of, op_names, pti_doc. induction l as [|d l IH]; [reflexivity |]. cbn [map flat_map]. rewrite IH.
    destruct d as [ot [[n p]|] vars dirs sub | kw n np cond dirs sub]; reflexivity.
  Qed.
  Lemma ops_pti_gen l : length (filter is_op (pti_doc qo S F l)) = length (ops l).
  Proof.
    unfold ops, pti_doc. induction l as [|d l IH]; [reflexivity |]. cbn [map filter].
    destruct d as [ot n vars dirs sub | kw n np cond dirs sub]; cbn [pti_def is_op length]; [f_equal |]; exact IH.
  Qed.
  Lemma anon_pti_gen l : anon_count (pti_doc qo S F l) = 0 <-> existsb (fun d => match d with DOp _ None _ _ _ => true | _ => false end) l = false.
  Proof.
    unfold anon_count, pti_doc. induction l as [|d l IH]; [simpl; tauto |]. cbn [map filter existsb].
    destruct d as [ot [[n p]|] vars dirs sub | kw n np cond dirs sub]; cbn [pti_def orb length]; try exact IH.
    split; discriminate.
  Qed.
  Definition names_of_pti := names_of_pti_gen D.
  Definition ops_pti := ops_pti_gen D.
  Definition anon_pti := anon_pti_gen D.
  Lemma root_ok_pti d : root_ok (pti_def qo S F d) = match d with
                                                     | DOp ot _ _ _ _ => match root_type S ot with Some _ => true | None => false end
                                                     | _ => true
                                                     end.
  Proof.
    destruct d as [ot n vars dirs sub | kw n np cond dirs sub]; [| reflexivity].
    simpl. destruct sub as [a sels p]. simpl.
    change (root_type S ot) with (def_scope S F (DOp ot n vars dirs (SelSet a sels p))).
    rewrite spec_def_scope_eq. reflexivity.
  Qed.

  (** 5.2.1.1, 5.2.2.1 and the root types hold iff the rule is silent — up to the subscription clause *)
  Theorem rule_operations_iff :
    rule_operations repaired A = Done [] <->
    valid_5_2_1_1 D = true /\ valid_5_2_2_1 D = true /\ valid_root S D = true /\
    forall d, In d D -> sub_ok repaired A (pti_def qo S F d) = true.
  Proof.
    rewrite rule_operations_silent. unfold ops_silent, valid_5_2_1_1, valid_5_2_2_1, valid_root.
    rewrite names_of_pti, ops_pti, forallb_forall.
    assert ((anon_count A = 0 \/ length (ops D) <= 1) <->
            (if existsb (fun d => match d with DOp _ None _ _ _ => true | _ => false end) D then Nat.eqb (length (ops D)) 1 else true) = true) as H22.
    { destruct (existsb _ D) eqn:Ee.
      - rewrite Nat.eqb_eq. split.
        + intros [H | H]; [apply anon_pti in H; congruence |].
          assert (1 <= length (ops D)); [| lia]. apply existsb_exists in Ee as [d [Hd Hx]].
          assert (In d (ops D)) as Hin by (unfold ops; apply filter_In; split; [exact Hd | destruct d as [? [?|] ? ? ?|]; try discriminate; reflexivity]).
          destruct (ops D); [destruct Hin | simpl; lia].
        + intros H. right. lia.
      - split; [reflexivity | intros _; left; apply anon_pti; exact Ee]. }
    rewrite H22. split.
    - intros [H1 [H2 H3]]. repeat split; auto.
      + intros d Hd. specialize (H3 (pti_def qo S F d) (in_map _ _ _ Hd)). destruct H3 as [H3 _]. rewrite root_ok_pti in H3.
        destruct d; [exact H3 | reflexivity].
      + intros d Hd. apply (H3 (pti_def qo S F d) (in_map _ _ _ Hd)).
    - intros [H1 [H2 [H3 H4]]]. repeat split; auto.
      + unfold pti_doc in H. apply in_map_iff in H as [d0 [<- Hd0]]. rewrite root_ok_pti. specialize (H3 d0 Hd0). destruct d0; [exact H3 | reflexivity].
      + unfold pti_doc in H. apply in_map_iff in H as [d0 [<- Hd0]]. apply H4. exact Hd0.
  Qed.
End OperationsSpec.
