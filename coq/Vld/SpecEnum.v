(** * Vld/SpecEnum.v — the Spec's occurrences with context are TypeInfo's selections with scope:
    the Spec's parent types and the scopes of NewTypeInfo are computed by the same rules. *)
From Coq Require Import List NArith Bool.
From ApiFu Require Import Base.Sexp Vld.Ast Vld.AstInd Vld.Inspect Vld.TypeInfoModel Vld.TypeInfoPure
     Vld.Enumerate Vld.ValidSpec.
Import ListNotations.

Section SpecEnum.
  Variable S : schema.
  Variable F : features.

  Lemma declared_field_eq p f : declared_field_of S F p f = field_of_scope S F (Some p) f.
  Proof. reflexivity. Qed.

  Lemma sub_scope_field parent a al n np args dirs sub :
    sub_scope S F parent (SField a al n np args dirs sub) = field_scope S F parent n.
  Proof. destruct parent as [p|]; reflexivity. Qed.
  Lemma sub_scope_inline parent cond dirs sub e :
    sub_scope S F parent (SInline cond dirs sub e) = inline_scope S F parent cond.
  Proof. destruct cond as [[c p]|]; reflexivity. Qed.

  Definition is_field (s : selection) : bool := match s with SField _ _ _ _ _ _ _ => true | _ => false end.

  Lemma fields_ss_eq parent a sels p : fields_ss S F parent (SelSet a sels p) = flat_map (fields_sel S F parent) sels.
  Proof. reflexivity. Qed.

  Lemma fields_enum :
    (forall s parent o, In o (fields_sel S F parent s) <->
                        exists sc s0, In (sc, s0) (ssels_sel S F parent s) /\ is_field s0 = true /\ o = {| fo_parent := sc; fo_field := s0 |}) /\
    (forall ss parent o, In o (fields_ss S F parent ss) <->
                         exists sc s0, In (sc, s0) (ssels_ss S F parent ss) /\ is_field s0 = true /\ o = {| fo_parent := sc; fo_field := s0 |}).
  Proof.
    apply sel_ss_ind.
    - intros a al n np args dirs sub IH parent o.
      assert (fields_sel S F parent (SField a al n np args dirs sub) =
              {| fo_parent := parent; fo_field := SField a al n np args dirs sub |} ::
              match sub with Some ss => fields_ss S F (field_scope S F parent n) ss | None => [] end) as ->.
      { destruct sub; [| reflexivity]. cbn [fields_sel]. rewrite sub_scope_field. reflexivity. }
      split.
      + intros [<- | H].
        * exists parent, (SField a al n np args dirs sub). repeat split. left. reflexivity.
        * destruct sub as [ss|]; [| destruct H]. apply (IH ss eq_refl) in H as [sc [s0 [Hin [Hf ->]]]].
          exists sc, s0. repeat split; [right; exact Hin | exact Hf].
      + intros [sc [s0 [[Heq | Hin] [Hf ->]]]].
        * inversion Heq; subst. left. reflexivity.
        * right. destruct sub as [ss|]; [| destruct Hin]. apply (IH ss eq_refl). exists sc, s0. repeat split; assumption.
    - intros n np dirs e parent o. simpl. split; [intros [] |].
      intros [sc [s0 [[Heq | []] [Hf _]]]]. inversion Heq; subst. discriminate.
    - intros cond dirs sub e IH parent o.
      assert (fields_sel S F parent (SInline cond dirs sub e) = fields_ss S F (inline_scope S F parent cond) sub) as ->.
      { cbn [fields_sel]. rewrite sub_scope_inline. reflexivity. }
      rewrite IH. split.
      + intros [sc [s0 [Hin H]]]. exists sc, s0. split; [right; exact Hin | exact H].
      + intros [sc [s0 [[Heq | Hin] [Hf Ho]]]]; [inversion Heq; subst; discriminate |].
        exists sc, s0. repeat split; assumption.
    - intros a sels p IH parent o. rewrite fields_ss_eq, ssels_ss_eq, in_flat_map. rewrite Forall_forall in IH. split.
      + intros [s [Hs H]]. apply (IH s Hs) in H as [sc [s0 [Hin H]]]. exists sc, s0. split; [| exact H].
        apply in_flat_map. exists s. split; assumption.
      + intros [sc [s0 [Hin H]]]. apply in_flat_map in Hin as [s [Hs Hin]]. exists s. split; [assumption |].
        apply (IH s Hs). exists sc, s0. split; assumption.
  Qed.

  Definition spec_def_scope_eq d : def_scope S F d = model_def_scope S F d.
  Proof.
    destruct d as [[[k p]|] n vars dirs sub | kw n np [c cp] dirs sub]; try reflexivity.
  Qed.

  (** every field occurrence of the Spec is a field selection with TypeInfo's scope, and back *)
  Lemma all_fields_enum D o :
    In o (all_fields S F D) <->
    exists d sc s0, In d D /\ In (sc, s0) (ssels_ss S F (model_def_scope S F d) (def_sub d)) /\ is_field s0 = true
                    /\ o = {| fo_parent := sc; fo_field := s0 |}.
  Proof.
    unfold all_fields. rewrite in_flat_map. split.
    - intros [d [Hd H]]. rewrite spec_def_scope_eq in H. apply (proj2 fields_enum) in H as [sc [s0 [Hin [Hf ->]]]].
      exists d, sc, s0. repeat split; assumption.
    - intros [d [sc [s0 [Hd [Hin [Hf ->]]]]]]. exists d. split; [assumption |]. rewrite spec_def_scope_eq.
      apply (proj2 fields_enum). exists sc, s0. repeat split; assumption.
  Qed.
End SpecEnum.
