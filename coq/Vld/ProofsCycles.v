(** * Vld/ProofsCycles.v — the cycle search of validateFragmentSpreads is a breadth-first search:
    whatever the order in which Go ranges over the dependency sets, it answers "found" exactly when
    the fragment reaches itself, and it never needs more iterations than there are spread names. *)
From Coq Require Import List NArith Bool Lia Permutation.
From ApiFu Require Import Base.Sexp Vld.Ast Vld.Inspect Vld.InspectProofs Vld.TypeInfoModel Vld.ValidatorModel
     Vld.ProofsCommon.
Import ListNotations.

Lemma NoDup_app_intro {A} (a b : list A) :
  NoDup a -> NoDup b -> (forall x, In x a -> In x b -> False) -> NoDup (a ++ b).
Proof.
  induction a as [|x a IH]; intros Ha Hb Hd; [exact Hb |]. simpl. inversion Ha; subst. constructor.
  - intros H. apply in_app_or in H as [H | H]; [contradiction | apply (Hd x (or_introl eq_refl) H)].
  - apply IH; [assumption | assumption |]. intros y Hy. apply Hd. right. exact Hy.
Qed.

Section Search.
  Variable pi : order.
  Hypothesis Hpi : order_ok pi.
  Variable D : document.
  Variable target : name.

  Definition edge (x y : name) : Prop := In y (direct_deps D x).
  Inductive reach (x : name) : name -> Prop :=
  | reach_refl : reach x x
  | reach_step y z : reach x y -> edge y z -> reach x z.

  Definition bfs_step (acc : bool * list name * list name) (dep : name) : bool * list name * list name :=
    let '(found, qu, enc) := acc in
    if found then acc
    else if mem dep enc then acc
    else if name_eqb dep target then (true, qu, enc)
    else (false, qu ++ [dep], dep :: enc).

  Lemma cycle_search_unfold fuel queue enc :
    cycle_search pi D fuel target queue enc =
    match fuel with
    | O => None
    | Datatypes.S fuel' =>
        match queue with
        | [] => Some false
        | x :: rest =>
            let '(found, rest', enc') := fold_left bfs_step (pi _ (direct_deps D x)) (false, rest, enc) in
            if found then Some true else cycle_search pi D fuel' target rest' enc'
        end
    end.
  Proof. destruct fuel; reflexivity. Qed.

  Lemma bfs_found ds qu enc : fold_left bfs_step ds (true, qu, enc) = (true, qu, enc).
  Proof. induction ds as [|d ds IH]; [reflexivity | exact IH]. Qed.

  Lemma bfs_step_eq qu enc d :
    bfs_step (false, qu, enc) d =
    if mem d enc then (false, qu, enc)
    else if name_eqb d target then (true, qu, enc) else (false, qu ++ [d], d :: enc).
  Proof. reflexivity. Qed.

  Lemma bfs_fold ds : forall qu enc,
    ~ In target enc ->
    (In target ds /\ fst (fst (fold_left bfs_step ds (false, qu, enc))) = true) \/
    (~ In target ds /\
     exists news, fold_left bfs_step ds (false, qu, enc) = (false, qu ++ news, rev news ++ enc) /\
                  NoDup news /\
                  (forall x, In x news -> In x ds /\ ~ In x enc /\ x <> target) /\
                  (forall x, In x ds -> In x enc \/ In x news)).
  Proof.
    induction ds as [|d ds IH]; intros qu enc Ht.
    - right. split; [intros [] |]. exists []. simpl. rewrite app_nil_r. split; [reflexivity |]. split; [constructor |]. split; intros x [].
    - cbn [fold_left]. rewrite bfs_step_eq. destruct (mem d enc) eqn:Em.
      + apply mem_in in Em. destruct (IH qu enc Ht) as [[H1 H2] | [H1 [news [E [Hn [Hs Hc]]]]]].
        * left. split; [right; exact H1 | exact H2].
        * right. split; [intros [<- | H]; contradiction |]. exists news. split; [exact E |]. split; [exact Hn |]. split.
          -- intros x Hx. destruct (Hs x Hx) as [Ha [Hb Hc']]. repeat split; [right; exact Ha | exact Hb | exact Hc'].
          -- intros x [<- | Hx]; [left; exact Em | apply Hc; exact Hx].
      + apply mem_false in Em. destruct (name_eqb d target) eqn:Ed.
        * apply name_eqb_eq in Ed. subst d. left. split; [left; reflexivity |]. rewrite bfs_found. reflexivity.
        * apply name_eqb_neq in Ed.
          assert (~ In target (d :: enc)) as Ht' by (intros [H | H]; [congruence | contradiction]).
          destruct (IH (qu ++ [d]) (d :: enc) Ht') as [[H1 H2] | [H1 [news [E [Hn [Hs Hc]]]]]].
          -- left. split; [right; exact H1 | exact H2].
          -- right. split; [intros [H | H]; [congruence | contradiction] |]. exists (d :: news).
             split; [rewrite E; simpl; rewrite <- !app_assoc; reflexivity |]. split.
             { constructor; [| exact Hn]. intros Hin. destruct (Hs d Hin) as [_ [Hb _]]. apply Hb. left. reflexivity. }
             split.
             { intros x [<- | Hx]; [repeat split; [left; reflexivity | exact Em | exact Ed] |].
               destruct (Hs x Hx) as [Ha [Hb Hc']]. repeat split; [right; exact Ha | intros H; apply Hb; right; exact H | exact Hc']. }
             { intros x [<- | Hx]; [right; left; reflexivity |].
               destruct (Hc x Hx) as [[<- | H] | H]; [right; left; reflexivity | left; exact H | right; right; exact H]. }
  Qed.

  (** "found" only if the target lies on a cycle *)
  Lemma search_sound fuel : forall queue enc,
    (forall x, In x queue -> reach target x) -> ~ In target enc ->
    cycle_search pi D fuel target queue enc = Some true -> exists x, reach target x /\ edge x target.
  Proof.
    induction fuel as [|fuel IH]; intros queue enc Hq Ht; rewrite cycle_search_unfold; [discriminate |].
    destruct queue as [|x rest]; [discriminate |].
    destruct (bfs_fold (pi _ (direct_deps D x)) rest enc Ht) as [[H1 H2] | [H1 [news [E [Hn [Hs Hc]]]]]].
    - intros _. exists x. split; [apply Hq; left; reflexivity |]. apply (proj1 (order_in pi Hpi _ _)) in H1. exact H1.
    - rewrite E. apply IH.
      + intros y Hy. apply in_app_or in Hy as [Hy | Hy]; [apply Hq; right; exact Hy |].
        apply (reach_step _ x); [apply Hq; left; reflexivity |]. destruct (Hs y Hy) as [Ha _].
        apply (proj1 (order_in pi Hpi _ _)) in Ha. exact Ha.
      + intros H. apply in_app_or in H as [H | H]; [| contradiction]. apply in_rev in H. destruct (Hs _ H) as [_ [_ Hc']]. congruence.
  Qed.

  (** "not found" only if it does not *)
  Lemma search_complete fuel : forall V queue enc,
    (In target V \/ In target queue) ->
    (forall v, In v V -> forall d, edge v d -> d <> target /\ In d enc) ->
    (forall e, In e enc -> In e V \/ In e queue) ->
    ~ In target enc ->
    cycle_search pi D fuel target queue enc = Some false -> forall x, reach target x -> ~ edge x target.
  Proof.
    induction fuel as [|fuel IH]; intros V queue enc H1 H2 H3 Ht; rewrite cycle_search_unfold; [discriminate |].
    destruct queue as [|x rest].
    - intros _. destruct H1 as [H1 | []].
      assert (forall y, reach target y -> In y V) as Hall.
      { intros y Hy. induction Hy as [|y z Hy IHy Hz]; [exact H1 |].
        destruct (H2 y IHy z Hz) as [_ Hz']. destruct (H3 z Hz') as [H | []]. exact H. }
      intros y Hy He. destruct (H2 y (Hall y Hy) target He) as [Hne _]. congruence.
    - destruct (bfs_fold (pi _ (direct_deps D x)) rest enc Ht) as [[Hin Hf] | [Hnin [news [E [Hn [Hs Hc]]]]]].
      + destruct (fold_left bfs_step _ _) as [[found rest'] enc']. simpl in Hf. subst found. discriminate.
      + rewrite E. apply (IH (x :: V)).
        * destruct H1 as [H1 | [H1 | H1]]; [left; right; exact H1 | left; left; exact H1 | right; apply in_or_app; left; exact H1].
        * intros v [<- | Hv] d Hd.
          -- unfold edge in Hd. apply (proj2 (order_in pi Hpi _ _)) in Hd. split; [intros ->; contradiction |].
             apply in_or_app. destruct (Hc d Hd) as [H | H]; [right; exact H | left; apply -> in_rev; exact H].
          -- destruct (H2 v Hv d Hd) as [Ha Hb]. split; [exact Ha | apply in_or_app; right; exact Hb].
        * intros e He. apply in_app_or in He as [He | He].
          -- right. apply in_or_app. right. apply in_rev. exact He.
          -- destruct (H3 e He) as [H | [H | H]]; [left; right; exact H | left; left; exact H | right; apply in_or_app; left; exact H].
        * intros H. apply in_app_or in H as [H | H]; [| contradiction]. apply in_rev in H. destruct (Hs _ H) as [_ [_ Hc']]. congruence.
  Qed.

  (** the iterations are bounded by the number of names ever met *)
  Variable U : list name.
  Hypothesis deps_in_U : forall x y, edge x y -> In y U.

  Lemma search_fuel fuel : forall queue enc,
    NoDup enc -> incl enc U -> ~ In target enc ->
    length queue + (length U - length enc) < fuel ->
    cycle_search pi D fuel target queue enc <> None.
  Proof.
    induction fuel as [|fuel IH]; intros queue enc Hnd Hinc Ht Hlt; [lia |]. rewrite cycle_search_unfold.
    destruct queue as [|x rest]; [discriminate |].
    destruct (bfs_fold (pi _ (direct_deps D x)) rest enc Ht) as [[Hin Hf] | [Hnin [news [E [Hn [Hs Hc]]]]]].
    - destruct (fold_left bfs_step _ _) as [[found rest'] enc']. simpl in Hf. subst found. discriminate.
    - rewrite E.
      assert (NoDup (rev news ++ enc)) as Hnd'.
      { apply NoDup_app_intro; [apply NoDup_rev; exact Hn | exact Hnd |].
        intros y Hy Hy'. apply in_rev in Hy. destruct (Hs y Hy) as [_ [Hb _]]. contradiction. }
      assert (incl (rev news ++ enc) U) as Hinc'.
      { intros y Hy. apply in_app_or in Hy as [Hy | Hy]; [| apply Hinc; exact Hy].
        apply in_rev in Hy. destruct (Hs y Hy) as [Ha _]. apply (proj1 (order_in pi Hpi _ _)) in Ha. apply (deps_in_U x y Ha). }
      apply IH; [exact Hnd' | exact Hinc' | |].
      + intros H. apply in_app_or in H as [H | H]; [| contradiction]. apply in_rev in H. destruct (Hs _ H) as [_ [_ Hc']]. congruence.
      + pose proof (NoDup_incl_length Hnd' Hinc') as Hlen. rewrite !app_length, rev_length in *. simpl in Hlt. lia.
  Qed.
End Search.

(** ** visitors that collect a set of names and always descend *)
Section SetVisitor.
  Variable fu : node -> list name.
  Variable enter : list name -> node -> list name * bool.
  Hypothesis enter_desc : forall st n, snd (enter st n) = true.
  Hypothesis enter_in : forall st n x, In x (fst (enter st n)) <-> In x st \/ In x (fu n).

  Lemma inspect_set t : forall st x,
    In x (inspect enter (fun s => s) t st) <-> In x st \/ exists n, In n (tree_nodes t) /\ In x (fu n).
  Proof.
    induction t as [n cs IH] using tree_ind'. intros st x.
    assert (forall st, In x (fold_left (fun a c => inspect enter (fun s => s) c a) cs st)
                       <-> In x st \/ exists m, In m (flat_map tree_nodes cs) /\ In x (fu m)) as Hfold.
    { clear st. induction IH as [|c cs' Hc _ IHcs]; intros st; simpl.
      - split; [tauto | intros [H | [m [[] _]]]; exact H].
      - rewrite IHcs, Hc. split.
        + intros [[H | [m [Hm Hx]]] | [m [Hm Hx]]]; [tauto | |]; right; exists m; (split; [apply in_or_app | exact Hx]); tauto.
        + intros [H | [m [Hm Hx]]]; [tauto |]. apply in_app_or in Hm as [Hm | Hm]; [left; right | right]; exists m; tauto. }
    simpl. pose proof (enter_desc st n) as Hd. pose proof (enter_in st n x) as Hi.
    destruct (enter st n) as [st' b]. simpl in Hd, Hi. subst b. rewrite Hfold, Hi. split.
    - intros [[H | H] | [m [Hm Hx]]]; [tauto | right; exists n; split; [left; reflexivity | exact H] | right; exists m; tauto].
    - intros [H | [m [[<- | Hm] Hx]]]; [tauto | tauto | right; exists m; tauto].
  Qed.
End SetVisitor.

Definition spread_name_of (n : node) : list name :=
  match n with NSel (SSpread f _ _ _) => [f] | _ => [] end.

Lemma deps_enter_desc st n : snd (deps_enter st n) = true.
Proof. destruct n; try reflexivity. destruct s; reflexivity. Qed.
Lemma deps_enter_in st n x : In x (fst (deps_enter st n)) <-> In x st \/ In x (spread_name_of n).
Proof.
  destruct n; simpl; try tauto. destruct s as [| f np dirs e |]; simpl; try tauto.
  destruct (mem f st) eqn:Em; simpl.
  - apply mem_in in Em. split; [tauto | intros [H | [<- | []]]; assumption].
  - rewrite in_app_iff. simpl. tauto.
Qed.
Lemma spread_names_enter_desc st n : snd (spread_names_enter st n) = true.
Proof. destruct n; try reflexivity. destruct s; reflexivity. Qed.
Lemma spread_names_enter_in st n x : In x (fst (spread_names_enter st n)) <-> In x st \/ In x (spread_name_of n).
Proof. destruct n; simpl; try tauto. destruct s as [| f np dirs e |]; simpl; tauto. Qed.

Lemma frag_last_in D n d : frag_last D n = Some d -> In d D.
Proof.
  induction D as [|d0 D IH]; [discriminate |]. simpl. destruct (frag_last D n) as [x|].
  - intros H. inversion H; subst. right. apply IH. reflexivity.
  - destruct d0 as [| kw n' np cond dirs sub]; [discriminate |]. destruct (name_eqb n n'); [| discriminate].
    intros H. inversion H; subst. left. reflexivity.
Qed.

Lemma def_nodes_in_doc D d m : In d D -> In m (tree_nodes (tree_def d)) -> In m (tree_nodes (tree_doc D)).
Proof.
  intros Hd Hm. unfold tree_doc. cbn [tree_nodes]. right. apply in_flat_map. exists (tree_def d).
  split; [apply in_map; exact Hd | exact Hm].
Qed.

Lemma deps_in_spread_names D x y : In y (direct_deps D x) -> In y (all_spread_names D).
Proof.
  unfold direct_deps, all_spread_names, deps_of_def. destruct (frag_last D x) as [d|] eqn:Ed; [| intros []].
  intros H. apply (inspect_set spread_name_of deps_enter deps_enter_desc deps_enter_in) in H as [[] | [m [Hm Hy]]].
  apply (inspect_set spread_name_of spread_names_enter spread_names_enter_desc spread_names_enter_in).
  right. exists m. split; [| exact Hy]. apply (def_nodes_in_doc D d); [apply (frag_last_in D x); exact Ed | exact Hm].
Qed.

(** ** the answer of the cycle search for one fragment does not depend on the order *)
Section CycleOrder.
  Variables pi1 pi2 : order.
  Hypothesis Hpi1 : order_ok pi1.
  Hypothesis Hpi2 : order_ok pi2.
  Variable D : document.

  Lemma cycle_search_total pi (Hpi : order_ok pi) n : cycle_search pi D (graph_fuel D) n [n] [] <> None.
  Proof.
    apply (search_fuel pi Hpi D n (all_spread_names D) (deps_in_spread_names D)).
    - constructor.
    - intros x [].
    - intros [].
    - unfold graph_fuel. simpl. lia.
  Qed.

  Lemma cycle_search_iff pi (Hpi : order_ok pi) n :
    cycle_search pi D (graph_fuel D) n [n] [] = Some true <-> exists x, reach D n x /\ edge D x n.
  Proof.
    split.
    - apply (search_sound pi Hpi D n); [intros x [<- | []]; constructor | intros []].
    - intros [x [Hr He]]. destruct (cycle_search pi D (graph_fuel D) n [n] []) as [[|]|] eqn:E.
      + reflexivity.
      + exfalso. eapply (search_complete pi Hpi D n (graph_fuel D) [] [n] []);
          [right; left; reflexivity | intros v [] | intros e [] | intros [] | exact E | exact Hr | exact He].
      + exfalso. apply (cycle_search_total pi Hpi n). exact E.
  Qed.

  Theorem cycle_search_order n :
    cycle_search pi1 D (graph_fuel D) n [n] [] = cycle_search pi2 D (graph_fuel D) n [n] [].
  Proof.
    pose proof (cycle_search_iff pi1 Hpi1 n) as H1. pose proof (cycle_search_iff pi2 Hpi2 n) as H2.
    pose proof (cycle_search_total pi1 Hpi1 n) as T1. pose proof (cycle_search_total pi2 Hpi2 n) as T2.
    destruct (cycle_search pi1 D (graph_fuel D) n [n] []) as [[|]|]; destruct (cycle_search pi2 D (graph_fuel D) n [n] []) as [[|]|];
      try reflexivity; try contradiction; exfalso.
    - destruct H1 as [H1 _]. destruct H2 as [_ H2]. specialize (H2 (H1 eq_refl)). discriminate.
    - destruct H1 as [_ H1]. destruct H2 as [H2 _]. specialize (H1 (H2 eq_refl)). discriminate.
  Qed.
End CycleOrder.
