(** * Vld/ProofsCollectEntries.v — addFieldSelections files every collected field as an ENTRY: the
    field, the parent type of the selection set it is written in, and that set's position
    (ProofsCollect.v states this for the keys of the map only).  The proof — [collect_facts] with the
    stronger invariant — was written by the C03 builder (Pipe/CollectEntries.v) and is adopted here
    unchanged, since nothing in it depends on the composition. *)
From Coq Require Import List NArith Arith Bool Lia.
From ApiFu Require Import Base.Sexp Vld.Ast Vld.AstInd Vld.ValidatorModel Vld.ProofsCommon Vld.ProofsTotal Vld.ProofsDepth Vld.ProofsCollect.
Import ListNotations.

Definition ents_incl (m m' : fmap) : Prop :=
  forall k l x, In (k, l) m -> In x l -> exists l', In (k, l') m' /\ In x l'.
Definition has_entry (m : fmap) (s : selection) (a : option name) (p : pos) : Prop :=
  exists l, In (response_name s, l) m /\ In (s, a, p) l.

Lemma ents_incl_refl m : ents_incl m m.
Proof. intros k l x H Hx. exists l. auto. Qed.
Lemma ents_incl_trans m1 m2 m3 : ents_incl m1 m2 -> ents_incl m2 m3 -> ents_incl m1 m3.
Proof. intros H1 H2 k l x H Hx. destruct (H1 k l x H Hx) as (l' & H' & Hx'). exact (H2 k l' x H' Hx'). Qed.
Lemma has_entry_mono m m' s a p : ents_incl m m' -> has_entry m s a p -> has_entry m' s a p.
Proof. intros Hi (l & H & Hx). exact (Hi _ l _ H Hx). Qed.

Lemma fmap_add_incl k x m : ents_incl m (fmap_add k x m).
Proof.
  induction m as [|[k0 l0] r IH]; intros k' l y H Hy; [destruct H|].
  cbn [fmap_add]. destruct (name_eqb k k0) eqn:E.
  - destruct H as [H|H].
    + inversion H; subst. exists (l ++ [x]). split; [left; reflexivity|apply in_or_app; left; exact Hy].
    + exists l. split; [right; exact H|exact Hy].
  - destruct H as [H|H].
    + exists l. split; [left; exact H|exact Hy].
    + destruct (IH k' l y H Hy) as (l' & H' & Hy'). exists l'. split; [right; exact H'|exact Hy'].
Qed.
Lemma fmap_add_has k x m : exists l, In (k, l) (fmap_add k x m) /\ In x l.
Proof.
  induction m as [|[k0 l0] r IH]; cbn [fmap_add].
  - exists [x]. split; left; reflexivity.
  - destruct (name_eqb k k0) eqn:E.
    + apply name_eqb_eq in E. subst k0. exists (l0 ++ [x]). split; [left; reflexivity|apply in_or_app; right; left; reflexivity].
    + destruct IH as (l & H & Hx). exists l. split; [right; exact H|exact Hx].
Qed.

(** a field [f] written in the selection set [w], which is reached from [ss] through inline
    fragments and fragment spreads *)
Inductive InCw (A : document) : selset -> selset -> selection -> Prop :=
| InCw_here a sels p f : In f sels -> is_fieldb f = true -> InCw A (SelSet a sels p) (SelSet a sels p) f
| InCw_inline a sels p c dirs sub e w f :
    In (SInline c dirs sub e) sels -> InCw A sub w f -> InCw A (SelSet a sels p) w f
| InCw_spread a sels p n np dirs e d w f :
    In (SSpread n np dirs e) sels -> frag_last A n = Some d -> InCw A (def_sub d) w f -> InCw A (SelSet a sels p) w f.

Section Entries.
  Variable A : document.
  Hypothesis sets_distinct : forall s1 s2, In s1 (all_subs A) -> In s2 (all_subs A) -> ss_pos s1 = ss_pos s2 -> s1 = s2.
  Notation collect := (collect repaired A).

  Definition done_for (m : fmap) (V : list pos) (ss1 : selset) : Prop :=
    forall s, In s (ss_sels ss1) ->
              match s with
              | SField _ _ _ _ _ _ _ => has_entry m s (ss_ann ss1) (ss_pos ss1)
              | SInline _ _ sub _ => In (ss_pos sub) V
              | SSpread n _ _ _ => forall d, frag_last A n = Some d -> In (ss_pos (def_sub d)) V
              end.

  Lemma done_for_mono m V m' V' ss1 : ents_incl m m' -> incl V V' -> done_for m V ss1 -> done_for m' V' ss1.
  Proof.
    intros Hm HV H s Hs. specialize (H s Hs).
    destruct s; [exact (has_entry_mono _ _ _ _ _ Hm H) | intros d Hd; apply HV; apply (H d Hd) | apply HV; exact H].
  Qed.

  Definition closed_since (visited : list pos) (m' : fmap) (v' : list pos) : Prop :=
    forall ss1, In ss1 (all_subs A) -> In (ss_pos ss1) v' -> In (ss_pos ss1) visited \/ done_for m' v' ss1.

  Lemma collect_entry_facts fuel : forall m visited ss m' v',
    In ss (all_subs A) -> collect fuel m visited ss = COk m' v' ->
    ents_incl m m' /\ incl visited v' /\ In (ss_pos ss) v' /\ closed_since visited m' v'.
  Proof.
    induction fuel as [|fuel IH]; intros m visited ss m' v' Hss H; rewrite collect_unfold in H; [discriminate |].
    destruct ss as [a sels p]. cbn [ss_pos]. destruct (pmem p visited) eqn:Ep.
    - cbn [q_revisit_ok repaired] in H. inversion H; subst m' v'. apply pmem_in in Ep.
      split; [apply ents_incl_refl |]. split; [apply incl_refl |]. split; [exact Ep |]. intros ss1 _ H1. left. exact H1.
    - assert (forall l m0 v0 m1 v1, (forall s, In s l -> In s sels) -> collect_go A (collect fuel) a p l m0 v0 = COk m1 v1 ->
                ents_incl m0 m1 /\ incl v0 v1 /\ closed_since v0 m1 v1 /\
                forall s, In s l -> match s with
                                    | SField _ _ _ _ _ _ _ => has_entry m1 s a p
                                    | SInline _ _ sub _ => In (ss_pos sub) v1
                                    | SSpread n _ _ _ => forall d, frag_last A n = Some d -> In (ss_pos (def_sub d)) v1
                                    end) as Hgo.
      { induction l as [|s r IHl]; intros m0 v0 m1 v1 Hl Hc.
        - cbn [collect_go] in Hc. inversion Hc; subst. split; [apply ents_incl_refl |]. split; [apply incl_refl |].
          split; [intros ss1 _ H1; left; exact H1 | intros s []].
        - cbn [collect_go] in Hc.
          assert (forall s', In s' r -> In s' sels) as Hr by (intros s' Hs'; apply Hl; right; exact Hs').
          assert (In s sels) as Hs by (apply Hl; left; reflexivity).
          assert (forall sub, In sub (all_subs A) ->
                              match collect fuel m0 v0 sub with COk m2 v2 => collect_go A (collect fuel) a p r m2 v2 | _ => collect fuel m0 v0 sub end = COk m1 v1 ->
                              ents_incl m0 m1 /\ incl v0 v1 /\ closed_since v0 m1 v1 /\ In (ss_pos sub) v1 /\
                              forall s', In s' r -> match s' with
                                                    | SField _ _ _ _ _ _ _ => has_entry m1 s' a p
                                                    | SInline _ _ sub' _ => In (ss_pos sub') v1
                                                    | SSpread n _ _ _ => forall d, frag_last A n = Some d -> In (ss_pos (def_sub d)) v1
                                                    end) as Hrec.
          { intros sub Hin Hc2. destruct (collect fuel m0 v0 sub) as [m2 v2 | e0 |] eqn:Ec; try discriminate Hc2.
            destruct (IH _ _ _ _ _ Hin Ec) as [C1 [C2 [C3 C5]]]. destruct (IHl _ _ _ _ Hr Hc2) as [G1 [G2 [G4 G5]]].
            split; [exact (ents_incl_trans _ _ _ C1 G1) |]. split; [intros x Hx; apply G2, C2, Hx |].
            split; [| split; [apply G2, C3 | exact G5]].
            intros ss1 Hs1 H1. destruct (G4 ss1 Hs1 H1) as [H2 | H2]; [| right; exact H2].
            destruct (C5 ss1 Hs1 H2) as [H3 | H3]; [left; exact H3 | right; apply (done_for_mono m2 v2 m1 v1 ss1 G1 G2 H3)]. }
          destruct s as [a0 al n np args dirs sub | n np dirs e | cond dirs sub e].
          + destruct (IHl _ _ _ _ Hr Hc) as [G1 [G2 [G4 G5]]].
            assert (ents_incl m0 m1) as Hk by (exact (ents_incl_trans _ _ _ (fmap_add_incl _ _ _) G1)).
            split; [exact Hk |]. split; [exact G2 |]. split; [exact G4 |].
            intros s' [<- | Hs']; [| apply (G5 s' Hs')].
            apply (has_entry_mono _ _ _ _ _ G1). apply fmap_add_has.
          + destruct (frag_last A n) as [d|] eqn:Ed; [| discriminate Hc].
            destruct (Hrec (def_sub d) (frag_sub_in A n d Ed) Hc) as [R1 [R2 [R4 [R5 R6]]]].
            split; [exact R1 |]. split; [exact R2 |]. split; [exact R4 |].
            intros s' [<- | Hs']; [intros d' Hd'; rewrite Ed in Hd'; inversion Hd'; subst d'; exact R5 | apply (R6 s' Hs')].
          + destruct (Hrec sub (subs_closed A a sels p _ sub Hss Hs eq_refl) Hc) as [R1 [R2 [R4 [R5 R6]]]].
            split; [exact R1 |]. split; [exact R2 |]. split; [exact R4 |].
            intros s' [<- | Hs']; [exact R5 | apply (R6 s' Hs')]. }
      destruct (Hgo sels m (p :: visited) m' v' (fun s h => h) H) as [G1 [G2 [G4 G5]]].
      split; [exact G1 |]. split; [intros x Hx; apply G2; right; exact Hx |]. split; [apply G2; left; reflexivity |].
      intros ss1 Hs1 H1. destruct (G4 ss1 Hs1 H1) as [[Heq | H2] | H2]; [| left; exact H2 | right; exact H2].
      right. assert (ss1 = SelSet a sels p) as -> by (apply sets_distinct; [exact Hs1 | exact Hss | symmetry; exact Heq]).
      intros s Hs. apply (G5 s Hs).
  Qed.

  (** every collected field is filed with the annotation and position of the set it is written in;
      what was filed before stays *)
  Theorem collect_entries fuel ss m m' v :
    In ss (all_subs A) -> collect fuel m [] ss = COk m' v ->
    ents_incl m m' /\ forall w f, InCw A ss w f -> has_entry m' f (ss_ann w) (ss_pos w).
  Proof.
    intros Hss H. destruct (collect_entry_facts fuel m [] ss m' v Hss H) as [Hi [_ [Hp Hcl]]].
    split; [exact Hi|].
    assert (forall ss1 w f, InCw A ss1 w f -> In ss1 (all_subs A) -> In (ss_pos ss1) v -> has_entry m' f (ss_ann w) (ss_pos w)) as Hall.
    { intros ss1 w f Hin. induction Hin as [a sels p f Hf Hfld | a sels p c dirs sub e w f Hs _ IH | a sels p n np dirs e d w f Hs Hd _ IH]; intros Hs1 Hv.
      - destruct (Hcl _ Hs1 Hv) as [[] | Hd]. specialize (Hd f Hf). destruct f; try discriminate Hfld. exact Hd.
      - destruct (Hcl _ Hs1 Hv) as [[] | Hd]. specialize (Hd _ Hs). cbn beta iota in Hd.
        apply IH; [apply (subs_closed A a sels p _ sub Hs1 Hs eq_refl) | exact Hd].
      - destruct (Hcl _ Hs1 Hv) as [[] | Hdn]. specialize (Hdn _ Hs d Hd). apply IH; [apply (frag_sub_in A n d Hd) | exact Hdn]. }
    intros w f Hf. apply (Hall ss w f Hf Hss Hp).
  Qed.

  Corollary add_selections_entries m ss m' v :
    In ss (all_subs A) -> add_selections repaired A m (Some ss) = COk m' v ->
    ents_incl m m' /\ forall w f, InCw A ss w f -> has_entry m' f (ss_ann w) (ss_pos w).
  Proof. intros Hss H. exact (collect_entries _ ss m m' v Hss H). Qed.
End Entries.
