(** * Vld/ProofsSecondaryAll.v — secondary_never_alone: ValidateDocument (the pipeline without the
    checked-pairs memo) never returns a secondary error; when no rule group reports a primary error,
    no rule group reports anything. *)
From Coq Require Import List NArith Arith Bool Lia.
From ApiFu Require Import Base.Sexp Vld.Ast Vld.AstInd Vld.Inspect Vld.InspectProofs Vld.TypeInfoModel Vld.TypeInfoPure Vld.Enumerate
     Vld.SpecEnum Vld.ValidatorModel Vld.ValidSpec Vld.Hyps Vld.ProofsCommon Vld.ProofsCycles Vld.ProofsDirectives Vld.ProofsFragDecl
     Vld.ProofsOrder Vld.ProofsTotal Vld.ProofsFields Vld.ProofsSpreads Vld.ProofsMemo Vld.ProofsDepth Vld.ProofsDepthRule
     Vld.ValidatorProofs Vld.ProofsSpecReach Vld.ProofsSecondary Vld.ProofsSecondaryRules Vld.ProofsSecondaryMerge.
Import ListNotations.

(** the selection sets of the annotated document, selection by selection: each is annotated with its
    scope and holds the annotated selections of that scope *)
Lemma ssels_head S F top s : In (top, s) (ssels_sel S F top s).
Proof. destruct s as [a al n np args dirs [ss|] | |]; left; reflexivity. Qed.

Lemma subs_pti_occ qo S F :
  (forall s top a sels p, In (SelSet a sels p) (subs_sel (pti_sel qo S F top s)) ->
                          forall s', In s' sels -> exists s0, In (a, s0) (ssels_sel S F top s) /\ s' = pti_sel qo S F a s0) /\
  (forall ss top a sels p, In (SelSet a sels p) (subs_ss (pti_ss qo S F top ss)) ->
                           forall s', In s' sels -> exists s0, In (a, s0) (ssels_ss S F top ss) /\ s' = pti_sel qo S F a s0).
Proof.
  apply sel_ss_ind.
  - intros fa al n np args dirs sub IH top a sels p H s' Hs'. rewrite (pti_sel_field_eq qo S F top fa al n np args dirs sub) in H.
    destruct sub as [ss|]; [| destruct H]. cbn [subs_sel] in H.
    destruct (IH ss eq_refl _ a sels p H s' Hs') as [s0 [Hin Heq]]. exists s0. split; [right; exact Hin | exact Heq].
  - intros n np dirs e top a sels p [].
  - intros cond dirs sub e IH top a sels p H s' Hs'. rewrite (pti_sel_inline_eq qo S F top cond dirs sub e) in H. cbn [subs_sel] in H.
    destruct (IH _ a sels p H s' Hs') as [s0 [Hin Heq]]. exists s0. split; [right; exact Hin | exact Heq].
  - intros a0 sels0 p0 IH top a sels p H s' Hs'. rewrite pti_ss_eq, subs_ss_eq in H. rewrite ssels_ss_eq. destruct H as [Heq | H].
    + inversion Heq; subst a sels p. apply in_map_iff in Hs' as [s0 [<- Hs0]]. exists s0. split; [| reflexivity].
      apply in_flat_map. exists s0. split; [exact Hs0 | apply ssels_head].
    + apply in_flat_map in H as [x [Hx H]]. apply in_map_iff in Hx as [s1 [<- Hs1]]. rewrite Forall_forall in IH.
      destruct (IH s1 Hs1 top a sels p H s' Hs') as [s0 [Hin Heq]]. exists s0. split; [| exact Heq].
      apply in_flat_map. exists s1. split; [exact Hs1 | exact Hin].
Qed.

Lemma all_subs_pti_occ qo S F D a sels p s' :
  In (SelSet a sels p) (all_subs (pti_doc qo S F D)) -> In s' sels ->
  exists d s0, In d D /\ In (a, s0) (ssels_ss S F (model_def_scope S F d) (def_sub d)) /\ s' = pti_sel qo S F a s0.
Proof.
  intros H Hs'. unfold all_subs, pti_doc in H. apply in_flat_map in H as [d' [Hd' H]]. apply in_map_iff in Hd' as [d [<- Hd]].
  rewrite pti_def_sub in H. destruct (proj2 (subs_pti_occ qo S F) _ _ a sels p H s' Hs') as [s0 [Hin Heq]]. exists d, s0. auto.
Qed.

Section All.
  Variable pi : order.
  Hypothesis Hpi : order_ok pi.
  Variable S : schema.
  Variable F : features.
  Variable D : document.
  Notation qo := (q_unwrap_obj repaired).
  Notation A := (pti_doc qo S F D).

  (** no primary error: nothing at all — for either way of running validateFields.  [Hmerge]: what
      the second visitor adds to a state without errors is primary *)
  Lemma no_primary_then_nothing_gen rf errs :
    schema_ok S = true -> schema_args_ok S = true -> fields_prefix S F D rf ->
    ((forall a sels p n np dirs e, In (SelSet a sels p) (all_subs A) -> In (SSpread n np dirs e) sels -> frag_last A n <> None) ->
     (forall a sels p fa al n np args dirs sub, In (SelSet a sels p) (all_subs A) -> In (SField fa al n np args dirs sub) sels ->
                                                 a <> None /\ (name_eqb n n_typename = true \/ fa <> None)) ->
     NoDup (frag_names A) -> (forall n, In n (frag_names A) -> ~ exists x, reach A n x /\ edge A x n) ->
     r_errs (inspect (fields_enter S F) pop (tree_doc A) rst0) = [] ->
     forall e2, rf = Done e2 -> all_primary e2) ->
    rules_with repaired pi S F A rf = Done errs -> primary errs = [] -> errs = [].
  Proof.
    intros Hs Hargs Hrf Hmerge Hall Hprim.
    destruct (no_primary_then_silent_gen pi S F D rf errs Hpi Hs Hrf Hall Hprim) as [Hroot [Hgood [Hpass [Hdecl [Hdir Hsp]]]]].
    destruct (no_primary_then_rules_silent_gen pi S F D rf errs Hpi Hs Hargs Hrf Hall Hprim) as [Ra [Rv Rvar]].
    destruct (rules_with_split _ _ _ _ _ _ _ Hall) as [e1 [e2 [e3 [e5 [e6 [e7 [e8 [R1 [R2 [R3 [R5 [R6 [R7 [R8 ->]]]]]]]]]]]]]].
    rewrite !primary_app_nil in Hprim. destruct Hprim as [P1 [P2 _]].
    rewrite Ra in R3. rewrite Rv in R6. rewrite Rvar in R8. rewrite Hdir in R7. rewrite Hsp in R5.
    apply Done_inj in R3. apply Done_inj in R5. apply Done_inj in R6. apply Done_inj in R7. apply Done_inj in R8. subst e3 e5 e6 e7 e8.
    rewrite Hdecl.
    pose proof Hs as Hs'. unfold schema_ok in Hs'. apply andb_true_iff in Hs' as [Hs' Hs3]. apply andb_true_iff in Hs' as [Hs1 Hs2].
    pose proof (schema_no_typename_spec S F Hs1) as Hnt.
    assert (composite_name S n_String = false) as Hstr.
    { unfold schema_roots_ok in Hs3. rewrite !andb_true_iff in Hs3. destruct Hs3 as [_ H]. apply negb_true_iff in H. exact H. }
    pose proof (silent_fields_known S F D Hnt Hstr Hgood Hpass) as Hfk.
    (* what addFieldSelections needs of the annotated document *)
    pose proof (spreads_silent_defined pi Hpi S F D Hsp) as H5521.
    assert (forall a sels p n np dirs e, In (SelSet a sels p) (all_subs A) -> In (SSpread n np dirs e) sels -> frag_last A n <> None) as Hspd.
    { intros a sels p n np dirs e Hss Hin.
      destruct (all_subs_pti_occ qo S F D a sels p _ Hss Hin) as [d [s0 [Hd [Ho Heq]]]].
      destruct s0 as [| n0 np0 dirs0 e0 |]; try discriminate Heq. cbn [pti_sel] in Heq. inversion Heq; subst n0 np0 e0.
      assert (In n (spread_names D)) as Hn.
      { unfold spread_names, all_sels. apply in_flat_map. exists (SSpread n np dirs0 e). split; [| left; reflexivity].
        apply in_flat_map. exists d. split; [exact Hd |]. rewrite <- (proj2 (ssels_sels S F) (def_sub d) (model_def_scope S F d)).
        apply (in_map snd) in Ho. exact Ho. }
      unfold valid_5_5_2_1 in H5521. rewrite forallb_forall in H5521. specialize (H5521 n Hn). unfold fragment in H5521.
      rewrite frag_last_pti. intros Hnone. destruct (frag_last D n) eqn:El; [discriminate |].
      apply frag_last_none in El. apply (proj2 (frag_first_none D n)) in El. rewrite El in H5521. discriminate H5521. }
    assert (forall a sels p fa al n np args dirs sub, In (SelSet a sels p) (all_subs A) -> In (SField fa al n np args dirs sub) sels ->
                                                      a <> None /\ (name_eqb n n_typename = true \/ fa <> None)) as Hsf.
    { intros a sels p fa al n np args dirs sub Hss Hin.
      destruct (all_subs_pti_occ qo S F D a sels p _ Hss Hin) as [d [s0 [Hd [Ho Heq]]]].
      destruct s0 as [fa0 al0 n0 np0 args0 dirs0 sub0 | |]; try discriminate Heq.
      rewrite pti_sel_field_eq in Heq. inversion Heq; subst fa al n np. clear Heq.
      assert (In {| fo_parent := a; fo_field := SField fa0 al0 n0 np0 args0 dirs0 sub0 |} (all_fields S F D)) as Hof.
      { apply all_fields_enum. exists d, a, (SField fa0 al0 n0 np0 args0 dirs0 sub0). repeat split; assumption. }
      specialize (Hfk _ Hof). unfold fo_def in Hfk. cbn [fo_parent fo_field] in Hfk. destruct a as [tn|]; [| congruence].
      split; [discriminate |]. unfold field_def_of in Hfk. change s_typename with n_typename in Hfk.
      destruct (name_eqb n0 n_typename); [left; reflexivity | right]. rewrite declared_field_eq in Hfk. exact Hfk. }
    (* operations *)
    assert (e1 = []) as -> by (apply (primary_nil_all _ (rule_operations_primary A Hspd Hsf e1 R1) P1)).
    (* fields *)
    assert (e2 = []) as ->; [| reflexivity].
    assert (NoDup (frag_names A)) as Hnd.
    { rewrite frag_names_pti. apply (proj1 (rule_fragment_declarations_iff pi Hpi S F D)) in Hdecl.
      unfold valid_5_5_1 in Hdecl. rewrite !andb_true_iff in Hdecl. destruct Hdecl as [[[H1 _] _] _]. apply nodupb_NoDup. exact H1. }
    apply (primary_nil_all _ (Hmerge Hspd Hsf Hnd (silent_acyclic pi S F A Hpi Hsp) Hpass e2 R2) P2).
  Qed.

  Theorem no_primary_then_nothing errs :
    schema_ok S = true -> schema_args_ok S = true ->
    all_rules repaired pi S F A = Done errs -> primary errs = [] -> errs = [].
  Proof.
    intros Hs Hargs Hall Hprim. rewrite all_rules_with in Hall.
    apply (no_primary_then_nothing_gen _ errs Hs Hargs (rule_fields_prefix pi S F D)); [| exact Hall | exact Hprim].
    intros Hspd Hsf Hnd Hac Hpass e2 R2 e He.
    pose proof (rule_fields_no_depth pi Hpi S F A Hnd Hac e2 R2 e He) as Hk.
    unfold rule_fields in R2. apply finish_done_inv in R2.
    assert (mild (inspect (fields_enter S F) pop (tree_doc A) rst0)) as H0 by (intros x Hx; rewrite Hpass in Hx; destruct Hx).
    pose proof (merge_pass_mild pi Hpi S A Hspd Hsf _ H0) as Hm. unfold mild in Hm. rewrite R2 in Hm. destruct (Hm e He) as [H | H]; [exact H | congruence].
  Qed.

  Theorem no_primary_then_nothing_memo errs :
    schema_ok S = true -> schema_args_ok S = true ->
    all_rules_m repaired pi S F A = Done errs -> primary errs = [] -> errs = [].
  Proof.
    intros Hs Hargs Hall Hprim. rewrite all_rules_m_with in Hall.
    apply (no_primary_then_nothing_gen _ errs Hs Hargs (rule_fields_m_prefix pi S F D)); [| exact Hall | exact Hprim].
    intros Hspd Hsf Hnd Hac Hpass e2 R2.
    unfold rule_fields_m in R2. apply finish_done_inv in R2. rewrite <- R2.
    apply (merge_pass_m_primary pi Hpi S A Hspd Hsf Hnd Hac). cbn [fst]. rewrite Hpass. intros x [].
  Qed.

  (** secondary_never_alone *)
  Theorem secondary_never_alone errs e :
    schema_ok S = true -> schema_args_ok S = true ->
    validate_model repaired pi S F D = Done errs -> In e errs -> e_sec e = false.
  Proof.
    intros Hs Hargs H He. unfold validate_model in H. rewrite type_info_pure in H.
    destruct (all_rules repaired pi S F A) as [errs0 | s |] eqn:Ea; try discriminate. apply Done_inj in H. subst errs.
    unfold filter_primary in He. fold (primary errs0) in He. destruct (primary errs0) as [|x l] eqn:Ep.
    - rewrite (no_primary_then_nothing errs0 Hs Hargs Ea Ep) in He. destruct He.
    - rewrite <- Ep in He. apply filter_In in He as [_ He]. apply negb_true_iff in He. exact He.
  Qed.
  Theorem secondary_never_alone_memo errs e :
    schema_ok S = true -> schema_args_ok S = true ->
    validate_model_memo repaired pi S F D = Done errs -> In e errs -> e_sec e = false.
  Proof.
    intros Hs Hargs H He. unfold validate_model_memo in H. rewrite type_info_pure in H.
    destruct (all_rules_m repaired pi S F A) as [errs0 | s |] eqn:Ea; try discriminate. apply Done_inj in H. subst errs.
    unfold filter_primary in He. fold (primary errs0) in He. destruct (primary errs0) as [|x l] eqn:Ep.
    - rewrite (no_primary_then_nothing_memo errs0 Hs Hargs Ea Ep) in He. destruct He.
    - rewrite <- Ep in He. apply filter_In in He as [_ He]. apply negb_true_iff in He. exact He.
  Qed.
End All.
