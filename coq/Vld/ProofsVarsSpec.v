(** * Vld/ProofsVarsSpec.v — validateVariables against the Spec's 5.8: when the rule is silent on
    the annotated document (and fragment names are unique), 5.8.1 – 5.8.5 hold in the Spec's own
    formulation (usages enumerated with the Spec's types, fragments by the Spec's reachability). *)
From Coq Require Import List NArith Arith Bool Lia.
From ApiFu Require Import Base.Sexp Vld.Ast Vld.AstInd Vld.Inspect Vld.InspectProofs Vld.TypeInfoModel Vld.TypeInfoPure
     Vld.Enumerate Vld.SpecEnum Vld.ValidatorModel Vld.ValidSpec Vld.ProofsCommon Vld.ProofsCycles Vld.ProofsVarsOrder
     Vld.ProofsFragDecl Vld.ProofsOrder Vld.ProofsSpreads Vld.ProofsDepth Vld.ProofsTypeInfoValues Vld.ProofsSpecReach Vld.ProofsValues Vld.ProofsDirectives.
Import ListNotations.

Lemma fm_fm {A B C} (f : B -> list C) (g : A -> list B) l :
  flat_map f (flat_map g l) = flat_map (fun x => flat_map f (g x)) l.
Proof. induction l as [|x l IH]; [reflexivity |]. cbn [flat_map]. rewrite flat_map_app, IH. reflexivity. Qed.
Lemma fm_map {A B C} (f : B -> list C) (g : A -> B) l : flat_map f (map g l) = flat_map (fun x => f (g x)) l.
Proof. induction l as [|x l IH]; [reflexivity |]. cbn [map flat_map]. rewrite IH. reflexivity. Qed.

Lemma map_fm {X Y Z} (f : Y -> Z) (g : X -> list Y) l : map f (flat_map g l) = flat_map (fun x => map f (g x)) l.
Proof. induction l as [|x l IH]; [reflexivity |]. simpl. rewrite map_app, IH. reflexivity. Qed.

(** ** what a visitor that skips variable definitions collects from a tree, piece by piece *)
Section Collect.
  Context {X : Type}.
  Variable h : node -> list X.
  Definition loud (n : node) : bool :=
    match n with NValue (VVar _ _ _ _) => true | NSel (SSpread _ _ _ _) => true | _ => false end.
  Hypothesis quiet : forall n, loud n = false -> h n = [].

  Definition col (t : tree) : list X := flat_map h (vnodes var_g t).
  Lemma col_T n cs : col (T n cs) = h n ++ (if var_g n then flat_map col cs else []).
  Proof. unfold col. cbn [vnodes flat_map]. destruct (var_g n); [rewrite fm_fm |]; reflexivity. Qed.

  Lemma col_name np : col (name_tree np) = [].
  Proof. unfold name_tree. rewrite col_T. rewrite quiet by reflexivity. reflexivity. Qed.

  Definition col_arg (a : argument) : list X := col (tree_value (a_value a)).
  Lemma col_tree_arg a : col (tree_arg a) = col_arg a.
  Proof.
    unfold tree_arg. rewrite col_T; rewrite quiet by reflexivity. cbn [var_g flat_map app]. rewrite col_name, app_nil_r. reflexivity.
  Qed.
  Definition col_dir (d : directive) : list X := flat_map col_arg (d_args d).
  Lemma col_tree_dir d : col (tree_dir d) = col_dir d.
  Proof.
    unfold tree_dir. rewrite col_T; rewrite quiet by reflexivity. cbn [var_g flat_map app]. rewrite col_name, fm_map. cbn [app].
    apply flat_map_ext. intros a. apply col_tree_arg.
  Qed.
  Lemma col_dirs dirs : flat_map col (map tree_dir dirs) = flat_map col_dir dirs.
  Proof. rewrite fm_map. apply flat_map_ext. intros d. apply col_tree_dir. Qed.
  Lemma col_args args : flat_map col (map tree_arg args) = flat_map col_arg args.
  Proof. rewrite fm_map. apply flat_map_ext. intros d. apply col_tree_arg. Qed.

  Lemma col_field a al n np args dirs sub :
    col (tree_sel (SField a al n np args dirs sub)) =
    flat_map col_arg args ++ flat_map col_dir dirs ++ match sub with Some ss => col (tree_ss ss) | None => [] end.
  Proof.
    rewrite tree_sel_field_eq, col_T; rewrite quiet by reflexivity. cbn [var_g]. rewrite app_nil_l.
    rewrite !flat_map_app, col_args, col_dirs. cbn [flat_map]. rewrite col_name.
    assert (flat_map col (opt_tree name_tree al) = []) as -> by (destruct al; [cbn [opt_tree flat_map]; rewrite col_name |]; reflexivity).
    cbn [app]. destruct sub; cbn [opt_tree flat_map]; rewrite ?app_nil_r; reflexivity.
  Qed.
  Lemma col_spread n np dirs e :
    col (tree_sel (SSpread n np dirs e)) = h (NSel (SSpread n np dirs e)) ++ flat_map col_dir dirs.
  Proof. rewrite tree_sel_spread_eq, col_T. cbn [var_g flat_map]. rewrite col_name, col_dirs. reflexivity. Qed.
  Lemma col_inline cond dirs sub e :
    col (tree_sel (SInline cond dirs sub e)) = flat_map col_dir dirs ++ col (tree_ss sub).
  Proof.
    rewrite tree_sel_inline_eq, col_T; rewrite quiet by reflexivity. cbn [var_g]. rewrite app_nil_l.
    rewrite !flat_map_app, col_dirs. cbn [flat_map]. rewrite app_nil_r.
    assert (flat_map col (opt_tree tree_named_type cond) = []) as ->; [| reflexivity].
    destruct cond as [np|]; [| reflexivity]. cbn [opt_tree flat_map]. unfold tree_named_type.
    rewrite col_T; rewrite quiet by reflexivity. cbn [var_g flat_map]. rewrite col_name. reflexivity.
  Qed.
  Lemma col_ss a sels p : col (tree_ss (SelSet a sels p)) = flat_map (fun s => col (tree_sel s)) sels.
  Proof. rewrite tree_ss_eq, col_T; rewrite quiet by reflexivity. cbn [var_g]. rewrite app_nil_l. apply fm_map. Qed.

  Lemma col_vardefs vars : flat_map col (map tree_vardef vars) = [].
  Proof.
    rewrite fm_map. apply flat_map_nil_iff. intros v _. unfold tree_vardef. rewrite col_T; rewrite quiet by reflexivity. reflexivity.
  Qed.
  Lemma col_def d : col (tree_def d) = flat_map col_dir (def_dirs d) ++ col (tree_ss (def_sub d)).
  Proof.
    unfold tree_def. rewrite col_T; rewrite quiet by reflexivity. cbn [var_g]. rewrite app_nil_l.
    destruct d as [ot n vars dirs sub | kw n np cond dirs sub]; cbn [def_dirs def_sub].
    - rewrite !flat_map_app, col_vardefs, col_dirs. cbn [flat_map]. rewrite app_nil_r.
      assert (flat_map col (opt_tree (fun x => T (NOpType (fst x) (snd x)) []) ot) = []) as ->.
      { destruct ot; [| reflexivity]. cbn [opt_tree flat_map]. rewrite col_T; rewrite quiet by reflexivity. reflexivity. }
      assert (flat_map col (opt_tree name_tree n) = []) as -> by (destruct n; [cbn [opt_tree flat_map]; rewrite col_name |]; reflexivity).
      reflexivity.
    - cbn [flat_map]. rewrite col_name, flat_map_app, col_dirs. cbn [flat_map]. rewrite app_nil_r. reflexivity.
  Qed.
End Collect.

(** ** AreTypesCompatible and IsVariableUsageAllowed: the model's and the Spec's *)
Lemma name_eqb_sym a b : name_eqb a b = name_eqb b a.
Proof.
  destruct (name_eqb a b) eqn:E1, (name_eqb b a) eqn:E2; try reflexivity.
  - apply name_eqb_eq in E1. subst. rewrite name_eqb_refl in E2. discriminate.
  - apply name_eqb_eq in E2. subst. rewrite name_eqb_refl in E1. discriminate.
Qed.

Lemma types_compatible_spec v : forall l, types_compatible v l = compatible v l.
Proof.
  induction v as [a | v IH | v IH]; intros l.
  - destruct l as [b | l | l]; cbn; [apply name_eqb_sym | reflexivity | reflexivity].
  - destruct l as [b | l | l]; cbn; [reflexivity | apply IH | reflexivity].
  - destruct l as [b | l | l]; cbn; [apply IH | apply IH | apply IH].
Qed.

Lemma dflt_value_has d : dflt_is_value (in_default d) = true -> has_default d = true.
Proof. unfold has_default. destruct (in_default d); [discriminate | discriminate | reflexivity]. Qed.
Lemma dflt_not_nil_has d : dflt_not_nil (in_default d) = true -> has_default d = true.
Proof. unfold has_default. destruct (in_default d); [discriminate | reflexivity | reflexivity]. Qed.

Lemma ti_value_is_null qo S sc e d x : is_null (ti_value_in qo S sc e d x) = is_null x.
Proof. destruct x; reflexivity. Qed.

Section Usage.
  Variable S : schema.
  Variable F : features.
  Notation qo := (q_unwrap_obj repaired).
  Variable vars0 : list vardef.
  Notation vars := (map (ti_vardef qo S F) vars0).

  Lemma vardef_first_pti n : vardef_first n vars = option_map (ti_vardef qo S F) (find_var n vars0).
  Proof.
    induction vars0 as [|v l IH]; [reflexivity |]. cbn [map vardef_first find_var].
    change (vd_name (ti_vardef qo S F v)) with (vd_name v). destruct (name_eqb n (vd_name v)); [reflexivity | exact IH].
  Qed.

  (** what the Spec asks of one usage *)
  Definition u_ok (u : usage) : Prop :=
    exists vd, find_var (u_name u) vars0 = Some vd /\
    exists vt, declared_type S F (vd_type vd) = Some vt /\
    forall lt, u_type u = Some lt -> usage_allowed vd vt lt (u_default u) = true.

  Lemma variable_usage_allowed vd e dm sc ds p :
    (dm = true -> ds = true) ->
    variable_usage (ti_vardef qo S F vd) {| va_expected := e; va_default := dm; va_scalar := sc |} p = [] ->
    exists vt, declared_type S F (vd_type vd) = Some vt /\ forall lt, e = Some lt -> usage_allowed vd vt lt ds = true.
  Proof.
    intros Hd. unfold variable_usage. cbn [vd_ann ti_vardef va_expected va_default va_scalar vd_default].
    rewrite schema_type_declared. destruct (declared_type S F (vd_type vd)) as [vt|]; [| discriminate].
    intros H. exists vt. split; [reflexivity |]. intros lt ->. unfold usage_allowed.
    assert (forall l, (if types_compatible vt l then [] else [err EVarIncompatible p]) = [] -> compatible vt l = true) as Hc.
    { intros l Hl. rewrite <- types_compatible_spec. destruct (types_compatible vt l); [reflexivity | discriminate]. }
    destruct lt as [b | l | l]; try (apply Hc; exact H).
    destruct (is_nonnull vt); cbn [negb] in H; [apply Hc; exact H |].
    assert (match match vd_default vd with Some x => Some (ti_value qo S (Some vt) false x) | None => None end with
            | Some x => negb (is_null x) | None => false end
            = match vd_default vd with Some x => negb (is_null x) | None => false end) as Ed.
    { destruct (vd_default vd); [unfold ti_value; rewrite ti_value_is_null |]; reflexivity. }
    rewrite Ed in H. destruct (match vd_default vd with Some x => negb (is_null x) | None => false end); cbn [negb andb orb] in *.
    - apply Hc. exact H.
    - destruct dm; cbn [negb] in H; [rewrite (Hd eq_refl); apply Hc; exact H | discriminate].
  Qed.

  Lemma object_fields_spec e :
    object_fields qo S e = match e with
                           | Some t' => match parent_body S (unwrapped t') with Some (TInput ds) => Some ds | _ => None end
                           | None => None
                           end.
  Proof. destruct e as [t|]; [| reflexivity]. unfold object_fields, parent_body. cbn. destruct (raw_body S (unwrapped t)) as [[]|]; reflexivity. Qed.

  (** the usages inside one value *)
  Lemma value_usages_ok v : forall sc e dm ds,
    (dm = true -> ds = true) -> usage_errs qo S vars sc e dm v = [] ->
    forall u, In u (usages_value S e ds v) -> u_ok u.
  Proof.
    induction v as [a n dl np | | | | | | | a vs p IH | a fs p IH] using value_ind'; intros sc e dm ds Hd H u Hu; try (destruct Hu; fail).
    - (* a variable *)
      destruct Hu as [<- | []]. cbn [usage_errs] in H. rewrite vardef_first_pti in H. unfold u_ok. cbn [u_name u_type u_default].
      destruct (find_var n vars0) as [vd|]; [| discriminate]. exists vd. split; [reflexivity |]. cbn [option_map] in H.
      apply (variable_usage_allowed vd e dm sc ds dl Hd H).
    - (* a list *)
      cbn [usage_errs usages_value] in H, Hu. rewrite flat_map_nil_iff in H. apply in_flat_map in Hu as [x [Hx Hu]].
      rewrite Forall_forall in IH. apply (IH x Hx _ _ false false (fun h => h) (H x Hx) u). exact Hu.
    - (* an object *)
      cbn [usage_errs usages_value] in H, Hu. rewrite flat_map_nil_iff in H. apply in_flat_map in Hu as [[[fn fp] x] [Hx Hu]].
      rewrite Forall_forall in IH. specialize (IH _ Hx). cbn [snd] in IH. specialize (H _ Hx). cbn beta iota in H.
      rewrite object_fields_spec in H.
      destruct (match match e with Some t' => match parent_body S (unwrapped t') with Some (TInput ds0) => Some ds0 | _ => None end | None => None end with
                | Some l => assoc fn l | None => None end) as [def|].
      + assert (dflt_is_value (in_default def) = true -> has_default def = true) as Hdf
            by (unfold has_default; destruct (in_default def); [discriminate | discriminate | reflexivity]).
        apply (IH _ _ _ (has_default def) Hdf H u Hu).
      + apply (IH _ _ false false (fun h => h) H u Hu).
  Qed.
End Usage.

(** ** arguments, directives, selections, definitions *)
Section UsagesOfTrees.
  Variable S : schema.
  Variable F : features.
  Hypothesis no_typename_field : forall top, field_of_scope S F top n_typename = None.
  Notation qo := (q_unwrap_obj repaired).
  Variable vars0 : list vardef.
  Notation vars := (map (ti_vardef qo S F) vars0).
  Notation E := (var_fe vars).
  Notation ok := (u_ok S F vars0).

  Lemma E_quiet n : loud n = false -> E n = [].
  Proof. intros H. destruct n as [?|?|? ?|? ?|?|?|?|?|s|?|v|? ? ?]; try reflexivity. destruct v; try reflexivity; discriminate H. Qed.
  Notation colE := (col E).

  Definition lookup (defs : option (list (name * input_def))) (n : name) : option input_def :=
    match defs with Some l => assoc n l | None => None end.

  Lemma args_usages_ok defs defs' dnil args :
    (forall n, lookup defs n = lookup defs' n) ->
    (forall d, dnil (in_default d) = true -> has_default d = true) ->
    flat_map (col_arg E) (ti_args qo S defs dnil args) = [] ->
    forall u, In u (usages_args S defs' args) -> ok u.
  Proof.
    intros Hl Hd H u Hu. rewrite ti_args_spec, fm_map, flat_map_nil_iff in H.
    unfold usages_args in Hu. apply in_flat_map in Hu as [a [Ha Hu]]. specialize (H a Ha).
    unfold col_arg in H. cbn [a_value] in H. fold (lookup defs (a_name a)) in H. fold (lookup defs' (a_name a)) in Hu.
    rewrite <- Hl in Hu. destruct (lookup defs (a_name a)) as [def|]; unfold ti_value, col in H; rewrite vars_value_errs in H.
    - apply (value_usages_ok S F vars0 _ _ _ _ (has_default def) (Hd def) H u Hu).
    - apply (value_usages_ok S F vars0 _ _ _ _ false (fun h => h) H u Hu).
  Qed.

  Lemma dirs_usages_ok dirs :
    flat_map (col_dir E) (map (ti_dir qo S) dirs) = [] -> forall u, In u (usages_dirs S dirs) -> ok u.
  Proof.
    intros H u Hu. rewrite fm_map, flat_map_nil_iff in H. unfold usages_dirs in Hu. apply in_flat_map in Hu as [d [Hd Hu]].
    specialize (H d Hd). unfold col_dir, ti_dir in H. cbn [d_args d_name] in H. unfold directive_def in Hu.
    apply (args_usages_ok _ _ dflt_is_value (d_args d) (fun n => eq_refl) dflt_value_has H u Hu).
  Qed.

  Lemma field_lookup top f n :
    lookup (match field_of_scope S F top f with Some d => Some (f_args d) | None => None end) n =
    lookup (match top with
            | Some p => match field_def_of S F p f with Some d => Some (f_args d) | None => None end
            | None => None
            end) n.
  Proof.
    destruct top as [p|]; [| reflexivity]. unfold field_def_of.
    destruct (name_eqb f s_typename) eqn:Et.
    - apply name_eqb_eq in Et. subst f. change s_typename with n_typename. rewrite no_typename_field.
      destruct (composite S p); reflexivity.
    - rewrite declared_field_eq. reflexivity.
  Qed.

  Lemma sels_usages_ok :
    (forall s top, colE (tree_sel (pti_sel qo S F top s)) = [] -> forall u, In u (usages_sel S F top s) -> ok u) /\
    (forall ss top, colE (tree_ss (pti_ss qo S F top ss)) = [] -> forall u, In u (usages_ss S F top ss) -> ok u).
  Proof.
    apply sel_ss_ind.
    - intros a al n np args dirs sub IH top H u Hu. rewrite (pti_sel_field_eq qo S F top a al n np args dirs sub) in H.
      rewrite (col_field E E_quiet) in H. apply app_eq_nil in H as [H1 H2]. apply app_eq_nil in H2 as [H2 H3].
      cbn [usages_sel] in Hu. apply in_app_or in Hu as [Hu | Hu]; [| apply in_app_or in Hu as [Hu | Hu]].
      + unfold field_args in H1. apply (args_usages_ok _ _ dflt_not_nil args (field_lookup top n) dflt_not_nil_has H1 u Hu).
      + apply (dirs_usages_ok dirs H2 u Hu).
      + destruct sub as [ss|]; [| destruct Hu]. rewrite sub_scope_field in Hu. apply (IH ss eq_refl _ H3 u Hu).
    - intros n np dirs e top H u Hu. cbn [pti_sel] in H. rewrite (col_spread E E_quiet) in H. apply app_eq_nil in H as [_ H].
      cbn [usages_sel] in Hu. apply (dirs_usages_ok dirs H u Hu).
    - intros cond dirs sub e IH top H u Hu. rewrite (pti_sel_inline_eq qo S F top cond dirs sub e) in H.
      rewrite (col_inline E E_quiet) in H. apply app_eq_nil in H as [H1 H2].
      cbn [usages_sel] in Hu. apply in_app_or in Hu as [Hu | Hu]; [apply (dirs_usages_ok dirs H1 u Hu) |].
      rewrite sub_scope_inline in Hu. apply (IH _ H2 u Hu).
    - intros a sels p IH top H u Hu. rewrite pti_ss_eq, (col_ss E E_quiet), fm_map, flat_map_nil_iff in H.
      cbn [usages_ss] in Hu. apply in_flat_map in Hu as [s [Hs Hu]]. rewrite Forall_forall in IH. apply (IH s Hs top (H s Hs) u Hu).
  Qed.

  Lemma def_usages_ok d :
    colE (tree_def (pti_def qo S F d)) = [] -> forall u, In u (usages_def S F d) -> ok u.
  Proof.
    intros H u Hu. rewrite (col_def E E_quiet), def_dirs_pti, pti_def_sub in H. apply app_eq_nil in H as [H1 H2].
    unfold usages_def in Hu. apply in_app_or in Hu as [Hu | Hu]; [apply (dirs_usages_ok _ H1 u Hu) |].
    rewrite spec_def_scope_eq in Hu. apply (proj2 sels_usages_ok _ _ H2 u Hu).
  Qed.
End UsagesOfTrees.

(** ** the fragments an operation reaches: the Spec's [op_fragments] are among the model's [reached] *)
Lemma sn_quiet n : loud n = false -> spread_name_of n = [].
Proof. intros H. destruct n as [?|?|? ?|? ?|?|?|?|?|s|?|v|? ? ?]; try reflexivity. destruct s; try reflexivity; discriminate H. Qed.

Lemma sp_in_col :
  (forall s y, In y (sp_sel s) -> In y (col spread_name_of (tree_sel s))) /\
  (forall ss y, In y (sp_ss ss) -> In y (col spread_name_of (tree_ss ss))).
Proof.
  apply sel_ss_ind.
  - intros a al n np args dirs sub IH y Hy. rewrite (col_field _ sn_quiet). destruct sub as [ss|]; [| destruct Hy].
    apply in_or_app. right. apply in_or_app. right. apply (IH ss eq_refl y Hy).
  - intros n np dirs e y Hy. rewrite (col_spread _ sn_quiet). apply in_or_app. left. exact Hy.
  - intros cond dirs sub e IH y Hy. rewrite (col_inline _ sn_quiet). apply in_or_app. right. apply (IH y Hy).
  - intros a sels p IH y Hy. rewrite (col_ss _ sn_quiet). rewrite sp_ss_eq in Hy. apply in_flat_map in Hy as [s [Hs Hy]].
    apply in_flat_map. exists s. split; [exact Hs |]. rewrite Forall_forall in IH. apply (IH s Hs y Hy).
Qed.

Section Operation.
  Variable S : schema.
  Variable F : features.
  Notation qo := (q_unwrap_obj repaired).
  Variable D : document.
  Notation A := (pti_doc qo S F D).
  Hypothesis names_unique : NoDup (frag_names D).

  Lemma def_spreads_in d y : In y (sp_ss (def_sub d)) -> In y (flat_map spread_name_of (vnodes var_g (tree_def (pti_def qo S F d)))).
  Proof.
    intros Hy. change (In y (col spread_name_of (tree_def (pti_def qo S F d)))). rewrite (col_def _ sn_quiet). apply in_or_app. right.
    rewrite pti_def_sub. apply (proj2 sp_in_col). rewrite (proj2 (sp_pti qo S F)). exact Hy.
  Qed.

  Lemma spreads_of_def_sp d : spreads_of_def d = sp_ss (def_sub d).
  Proof. unfold spreads_of_def. apply (proj2 spreads_sp). Qed.

  Lemma spec_fragment_body n fd : fragment D n = Some fd -> body A n = vnodes var_g (tree_def (pti_def qo S F fd)).
  Proof.
    intros H. unfold fragment in H. apply (frag_first_last D names_unique) in H. unfold body. rewrite frag_last_pti, H. reflexivity.
  Qed.

  Lemma spec_step_reached d x y : reached A (pti_def qo S F d) x -> In y (spreads_of D x) -> reached A (pti_def qo S F d) y.
  Proof.
    intros Hx Hy. apply (reached_step A (pti_def qo S F d) x y Hx). unfold spreads_of in Hy.
    destruct (fragment D x) as [fd|] eqn:Ef; [| destruct Hy]. rewrite (spec_fragment_body x fd Ef).
    apply def_spreads_in. rewrite <- (proj2 spreads_sp). exact Hy.
  Qed.

  Lemma spec_fragments_reached d n : In n (op_fragments D d) -> reached A (pti_def qo S F d) n.
  Proof.
    intros H. apply spec_op_fragments in H. rewrite spreads_of_def_sp in H.
    assert (forall f, In f (sp_ss (def_sub d)) -> reached A (pti_def qo S F d) f) as H0.
    { intros f Hf. apply reached0. apply def_spreads_in. exact Hf. }
    destruct H as [H | [f [Hf Hp]]]; [apply H0; exact H |].
    induction Hp as [y Hy | y z _ IH Hyz]; [apply (spec_step_reached d f y (H0 f Hf) Hy) | apply (spec_step_reached d y z IH Hyz)].
  Qed.

  Hypothesis no_typename_field : forall top, field_of_scope S F top n_typename = None.

  (** every usage the Spec attributes to an operation is fine *)
  Theorem op_usages_ok ot n vars0 dirs sub :
    vars_fine S A (pti_def qo S F (DOp ot n vars0 dirs sub)) ->
    forall u, In u (op_usages S F D (DOp ot n vars0 dirs sub)) -> u_ok S F vars0 u.
  Proof.
    intros [_ [H2 [H3 _]]] u Hu. unfold op_usages in Hu. apply in_app_or in Hu as [Hu | Hu].
    - apply (def_usages_ok S F no_typename_field vars0 _ H2 u Hu).
    - apply in_flat_map in Hu as [x [Hx Hu]]. destruct (fragment D x) as [fd|] eqn:Ef; [| destruct Hu].
      specialize (H3 x (spec_fragments_reached _ x Hx)). rewrite (spec_fragment_body x fd Ef) in H3.
      apply (def_usages_ok S F no_typename_field vars0 _ H3 u Hu).
  Qed.
End Operation.

(** ** 5.8.1 / 5.8.2: the loop over the variable definitions *)
Lemma vardefs_loop_nil S vars : forall seen,
  vardefs_loop S vars seen = [] ->
  NoDup (map vd_name vars) /\ (forall v, In v vars -> ~ In (vd_name v) seen) /\
  forall v, In v vars -> exists t b, vd_ann v = Some t /\ raw_body S (unwrapped t) = Some b /\ is_input_body b = true.
Proof.
  induction vars as [|v r IH]; intros seen H.
  - split; [constructor |]. split; intros v [].
  - cbn [vardefs_loop] in H. apply app_eq_nil in H as [H1 H]. apply app_eq_nil in H as [H2 H3].
    destruct (IH _ H3) as [Hnd [Hs Ht]].
    assert (~ In (vd_name v) seen) as Hv by (destruct (mem (vd_name v) seen) eqn:E; [discriminate | apply mem_false; exact E]).
    split; [| split].
    + cbn [map]. constructor; [| exact Hnd]. intros Hin. apply in_map_iff in Hin as [w [Hw Hin]]. apply (Hs w Hin). left. symmetry. exact Hw.
    + intros w [<- | Hw]; [exact Hv |]. intros Hin. apply (Hs w Hw). right. exact Hin.
    + intros w [<- | Hw]; [| apply Ht; exact Hw].
      destruct (vd_ann v) as [t|]; [| discriminate H2]. destruct (raw_body S (unwrapped t)) as [b|] eqn:Eb; [| discriminate H2].
      exists t, b. destruct (is_input_body b); [split; [reflexivity | split; [exact Eb | reflexivity]] | discriminate H2].
Qed.

Lemma schema_type_visible S F ty t : schema_type S F ty = Some t -> named_type S F (unwrapped t) <> None.
Proof.
  revert t. induction ty as [n p | ty IH p | ty IH]; intros t H; cbn [schema_type] in H.
  - destruct (named_type S F n) eqn:E; [| discriminate]. inversion H; subst. cbn. congruence.
  - destruct (schema_type S F ty) as [x|]; [| discriminate]. inversion H; subst. apply (IH x eq_refl).
  - destruct (schema_type S F ty) as [x|]; [| discriminate]. inversion H; subst. apply (IH x eq_refl).
Qed.

Lemma find_var_in n vars vd : find_var n vars = Some vd -> In vd vars /\ vd_name vd = n.
Proof.
  induction vars as [|v r IH]; [discriminate |]. cbn [find_var]. destruct (name_eqb n (vd_name v)) eqn:E.
  - intros H. inversion H; subst. apply name_eqb_eq in E. split; [left; reflexivity | symmetry; exact E].
  - intros H. destruct (IH H) as [H1 H2]. split; [right; exact H1 | exact H2].
Qed.

(** ** 5.8 in the Spec's formulation, for a document on which validateVariables is silent *)
Theorem variables_silent_5_8 pi S F D :
  order_ok pi -> (forall top, field_of_scope S F top n_typename = None) -> valid_5_5_1_1 D = true ->
  rule_variables pi S (pti_doc (q_unwrap_obj repaired) S F D) = Done [] ->
  valid_5_8_1 D = true /\ valid_5_8_2 S F D = true /\ valid_5_8_3 S F D = true /\ valid_5_8_5 S F D = true.
Proof.
  intros Hpi Hnt Hnd H. apply nodupb_NoDup in Hnd.
  pose proof (proj1 (rule_variables_fine S _ pi Hpi) H) as Hfine.
  assert (forall ot n vars0 dirs sub, In (DOp ot n vars0 dirs sub) D ->
            vars_fine S (pti_doc (q_unwrap_obj repaired) S F D) (pti_def (q_unwrap_obj repaired) S F (DOp ot n vars0 dirs sub))) as Hop.
  { intros ot n vars0 dirs sub Hd. apply Hfine. unfold pti_doc. apply in_map. exact Hd. }
  split; [| split; [| split]].
  - unfold valid_5_8_1. apply forallb_forall. intros d Hd. destruct d as [ot n vars0 dirs sub |]; [| reflexivity].
    destruct (Hop _ _ _ _ _ Hd) as [H1 _]. cbn [pti_def] in H1. destruct (vardefs_loop_nil S _ _ H1) as [Hn _].
    rewrite map_map in Hn. apply nodupb_NoDup. exact Hn.
  - unfold valid_5_8_2, all_vardefs. apply forallb_forall. intros v Hv. apply in_flat_map in Hv as [d [Hd Hv]].
    destruct d as [ot n vars0 dirs sub |]; [| destruct Hv]. destruct (Hop _ _ _ _ _ Hd) as [H1 _]. cbn [pti_def] in H1.
    destruct (vardefs_loop_nil S _ _ H1) as [_ [_ Ht]].
    destruct (Ht (ti_vardef (q_unwrap_obj repaired) S F v) (in_map _ _ _ Hv)) as [t [b [E1 [E2 E3]]]]. cbn [vd_ann ti_vardef] in E1.
    rewrite <- schema_type_declared, E1. unfold input_type, type_of.
    pose proof (schema_type_visible S F _ _ E1) as Hvis. destruct (named_type S F (unwrapped t)) as [b'|] eqn:Eb; [| congruence].
    apply (ProofsFields.named_type_raw S F) in Eb. rewrite E2 in Eb. inversion Eb; subst. exact E3.
  - unfold valid_5_8_3. apply forallb_forall. intros d Hd. destruct d as [ot n vars0 dirs sub |]; [| reflexivity].
    apply forallb_forall. intros u Hu.
    destruct (op_usages_ok S F D Hnd Hnt ot n vars0 dirs sub (Hop _ _ _ _ _ Hd) u Hu) as [vd [Hf _]].
    apply find_var_in in Hf as [Hin <-]. apply mem_in. apply in_map. exact Hin.
  - unfold valid_5_8_5. apply forallb_forall. intros d Hd. destruct d as [ot n vars0 dirs sub |]; [| reflexivity].
    apply forallb_forall. intros u Hu.
    destruct (op_usages_ok S F D Hnd Hnt ot n vars0 dirs sub (Hop _ _ _ _ _ Hd) u Hu) as [vd [Hf [vt [Hvt Hall]]]].
    rewrite Hf. destruct (u_type u) as [lt|]; [| reflexivity]. rewrite Hvt, (Hall lt eq_refl). destruct (input_type S F vt); reflexivity.
Qed.

(** ** 5.8.4: the variables the visitor meets are among the Spec's usages, the fragments it reaches
    among the Spec's [op_fragments] *)
Lemma fn_quiet n : loud n = false -> var_fn n = [].
Proof. intros H. destruct n as [?|?|? ?|? ?|?|?|?|?|s|?|v|? ? ?]; try reflexivity. destruct v; try reflexivity; discriminate H. Qed.

Section Names.
  Variable S : schema.
  Variable F : features.
  Notation qo := (q_unwrap_obj repaired).

  Lemma value_names v : forall sc e d e' ds n,
    In n (col var_fn (tree_value (ti_value_in qo S sc e d v))) -> In n (map u_name (usages_value S e' ds v)).
  Proof.
    induction v as [a x dl np | | | | | | | a vs p IH | a fs p IH] using value_ind'; intros sc e d e' ds nm H;
      try (cbn in H; destruct H; fail).
    - rewrite ti_value_var in H. cbn [tree_value] in H. rewrite col_T in H. cbn [var_fn var_g flat_map] in H.
      rewrite (col_name _ fn_quiet) in H. exact H.
    - rewrite ti_value_list in H. cbn [tree_value] in H. rewrite col_T in H. cbn [var_fn var_g app] in H.
      rewrite map_map, fm_map in H. apply in_flat_map in H as [x [Hx H]]. rewrite Forall_forall in IH.
      cbn [usages_value]. rewrite map_fm. apply in_flat_map. exists x. split; [exact Hx |]. apply (IH x Hx _ _ _ _ _ nm H).
    - rewrite ti_value_object in H. cbn [tree_value] in H. rewrite col_T in H. cbn [var_fn var_g app] in H.
      rewrite map_map, fm_map in H. apply in_flat_map in H as [[[fn fp] x] [Hx H]]. rewrite Forall_forall in IH. specialize (IH _ Hx). cbn [snd] in IH.
      cbn [usages_value]. rewrite map_fm. apply in_flat_map. exists (fn, fp, x). split; [exact Hx |].
      assert (forall sc1 e1 d1, In nm (col var_fn (T (NObjField fn fp (ti_value_in qo S sc1 e1 d1 x)) [name_tree (fn, fp); tree_value (ti_value_in qo S sc1 e1 d1 x)]))
                                -> In nm (col var_fn (tree_value (ti_value_in qo S sc1 e1 d1 x)))) as Hobj.
      { intros sc1 e1 d1 H0. rewrite col_T in H0. cbn [var_fn var_g flat_map app] in H0. rewrite (col_name _ fn_quiet), app_nil_r in H0. exact H0. }
      unfold object_field in H.
      destruct (match object_fields qo S e with Some l => assoc fn l | None => None end);
        apply Hobj in H;
        (destruct (match match e' with Some t' => match parent_body S (unwrapped t') with Some (TInput ds0) => Some ds0 | _ => None end | None => None end with
                   | Some ds0 => assoc fn ds0 | None => None end); apply (IH _ _ _ _ _ nm H)).
  Qed.

  Lemma args_names defs dnil defs' args n :
    In n (flat_map (col_arg var_fn) (ti_args qo S defs dnil args)) -> In n (map u_name (usages_args S defs' args)).
  Proof.
    intros H. rewrite ti_args_spec, fm_map in H. apply in_flat_map in H as [a [Ha H]].
    unfold usages_args. rewrite map_fm. apply in_flat_map. exists a. split; [exact Ha |].
    unfold col_arg in H. cbn [a_value] in H.
    destruct (match defs with Some l => assoc (a_name a) l | None => None end); unfold ti_value in H;
      (destruct (match defs' with Some ds => assoc (a_name a) ds | None => None end); apply (value_names _ _ _ _ _ _ n H)).
  Qed.

  Lemma dirs_names dirs n :
    In n (flat_map (col_dir var_fn) (map (ti_dir qo S) dirs)) -> In n (map u_name (usages_dirs S dirs)).
  Proof.
    intros H. rewrite fm_map in H. apply in_flat_map in H as [d [Hd H]]. unfold usages_dirs. rewrite map_fm.
    apply in_flat_map. exists d. split; [exact Hd |]. unfold col_dir, ti_dir in H. cbn [d_args] in H. apply (args_names _ _ _ _ n H).
  Qed.

  Lemma sels_names :
    (forall s top n, In n (col var_fn (tree_sel (pti_sel qo S F top s))) -> In n (map u_name (usages_sel S F top s))) /\
    (forall ss top n, In n (col var_fn (tree_ss (pti_ss qo S F top ss))) -> In n (map u_name (usages_ss S F top ss))).
  Proof.
    apply sel_ss_ind.
    - intros a al f np args dirs sub IH top n H. rewrite (pti_sel_field_eq qo S F top a al f np args dirs sub) in H.
      rewrite (col_field _ fn_quiet) in H. cbn [usages_sel]. rewrite !map_app.
      apply in_app_or in H as [H | H]; [| apply in_app_or in H as [H | H]]; apply in_or_app.
      + left. unfold field_args in H. apply (args_names _ _ _ _ n H).
      + right. apply in_or_app. left. apply (dirs_names dirs n H).
      + right. apply in_or_app. right. destruct sub as [ss|]; [| destruct H]. rewrite sub_scope_field. apply (IH ss eq_refl _ n H).
    - intros f np dirs e top n H. cbn [pti_sel] in H. rewrite (col_spread _ fn_quiet) in H. cbn [var_fn app] in H.
      cbn [usages_sel]. apply (dirs_names dirs n H).
    - intros cond dirs sub e IH top n H. rewrite (pti_sel_inline_eq qo S F top cond dirs sub e) in H.
      rewrite (col_inline _ fn_quiet) in H. cbn [usages_sel]. rewrite map_app. apply in_or_app.
      apply in_app_or in H as [H | H]; [left; apply (dirs_names dirs n H) | right]. rewrite sub_scope_inline. apply (IH _ n H).
    - intros a sels p IH top n H. rewrite pti_ss_eq, (col_ss _ fn_quiet), fm_map in H. apply in_flat_map in H as [s [Hs H]].
      cbn [usages_ss]. rewrite map_fm. apply in_flat_map. exists s. split; [exact Hs |]. rewrite Forall_forall in IH. apply (IH s Hs top n H).
  Qed.

  Lemma def_names d n :
    In n (flat_map var_fn (vnodes var_g (tree_def (pti_def qo S F d)))) -> In n (map u_name (usages_def S F d)).
  Proof.
    intros H. change (In n (col var_fn (tree_def (pti_def qo S F d)))) in H.
    rewrite (col_def _ fn_quiet), def_dirs_pti, pti_def_sub in H. unfold usages_def. rewrite map_app. apply in_or_app.
    apply in_app_or in H as [H | H]; [left; apply (dirs_names _ n H) | right]. rewrite spec_def_scope_eq. apply (proj2 sels_names _ _ n H).
  Qed.

  (** no fragment spread hides inside a value *)
  Lemma sn_value v : col spread_name_of (tree_value v) = [].
  Proof.
    induction v as [a x dl np | | | | | | | a vs p IH | a fs p IH] using value_ind'; try reflexivity.
    - cbn [tree_value]. rewrite col_T. cbn [spread_name_of var_g app]. rewrite fm_map. apply flat_map_nil_iff. rewrite Forall_forall in IH. exact IH.
    - cbn [tree_value]. rewrite col_T. cbn [spread_name_of var_g app]. rewrite fm_map. apply flat_map_nil_iff. intros [[fn fp] x] Hx.
      rewrite Forall_forall in IH. specialize (IH _ Hx). cbn [snd] in IH. rewrite col_T. cbn [spread_name_of var_g flat_map app].
      rewrite (col_name _ sn_quiet), IH. reflexivity.
  Qed.
  Lemma sn_dirs dirs : flat_map (col_dir spread_name_of) dirs = [].
  Proof. apply flat_map_nil_iff. intros d _. unfold col_dir. apply flat_map_nil_iff. intros a _. apply sn_value. Qed.
  Lemma sn_args args : flat_map (col_arg spread_name_of) args = [].
  Proof. apply flat_map_nil_iff. intros a _. apply sn_value. Qed.

  Lemma col_sp :
    (forall s, col spread_name_of (tree_sel s) = sp_sel s) /\
    (forall ss, col spread_name_of (tree_ss ss) = sp_ss ss).
  Proof.
    apply sel_ss_ind.
    - intros a al f np args dirs sub IH. rewrite (col_field _ sn_quiet), sn_args, sn_dirs. cbn [app sp_sel].
      destruct sub as [ss|]; [apply (IH ss eq_refl) | reflexivity].
    - intros f np dirs e. rewrite (col_spread _ sn_quiet), sn_dirs. reflexivity.
    - intros cond dirs sub e IH. rewrite (col_inline _ sn_quiet), sn_dirs. exact IH.
    - intros a sels p IH. rewrite (col_ss _ sn_quiet), sp_ss_eq. induction IH as [|s l Hs _ IHl]; [reflexivity |]. cbn [flat_map]. rewrite Hs, IHl. reflexivity.
  Qed.

  Lemma def_spreads_eq d : flat_map spread_name_of (vnodes var_g (tree_def (pti_def qo S F d))) = sp_ss (def_sub d).
  Proof.
    change (col spread_name_of (tree_def (pti_def qo S F d)) = sp_ss (def_sub d)).
    rewrite (col_def _ sn_quiet), sn_dirs, pti_def_sub. cbn [app]. rewrite (proj2 col_sp). apply (proj2 (sp_pti qo S F)).
  Qed.
End Names.

Section Used.
  Variable S : schema.
  Variable F : features.
  Notation qo := (q_unwrap_obj repaired).
  Variable D : document.
  Notation A := (pti_doc qo S F D).
  Hypothesis names_unique : NoDup (frag_names D).

  Lemma frag_last_first n fd : frag_last D n = Some fd -> fragment D n = Some fd.
  Proof.
    intros H. unfold fragment. destruct (frag_first D n) as [fd'|] eqn:E.
    - pose proof (frag_first_last D names_unique n fd' E) as H'. congruence.
    - apply frag_first_none in E. exfalso. apply E. apply (frag_last_in_names D n fd H).
  Qed.

  Lemma body_spec x :
    (exists fd, fragment D x = Some fd /\ body A x = vnodes var_g (tree_def (pti_def qo S F fd))) \/ body A x = [].
  Proof.
    unfold body. rewrite frag_last_pti. destruct (frag_last D x) as [fd|] eqn:E; [left | right; reflexivity].
    exists fd. split; [apply frag_last_first; exact E | reflexivity].
  Qed.

  Lemma reached_spec d x :
    reached A (pti_def qo S F d) x ->
    In x (sp_ss (def_sub d)) \/ exists f, In f (sp_ss (def_sub d)) /\ plus (spreads_of D) f x.
  Proof.
    intros H. induction H as [x Hx | x y _ IH Hy].
    - left. unfold spreads, body0 in Hx. rewrite def_spreads_eq in Hx. exact Hx.
    - destruct (body_spec x) as [[fd [Ef Eb]] | Eb]; [| rewrite Eb in Hy; destruct Hy].
      unfold spreads in Hy. rewrite Eb, def_spreads_eq in Hy.
      assert (In y (spreads_of D x)) as Hs by (unfold spreads_of; rewrite Ef; fold spread_of_sel; rewrite (proj2 spreads_sp); exact Hy).
      right. destruct IH as [IH | [f [Hf Hp]]].
      + exists x. split; [exact IH | apply plus_one; exact Hs].
      + exists f. split; [exact Hf | apply (plus_more _ f x y Hp Hs)].
  Qed.

  Theorem op_vars_used ot n vars0 dirs sub :
    vars_fine S A (pti_def qo S F (DOp ot n vars0 dirs sub)) ->
    forall v, In v vars0 -> In (vd_name v) (map u_name (op_usages S F D (DOp ot n vars0 dirs sub))).
  Proof.
    intros [_ [_ [_ H4]]] v Hv. specialize (H4 (ti_vardef qo S F v) (in_map _ _ _ Hv)). change (vd_name (ti_vardef qo S F v)) with (vd_name v) in H4.
    unfold op_usages. rewrite map_app. apply in_or_app. destruct H4 as [H4 | [x [Hx H4]]].
    - left. unfold body0 in H4. apply (def_names S F _ _ H4).
    - right. destruct (body_spec x) as [[fd [Ef Eb]] | Eb]; [| rewrite Eb in H4; destruct H4].
      rewrite Eb in H4. rewrite map_fm. apply in_flat_map. exists x. split.
      + apply spec_op_fragments. rewrite spreads_of_def_sp. apply (reached_spec _ x Hx).
      + rewrite Ef. apply (def_names S F _ _ H4).
  Qed.
End Used.

Theorem variables_silent_5_8_4 pi S F D :
  order_ok pi -> valid_5_5_1_1 D = true ->
  rule_variables pi S (pti_doc (q_unwrap_obj repaired) S F D) = Done [] -> valid_5_8_4 S F D = true.
Proof.
  intros Hpi Hnd H. apply nodupb_NoDup in Hnd. pose proof (proj1 (rule_variables_fine S _ pi Hpi) H) as Hfine.
  unfold valid_5_8_4. apply forallb_forall. intros d Hd. destruct d as [ot n vars0 dirs sub |]; [| reflexivity].
  apply forallb_forall. intros v Hv. apply mem_in.
  apply (op_vars_used S F D Hnd ot n vars0 dirs sub); [| exact Hv]. apply Hfine. unfold pti_doc. apply in_map. exact Hd.
Qed.

(** ** what "allowed at a position of type [b!]" says about the declared type (for @skip / @include) *)
Fixpoint peel (t : sty) : sty := match t with StNonNull t' => peel t' | _ => t end.

Lemma compatible_named vt b : compatible vt (StNamed b) = true -> peel vt = StNamed b.
Proof.
  induction vt as [a | v IH | v IH]; cbn; intros H; [| discriminate | apply IH; exact H].
  apply name_eqb_eq in H. subst. reflexivity.
Qed.

Lemma usage_allowed_named vd vt b ds :
  usage_allowed vd vt (StNonNull (StNamed b)) ds = true ->
  peel vt = StNamed b /\
  (is_nonnull vt = true \/ ds = true \/ exists x, vd_default vd = Some x /\ is_null x = false).
Proof.
  unfold usage_allowed. destruct (is_nonnull vt) eqn:En.
  - intros H. split; [| left; reflexivity]. destruct vt as [a | v | v]; try discriminate En. cbn in H. cbn [peel]. apply compatible_named. exact H.
  - destruct (match vd_default vd with Some x => negb (is_null x) | None => false end) eqn:Ed; cbn [orb].
    + intros H. split; [apply compatible_named; exact H |]. right. right.
      destruct (vd_default vd) as [x|]; [| discriminate]. exists x. split; [reflexivity | apply negb_true_iff; exact Ed].
    + destruct ds; [| discriminate]. intros H. split; [apply compatible_named; exact H | right; left; reflexivity].
Qed.
