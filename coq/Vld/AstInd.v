(** * Vld/AstInd.v — induction principles for the nested inductives of Vld/Ast.v. *)
From Coq Require Import List NArith Bool.
From ApiFu Require Import Base.Sexp Vld.Ast.
Import ListNotations.

Section ValueInd.
  Variable P : value -> Prop.
  Hypothesis HVar : forall a n d np, P (VVar a n d np).
  Hypothesis HInt : forall a l p, P (VInt a l p).
  Hypothesis HFloat : forall a l p, P (VFloat a l p).
  Hypothesis HString : forall a s p, P (VString a s p).
  Hypothesis HBool : forall a b p, P (VBool a b p).
  Hypothesis HNull : forall a p, P (VNull a p).
  Hypothesis HEnum : forall a n p, P (VEnum a n p).
  Hypothesis HList : forall a vs p, Forall P vs -> P (VList a vs p).
  Hypothesis HObject : forall a fs p, Forall (fun f => P (snd f)) fs -> P (VObject a fs p).
  Fixpoint value_ind' (v : value) : P v :=
    match v with
    | VVar a n d np => HVar a n d np
    | VInt a l p => HInt a l p
    | VFloat a l p => HFloat a l p
    | VString a s p => HString a s p
    | VBool a b p => HBool a b p
    | VNull a p => HNull a p
    | VEnum a n p => HEnum a n p
    | VList a vs p =>
        HList a vs p ((fix go (l : list value) : Forall P l :=
                         match l with
                         | [] => Forall_nil _
                         | x :: r => Forall_cons x (value_ind' x) (go r)
                         end) vs)
    | VObject a fs p =>
        HObject a fs p ((fix go (l : list (name * pos * value)) : Forall (fun f => P (snd f)) l :=
                           match l with
                           | [] => Forall_nil _
                           | x :: r => Forall_cons x (value_ind' (snd x)) (go r)
                           end) fs)
    end.
End ValueInd.

Section SelInd.
  Variables (P : selection -> Prop) (Q : selset -> Prop).
  Hypothesis HField : forall a al n np args dirs sub,
      (forall ss, sub = Some ss -> Q ss) -> P (SField a al n np args dirs sub).
  Hypothesis HSpread : forall n np dirs e, P (SSpread n np dirs e).
  Hypothesis HInline : forall cond dirs sub e, Q sub -> P (SInline cond dirs sub e).
  Hypothesis HSet : forall a sels p, Forall P sels -> Q (SelSet a sels p).
  Fixpoint sel_ind' (s : selection) : P s :=
    match s with
    | SField a al n np args dirs sub =>
        HField a al n np args dirs sub
               (match sub as o return (forall ss, o = Some ss -> Q ss) with
                | Some ss0 => fun ss H => match H in (_ = y) return (match y with Some z => Q z | None => True end) with
                                          | eq_refl => ss_ind' ss0
                                          end
                | None => fun ss H => match H in (_ = y) return (match y with Some z => Q z | None => True end) with
                                      | eq_refl => I
                                      end
                end)
    | SSpread n np dirs e => HSpread n np dirs e
    | SInline cond dirs sub e => HInline cond dirs sub e (ss_ind' sub)
    end
  with ss_ind' (ss : selset) : Q ss :=
    match ss with
    | SelSet a sels p =>
        HSet a sels p ((fix go (l : list selection) : Forall P l :=
                          match l with
                          | [] => Forall_nil _
                          | x :: r => Forall_cons x (sel_ind' x) (go r)
                          end) sels)
    end.
  Lemma sel_ss_ind : (forall s, P s) /\ (forall ss, Q ss).
  Proof. split; [exact sel_ind' | exact ss_ind']. Qed.
End SelInd.
