(** * Vld/ProofsDepthRule.v — validateFields never reports "fragment cycle detected" ([EDepth]) on a
    document with uniquely named fragments whose spread graph has no cycle; accepted documents are
    such documents (5.5.1.1 and the cycle rule). *)
From Coq Require Import List NArith Arith Bool Lia.
From ApiFu Require Import Base.Sexp Vld.Ast Vld.Inspect Vld.InspectProofs Vld.TypeInfoModel Vld.TypeInfoPure Vld.Enumerate
     Vld.ValidatorModel Vld.ValidSpec Vld.ProofsCommon Vld.ProofsCycles Vld.ProofsOrder Vld.ProofsTotal Vld.ProofsFields
     Vld.ProofsMemo Vld.ProofsDepth Vld.ProofsFragDecl Vld.ProofsSpreads Vld.ValidatorProofs.
Import ListNotations.

Definition no_depth_errs (st : rst) : Prop := forall e, In e (r_errs st) -> e_kind e <> EDepth.

Lemma fe_ev_kinds S F stack n e : In e (fe_ev S F stack n) -> e_kind e <> EDepth.
Proof.
  unfold fe_ev. destruct n; try (intros []). destruct s as [a al fname np args dirs sub | |]; try (intros []).
  unfold fe_ev1, fe_e1, fe_e3. intros H. apply in_app_or in H as [H | H].
  - destruct a; [destruct H |]. destruct (negb _); [destruct H as [<- | []]; discriminate | destruct H].
  - apply in_app_or in H as [H | H].
    + destruct (_ && _); [destruct H as [<- | []]; discriminate | destruct H].
    + destruct (negb _); [| destruct H]. destruct (fe_should S a).
      * destruct sub as [[a0 [|s l] p0]|]; try destruct H as [<- | []]; try discriminate; destruct H.
      * destruct sub; [destruct H as [<- | []]; discriminate | destruct H].
Qed.

Section Rule.
  Variable pi : order.
  Hypothesis Hpi : order_ok pi.
  Variable S : schema.
  Variable F : features.
  Variable A : document.
  Hypothesis names_unique : NoDup (frag_names A).
  Hypothesis acyclic : forall n, In n (frag_names A) -> ~ exists x, reach A n x /\ edge A x n.

  Lemma collected_Hle ss m v : In ss (all_subs A) -> add_selections repaired A [] (Some ss) = COk m v -> fm_Hle A (max_depth A) m.
  Proof.
    intros Hss Hc k l x Hk Hx. unfold add_selections in Hc.
    destruct (collect_InC repaired A _ _ _ _ _ _ Hc k l x Hk Hx) as [[l0 [[] _]] | Hin].
    apply (depth_suffices A names_unique acyclic ss (fst3 x) Hss Hin).
  Qed.

  Theorem rule_fields_no_depth errs :
    rule_fields repaired pi S F A = Done errs -> forall e, In e errs -> e_kind e <> EDepth.
  Proof.
    unfold rule_fields. intros H.
    assert (no_depth_errs (inspect (merge_enter repaired pi S A) (fun s => s) (tree_doc A) (inspect (fields_enter S F) pop (tree_doc A) rst0))) as Hnd.
    { apply (inspect_inv no_depth_errs).
      - intros n Hn st Hst. unfold merge_enter. destruct n; try exact Hst.
        destruct (add_selections repaired A [] (Some s)) as [m v | e0 |] eqn:Ec.
        + pose proof (can_merge_nodepth pi Hpi repaired S A (max_depth A) m (collected_Hle s m v (selset_nodes_doc A s Hn) Ec)) as Hk.
          destruct (can_merge repaired pi S A (max_depth A) m) as [| e1 | s1 |]; try exact Hst.
          intros e He. simpl in He. apply in_app_or in He as [He | [<- | []]]; [apply Hst; exact He | exact Hk].
        + intros e He. simpl in He. apply in_app_or in He as [He | [<- | []]]; [apply Hst; exact He |].
          apply (add_selections_err_kind repaired A [] (Some s) e0 Ec).
        + exact Hst.
      - apply (inspect_dirty no_depth_errs (fields_enter S F) pop (tree_doc A)).
        + intros st n Hst e He. rewrite fields_enter_errs in He. apply in_app_or in He as [He | He]; [apply Hst; exact He | apply (fe_ev_kinds S F _ _ _ He)].
        + intros st Hst. exact Hst.
        + intros e []. }
    unfold finish in H. destruct (r_abort _) as [[s|]|]; try discriminate. injection H as <-. exact Hnd.
  Qed.
End Rule.

(** accepted documents (either pipeline) have uniquely named fragments and no spread cycle *)
Lemma silent_names_unique pi S F D :
  order_ok pi -> rules_silent pi S F (pti_doc (q_unwrap_obj repaired) S F D) -> NoDup (frag_names (pti_doc (q_unwrap_obj repaired) S F D)).
Proof.
  intros Hpi H. destruct (silent_rules_hold pi S F D Hpi H) as [_ [H551 _]].
  unfold valid_5_5_1 in H551. rewrite !andb_true_iff in H551. destruct H551 as [[[H1 _] _] _].
  rewrite frag_names_pti. apply nodupb_NoDup. exact H1.
Qed.

Lemma silent_acyclic pi S F A :
  order_ok pi -> rule_fragment_spreads repaired pi S F A = Done [] ->
  forall n, In n (frag_names A) -> ~ exists x, reach A n x /\ edge A x n.
Proof.
  intros Hpi H n Hn Hcyc. rewrite rule_fragment_spreads_eq, finish_clean in H.
  assert (clean (fold_left (cycle_step A pi) (pi _ (dedup (frag_names A))) rst0)) as Hc.
  { destruct (classic_clean (fold_left (cycle_step A pi) (pi _ (dedup (frag_names A))) rst0)) as [Hc | Hd]; [exact Hc |].
    exfalso. apply (inspect_dirty (fun st => ~ clean st) (spreads_enter repaired pi S F A) pop (tree_doc A)
                                  (spreads_enter_dirty repaired S F A pi) pop_dirty _ Hd). exact H. }
  rewrite (fold_guard (cycle_ok A pi) (cycle_step A pi) _ (cycle_step_ok A pi) (cycle_step_bad A pi)) in Hc.
  destruct Hc as [_ Hall].
  assert (In n (dedup (frag_names A))) as Hnd.
  { clear - Hn. induction (frag_names A) as [|x l IH]; [destruct Hn |]. simpl. destruct (mem x l) eqn:Em.
    - destruct Hn as [<- | Hn]; [apply IH; apply mem_in; exact Em | apply IH; exact Hn].
    - destruct Hn as [<- | Hn]; [left; reflexivity | right; apply IH; exact Hn]. }
  specialize (Hall n (proj2 (order_in pi Hpi _ _) Hnd)). unfold cycle_ok in Hall.
  apply (cycle_search_iff A pi Hpi n) in Hcyc. rewrite Hcyc in Hall.
  destruct (frag_last A n) eqn:E; [discriminate |]. apply frag_last_none in E. contradiction.
Qed.

Theorem accepted_no_depth_error pi S F D errs :
  order_ok pi -> rules_silent pi S F (pti_doc (q_unwrap_obj repaired) S F D) ->
  rule_fields repaired pi S F (pti_doc (q_unwrap_obj repaired) S F D) = Done errs ->
  forall e, In e errs -> e_kind e <> EDepth.
Proof.
  intros Hpi Hs. apply (rule_fields_no_depth pi Hpi S F _ (silent_names_unique pi S F D Hpi Hs)).
  destruct Hs as [_ [_ [_ [_ [Hsp _]]]]]. apply (silent_acyclic pi S F _ Hpi Hsp).
Qed.
