(** * Vld/Witness.v — a concrete schema and documents: witnesses for the [..._refuted_before_fix]
    theorems (the defects repaired in the repository, replayed on the model with the repair switched
    off) and the material of Examples/C04.v. *)
From Coq Require Import List NArith Bool String.
From ApiFu Require Import Base.Sexp Vld.Ast Vld.Inspect Vld.TypeInfoModel Vld.ValidatorModel Vld.ValidSpec.
Import ListNotations.
Open Scope N_scope.
Open Scope string_scope.

Definition n (s : string) : name := bs s.
Definition fd (t : sty) (args : list (name * input_def)) : field_def := {| f_type := t; f_args := args; f_req := [] |}.
Definition idef (t : sty) : input_def := {| in_type := t; in_default := DNone |}.
Definition ty_ (b : type_body) : type_def := {| t_req := []; t_body := b |}.

(** type Query { i: Int  o: Obj  f(x: Int!): Int  g(in: In): Int }  type Obj { i: Int }
    input In { a: Int!  b: [Int] }   directive @include(if: Boolean!) on FIELD | FRAGMENT_SPREAD | INLINE_FRAGMENT *)
Definition ex_schema : schema :=
  {| s_types :=
       [ (n "Int", ty_ (TScalar SInt)); (n "String", ty_ (TScalar SString)); (n "Boolean", ty_ (TScalar SBoolean));
         (n "Query", ty_ (TObject [ (n "i", fd (StNamed (n "Int")) []);
                                    (n "o", fd (StNamed (n "Obj")) []);
                                    (n "f", fd (StNamed (n "Int")) [(n "x", idef (StNonNull (StNamed (n "Int"))))]);
                                    (n "g", fd (StNamed (n "Int")) [(n "in", idef (StNamed (n "In")))]) ] []));
         (n "Obj", ty_ (TObject [ (n "i", fd (StNamed (n "Int")) []) ] []));
         (n "In", ty_ (TInput [ (n "a", idef (StNonNull (StNamed (n "Int")))); (n "b", idef (StList (StNamed (n "Int")))) ])) ];
     s_query := n "Query"; s_mutation := None; s_subscription := None;
     s_directives := [ (n "include", {| dd_args := [(n "if", idef (StNonNull (StNamed (n "Boolean"))))];
                                        dd_locs := [LField; LFragmentSpread; LInlineFragment] |}) ];
     s_meta := []; s_impls := [] |}.

Definition p (c : N) : pos := (1, c).
Definition arg (nm : string) (c : N) (v : value) : argument := {| a_name := n nm; a_pos := p c; a_value := v |}.
Definition fld (nm : string) (c : N) (args : list argument) (dirs : list directive) (sub : option selset) : selection :=
  SField None None (n nm) (p c) args dirs sub.

(** query Q($v: Int!, $w: Int) { f(x: $v) o { i } g(in: {a: 1, b: [$w]}) ...F }
    fragment F on Query { i @include(if: true) } *)
Definition ex_valid : document :=
  [ DOp (Some (n "query", p 1)) (Some (n "Q", p 7))
        [ {| vd_ann := None; vd_name := n "v"; vd_dollar := p 9; vd_npos := p 10; vd_type := TNonNull (TNamed (n "Int") (p 13)); vd_default := None |};
          {| vd_ann := None; vd_name := n "w"; vd_dollar := p 19; vd_npos := p 20; vd_type := TNamed (n "Int") (p 23); vd_default := None |} ]
        []
        (SelSet None
           [ fld "f" 30 [arg "x" 32 (VVar no_vann (n "v") (p 35) (p 36))] [] None;
             fld "o" 39 [] [] (Some (SelSet None [fld "i" 43 [] [] None] (p 41)));
             fld "g" 47 [arg "in" 49 (VObject no_vann [ (n "a", p 54, VInt no_vann (n "1") (p 57));
                                                        (n "b", p 60, VList no_vann [VVar no_vann (n "w") (p 64) (p 65)] (p 63)) ] (p 53))] [] None;
             SSpread (n "F") (p 73) [] (p 70) ]
           (p 28));
    DFrag (p 77) (n "F") (p 86) (n "Query", p 91) []
          (SelSet None [ fld "i" 99 [] [ {| d_name := n "include"; d_npos := p 102; d_at := p 101;
                                           d_args := [arg "if" 110 (VBool no_vann true (p 114))] |} ] None ] (p 97)) ].

(** { f }  — the required argument x is missing (5.4.2.1) *)
Definition ex_missing_arg : document :=
  [ DOp None None [] [] (SelSet None [fld "f" 3 [] [] None] (p 1)) ].

(** { ...A } fragment A on Query { ...B } fragment B on Query { ...A }  — a spread cycle (5.5.2.2) *)
Definition ex_cycle : document :=
  [ DOp None None [] [] (SelSet None [SSpread (n "A") (p 6) [] (p 3)] (p 1));
    DFrag (p 10) (n "A") (p 19) (n "Query", p 24) [] (SelSet None [SSpread (n "B") (p 35) [] (p 32)] (p 30));
    DFrag (p 40) (n "B") (p 49) (n "Query", p 54) [] (SelSet None [SSpread (n "A") (p 65) [] (p 62)] (p 60)) ].

(** ** the defects repaired in the repository, replayed on the model with the repair switched off *)
Definition before_fix_8 : quirks :=
  {| q_descend := false; q_revisit_ok := true; q_nil_arg := true; q_leaf_parent := true; q_unwrap_obj := true; q_depth := true; q_noninput := true; q_impl_features := true |}.
Definition before_fix_9 : quirks :=
  {| q_descend := true; q_revisit_ok := false; q_nil_arg := true; q_leaf_parent := true; q_unwrap_obj := true; q_depth := true; q_noninput := true; q_impl_features := true |}.
Definition before_fix_4 : quirks :=
  {| q_descend := true; q_revisit_ok := true; q_nil_arg := false; q_leaf_parent := true; q_unwrap_obj := true; q_depth := true; q_noninput := true; q_impl_features := true |}.

Definition dir_include (c : N) : directive :=
  {| d_name := n "include"; d_npos := p (c + 1); d_at := p c; d_args := [arg "if" (c + 9) (VBool no_vann true (p (c + 13)))] |}.
(** { o @include(if: true) { i @include(if: true) @include(if: true) } } *)
Definition ex_dup_directive_beneath : document :=
  [ DOp None None [] [] (SelSet None [fld "o" 3 [] [dir_include 5]
                                          (Some (SelSet None [fld "i" 28 [] [dir_include 30; dir_include 50] None] (p 26)))] (p 1)) ].
(** { ...F ...F } fragment F on Query { i } *)
Definition ex_spread_twice : document :=
  [ DOp None None [] [] (SelSet None [SSpread (n "F") (p 6) [] (p 3); SSpread (n "F") (p 11) [] (p 8)] (p 1));
    DFrag (p 15) (n "F") (p 24) (n "Query", p 29) [] (SelSet None [fld "i" 37 [] [] None] (p 35)) ].
(** { f(x: 1) f(y: 1) } *)
Definition ex_nil_argument : document :=
  [ DOp None None [] [] (SelSet None [fld "f" 3 [arg "x" 5 (VInt no_vann (n "1") (p 8))] [] None;
                                      fld "f" 11 [arg "y" 13 (VInt no_vann (n "1") (p 16))] [] None] (p 1)) ].

Lemma ex_before_fix_8 :
  valid_5_7_3 ex_dup_directive_beneath = false /\
  validate_model before_fix_8 id_order ex_schema [] ex_dup_directive_beneath = Done [] /\
  validate_model repaired id_order ex_schema [] ex_dup_directive_beneath = Done [err EDirDuplicate (p 50)].
Proof. vm_compute. repeat split. Qed.
Lemma ex_before_fix_9 :
  Valid ex_schema [] ex_spread_twice /\
  validate_model before_fix_9 id_order ex_schema [] ex_spread_twice <> Done [] /\
  validate_model repaired id_order ex_schema [] ex_spread_twice = Done [].
Proof. vm_compute. repeat split. discriminate. Qed.
Lemma ex_before_fix_4 :
  validate_model before_fix_4 id_order ex_schema [] ex_nil_argument = Panic PNilArgument /\
  exists errs, validate_model repaired id_order ex_schema [] ex_nil_argument = Done errs /\ errs <> [].
Proof. vm_compute. split; [reflexivity |]. eexists. split; [reflexivity | discriminate]. Qed.

(** the statements as they appear in Properties/C04.v *)
Lemma accepted_violation_before_fix_8 :
  exists q S F D, q_descend q = false /\ valid_5_7_3 D = false /\ validate_model q id_order S F D = Done [].
Proof. exists before_fix_8, ex_schema, [], ex_dup_directive_beneath. split; [reflexivity |]. destruct ex_before_fix_8 as [H1 [H2 _]]. auto. Qed.
Lemma valid_rejected_before_fix_9 :
  exists q S F D, q_revisit_ok q = false /\ Valid S F D /\ validate_model q id_order S F D <> Done [].
Proof. exists before_fix_9, ex_schema, [], ex_spread_twice. split; [reflexivity |]. destruct ex_before_fix_9 as [H1 [H2 _]]. auto. Qed.
Lemma panic_before_fix_4 :
  exists q S F D, q_nil_arg q = false /\ validate_model q id_order S F D = Panic PNilArgument.
Proof. exists before_fix_4, ex_schema, [], ex_nil_argument. split; [reflexivity |]. apply ex_before_fix_4. Qed.

(** DESIGN 6 row 30 (validator half): interfaces I and J whose only common implementation G needs a
    feature the request lacks;  { i { ... on J { y } } }  *)
Definition before_fix_30 : quirks :=
  {| q_descend := true; q_revisit_ok := true; q_nil_arg := true; q_leaf_parent := true; q_unwrap_obj := true; q_depth := true; q_noninput := true; q_impl_features := false |}.
Definition ex_gated_schema : schema :=
  {| s_types :=
       [ (n "Int", ty_ (TScalar SInt)); (n "String", ty_ (TScalar SString));
         (n "I", ty_ (TInterface [(n "x", fd (StNamed (n "Int")) [])]));
         (n "J", ty_ (TInterface [(n "y", fd (StNamed (n "Int")) [])]));
         (n "G", {| t_req := [n "fa"]; t_body := TObject [(n "x", fd (StNamed (n "Int")) []); (n "y", fd (StNamed (n "Int")) [])] [n "I"; n "J"] |});
         (n "A", ty_ (TObject [(n "x", fd (StNamed (n "Int")) [])] [n "I"]));
         (n "B", ty_ (TObject [(n "y", fd (StNamed (n "Int")) [])] [n "J"]));
         (n "Query", ty_ (TObject [(n "i", fd (StNamed (n "I")) [])] [])) ];
     s_query := n "Query"; s_mutation := None; s_subscription := None; s_directives := []; s_meta := [];
     s_impls := [(n "I", [n "G"; n "A"]); (n "J", [n "G"; n "B"])] |}.
Definition ex_gated_spread : document :=
  [ DOp None None [] []
        (SelSet None [fld "i" 3 [] [] (Some (SelSet None [SInline (Some (n "J", p 14)) [] (SelSet None [fld "y" 18 [] [] None] (p 16)) (p 7)] (p 5)))] (p 1)) ].
Lemma ex_before_fix_30 :
  valid_5_5_2_3 ex_gated_schema [] ex_gated_spread = false /\
  validate_model before_fix_30 id_order ex_gated_schema [] ex_gated_spread = Done [] /\
  validate_model repaired id_order ex_gated_schema [] ex_gated_spread = Done [err ESpreadImpossible (p 14)] /\
  validate_model repaired id_order ex_gated_schema [n "fa"] ex_gated_spread = Done [].
Proof. vm_compute. repeat split. Qed.
Lemma accepted_violation_before_fix_30 :
  exists q S F D, q_impl_features q = false /\ valid_5_5_2_3 S F D = false /\ validate_model q id_order S F D = Done [].
Proof. exists before_fix_30, ex_gated_schema, [], ex_gated_spread. split; [reflexivity |]. destruct ex_before_fix_30 as [H1 [H2 _]]. auto. Qed.
