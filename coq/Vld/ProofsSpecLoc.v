(** * Vld/ProofsSpecLoc.v — where the fields the Spec collects are written: every field of a
    [collected] list of a selection set of the document is a field of a selection set the Spec
    enumerates ([all_sets]), with that set's parent type; so is every field collected below it.  Hence
    5.3.2, which quantifies over [all_sets], speaks of the sub-selections of every such field. *)
From Coq Require Import List NArith Arith Bool Lia.
From ApiFu Require Import Base.Sexp Vld.Ast Vld.AstInd Vld.TypeInfoModel Vld.ValidSpec Vld.Hyps Vld.ProofsCommon Vld.SpecEnum Vld.ProofsDepth Vld.ProofsSpecCollect Vld.ProofsMergeSpec Vld.ProofsSpecMergeTheory.
Import ListNotations.

Lemma frag_first_in D n d : frag_first D n = Some d -> In d D.
Proof.
  induction D as [|x r IH]; cbn [frag_first]; [discriminate |]. destruct x as [| kw n' np c dirs sub]; [intros H; right; apply IH, H |].
  destruct (name_eqb n n'); [intros H; inversion H; left; reflexivity | intros H; right; apply IH, H].
Qed.

Section Loc.
  Variable S : schema.
  Variable F : features.
  Variable D : document.

  Definition Loc (c : cfield) : Prop :=
    exists o, In o (all_sets S F D) /\ snd c = so_parent o /\ In (fst c) (ss_sels (so_set o)) /\ is_fieldb (fst c) = true.

  Lemma sets_closed :
    (forall s par o, In o (sets_sel S F par s) -> forall s', In s' (ss_sels (so_set o)) -> incl (sets_sel S F (so_parent o) s') (sets_sel S F par s)) /\
    (forall ss par o, In o (sets_ss S F par ss) -> forall s', In s' (ss_sels (so_set o)) -> incl (sets_sel S F (so_parent o) s') (sets_ss S F par ss)).
  Proof.
    apply sel_ss_ind.
    - intros a al n np args dirs sub IH par o Ho s' Hs'. destruct sub as [ss|]; [| destruct Ho]. cbn [sets_sel] in *. apply (IH ss eq_refl _ o Ho s' Hs').
    - intros n np dirs e par o [].
    - intros cond dirs sub e IH par o Ho s' Hs'. cbn [sets_sel] in *. apply (IH _ o Ho s' Hs').
    - intros a sels p IH par o Ho s' Hs'. cbn [sets_ss] in *. rewrite Forall_forall in IH. destruct Ho as [<- | Ho].
      + cbn [so_parent so_set ss_sels] in *. intros x Hx. right. apply in_flat_map. exists s'. auto.
      + apply in_flat_map in Ho as [s [Hs Ho]]. intros x Hx. right. apply in_flat_map. exists s. split; [exact Hs | apply (IH s Hs par o Ho s' Hs' x Hx)].
  Qed.

  Lemma sets_fields :
    (forall s par o, In o (sets_sel S F par s) -> forall s', In s' (ss_sels (so_set o)) -> is_fieldb s' = true ->
                     In {| fo_parent := so_parent o; fo_field := s' |} (fields_sel S F par s)) /\
    (forall ss par o, In o (sets_ss S F par ss) -> forall s', In s' (ss_sels (so_set o)) -> is_fieldb s' = true ->
                      In {| fo_parent := so_parent o; fo_field := s' |} (fields_ss S F par ss)).
  Proof.
    apply sel_ss_ind.
    - intros a al n np args dirs sub IH par o Ho s' Hs' Hf. destruct sub as [ss|]; [| destruct Ho]. cbn [sets_sel fields_sel] in *. right. apply (IH ss eq_refl _ o Ho s' Hs' Hf).
    - intros n np dirs e par o [].
    - intros cond dirs sub e IH par o Ho s' Hs' Hf. cbn [sets_sel fields_sel] in *. apply (IH _ o Ho s' Hs' Hf).
    - intros a sels p IH par o Ho s' Hs' Hf. cbn [sets_ss fields_ss] in *. rewrite Forall_forall in IH. destruct Ho as [<- | Ho].
      + cbn [so_parent so_set ss_sels] in *. apply in_flat_map. exists s'. split; [exact Hs' |]. destruct s'; try discriminate Hf. left. reflexivity.
      + apply in_flat_map in Ho as [s [Hs Ho]]. apply in_flat_map. exists s. split; [exact Hs | apply (IH s Hs par o Ho s' Hs' Hf)].
  Qed.

  Lemma all_sets_closed o s' : In o (all_sets S F D) -> In s' (ss_sels (so_set o)) -> incl (sets_sel S F (so_parent o) s') (all_sets S F D).
  Proof.
    unfold all_sets. intros Ho Hs' x Hx. apply in_flat_map in Ho as [d [Hd Ho]]. apply in_flat_map. exists d. split; [exact Hd |].
    apply (proj2 sets_closed _ _ o Ho s' Hs' x Hx).
  Qed.

  Lemma loc_fields c : Loc c -> In {| fo_parent := snd c; fo_field := fst c |} (all_fields S F D).
  Proof.
    intros [o [Ho [Hp [Hin Hf]]]]. unfold all_sets in Ho. apply in_flat_map in Ho as [d [Hd Ho]]. unfold all_fields. apply in_flat_map. exists d. split; [exact Hd |].
    rewrite Hp. apply (proj2 sets_fields _ _ o Ho _ Hin Hf).
  Qed.

  Lemma frag_sets n d : fragment D n = Some d -> incl (sets_ss S F (def_scope S F d) (def_sub d)) (all_sets S F D).
  Proof. intros H x Hx. unfold all_sets. apply in_flat_map. exists d. split; [apply (frag_first_in D n d H) | exact Hx]. Qed.

  Lemma incsp_loc par ss g : InCSp S F D par ss g -> incl (sets_ss S F par ss) (all_sets S F D) -> Loc g.
  Proof.
    intros H. induction H as [par a sels p f Hf Hfld | par a sels p c dirs sub e x Hs _ IH | par a sels p n np dirs e d x Hs Hd _ IH]; intros Hi.
    - exists {| so_parent := par; so_set := SelSet a sels p |}. split; [apply Hi; left; reflexivity |]. cbn [fst snd so_parent so_set ss_sels]. auto.
    - apply IH. intros y Hy. apply Hi. cbn [sets_ss]. right. apply in_flat_map. exists (SInline c dirs sub e). split; [exact Hs | exact Hy].
    - apply IH. apply (frag_sets n d Hd).
  Qed.

  (** ** what the other sections say of a located field *)
  Hypothesis typename_not_composite : composite_name S n_String = false.
  Hypothesis H533 : valid_5_3_3 S F D = true.

  Lemma loc_sub_decl c fa al n np args dirs ss d :
    Loc c -> fst c = SField fa al n np args dirs (Some ss) -> cf_def S F c = Some d ->
    exists pn, snd c = Some pn /\ declared_field_of S F pn n = Some d.
  Proof.
    intros HL Hs Hd. pose proof (loc_fields c HL) as Hof.
    unfold valid_5_3_3 in H533. rewrite forallb_forall in H533. specialize (H533 _ Hof). unfold fo_def in H533. cbn [fo_parent fo_field] in H533.
    unfold cf_def in Hd. rewrite Hs in *. destruct (snd c) as [pn|] eqn:Ep; [| discriminate Hd]. rewrite Hd in H533. exists pn. split; [reflexivity |].
    unfold field_def_of in Hd. destruct (name_eqb n s_typename) eqn:En; [| exact Hd].
    exfalso. destruct (composite S pn); [| discriminate Hd]. inversion Hd; subst d. unfold result_type, typename_def in H533. cbn [f_type unwrapped] in H533.
    change (composite S _) with (composite_name S n_String) in H533. rewrite typename_not_composite in H533. discriminate H533.
  Qed.

  Lemma loc_sub_sets c fa al n np args dirs ss d :
    Loc c -> fst c = SField fa al n np args dirs (Some ss) -> cf_def S F c = Some d ->
    incl (sets_ss S F (Some (result_type d)) ss) (all_sets S F D).
  Proof.
    intros HL Hs Hd. destruct (loc_sub_decl c fa al n np args dirs ss d HL Hs Hd) as [pn [Ep Hdecl]]. destruct HL as [o [Ho [Hp [Hin Hf]]]].
    pose proof (all_sets_closed o (fst c) Ho Hin) as Hi. rewrite Hs in Hi. cbn [sets_sel] in Hi. rewrite <- Hp, Ep in Hi. cbn [sub_scope] in Hi.
    rewrite Hdecl in Hi. exact Hi.
  Qed.

  Lemma loc_sub c g : Loc c -> In g (cf_sub S F D c) -> Loc g.
  Proof.
    intros HL Hg. unfold cf_sub in Hg. destruct (fst c) as [fa al n np args dirs [ss|] | |] eqn:Es; try (destruct Hg; fail).
    destruct (cf_def S F c) as [d|] eqn:Ed; [| destruct Hg]. apply collected_sound_p in Hg.
    apply (incsp_loc _ _ g Hg). apply (loc_sub_sets c fa al n np args dirs ss d HL Es Ed).
  Qed.

  (** 5.3.2 holds of the sub-selections of every located field *)
  Hypothesis H5522 : valid_5_5_2_2 D = true.
  Hypothesis H532 : valid_5_3_2 S F D = true.

  Lemma loc_fcm c : Loc c -> fields_can_merge S F D (nesting_bound D) (cf_sub S F D c) = true.
  Proof.
    intros HL. unfold cf_sub. destruct (fst c) as [fa al n np args dirs [ss|] | |] eqn:Es; try reflexivity.
    destruct (cf_def S F c) as [d|] eqn:Ed; [| reflexivity].
    pose proof (loc_sub_sets c fa al n np args dirs ss d HL Es Ed) as Hi.
    unfold valid_5_3_2 in H532. rewrite H5522, forallb_forall in H532.
    assert (In {| so_parent := Some (result_type d); so_set := ss |} (all_sets S F D)) as Ho by (apply Hi; destruct ss; left; reflexivity).
    apply (H532 _ Ho).
  Qed.

  Lemma set_fcm o : In o (all_sets S F D) -> fields_can_merge S F D (nesting_bound D) (collected S F D (so_parent o) (so_set o)) = true.
  Proof. intros Ho. unfold valid_5_3_2 in H532. rewrite H5522, forallb_forall in H532. apply (H532 _ Ho). Qed.
End Loc.
