(** * Vld/ProofsSpecCollectP.v — completeness of the Spec's [collected] with the parent type of each
    field: every field written in the selection set, in an inline fragment of it or in a fragment it
    spreads (transitively) is collected, paired with the static scope of the selection set it is
    written in.  The argument is the one of ProofsSpecCollect (closure invariant, pigeonhole on the
    fragment names not yet visited), on pairs. *)
From Coq Require Import List NArith Arith Bool Lia.
From ApiFu Require Import Base.Sexp Vld.Ast Vld.AstInd Vld.TypeInfoModel Vld.ValidSpec Vld.ProofsCommon Vld.ProofsSpreads Vld.ProofsDepth Vld.ProofsSpecReach
     Vld.ProofsSpecCollect Vld.ProofsMergeSpec.
Import ListNotations.

Section SpecCollectP.
  Variable S : schema.
  Variable F : features.
  Variable D : document.

  (** fields reached through inline fragments only, with their parents *)
  Inductive IFldp : option name -> selset -> cfield -> Prop :=
  | IFldp_here par a sels p f : In f sels -> is_fieldb f = true -> IFldp par (SelSet a sels p) (f, par)
  | IFldp_inline par a sels p c dirs sub e x :
      In (SInline c dirs sub e) sels -> IFldp (sub_scope S F par (SInline c dirs sub e)) sub x -> IFldp par (SelSet a sels p) x.

  Notation csel := (collect_sel S F).
  Notation css := (collect_ss S F).
  Notation efuel := (expand_fuel S F D).
  Notation unvisited := (unvisited D).

  Definition done_forp (out : list cfield) (V' : list name) (par : option name) (ss : selset) : Prop :=
    (forall x, IFldp par ss x -> In x out) /\ (forall n, ISpr ss n -> In n V').
  Definition closed_sincep (V : list name) (out : list cfield) (V' : list name) : Prop :=
    forall n d, In n V' -> fragment D n = Some d -> In n V \/ done_forp out V' (def_scope S F d) (def_sub d).

  Lemma done_forp_mono out V1 out' V2 par ss : incl out out' -> incl V1 V2 -> done_forp out V1 par ss -> done_forp out' V2 par ss.
  Proof. intros Ho Hv [H1 H2]. split; [intros f Hf; apply Ho, H1, Hf | intros n Hn; apply Hv, H2, Hn]. Qed.

  Definition item_donep (par : option name) (s : selection) (out : list cfield) (V' : list name) : Prop :=
    match s with
    | SField _ _ _ _ _ _ _ => In (s, par) out
    | SSpread n _ _ _ => In n V'
    | SInline _ _ sub _ => done_forp out V' (sub_scope S F par s) sub
    end.
  Lemma item_donep_mono par s out V1 out' V2 : incl out out' -> incl V1 V2 -> item_donep par s out V1 -> item_donep par s out' V2.
  Proof. intros Ho Hv. destruct s; cbn [item_donep]; [apply Ho | apply Hv | apply (done_forp_mono _ _ _ _ _ _ Ho Hv)]. Qed.

  Lemma css_factsp k : forall ss parent V out V',
    unvisited V < k -> css (efuel k) parent V ss = (out, V') ->
    incl V V' /\ closed_sincep V out V' /\ done_forp out V' parent ss.
  Proof.
    induction k as [|k IHk]; [intros; lia |].
    assert ((forall s parent V out V', unvisited V < Datatypes.S k -> csel (efuel (Datatypes.S k)) parent V s = (out, V') ->
                                       incl V V' /\ closed_sincep V out V' /\ item_donep parent s out V') /\
            (forall ss parent V out V', unvisited V < Datatypes.S k -> css (efuel (Datatypes.S k)) parent V ss = (out, V') ->
                                        incl V V' /\ closed_sincep V out V' /\ done_forp out V' parent ss)) as [_ H]; [| exact H].
    apply sel_ss_ind.
    - intros a al n np args dirs sub _ parent V out V' _ H. cbn [collect_sel] in H. inversion H; subst.
      split; [apply incl_refl |]. split; [intros m d Hm _; left; exact Hm |]. left. reflexivity.
    - intros n np dirs e parent V out V' Hk H. cbn [collect_sel] in H. destruct (mem n V) eqn:Em.
      + inversion H; subst. apply mem_in in Em. split; [apply incl_refl |]. split; [intros m d Hm _; left; exact Hm | exact Em].
      + apply mem_false in Em. cbn [expand_fuel] in H. destruct (fragment D n) as [d|] eqn:Ed.
        * pose proof (unvisited_cons D n d V Ed Em) as Hlt.
          destruct (IHk (def_sub d) (def_scope S F d) (n :: V) out V' ltac:(lia) H) as [H1 [H2 H3]].
          split; [intros x Hx; apply H1; right; exact Hx |]. split; [| apply H1; left; reflexivity].
          intros m dm Hm Hdm. destruct (H2 m dm Hm Hdm) as [[<- | Hin] | Hdone]; [| left; exact Hin | right; exact Hdone].
          right. rewrite Ed in Hdm. inversion Hdm; subst dm. exact H3.
        * inversion H; subst. split; [intros x Hx; right; exact Hx |]. split; [| left; reflexivity].
          intros m dm [<- | Hm] Hdm; [congruence | left; exact Hm].
    - intros cond dirs sub e IH parent V out V' Hk H. cbn [collect_sel] in H. apply (IH _ _ _ _ Hk H).
    - intros a sels p IH parent V out V' Hk H. rewrite css_eq in H. rewrite Forall_forall in IH.
      assert (forall l V0 out0 V1, (forall s, In s l -> In s sels) -> unvisited V0 < Datatypes.S k -> cgo S F (efuel (Datatypes.S k)) parent l V0 = (out0, V1) ->
                                   incl V0 V1 /\ closed_sincep V0 out0 V1 /\ forall s, In s l -> item_donep parent s out0 V1) as Hgo.
      { induction l as [|x r IHl]; intros V0 out0 V1 Hl Hk0 Hc; cbn [cgo] in Hc.
        - inversion Hc; subst. split; [apply incl_refl |]. split; [intros m d Hm _; left; exact Hm | intros s []].
        - destruct (csel (efuel (Datatypes.S k)) parent V0 x) as [oa v1] eqn:Ex. destruct (cgo S F (efuel (Datatypes.S k)) parent r v1) as [ob v2] eqn:Er.
          inversion Hc; subst out0 V1.
          destruct (IH x (Hl x (or_introl eq_refl)) parent V0 oa v1 Hk0 Ex) as [X1 [X2 X3]].
          pose proof (unvisited_mono D V0 v1 X1) as Hm1.
          destruct (IHl v1 ob v2 (fun s Hs => Hl s (or_intror Hs)) ltac:(lia) Er) as [R1 [R2 R3]].
          split; [intros y Hy; apply R1, X1, Hy |]. split.
          + intros m dm Hm Hdm. destruct (R2 m dm Hm Hdm) as [Hin | Hd].
            * destruct (X2 m dm Hin Hdm) as [Hin0 | Hd]; [left; exact Hin0 | right; apply (done_forp_mono oa v1 _ v2 _ _ (incl_appl ob (incl_refl oa)) R1 Hd)].
            * right. apply (done_forp_mono ob v2 _ v2 _ _ (incl_appr oa (incl_refl ob)) (incl_refl _) Hd).
          + intros s [<- | Hs]; [apply (item_donep_mono _ _ oa v1 _ v2 (incl_appl ob (incl_refl oa)) R1 X3) | apply (item_donep_mono _ _ ob v2 _ v2 (incl_appr oa (incl_refl ob)) (incl_refl _) (R3 s Hs))]. }
      destruct (Hgo sels V out V' (fun s Hs => Hs) Hk H) as [G1 [G2 G3]]. split; [exact G1 |]. split; [exact G2 |]. split.
      + intros f Hf. inversion Hf as [par0 a0 sels0 p0 f0 Hin Hfld | par0 a0 sels0 p0 c dirs sub e f0 Hin Hsub]; subst.
        * specialize (G3 f0 Hin). destruct f0; try discriminate Hfld. exact G3.
        * specialize (G3 _ Hin). cbn [item_donep] in G3. apply (proj1 G3 f Hsub).
      + intros n Hn. inversion Hn as [a0 sels0 p0 n0 np dirs e Hin | a0 sels0 p0 c dirs sub e n0 Hin Hsub]; subst.
        * apply (G3 _ Hin).
        * specialize (G3 _ Hin). cbn [item_donep] in G3. apply (proj2 G3 n Hsub).
  Qed.

  Theorem collected_complete_p parent ss x : InCSp S F D parent ss x -> In x (collected S F D parent ss).
  Proof.
    unfold collected. destruct (css (efuel (Datatypes.S (n_frags D))) parent [] ss) as [out V'] eqn:E. cbn [fst].
    assert (unvisited [] < Datatypes.S (n_frags D)) as Hk.
    { unfold ProofsSpecCollect.unvisited, n_frags. pose proof (filter_len (fun x => negb (mem x [])) (dedup (frag_names D))). pose proof (dedup_len (frag_names D)). lia. }
    destruct (css_factsp _ ss parent [] out V' Hk E) as [_ [Hcl Hdone]].
    assert (forall par t g, InCSp S F D par t g -> done_forp out V' par t -> In g out) as Hall.
    { intros par t g Hin. induction Hin as [par a sels p g Hg Hfld | par a sels p c dirs sub e g Hs _ IH | par a sels p n np dirs e d g Hs Hd _ IH]; intros Ht.
      - apply (proj1 Ht). apply IFldp_here; assumption.
      - apply IH. split; [intros f0 Hf0; apply (proj1 Ht); apply (IFldp_inline par a sels p c dirs sub e f0 Hs Hf0) | intros m Hm; apply (proj2 Ht); apply (ISpr_inline a sels p c dirs sub e m Hs Hm)].
      - apply IH. assert (In n V') as Hn by (apply (proj2 Ht); apply (ISpr_here a sels p n np dirs e Hs)).
        destruct (Hcl n d Hn Hd) as [[] | Hdn]. exact Hdn. }
    intros Hf. apply (Hall parent ss x Hf Hdone).
  Qed.
End SpecCollectP.
