(** * Vld/ProofsValues.v — validateValues / validateCoercion against 5.6.1 – 5.6.4. *)
From Coq Require Import List NArith Bool Lia Permutation.
From ApiFu Require Import Base.Sexp Vld.Ast Vld.AstInd Vld.Inspect Vld.InspectProofs Vld.TypeInfoModel Vld.TypeInfoPure
     Vld.Enumerate Vld.SpecEnum Vld.ValidatorModel Vld.ValidSpec Vld.ProofsCommon Vld.ProofsDirectives.
Import ListNotations.

Section Coercion.
  Variable pi : order.
  Hypothesis Hpi : order_ok pi.
  Variable S : schema.
  Variable F : features.

  Notation coercion := (coercion repaired pi S).
  Notation value_facts := (value_facts S).

  (** ** unfolding *)
  Lemma coercion_unfold from to allow :
    coercion from to allow =
    if is_var from then VR []
    else if is_null from then VR (if is_nonnull to then [err ECoerceNull (v_pos from)] else [])
    else
      match to with
      | StNonNull t => coercion from t allow
      | StList t =>
          match from with
          | VList _ vs _ => items_loop coercion t vs
          | _ => if allow then coercion from t true else VR [err ECoerceList (v_pos from)]
          end
      | StNamed tn =>
          match raw_body S tn with
          | Some (TScalar k) => VR (if scalar_accepts k from then [] else [err ECoerceScalar (v_pos from)])
          | Some (TEnum vals) =>
              VR (match from with
                  | VEnum _ x _ => if mem x vals then [] else [err ECoerceEnum (v_pos from)]
                  | _ => [err ECoerceEnum (v_pos from)]
                  end)
          | Some (TInput defs) =>
              match from with
              | VObject _ fs p => fields_loop pi coercion defs p fs [] []
              | _ => VR [err ECoerceObject (v_pos from)]
              end
          | _ => VR [sec ECoerceNonInput (v_pos from)]
          end
      end.
  Proof. destruct from; destruct to; reflexivity. Qed.

  Lemma value_facts_unfold v t allow :
    value_facts v t allow =
    if is_var v then []
    else if is_null v then (if is_nonnull t then [FMismatch] else [])
    else
      match t with
      | StNonNull t' => value_facts v t' allow
      | StList t' =>
          match v with
          | VList _ vs _ => flat_map (fun x => value_facts x t' false) vs
          | _ => if allow then value_facts v t' true else [FMismatch]
          end
      | StNamed n =>
          match parent_body S n with
          | Some (TScalar k) => if spec_scalar_accepts k v then [] else [FMismatch]
          | Some (TEnum vals) =>
              match v with VEnum _ x _ => if mem x vals then [] else [FMismatch] | _ => [FMismatch] end
          | Some (TInput defs) =>
              match v with
              | VObject _ fs _ =>
                  flat_map (fun f => match f with
                                     | (fname, _, x) =>
                                         match assoc fname defs with
                                         | Some d => value_facts x (in_type d) true
                                         | None => [FUnknownField]
                                         end
                                     end) fs
                  ++ (if nodupb (map (fun f => fst (fst f)) fs) then [] else [FDupField])
                  ++ (if forallb (fun nd => if required (snd nd) then mem (fst nd) (map (fun f => fst (fst f)) fs) else true) defs
                      then [] else [FMissingField])
              | _ => [FMismatch]
              end
          | _ => []
          end
      end.
  Proof. destruct v; destruct t; reflexivity. Qed.

  Lemma scalar_accepts_eq k v : scalar_accepts k v = spec_scalar_accepts k v.
  Proof. destruct k as [| | | | |[ks|]|acc rp]; destruct v; reflexivity. Qed.

  (** ** input types *)
  Definition input_sty (t : sty) : Prop :=
    match raw_body S (unwrapped t) with Some b => is_input_body b = true | None => False end.
  Hypothesis input_closed : forall tn defs, raw_body S tn = Some (TInput defs) ->
                                            forall nd, In nd defs -> input_sty (in_type (snd nd)).

  (** what the coercion of one value says: some list of errors, all primary, empty iff the Spec
      finds nothing wrong *)
  Definition agrees (r : vres) (facts : list vfact) : Prop :=
    exists errs, r = VR errs /\ (forall e, In e errs -> e_sec e = false) /\ (errs = [] <-> facts = []).

  Lemma agrees_vr errs facts : (forall e, In e errs -> e_sec e = false) -> (errs = [] <-> facts = []) -> agrees (VR errs) facts.
  Proof. intros H1 H2. exists errs. auto. Qed.

  Lemma items_loop_agrees rec t vs :
    Forall (fun x => agrees (rec x t false) (value_facts x t false)) vs ->
    agrees (items_loop rec t vs) (flat_map (fun x => value_facts x t false) vs).
  Proof.
    induction 1 as [|x r Hx _ IH]; simpl.
    - apply agrees_vr; [intros e [] | tauto].
    - destruct Hx as [ex [Ex [Sx Nx]]]. rewrite Ex. destruct ex as [|e es].
      + destruct IH as [er [Er [Sr Nr]]]. exists er. split; [exact Er |]. split; [exact Sr |].
        rewrite Nr. rewrite (proj1 Nx eq_refl). simpl. tauto.
      + exists (e :: es). split; [reflexivity |]. split; [exact Sx |]. split; [discriminate |].
        intros H. apply app_eq_nil in H as [H _]. apply Nx in H. discriminate.
  Qed.

  Lemma fields_loop_agrees rec defs p fs :
    Forall (fun f => forall d, assoc (fst (fst f)) defs = Some d ->
                               agrees (rec (snd f) (in_type d) true) (value_facts (snd f) (in_type d) true)) fs ->
    forall seen acc,
      (forall e, In e acc -> e_sec e = false) ->
      exists errs, fields_loop pi rec defs p fs seen acc = VR errs /\ (forall e, In e errs -> e_sec e = false) /\
                   (errs = [] <->
                    acc = [] /\
                    flat_map (fun f => match f with
                                       | (fname, _, x) =>
                                           match assoc fname defs with
                                           | Some d => value_facts x (in_type d) true
                                           | None => [FUnknownField]
                                           end
                                       end) fs = [] /\
                    (forall f, In f fs -> mem (fst (fst f)) seen = false) /\ nodupb (map (fun f => fst (fst f)) fs) = true /\
                    (forall nd, In nd defs -> required (snd nd) = true ->
                                mem (fst nd) seen = true \/ In (fst nd) (map (fun f => fst (fst f)) fs))).
  Proof.
    induction 1 as [|[[n np] x] r Hx _ IH]; intros seen acc Hacc; simpl.
    - eexists. split; [reflexivity |]. split.
      + intros e He. apply in_app_or in He as [He | He]; [apply Hacc; exact He |].
        apply in_flat_map in He as [nd [_ He]]. destruct (required_arg (snd nd) && negb (mem (fst nd) seen)); [| destruct He].
        destruct He as [<- | []]. reflexivity.
      + split.
        * intros H. apply app_eq_nil in H as [H1 H2]. split; [exact H1 |]. split; [reflexivity |].
          split; [intros f [] |]. split; [reflexivity |].
          intros nd Hnd Hreq. left. rewrite flat_map_nil_iff in H2.
          specialize (H2 nd (proj2 (order_in pi Hpi _ _) Hnd)). change (required_arg (snd nd)) with (required (snd nd)) in H2.
          rewrite Hreq in H2. destruct (mem (fst nd) seen); [reflexivity | discriminate].
        * intros [H1 [_ [_ [_ H5]]]]. subst acc. simpl. apply flat_map_nil_iff. intros nd Hnd.
          apply (proj1 (order_in pi Hpi _ _)) in Hnd. change (required_arg (snd nd)) with (required (snd nd)).
          destruct (required (snd nd)) eqn:Hreq; [| reflexivity].
          destruct (H5 nd Hnd Hreq) as [H | []]. rewrite H. reflexivity.
    - set (acc1 := if mem n seen then acc ++ [err EObjDupField np] else acc).
      assert (forall e, In e acc1 -> e_sec e = false) as Hacc1.
      { unfold acc1. destruct (mem n seen); [| exact Hacc]. intros e He. apply in_app_or in He as [He | [<- | []]]; [apply Hacc; exact He | reflexivity]. }
      assert (acc1 = [] <-> acc = [] /\ mem n seen = false) as Hacc1nil.
      { unfold acc1. destruct (mem n seen).
        - split; [intros H; apply app_eq_nil in H as [_ H]; discriminate | intros [_ H]; discriminate].
        - tauto. }
      destruct (assoc n defs) as [def|] eqn:Ed.
      + destruct (Hx def Ed) as [ex [Ex [Sx Nx]]]. simpl in Ex. rewrite Ex. destruct ex as [|e es].
        * destruct (IH (n :: seen) acc1 Hacc1) as [er [Er [Sr Nr]]]. exists er. split; [exact Er |]. split; [exact Sr |].
          rewrite Nr, Hacc1nil. simpl snd in Nx. rewrite (proj1 Nx eq_refl). simpl.
          split.
          -- intros [[H1 H1'] [H2 [H3 [H4 H5]]]]. split; [exact H1 |]. split; [exact H2 |]. split; [| split].
             ++ intros f [<- | Hf]; [exact H1' |]. specialize (H3 f Hf). simpl in H3. apply orb_false_iff in H3. tauto.
             ++ apply andb_true_iff. split; [| exact H4]. apply negb_true_iff, mem_false. intros Hin.
                apply in_map_iff in Hin as [f [Hn Hf]]. specialize (H3 f Hf). simpl in H3. rewrite Hn, name_eqb_refl in H3. discriminate.
             ++ intros nd Hnd Hreq. destruct (H5 nd Hnd Hreq) as [H | H]; [| right; right; exact H].
                simpl in H. apply orb_true_iff in H as [H | H]; [right; left; apply name_eqb_eq in H; congruence | left; exact H].
          -- intros [H1 [H2 [H3 [H4 H5]]]]. apply andb_true_iff in H4 as [H4 H4']. apply negb_true_iff, mem_false in H4.
             split; [split; [exact H1 | apply (H3 (n, np, x)); left; reflexivity] |]. split; [exact H2 |]. split; [| split].
             ++ intros f Hf. simpl. apply orb_false_iff. split; [| apply H3; right; exact Hf].
                apply name_eqb_neq. intros E. apply H4. rewrite <- E. apply (in_map (fun f => fst (fst f))). exact Hf.
             ++ exact H4'.
             ++ intros nd Hnd Hreq. destruct (H5 nd Hnd Hreq) as [H | [H | H]].
                ** left. simpl. rewrite H. apply orb_true_r.
                ** left. simpl. rewrite H, name_eqb_refl. reflexivity.
                ** right. exact H.
        * exists (e :: es). split; [reflexivity |]. split; [exact Sx |]. split; [discriminate |].
          intros [_ [H _]]. apply app_eq_nil in H as [H _]. apply Nx in H. discriminate.
      + assert (forall e, In e (acc1 ++ [err EObjUnknownField np]) -> e_sec e = false) as Hacc2.
        { intros e He. apply in_app_or in He as [He | [<- | []]]; [apply Hacc1; exact He | reflexivity]. }
        destruct (IH (n :: seen) _ Hacc2) as [er [Er [Sr Nr]]]. exists er. split; [exact Er |]. split; [exact Sr |].
        split.
        * intros H. apply Nr in H as [H _]. apply app_eq_nil in H as [_ H]. discriminate.
        * intros [_ [H _]]. discriminate.
  Qed.

  Ltac solve_vr :=
    apply agrees_vr;
    [ first [ intros ? [<- | []]; reflexivity | intros ? [] ]
    | first [ tauto | split; discriminate ] ].

  Theorem coercion_agrees v : forall t allow, input_sty t -> agrees (coercion v t allow) (value_facts v t allow).
  Proof.
    induction v using value_ind'; intros t;
      (induction t as [tn | t' IHt | t' IHt]; intros allow Hin;
       rewrite coercion_unfold, value_facts_unfold; cbn [is_var is_null is_nonnull];
       try solve_vr; try (apply IHt; exact Hin);
       try (destruct allow; [apply IHt; exact Hin | solve_vr]);
       try (unfold input_sty in Hin; cbn [unwrapped] in Hin; unfold parent_body;
            destruct (raw_body S tn) as [[k | vals | defs | | |]|] eqn:Eb; simpl in Hin; try discriminate; try contradiction;
            [ rewrite scalar_accepts_eq; destruct (spec_scalar_accepts k _); solve_vr
            | try (destruct (mem _ vals)); solve_vr
            | try solve_vr ])).
    - (* list literal for a list type *)
      apply items_loop_agrees. eapply Forall_impl; [| exact H]. intros x Hx. apply Hx. exact Hin.
    - (* object literal for an input object type *)
      destruct (fields_loop_agrees coercion defs p fs) with (seen := @nil name) (acc := @nil verror) as [errs [E [Hs Hn]]].
        * rewrite Forall_forall in *. intros f Hf d Hd. apply (H f Hf).
          apply (input_closed tn defs Eb (fst (fst f), d)). apply assoc_in. exact Hd.
        * intros e [].
        * exists errs. split; [exact E |]. split; [exact Hs |]. rewrite Hn. split.
          -- intros [_ [H2 [_ [H4 H5]]]]. rewrite H2, H4. simpl.
             assert (forallb (fun nd => if required (snd nd) then mem (fst nd) (map (fun f => fst (fst f)) fs) else true) defs = true) as ->; [| reflexivity].
             apply forallb_forall. intros nd Hnd. destruct (required (snd nd)) eqn:Hreq; [| reflexivity].
             destruct (H5 nd Hnd Hreq) as [Hc | Hc]; [discriminate | apply mem_in; exact Hc].
          -- intros Hf. apply app_eq_nil in Hf as [H2 Hf]. apply app_eq_nil in Hf as [H4 H5].
             split; [reflexivity |]. split; [exact H2 |]. split; [intros; reflexivity |]. split.
             ++ destruct (nodupb (map (fun f => fst (fst f)) fs)); [reflexivity | discriminate].
             ++ intros nd Hnd Hreq. right.
                destruct (forallb (fun nd => if required (snd nd) then mem (fst nd) (map (fun f => fst (fst f)) fs) else true) defs) eqn:Ef; [| discriminate].
                rewrite forallb_forall in Ef. specialize (Ef nd Hnd). rewrite Hreq in Ef. apply mem_in. exact Ef.
  Qed.
End Coercion.

(** ** which values the visitor of validateValues sees: the top-level ones *)
Definition arg_vals (args : list argument) : list value := map a_value args.
Definition dir_vals (dirs : list directive) : list value := flat_map (fun d => arg_vals (d_args d)) dirs.
Fixpoint vals_sel (s : selection) : list value :=
  match s with
  | SField _ _ _ _ args dirs sub =>
      arg_vals args ++ dir_vals dirs ++ match sub with Some ss => vals_ss ss | None => [] end
  | SSpread _ _ dirs _ => dir_vals dirs
  | SInline _ dirs ss _ => dir_vals dirs ++ vals_ss ss
  end
with vals_ss (ss : selset) : list value :=
  match ss with SelSet _ sels _ => flat_map vals_sel sels end.
Definition vardef_vals (v : vardef) : list value :=
  VVar no_vann (vd_name v) (vd_dollar v) (vd_npos v) :: match vd_default v with Some x => [x] | None => [] end.
Definition def_vals (d : definition) : list value :=
  match d with
  | DOp _ _ vars dirs sub => flat_map vardef_vals vars ++ dir_vals dirs ++ vals_ss sub
  | DFrag _ _ _ _ dirs sub => dir_vals dirs ++ vals_ss sub
  end.

Section ValueVisitor.
  Variable E : Type.
  Variable f : node -> list E.
  Variable g : node -> bool.
  Hypothesis f_other : forall m, match m with NValue _ => True | _ => f m = [] end.
  Hypothesis g_other : forall m, match m with NValue v => g m = is_var v | _ => g m = true end.

  Notation vis t := (flat_map f (vnodes g t)).
  Notation fv := (fun v => f (NValue v)).

  Notation visl l := (flat_map f (flat_map (vnodes g) l)).

  Lemma vis_node n cs : g n = true -> f n = [] -> vis (T n cs) = visl cs.
  Proof. intros Hg Hf. simpl. rewrite Hg, Hf. reflexivity. Qed.
  Lemma visl_cons t l : visl (t :: l) = vis t ++ visl l.
  Proof. simpl. apply flat_map_app. Qed.
  Lemma visl_app l1 l2 : visl (l1 ++ l2) = visl l1 ++ visl l2.
  Proof. rewrite !flat_map_app. reflexivity. Qed.
  Lemma visl_nil : visl [] = [].
  Proof. reflexivity. Qed.

  Lemma vis_name np : vis (name_tree np) = [].
  Proof. unfold name_tree. apply (vis_node (NName (fst np) (snd np)) []); [apply (g_other (NName _ _)) | apply (f_other (NName _ _))]. Qed.

  Lemma vis_value v : vis (tree_value v) = f (NValue v).
  Proof.
    destruct v; simpl; rewrite (g_other (NValue _)); simpl; rewrite ?app_nil_r; try reflexivity.
    pose proof (f_other (NName n npos)) as Hn. simpl in Hn.
    destruct (g (NName n npos)); simpl; rewrite Hn; simpl; rewrite ?app_nil_r; reflexivity.
  Qed.

  Lemma vis_arg a : vis (tree_arg a) = f (NValue (a_value a)).
  Proof.
    unfold tree_arg. rewrite vis_node; [| apply (g_other (NArgument a)) | apply (f_other (NArgument a))].
    rewrite !visl_cons, visl_nil, vis_name, vis_value, app_nil_r. reflexivity.
  Qed.

  Lemma vis_list {A} (tr : A -> tree) (h : A -> list E) (l : list A) :
    (forall x, vis (tr x) = h x) -> visl (map tr l) = flat_map h l.
  Proof. intros H. induction l as [|x l IH]; [reflexivity |]. simpl map. rewrite visl_cons, H, IH. reflexivity. Qed.

  Lemma vis_args args : visl (map tree_arg args) = flat_map fv (arg_vals args).
  Proof.
    rewrite (vis_list tree_arg (fun a => f (NValue (a_value a))) _ vis_arg).
    unfold arg_vals. induction args as [|a r IH]; [reflexivity |]. simpl. rewrite IH. reflexivity.
  Qed.

  Lemma vis_dir d : vis (tree_dir d) = flat_map fv (arg_vals (d_args d)).
  Proof.
    unfold tree_dir. rewrite vis_node; [| apply (g_other (NDirective d)) | apply (f_other (NDirective d))].
    rewrite visl_cons, vis_name, vis_args. reflexivity.
  Qed.

  Lemma vis_dirs dirs : visl (map tree_dir dirs) = flat_map fv (dir_vals dirs).
  Proof.
    rewrite (vis_list tree_dir (fun d => flat_map fv (arg_vals (d_args d))) _ vis_dir).
    unfold dir_vals. induction dirs as [|d r IH]; [reflexivity |]. simpl. rewrite flat_map_app, IH. reflexivity.
  Qed.

  Lemma vis_opt_name (o : option (name * pos)) : visl (opt_tree name_tree o) = [].
  Proof. destruct o as [np|]; [| reflexivity]. unfold opt_tree. rewrite visl_cons, vis_name. reflexivity. Qed.

  Lemma vis_sel_ss :
    (forall s, vis (tree_sel s) = flat_map fv (vals_sel s)) /\
    (forall ss, vis (tree_ss ss) = flat_map fv (vals_ss ss)).
  Proof.
    apply sel_ss_ind.
    - intros a al n np args dirs sub IH. rewrite tree_sel_field_eq.
      rewrite vis_node; [| apply (g_other (NSel _)) | apply (f_other (NSel _))].
      rewrite !visl_app, vis_opt_name, visl_cons, visl_nil, vis_name, vis_args, vis_dirs. simpl app.
      cbn [vals_sel]. rewrite !flat_map_app. f_equal. f_equal.
      destruct sub as [ss|]; [| reflexivity]. unfold opt_tree. rewrite visl_cons, visl_nil, app_nil_r. apply (IH ss eq_refl).
    - intros n np dirs e. rewrite tree_sel_spread_eq.
      rewrite vis_node; [| apply (g_other (NSel _)) | apply (f_other (NSel _))].
      rewrite visl_cons, vis_name. apply vis_dirs.
    - intros cond dirs sub e IH. rewrite tree_sel_inline_eq.
      rewrite vis_node; [| apply (g_other (NSel _)) | apply (f_other (NSel _))].
      rewrite !visl_app, vis_dirs, visl_cons, visl_nil, app_nil_r, IH.
      cbn [vals_sel]. rewrite flat_map_app.
      destruct cond as [[c cp]|]; [| reflexivity]. unfold opt_tree, tree_named_type. rewrite visl_cons, visl_nil.
      rewrite vis_node; [| apply (g_other (NType _)) | apply (f_other (NType _))].
      rewrite visl_cons, vis_name. reflexivity.
    - intros a sels p IH. rewrite tree_ss_eq.
      rewrite vis_node; [| apply (g_other (NSelSet _)) | apply (f_other (NSelSet _))].
      change (vals_ss (SelSet a sels p)) with (flat_map vals_sel sels).
      induction IH as [|s r Hs _ IHr]; [reflexivity |]. simpl map. rewrite visl_cons, Hs, IHr. simpl. rewrite flat_map_app. reflexivity.
  Qed.

  Lemma vis_ty t : vis (tree_ty t) = [].
  Proof.
    induction t as [tn p | t IH p | t IH]; simpl tree_ty;
      (rewrite vis_node; [| apply (g_other (NType _)) | apply (f_other (NType _))]);
      rewrite visl_cons, visl_nil, ?vis_name, ?IH; reflexivity.
  Qed.

  Lemma vis_vardef v : vis (tree_vardef v) = flat_map fv (vardef_vals v).
  Proof.
    unfold tree_vardef, vardef_vals. rewrite vis_node; [| apply (g_other (NVarDef _)) | apply (f_other (NVarDef _))].
    rewrite visl_app, !visl_cons, visl_nil, vis_value, vis_ty. simpl. rewrite app_nil_r. f_equal.
    destruct (vd_default v) as [x|]; [| reflexivity]. unfold opt_tree. rewrite visl_cons, visl_nil, vis_value. reflexivity.
  Qed.

  Lemma vis_def d : vis (tree_def d) = flat_map fv (def_vals d).
  Proof.
    destruct d as [ot n vars dirs sub | kw n np cond dirs sub]; unfold tree_def, def_vals;
      (rewrite vis_node; [| apply (g_other (NDef _)) | apply (f_other (NDef _))]).
    - rewrite !visl_app, vis_opt_name, vis_dirs, visl_cons, visl_nil, (proj2 vis_sel_ss), app_nil_r.
      rewrite (vis_list tree_vardef (fun v => flat_map fv (vardef_vals v)) _ vis_vardef).
      assert (visl (opt_tree (fun x : name * pos => T (NOpType (fst x) (snd x)) []) ot) = []) as ->.
      { destruct ot as [x|]; [| reflexivity]. unfold opt_tree. rewrite visl_cons, visl_nil.
        rewrite vis_node; [reflexivity | apply (g_other (NOpType _ _)) | apply (f_other (NOpType _ _))]. }
      simpl app. rewrite !flat_map_app. f_equal.
      induction vars as [|v r IH]; [reflexivity |]. simpl. rewrite flat_map_app, IH, <- app_assoc. reflexivity.
    - rewrite visl_cons, vis_name, visl_app, vis_dirs, visl_cons, visl_nil, (proj2 vis_sel_ss), app_nil_r.
      simpl app. rewrite flat_map_app. reflexivity.
  Qed.

  Lemma vis_doc D : vis (tree_doc D) = flat_map fv (flat_map def_vals D).
  Proof.
    unfold tree_doc. rewrite vis_node; [| apply (g_other (NDoc _)) | apply (f_other (NDoc _))].
    rewrite (vis_list tree_def (fun d => flat_map fv (def_vals d)) _ vis_def).
    induction D as [|d r IH]; [reflexivity |]. simpl. rewrite flat_map_app, IH. reflexivity.
  Qed.
End ValueVisitor.

(** ** the rule *)
Section ValuesRule.
  Variable pi : order.
  Hypothesis Hpi : order_ok pi.
  Variable S : schema.
  Variable F : features.
  Hypothesis input_closed : forall tn defs, raw_body S tn = Some (TInput defs) ->
                                            forall nd, In nd defs -> input_sty S (in_type (snd nd)).
  Hypothesis no_typename_field : forall top, field_of_scope S F top n_typename = None.

  Notation coercion := (coercion repaired pi S).
  Notation qo := (q_unwrap_obj repaired).

  (** validateCoercion (repaired) never panics *)
  Lemma items_loop_total rec t vs :
    Forall (fun x => exists errs, rec x t false = VR errs) vs -> exists errs, items_loop rec t vs = VR errs.
  Proof.
    induction 1 as [|x r [ex Ex] _ IH]; simpl; [eauto |]. rewrite Ex. destruct ex; [exact IH | eauto].
  Qed.
  Lemma fields_loop_total rec defs p fs :
    Forall (fun f => forall t, exists errs, rec (snd f) t true = VR errs) fs ->
    forall seen acc, exists errs, fields_loop pi rec defs p fs seen acc = VR errs.
  Proof.
    induction 1 as [|[[n np] x] r Hx _ IH]; intros seen acc; simpl; [eauto |].
    destruct (assoc n defs) as [def|]; [| apply IH].
    destruct (Hx (in_type def)) as [ex Ex]. simpl in Ex. rewrite Ex. destruct ex; [apply IH | eauto].
  Qed.
  Lemma coercion_total v : forall t allow, exists errs, coercion v t allow = VR errs.
  Proof.
    induction v using value_ind'; intros t;
      (induction t as [tn | t' IHt | t' IHt]; intros allow; rewrite coercion_unfold; cbn [is_var is_null];
       try (eexists; reflexivity); try apply IHt;
       try (destruct allow; [apply IHt | eexists; reflexivity]);
       try (destruct (raw_body S tn) as [[k | vals | defs | | |]|]; try (eexists; reflexivity))).
    - apply items_loop_total. eapply Forall_impl; [| exact H]. intros x Hx. apply Hx.
    - apply fields_loop_total. eapply Forall_impl; [| exact H]. intros f Hf t. apply Hf.
  Qed.

  (** validateCoercion does not look at TypeInfo's slots *)
  Lemma items_loop_ext rec (h : value -> value) t vs :
    Forall (fun x => forall t a, rec (h x) t a = rec x t a) vs -> items_loop rec t (map h vs) = items_loop rec t vs.
  Proof. induction 1 as [|x r Hx _ IH]; [reflexivity |]. simpl. rewrite Hx, IH. reflexivity. Qed.
  Lemma fields_loop_ext rec (h : name * pos * value -> name * pos * value) defs p fs :
    Forall (fun f => fst (h f) = fst f /\ forall t a, rec (snd (h f)) t a = rec (snd f) t a) fs ->
    forall seen acc, fields_loop pi rec defs p (map h fs) seen acc = fields_loop pi rec defs p fs seen acc.
  Proof.
    induction 1 as [|[[n np] x] r [Hf Hx] _ IH]; intros seen acc; [reflexivity |]. simpl.
    destruct (h (n, np, x)) as [[n' np'] x'] eqn:Eh. simpl in Hf, Hx. inversion Hf; subst n' np'.
    destruct (assoc n defs); [rewrite Hx |]; rewrite ?IH; reflexivity.
  Qed.

  Lemma coercion_blind_in v : forall sc e dd t allow, coercion (ti_value_in qo S sc e dd v) t allow = coercion v t allow.
  Proof.
    induction v using value_ind'; intros sc e dd t;
      try (induction t as [tn | t' IHt | t' IHt]; intros allow; rewrite !coercion_unfold; cbn [ti_value_in set_ann is_var is_null v_pos];
           try reflexivity; try apply IHt; try (destruct allow; [apply IHt | reflexivity]);
           destruct (raw_body S tn) as [[[| | | | |[ks|]|acc rp] | vals | defs | | |]|]; reflexivity).
    - (* list *)
      induction t as [tn | t' IHt | t' IHt]; intros allow;
        rewrite (coercion_unfold _ _ (ti_value_in qo S sc e dd _)), (coercion_unfold _ _ (VList _ _ _)); cbn [ti_value_in is_var is_null v_pos].
      + destruct (raw_body S tn) as [[[| | | | |[ks|]|acc rp] | vals | defs | | |]|]; reflexivity.
      + apply items_loop_ext. eapply Forall_impl; [| exact H]. intros x Hx t0 a0. apply Hx.
      + apply IHt.
    - (* object *)
      induction t as [tn | t' IHt | t' IHt]; intros allow;
        rewrite (coercion_unfold _ _ (ti_value_in qo S sc e dd _)), (coercion_unfold _ _ (VObject _ _ _)); cbn [ti_value_in is_var is_null v_pos].
      + destruct (raw_body S tn) as [[[| | | | |[ks|]|acc rp] | vals | defs | | |]|]; try reflexivity.
        apply fields_loop_ext. rewrite Forall_forall in *. intros [[n np] x] Hf.
        destruct (match object_fields qo S e with Some l => assoc n l | None => None end); simpl; (split; [reflexivity |]);
          intros t0 a0; apply (H _ Hf).
      + destruct allow; [apply IHt | reflexivity].
      + apply IHt.
  Qed.
  Lemma coercion_blind v e dd t allow : coercion (ti_value qo S e dd v) t allow = coercion v t allow.
  Proof. apply coercion_blind_in. Qed.

  Lemma ti_value_ann e d v : v_ann (ti_value qo S e d v) = {| va_expected := e; va_default := d; va_scalar := false |}.
  Proof. destruct v; reflexivity. Qed.
  Lemma ti_value_is_var e d v : is_var (ti_value qo S e d v) = is_var v.
  Proof. destruct v; reflexivity. Qed.

  (** ** the visitor *)
  Definition vr_errs (r : vres) : list verror := match r with VR e => e | VPanic => [] end.
  Definition val_f (n : node) : list verror :=
    match n with
    | NValue v =>
        if is_var v then []
        else match va_expected (v_ann v) with
             | Some t => vr_errs (coercion v t true)
             | None => [sec ENoValueInfo (v_pos v)]
             end
    | _ => []
    end.
  Definition val_g (n : node) : bool := match n with NValue v => is_var v | _ => true end.

  Lemma add_errs_nil st : add_errs st [] = st.
  Proof. destruct st. unfold add_errs. simpl. rewrite app_nil_r. reflexivity. Qed.
  Lemma add_errs_app st a b : add_errs (add_errs st a) b = add_errs st (a ++ b).
  Proof. unfold add_errs. simpl. rewrite app_assoc. reflexivity. Qed.

  Lemma values_enter_eq st n : values_enter repaired pi S st n = (add_errs st (val_f n), val_g n).
  Proof.
    unfold values_enter, val_f, val_g. destruct n; try (rewrite add_errs_nil; reflexivity).
    destruct (is_var v); [rewrite add_errs_nil; reflexivity |].
    destruct (va_expected (v_ann v)) as [t|]; [| reflexivity].
    destruct (coercion_total v t true) as [errs ->]. reflexivity.
  Qed.

  Lemma rule_values_eq A : rule_values repaired pi S A = Done (flat_map (fun v => val_f (NValue v)) (flat_map def_vals A)).
  Proof.
    unfold rule_values.
    rewrite (inspect_acc_gen _ _ add_errs add_errs_nil add_errs_app val_f val_g _ values_enter_eq).
    rewrite (vis_doc _ val_f val_g); [reflexivity | intros m; destruct m; try reflexivity; exact I | intros m; destruct m; reflexivity].
  Qed.

  (** ** the expected type of an argument value *)
  Definition arg_type (odefs : option (list (name * input_def))) (a : argument) : option sty :=
    match match odefs with Some l => assoc (a_name a) l | None => None end with
    | Some d => Some (in_type d)
    | None => None
    end.

  (** a top-level value passes iff the Spec finds no fact about it (when it has an input type) *)
  Lemma val_f_primary e d v :
    (forall t, e = Some t -> input_sty S t) ->
    (primary (val_f (NValue (ti_value qo S e d v))) = [] <->
     match e with Some t => value_facts S v t true = [] | None => True end).
  Proof.
    intros Hin. unfold val_f. rewrite ti_value_is_var, ti_value_ann. cbn [va_expected].
    destruct (is_var v) eqn:Ev.
    - destruct e as [t|]; [| tauto]. rewrite value_facts_unfold, Ev. tauto.
    - destruct e as [t|]; [| simpl; tauto].
      rewrite coercion_blind.
      destruct (coercion_agrees pi Hpi S input_closed v t true (Hin t eq_refl)) as [errs [E [Hs Hn]]].
      rewrite E. simpl. rewrite <- Hn. unfold primary. split.
      + intros H. destruct errs as [|x xs]; [reflexivity |]. simpl in H. rewrite (Hs x (or_introl eq_refl)) in H. discriminate.
      + intros ->. reflexivity.
  Qed.
End ValuesRule.

(** ** the top-level values of an annotated document, selection by selection *)
Definition own_vals (x : selection) : list value :=
  arg_vals (match x with SField _ _ _ _ a _ _ => a | _ => [] end) ++ dir_vals (sel_dirs x).

Section ValsEnum.
  Variable qo : bool.
  Variable S : schema.
  Variable F : features.

  Lemma vals_ss_eq a sels p : vals_ss (SelSet a sels p) = flat_map vals_sel sels.
  Proof. reflexivity. Qed.

  Lemma vals_enum :
    (forall s top v, In v (vals_sel (pti_sel qo S F top s)) <->
                     exists sc s0, In (sc, s0) (ssels_sel S F top s) /\ In v (own_vals (pti_sel qo S F sc s0))) /\
    (forall ss top v, In v (vals_ss (pti_ss qo S F top ss)) <->
                      exists sc s0, In (sc, s0) (ssels_ss S F top ss) /\ In v (own_vals (pti_sel qo S F sc s0))).
  Proof.
    apply sel_ss_ind.
    - intros a al n np args dirs sub IH top v. rewrite pti_sel_field_eq. cbn [vals_sel].
      rewrite !in_app_iff. split.
      + intros [H | [H | H]].
        * exists top, (SField a al n np args dirs sub). split; [left; reflexivity |].
          rewrite pti_sel_field_eq. unfold own_vals. apply in_or_app. left. exact H.
        * exists top, (SField a al n np args dirs sub). split; [left; reflexivity |].
          rewrite pti_sel_field_eq. unfold own_vals. apply in_or_app. right. exact H.
        * destruct sub as [ss|]; [| destruct H]. apply (IH ss eq_refl) in H as [sc [s0 [Hin Hv]]].
          exists sc, s0. split; [right; exact Hin | exact Hv].
      + intros [sc [s0 [[Heq | Hin] Hv]]].
        * inversion Heq; subst sc s0. rewrite pti_sel_field_eq in Hv. unfold own_vals in Hv.
          apply in_app_or in Hv as [Hv | Hv]; [left; exact Hv | right; left; exact Hv].
        * right. right. destruct sub as [ss|]; [| destruct Hin]. apply (IH ss eq_refl). exists sc, s0. auto.
    - intros n np dirs e top v. change (pti_sel qo S F top (SSpread n np dirs e)) with (SSpread n np (map (ti_dir qo S) dirs) e).
      cbn [vals_sel]. split.
      + intros H. exists top, (SSpread n np dirs e). split; [left; reflexivity |]. exact H.
      + intros [sc [s0 [[Heq | []] Hv]]]. inversion Heq; subst. exact Hv.
    - intros cond dirs sub e IH top v. rewrite pti_sel_inline_eq. cbn [vals_sel]. rewrite in_app_iff. split.
      + intros [H | H].
        * exists top, (SInline cond dirs sub e). split; [left; reflexivity |]. rewrite pti_sel_inline_eq. exact H.
        * apply IH in H as [sc [s0 [Hin Hv]]]. exists sc, s0. split; [right; exact Hin | exact Hv].
      + intros [sc [s0 [[Heq | Hin] Hv]]].
        * inversion Heq; subst sc s0. rewrite pti_sel_inline_eq in Hv. left. exact Hv.
        * right. apply IH. exists sc, s0. auto.
    - intros a sels p IH top v. rewrite pti_ss_eq, vals_ss_eq, ssels_ss_eq, in_flat_map. rewrite Forall_forall in IH. split.
      + intros [s' [Hs' Hv]]. apply in_map_iff in Hs' as [s [<- Hs]]. apply (IH s Hs) in Hv as [sc [s0 [Hin Hv]]].
        exists sc, s0. split; [apply in_flat_map; exists s; auto | exact Hv].
      + intros [sc [s0 [Hin Hv]]]. apply in_flat_map in Hin as [s [Hs Hin]]. exists (pti_sel qo S F top s).
        split; [apply in_map; exact Hs |]. apply (IH s Hs). exists sc, s0. auto.
  Qed.

  Definition arg_dflag (odefs : option (list (name * input_def))) (dn : dflt -> bool) (a : argument) : bool :=
    match match odefs with Some l => assoc (a_name a) l | None => None end with
    | Some d => dn (in_default d)
    | None => false
    end.

  Lemma arg_vals_ti odefs dn args :
    arg_vals (ti_args qo S odefs dn args) =
    map (fun a => ti_value qo S (arg_type odefs a) (arg_dflag odefs dn a) (a_value a)) args.
  Proof.
    unfold arg_vals, ti_args. rewrite map_map. apply map_ext. intros a. unfold arg_type, arg_dflag.
    destruct (match odefs with Some l => assoc (a_name a) l | None => None end); reflexivity.
  Qed.
End ValsEnum.

Section ValuesMain.
  Variable pi : order.
  Hypothesis Hpi : order_ok pi.
  Variable S : schema.
  Variable F : features.
  Hypothesis input_closed : forall tn defs, raw_body S tn = Some (TInput defs) ->
                                            forall nd, In nd defs -> input_sty S (in_type (snd nd)).
  Hypothesis no_typename_field : forall top, field_of_scope S F top n_typename = None.
  Variable D : document.
  Hypothesis typed_input : forall vt, In vt (typed_values S F D) -> input_sty S (snd vt).

  Notation qo := (q_unwrap_obj repaired).
  Notation A := (pti_doc qo S F D).

  Definition valid_5_6 : bool := valid_5_6_1 S F D && valid_5_6_2 S F D && valid_5_6_3 S F D && valid_5_6_4 S F D.

  Lemma valid_5_6_facts :
    valid_5_6 = true <-> forall vt, In vt (typed_values S F D) -> value_facts S (fst vt) (snd vt) true = [].
  Proof.
    unfold valid_5_6, valid_5_6_1, valid_5_6_2, valid_5_6_3, valid_5_6_4, no_fact.
    rewrite !andb_true_iff, !forallb_forall. split.
    - intros [[[H1 H2] H3] H4] vt Hvt. specialize (H1 vt Hvt). specialize (H2 vt Hvt). specialize (H3 vt Hvt). specialize (H4 vt Hvt).
      destruct (value_facts S (fst vt) (snd vt) true) as [|k ks]; [reflexivity |].
      destruct k; simpl in *; discriminate.
    - intros H. repeat split; intros vt Hvt; rewrite (H vt Hvt); reflexivity.
  Qed.

  Definition arg_lists_values : list (value * sty) :=
    flat_map (fun ad => match snd ad with
                        | Some defs => flat_map (fun a => match assoc (a_name a) defs with
                                                          | Some d => [(a_value a, in_type d)]
                                                          | None => []
                                                          end) (fst ad)
                        | None => []
                        end) (all_argument_lists S F D).
  Definition default_values : list (value * sty) :=
    flat_map (fun v => match vd_default v, declared_type S F (vd_type v) with
                       | Some x, Some t => [(x, t)]
                       | _, _ => []
                       end) (all_vardefs D).
  Lemma typed_values_split : typed_values S F D = arg_lists_values ++ default_values.
  Proof. reflexivity. Qed.

  Lemma in_arg_lists_values v t :
    In (v, t) arg_lists_values <->
    exists ad a0, In ad (all_argument_lists S F D) /\ In a0 (fst ad) /\ arg_type (snd ad) a0 = Some t /\ v = a_value a0.
  Proof.
    unfold arg_lists_values. rewrite in_flat_map. split.
    - intros [ad [Had H]]. destruct (snd ad) as [defs|] eqn:Es; [| destruct H].
      apply in_flat_map in H as [a0 [Ha0 H]]. exists ad, a0. unfold arg_type. rewrite Es.
      destruct (assoc (a_name a0) defs) as [d|]; [| destruct H]. destruct H as [H | []]. inversion H; subst. auto.
    - intros [ad [a0 [Had [Ha0 [Ht ->]]]]]. exists ad. split; [exact Had |]. unfold arg_type in Ht.
      destruct (snd ad) as [defs|]; [| discriminate]. apply in_flat_map. exists a0. split; [exact Ha0 |].
      destruct (assoc (a_name a0) defs) as [d|]; [| discriminate]. inversion Ht; subst. left. reflexivity.
  Qed.

  Lemma schema_type_declared t : schema_type S F t = declared_type S F t.
  Proof. induction t as [n p | t IH p | t IH]; simpl; rewrite ?IH; reflexivity. Qed.

  (** the argument definitions the Spec and TypeInfo attach to a field give the same types *)
  Lemma arg_type_field sc a al n np args dirs sub a0 :
    arg_type (match fo_def S F {| fo_parent := sc; fo_field := SField a al n np args dirs sub |} with
              | Some d => Some (f_args d) | None => None end) a0 =
    arg_type (match field_of_scope S F sc n with Some f => Some (f_args f) | None => None end) a0.
  Proof.
    unfold fo_def. cbn [fo_parent fo_field]. destruct sc as [p|]; [| reflexivity].
    unfold field_def_of. change s_typename with n_typename.
    destruct (name_eqb n n_typename) eqn:En.
    - apply name_eqb_eq in En. subst n. rewrite no_typename_field.
      destruct (composite S p); reflexivity.
    - rewrite declared_field_eq. reflexivity.
  Qed.

  (** every top-level value of the annotated document is a variable, or an annotated argument
      value / default value of the original document *)
  Definition top_value_of (v' : value) : Prop :=
    is_var v' = true \/
    (exists ad a0 dn, In ad (all_argument_lists S F D) /\ In a0 (fst ad) /\
                      v' = ti_value qo S (arg_type (snd ad) a0) dn (a_value a0)) \/
    (exists vd x, In vd (all_vardefs D) /\ vd_default vd = Some x /\
                  v' = ti_value qo S (declared_type S F (vd_type vd)) false x).

  Lemma dir_vals_top dirs v' :
    (forall dir, In dir dirs -> exists loc, In (loc, dir) (all_directives D)) ->
    In v' (dir_vals (map (ti_dir qo S) dirs)) -> top_value_of v'.
  Proof.
    intros Hdirs H. unfold dir_vals in H. apply in_flat_map in H as [dir' [Hd' H]].
    apply in_map_iff in Hd' as [dir [<- Hdir]]. simpl d_args in H. rewrite arg_vals_ti in H.
    apply in_map_iff in H as [a0 [<- Ha0]]. destruct (Hdirs dir Hdir) as [loc Hloc].
    right. left. eexists (d_args dir, _), a0, _. split; [| split; [exact Ha0 | reflexivity]].
    unfold all_argument_lists. apply in_or_app. right.
    apply (in_map (fun ld => (d_args (snd ld), match directive_def S (snd ld) with Some dd => Some (dd_args dd) | None => None end)) _ (loc, dir)).
    exact Hloc.
  Qed.

  Lemma def_dir_listed d dir : In d D -> In dir (def_dirs d) -> exists loc, In (loc, dir) (all_directives D).
  Proof.
    intros Hd Hdir. exists (def_location_spec d). unfold all_directives, all_directive_lists.
    apply in_flat_map. exists (def_location_spec d, def_dirs d). split.
    - apply in_or_app. left. apply (in_map (fun d => (def_location_spec d, def_dirs d))). exact Hd.
    - apply (in_map (fun d0 => (def_location_spec d, d0))). exact Hdir.
  Qed.
  Lemma sel_dir_listed d sc s0 dir :
    In d D -> In (sc, s0) (ssels_ss S F (model_def_scope S F d) (def_sub d)) -> In dir (sel_dirs s0) ->
    exists loc, In (loc, dir) (all_directives D).
  Proof.
    intros Hd Hin Hdir. exists (Some (sel_location s0)). unfold all_directives, all_directive_lists, all_sels.
    apply in_flat_map. exists (Some (sel_location s0), sel_dirs s0). split.
    - apply in_or_app. right. apply (in_map (fun s => (Some (sel_location s), sel_dirs s))).
      apply in_flat_map. exists d. split; [exact Hd |].
      rewrite <- (proj2 (ssels_sels S F) (def_sub d) (model_def_scope S F d)). apply (in_map snd) in Hin. exact Hin.
    - apply (in_map (fun d0 => (Some (sel_location s0), d0))). exact Hdir.
  Qed.

  Lemma top_values_classified v' : In v' (flat_map def_vals A) -> top_value_of v'.
  Proof.
    intros H. apply in_flat_map in H as [d' [Hd' H]]. apply in_map_iff in Hd' as [d [<- Hd]].
    assert (forall sub sc0, model_def_scope S F d = sc0 -> def_sub d = sub ->
                            In v' (vals_ss (pti_ss qo S F sc0 sub)) -> top_value_of v') as Hsels.
    { intros sub sc0 Esc Esub Hv. apply (proj2 (vals_enum qo S F)) in Hv as [sc [s0 [Hin Hv]]].
      rewrite <- Esc, <- Esub in Hin. unfold own_vals in Hv. apply in_app_or in Hv as [Hv | Hv].
      - destruct s0 as [a al n np args dirs sub0 | |]; try (simpl in Hv; destruct Hv; fail).
        rewrite pti_sel_field_eq in Hv. unfold field_args in Hv. rewrite arg_vals_ti in Hv.
        apply in_map_iff in Hv as [a0 [<- Ha0]]. right. left.
        eexists (args, _), a0, _. split; [| split; [exact Ha0 |]].
        + unfold all_argument_lists. apply in_or_app. left.
          apply (in_map (fun o => (match fo_field o with SField _ _ _ _ a _ _ => a | _ => [] end,
                                   match fo_def S F o with Some d => Some (f_args d) | None => None end))
                        _ {| fo_parent := sc; fo_field := SField a al n np args dirs sub0 |}).
          apply all_fields_enum. exists d, sc, (SField a al n np args dirs sub0). repeat split; assumption.
        + cbn [snd fo_field]. rewrite arg_type_field. reflexivity.
      - rewrite sel_dirs_pti in Hv. eapply dir_vals_top; [| exact Hv].
        intros dir Hdir. eapply sel_dir_listed; eassumption. }
    destruct d as [ot n vars dirs sub | kw n np cond dirs sub]; cbn [pti_def def_vals] in H.
    - apply in_app_or in H as [H | H]; [| apply in_app_or in H as [H | H]].
      + apply in_flat_map in H as [vd' [Hvd' H]]. apply in_map_iff in Hvd' as [vd [<- Hvd]].
        unfold vardef_vals, ti_vardef in H. cbn [vd_name vd_dollar vd_npos vd_default] in H.
        destruct H as [<- | H]; [left; reflexivity |].
        destruct (vd_default vd) as [x|] eqn:Ex; [| destruct H]. destruct H as [<- | []].
        right. right. exists vd, x. split; [| split; [exact Ex | rewrite schema_type_declared; reflexivity]].
        unfold all_vardefs. apply in_flat_map. exists (DOp ot n vars dirs sub). auto.
      + eapply dir_vals_top; [| exact H]. intros dir Hdir. apply (def_dir_listed (DOp ot n vars dirs sub)); assumption.
      + apply (Hsels sub _ eq_refl eq_refl). exact H.
    - apply in_app_or in H as [H | H].
      + eapply dir_vals_top; [| exact H]. intros dir Hdir. apply (def_dir_listed (DFrag kw n np cond dirs sub)); assumption.
      + apply (Hsels sub _ eq_refl eq_refl). exact H.
  Qed.

  (** conversely every typed value of the Spec is the content of a top-level value of the
      annotated document, annotated with that type *)
  Lemma typed_value_visited v t :
    In (v, t) (typed_values S F D) -> exists dn, In (ti_value qo S (Some t) dn v) (flat_map def_vals A).
  Proof.
    rewrite typed_values_split. intros H. apply in_app_or in H as [H | H].
    - apply in_arg_lists_values in H as [ad [a0 [Had [Ha0 [Ht ->]]]]].
      unfold all_argument_lists in Had. apply in_app_or in Had as [Had | Had].
      + apply in_map_iff in Had as [o [<- Ho]]. apply all_fields_enum in Ho as [d [sc [s0 [Hd [Hin [Hf ->]]]]]].
        destruct s0 as [a al n np args dirs sub | |]; try discriminate. cbn [fst snd fo_field] in *.
        rewrite arg_type_field in Ht.
        exists (arg_dflag (match field_of_scope S F sc n with Some f => Some (f_args f) | None => None end) dflt_not_nil a0).
        apply in_flat_map. exists (pti_def qo S F d). split; [apply in_map; exact Hd |].
        assert (In (ti_value qo S (Some t) (arg_dflag (match field_of_scope S F sc n with Some f => Some (f_args f) | None => None end) dflt_not_nil a0) (a_value a0))
                   (vals_ss (pti_ss qo S F (model_def_scope S F d) (def_sub d)))) as Hv.
        { apply (proj2 (vals_enum qo S F)). exists sc, (SField a al n np args dirs sub). split; [exact Hin |].
          rewrite pti_sel_field_eq. unfold own_vals. apply in_or_app. left. unfold field_args. rewrite arg_vals_ti.
          rewrite <- Ht. apply (in_map (fun a1 => ti_value qo S (arg_type _ a1) (arg_dflag _ dflt_not_nil a1) (a_value a1))). exact Ha0. }
        destruct d as [ot dn vars ddirs dsub | kw dn dnp cond ddirs dsub]; cbn [pti_def def_vals];
          repeat (apply in_or_app; right); exact Hv.
      + apply in_map_iff in Had as [[loc dir] [<- Hld]]. cbn [fst snd] in *.
        set (odefs := match directive_def S dir with Some dd => Some (dd_args dd) | None => None end) in *.
        exists (arg_dflag odefs dflt_is_value a0).
        assert (In (ti_value qo S (Some t) (arg_dflag odefs dflt_is_value a0) (a_value a0))
                   (arg_vals (d_args (ti_dir qo S dir)))) as Hv.
        { simpl d_args. rewrite arg_vals_ti. rewrite <- Ht.
          apply (in_map (fun a1 => ti_value qo S (arg_type _ a1) (arg_dflag _ dflt_is_value a1) (a_value a1))). exact Ha0. }
        assert (forall dirs, In dir dirs -> In (ti_value qo S (Some t) (arg_dflag odefs dflt_is_value a0) (a_value a0))
                                               (dir_vals (map (ti_dir qo S) dirs))) as Hdv.
        { intros dirs Hdir. unfold dir_vals. apply in_flat_map. exists (ti_dir qo S dir). split; [apply in_map; exact Hdir | exact Hv]. }
        unfold all_directives, all_directive_lists, all_sels in Hld. apply in_flat_map in Hld as [ld [Hld Hdir]].
        apply in_map_iff in Hdir as [dir' [Heq Hdir']]. inversion Heq; subst loc dir'.
        apply in_app_or in Hld as [Hld | Hld].
        * apply in_map_iff in Hld as [d [<- Hd]]. simpl in Hdir'. apply in_flat_map. exists (pti_def qo S F d).
          split; [apply in_map; exact Hd |].
          destruct d as [ot dn vars ddirs dsub | kw dn dnp cond ddirs dsub]; cbn [pti_def def_vals def_dirs] in *.
          -- apply in_or_app. right. apply in_or_app. left. apply Hdv. exact Hdir'.
          -- apply in_or_app. left. apply Hdv. exact Hdir'.
        * apply in_map_iff in Hld as [s [<- Hs]]. simpl in Hdir'. apply in_flat_map in Hs as [d [Hd Hs]].
          rewrite <- (proj2 (ssels_sels S F) (def_sub d) (model_def_scope S F d)) in Hs.
          apply in_map_iff in Hs as [[sc s0] [Heq' Hs]]. simpl in Heq'. subst s0.
          apply in_flat_map. exists (pti_def qo S F d). split; [apply in_map; exact Hd |].
          assert (In (ti_value qo S (Some t) (arg_dflag odefs dflt_is_value a0) (a_value a0))
                     (vals_ss (pti_ss qo S F (model_def_scope S F d) (def_sub d)))) as Hvs.
          { apply (proj2 (vals_enum qo S F)). exists sc, s. split; [exact Hs |]. unfold own_vals. apply in_or_app. right.
            rewrite sel_dirs_pti. apply Hdv. exact Hdir'. }
          destruct d as [ot dn vars ddirs dsub | kw dn dnp cond ddirs dsub]; cbn [pti_def def_vals];
            repeat (apply in_or_app; right); exact Hvs.
    - unfold default_values in H. apply in_flat_map in H as [vd [Hvd H]].
      destruct (vd_default vd) as [x|] eqn:Ex; [| destruct H].
      destruct (declared_type S F (vd_type vd)) as [t'|] eqn:Et; [| destruct H]. destruct H as [H | []]. inversion H; subst x t'.
      exists false. unfold all_vardefs in Hvd. apply in_flat_map in Hvd as [d [Hd Hvd]].
      destruct d as [ot dn vars ddirs dsub |]; [| destruct Hvd].
      apply in_flat_map. exists (pti_def qo S F (DOp ot dn vars ddirs dsub)). split; [apply in_map; exact Hd |].
      cbn [pti_def def_vals]. apply in_or_app. left. apply in_flat_map. exists (ti_vardef qo S F vd).
      split; [apply in_map; exact Hvd |]. unfold vardef_vals, ti_vardef. cbn [vd_default]. rewrite Ex. right. left.
      rewrite schema_type_declared, Et. reflexivity.
  Qed.

  Theorem rule_values_iff :
    exists errs, rule_values repaired pi S A = Done errs /\ (primary errs = [] <-> valid_5_6 = true).
  Proof.
    eexists. split; [apply rule_values_eq; assumption |].
    rewrite primary_flat_map, flat_map_nil_iff, valid_5_6_facts. split.
    - intros H [v t] Hvt. destruct (typed_value_visited v t Hvt) as [dn Hin]. specialize (H _ Hin).
      apply (val_f_primary pi Hpi S input_closed (Some t) dn v) in H; [exact H |].
      intros t' Ht'. inversion Ht'; subst. apply (typed_input (v, t') Hvt).
    - intros H v' Hv'. apply top_values_classified in Hv' as [Hvar | [[ad [a0 [dn [Had [Ha0 ->]]]]] | [vd [x [Hvd [Ex ->]]]]]].
      + unfold val_f. rewrite Hvar. reflexivity.
      + destruct (arg_type (snd ad) a0) as [t|] eqn:Et.
        * assert (In (a_value a0, t) (typed_values S F D)) as Hvt.
          { rewrite typed_values_split. apply in_or_app. left. apply in_arg_lists_values. exists ad, a0. auto. }
          apply (val_f_primary pi Hpi S input_closed (Some t) dn (a_value a0)).
          -- intros t' Ht'. inversion Ht'; subst. apply (typed_input _ Hvt).
          -- apply (H _ Hvt).
        * apply (val_f_primary pi Hpi S input_closed None dn (a_value a0)); [intros ? Hc; discriminate | exact I].
      + destruct (declared_type S F (vd_type vd)) as [t|] eqn:Et.
        * assert (In (x, t) (typed_values S F D)) as Hvt.
          { rewrite typed_values_split. apply in_or_app. right. unfold default_values. apply in_flat_map. exists vd.
            split; [exact Hvd |]. rewrite Ex, Et. left. reflexivity. }
          apply (val_f_primary pi Hpi S input_closed (Some t) false x).
          -- intros t' Ht'. inversion Ht'; subst. apply (typed_input _ Hvt).
          -- apply (H _ Hvt).
        * apply (val_f_primary pi Hpi S input_closed None false x); [intros ? Hc; discriminate | exact I].
  Qed.
End ValuesMain.
