(** * Vld/Literals.v — the numeric value of Int / Float literal texts, and the ranges the built-in
    scalars accept.  Stands for strconv.ParseInt(s,10,32), ParseInt(s,10,0) on amd64 and
    strconv.ParseFloat(s,64) returning no error (modelled, not verified: ParseFloat fails exactly
    when the correctly rounded value is infinite, i.e. |x| >= 2^1024 - 2^970; underflow is not an
    error). Literal texts have the lexer's shape  -?digits(.digits)?([eE][+-]?digits)? . *)
From Coq Require Import List NArith ZArith Bool.
From ApiFu Require Import Base.Sexp.
Import ListNotations.
Local Open Scope Z_scope.

Definition is_digit (c : N) : bool := (N.leb 48 c && N.leb c 57)%N.
Definition digit_val (c : N) : Z := Z.of_N (c - 48)%N.

(** leading digits of [l]: their value, how many, and the rest *)
Fixpoint digits (l : list N) (acc : Z) (cnt : Z) : Z * Z * list N :=
  match l with
  | c :: r => if is_digit c then digits r (acc * 10 + digit_val c) (cnt + 1) else (acc, cnt, l)
  | [] => (acc, cnt, [])
  end.

Definition strip_sign (l : list N) : bool * list N :=
  match l with
  | 45%N :: r => (true, r)      (* - *)
  | 43%N :: r => (false, r)     (* + *)
  | _ => (false, l)
  end.

(** integer literal: Some value when the text is -?digits+ *)
Definition int_lit (l : list N) : option Z :=
  let '(neg, r) := strip_sign l in
  match digits r 0 0 with
  | (v, cnt, []) => if Z.eqb cnt 0 then None else Some (if neg then - v else v)
  | _ => None
  end.

Definition int32_lit_ok (l : list N) : bool :=
  match int_lit l with Some v => Z.leb (- 2147483648) v && Z.leb v 2147483647 | None => false end.
Definition int64_lit_ok (l : list N) : bool :=
  match int_lit l with
  | Some v => Z.leb (- 9223372036854775808) v && Z.leb v 9223372036854775807
  | None => false
  end.

(** decimal literal as (mantissa digits m, number of mantissa digits nd, exponent e): |x| = m * 10^e *)
Definition dec_lit (l : list N) : option (Z * Z * Z) :=
  let '(_, r) := strip_sign l in
  match digits r 0 0 with
  | (ip, ic, r1) =>
      if Z.eqb ic 0 then None else
      let '(m, nd, fe, r2) :=
        match r1 with
        | 46%N :: r' =>            (* . *)
            match digits r' ip ic with
            | (m, nd, r'') => (m, nd, - (nd - ic), r'')
            end
        | _ => (ip, ic, 0, r1)
        end in
      match r2 with
      | [] => Some (m, nd, fe)
      | c :: r3 =>
          if (N.eqb c 101 || N.eqb c 69)%N then      (* e E *)
            let '(eneg, r4) := strip_sign r3 in
            match digits r4 0 0 with
            | (ev, ec, []) => if Z.eqb ec 0 then None else Some (m, nd, fe + (if eneg then - ev else ev))
            | _ => None
            end
          else None
      end
  end.

Definition float_limit : Z := 2 ^ 1024 - 2 ^ 970.

(** no ErrRange from ParseFloat *)
Definition float_lit_ok (l : list N) : bool :=
  match dec_lit l with
  | None => false
  | Some (m, nd, e) =>
      if Z.eqb m 0 then true
      else if Z.ltb 320 (e + nd) then false            (* x >= 10^(e+nd-1) >= 10^320 *)
      else if Z.ltb (e + nd) 300 then true             (* x < 10^(e+nd) <= 10^299 *)
      else if Z.leb 0 e then Z.ltb (m * 10 ^ e) float_limit
      else Z.ltb m (float_limit * 10 ^ (- e))
  end.
