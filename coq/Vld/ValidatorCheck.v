(** * Vld/ValidatorCheck.v — C04 correspondence: decode a case (schema, features, parsed document,
    what ParseAndValidate answered in several runs), run the model and the Spec oracle, compare.
    Executable only. *)
From Coq Require Import List NArith ZArith Bool String Ascii.
From ApiFu Require Import Base.Sexp Vld.Ast Vld.Inspect Vld.Decode Vld.TypeInfoModel Vld.ValidatorModel Vld.ValidSpec Vld.Hyps.
Import ListNotations.
Local Open Scope string_scope.

Inductive run := RAccept | RReject (errs : list (list pos)) | RPanic | RCrash.

Definition dec_run (s : sexp) : option run :=
  match untag s with
  | Some (t, args) =>
      if String.eqb t "accept" then Some RAccept
      else if String.eqb t "panic" then Some RPanic
      else if String.eqb t "crash" then Some RCrash
      else if String.eqb t "reject" then
        match map_opt (as_list_of dec_pos) args with Some l => Some (RReject l) | None => None end
      else None
  | None => None
  end.

Definition run_verdict (r : run) : N := match r with RAccept => 0 | RReject _ => 1 | RPanic => 2 | RCrash => 4 end.

(** multiset of locations of a run, as a sorted list *)
Definition pos_leb (a b : pos) : bool :=
  N.ltb (fst a) (fst b) || (N.eqb (fst a) (fst b) && N.leb (snd a) (snd b)).
Fixpoint insert_pos (p : pos) (l : list pos) : list pos :=
  match l with
  | [] => [p]
  | x :: r => if pos_leb p x then p :: l else x :: insert_pos p r
  end.
Definition sort_pos (l : list pos) : list pos := fold_right insert_pos [] l.
Fixpoint pos_list_eqb (a b : list pos) : bool :=
  match a, b with
  | [], [] => true
  | x :: a', y :: b' => pos_eqb x y && pos_list_eqb a' b'
  | _, _ => false
  end.
Definition run_locs (r : run) : list pos :=
  match r with RReject errs => sort_pos (List.concat errs) | _ => [] end.

Definition outcome_verdict (o : outcome) : N :=
  match o with Done [] => 0 | Done _ => 1 | Panic _ => 2 | OutOfFuel => 3 end.
Definition outcome_locs (o : outcome) : list pos :=
  match o with Done errs => sort_pos (flat_map e_locs errs) | _ => [] end.

Definition in_text (lines : list N) (p : pos) : bool :=
  match fst p with
  | 0%N => false
  | l => match nth_error lines (N.to_nat (l - 1)) with
         | Some len => N.leb 1 (snd p) && N.leb (snd p) len
         | None => false
         end
  end.

(** the Spec's rules by section number *)
Definition rule_table : list (string * (schema -> features -> document -> bool)) :=
  [ ("5.2.1.1", fun _ _ D => valid_5_2_1_1 D); ("5.2.2.1", fun _ _ D => valid_5_2_2_1 D); ("5.2.root", fun Sc _ D => valid_root Sc D); ("5.2.3.1", valid_5_2_3_1);
    ("5.3.1", valid_5_3_1); ("5.3.3", valid_5_3_3);
    ("5.4.1", valid_5_4_1); ("5.4.2", valid_5_4_2); ("5.4.2.1", valid_5_4_2_1);
    ("5.5.1.1", fun _ _ D => valid_5_5_1_1 D); ("5.5.1.2", valid_5_5_1_2); ("5.5.1.3", valid_5_5_1_3); ("5.5.1.4", fun _ _ D => valid_5_5_1_4 D);
    ("5.5.2.1", fun _ _ D => valid_5_5_2_1 D); ("5.5.2.2", fun _ _ D => valid_5_5_2_2 D); ("5.5.2.3", valid_5_5_2_3);
    ("5.3.2", valid_5_3_2);
    ("5.6.1", valid_5_6_1); ("5.6.2", valid_5_6_2); ("5.6.3", valid_5_6_3); ("5.6.4", valid_5_6_4);
    ("5.7.1", fun Sc _ D => valid_5_7_1 Sc D); ("5.7.2", fun Sc _ D => valid_5_7_2 Sc D); ("5.7.3", fun _ _ D => valid_5_7_3 D);
    ("5.8.1", fun _ _ D => valid_5_8_1 D); ("5.8.2", valid_5_8_2); ("5.8.3", valid_5_8_3); ("5.8.4", valid_5_8_4); ("5.8.5", valid_5_8_5) ].

Fixpoint str_bytes (s : string) : bytes :=
  match s with EmptyString => [] | String c r => N_of_ascii c :: str_bytes r end.

Definition violated (Sc : schema) (F : features) (D : document) : list string :=
  flat_map (fun r : string * (schema -> features -> document -> bool) => if snd r Sc F D then [] else [fst r]) rule_table.

(** positions of the nodes of D: those ast.Inspect visits, and the type conditions of fragment
    definitions (which it does not visit) *)
Definition all_node_positions (D : document) : list pos :=
  map node_pos (tree_nodes (tree_doc D))
  ++ flat_map (fun d => match d with DFrag _ _ _ c _ _ => [snd c] | _ => [] end) D.

Definition nontrivial (D : document) : bool :=
  existsb (fun s => match s with
                    | SSpread _ _ _ _ => true
                    | SField _ _ _ _ (_ :: _) _ (Some _) => true
                    | SField _ _ _ _ _ (_ :: _) (Some _) => true
                    | SInline _ (_ :: _) _ _ => true
                    | _ => false
                    end) (all_sels D).

(** a variable nested in a list / object literal given for a scalar (TypeInfo.ScalarLiteralValues) *)
Definition var_in_scalar_literal (Sc : schema) (F : features) (D : document) : bool :=
  match type_info (q_unwrap_obj repaired) Sc F D with
  | Some A => existsb (fun n => match n with NValue (VVar a _ _ _) => va_scalar a | _ => false end)
                      (tree_nodes (tree_doc A))
  | None => false
  end.

Definition intent_of (l : list sexp) : option (option bytes) :=
  match field1 "intent" l with
  | Some (SSym _) => Some None
  | Some (SL [SSym _; SStr b]) => Some (Some b)
  | _ => None
  end.

Definition check (c : sexp) : sexp :=
  match tagged "case" c with
  | None => v_bad "shape"
  | Some l =>
      match field "syntax" l with
      | Some _ => v_bad "generated-document-does-not-parse"
      | None =>
      match field1 "features" l, field "schema" l, field "doc" l, field1 "runs" l, field1 "lines" l with
      | Some fs, Some sch, Some dc, Some (SL rs), Some ls =>
          match as_list_of as_bytes fs, dec_schema (SL (SSym "schema" :: sch)), dec_doc (SL (SSym "doc" :: dc)),
                map_opt dec_run rs, as_list_of as_N ls with
          | Some F, Some Sc, Some D, Some (r0 :: runs), Some lines =>
              (* the hypotheses the theorems make about schemas must hold of every generated schema *)
              if negb (schema_ok Sc && schema_args_ok Sc && schema_impls_ok Sc && schema_defaults_ok Sc && schema_ifaces_ok Sc && schema_types_wf Sc) then v_bad "schema-hypotheses-do-not-hold" else
              (* and the positional hypotheses of every parsed document *)
              if negb (doc_positions_ok D) then v_bad "positions-not-distinct" else
              (* the code as it is (with the checked-pairs memo) under two map orders, and the same
                 pipeline without the memo *)
              let m1 := validate_model_memo repaired id_order Sc F D in
              let m2 := validate_model_memo repaired rev_order Sc F D in
              let plain := validate_model repaired id_order Sc F D in
              let stable := pos_list_eqb (outcome_locs m1) (outcome_locs m2) in
              let bad := violated Sc F D in
              let spec_valid := match bad with [] => true | _ => false end in
              let nodes := all_node_positions D in
              let all_errs := flat_map (fun r => match r with RReject e => e | _ => [] end) (r0 :: runs) in
              (* ---- oracle: the implementation against the Spec ---- *)
              if existsb (fun r => N.eqb (run_verdict r) 4) (r0 :: runs) then
                v_oracle_fail "process-killed-or-hung" []
              else if existsb (fun r => N.eqb (run_verdict r) 2) (r0 :: runs) then
                v_oracle_fail "panic" []
              else if negb (forallb (fun r => N.eqb (run_verdict r) (run_verdict r0)) runs) then
                v_oracle_fail "verdict-varies-between-runs" []
              else if spec_valid && negb (N.eqb (run_verdict r0) 0) then
                v_oracle_fail "valid-document-rejected" (map (fun e => SL (map (fun p => SL [of_N (fst p); of_N (snd p)]) e))
                                                            (match r0 with RReject e => e | _ => [] end))
              else if negb spec_valid && N.eqb (run_verdict r0) 0 then
                v_oracle_fail (String.append "accepted-although-violating-" (hd "" bad)) (map SSym bad)
              else if existsb (fun e => match e with [] => true | _ => false end) all_errs then
                v_oracle_fail "error-without-location" []
              else if negb (forallb (forallb (in_text lines)) all_errs) then
                v_oracle_fail "location-outside-document" []
              else if negb (forallb (forallb (fun p => pmem p nodes)) all_errs) then
                v_oracle_fail "location-is-not-a-node-position" []
              else if stable && negb (forallb (fun r => pos_list_eqb (run_locs r) (run_locs r0)) runs) then
                v_oracle_fail "locations-vary-between-runs" []
              (* ---- correspondence: the model against the implementation ---- *)
              else if negb (N.eqb (outcome_verdict m1) (outcome_verdict m2)) then
                v_mismatch "model-verdict-depends-on-map-order" []
              else if negb (N.eqb (outcome_verdict plain) (outcome_verdict m1)) then
                v_mismatch "memo-changes-model-verdict" [SZ (Z.of_N (outcome_verdict plain)); SZ (Z.of_N (outcome_verdict m1))]
              else if negb (N.eqb (run_verdict r0) (outcome_verdict m1)) then
                v_mismatch "verdict" [SZ (Z.of_N (outcome_verdict m1)); SZ (Z.of_N (run_verdict r0))]
              else
                match intent_of l with
                | None => v_bad "intent"
                | Some intent =>
                    let guard :=
                      match intent with
                      | None => []
                      | Some b => if bytes_eqb b (str_bytes "valid") then (if spec_valid then ["guard-ok"] else ["guard-miss"])
                                  else if existsb (fun r => bytes_eqb (str_bytes r) b) bad then ["guard-ok"]
                                  else if existsb (fun r : string * (schema -> features -> document -> bool) => bytes_eqb (str_bytes (fst r)) b) rule_table then ["guard-miss"]
                                  else ["guard-unknown-rule"]
                      end in
                    v_ok ((if spec_valid then ["valid"] else ["invalid"; String.append "violates-" (hd "" bad)])
                          ++ guard
                          ++ (if stable then [] else ["order-sensitive-locations"])
                          ++ (if var_in_scalar_literal Sc F D then ["var-in-scalar-literal"] else [])
                          ++ (if nontrivial D then ["nontrivial"] else []))
                end
          | _, _, _, _, _ => v_bad "decode"
          end
      | _, _, _, _, _ => v_bad "fields"
      end
      end
  end.
