(** * Vld/ValidatorCheck.v — C04 correspondence: decode a case (schema, features, parsed document,
    what ParseAndValidate answered in several runs), run the model and the Spec oracle, compare.
    Executable only. *)
From Coq Require Import List NArith ZArith Bool String.
From ApiFu Require Import Base.Sexp Vld.Ast Vld.Inspect Vld.Decode Vld.TypeInfoModel Vld.ValidatorModel.
Import ListNotations.
Local Open Scope string_scope.

Inductive run := RAccept | RReject (errs : list (list pos)) | RPanic.

Definition dec_run (s : sexp) : option run :=
  match untag s with
  | Some (t, args) =>
      if String.eqb t "accept" then Some RAccept
      else if String.eqb t "panic" then Some RPanic
      else if String.eqb t "reject" then
        match map_opt (as_list_of dec_pos) args with Some l => Some (RReject l) | None => None end
      else None
  | None => None
  end.

Definition run_verdict (r : run) : N := match r with RAccept => 0 | RReject _ => 1 | RPanic => 2 end.

(** multiset of locations of a run, as a sorted list *)
Definition pos_leb (a b : pos) : bool :=
  N.ltb (fst a) (fst b) || (N.eqb (fst a) (fst b) && N.leb (snd a) (snd b)).
Fixpoint insert_pos (p : pos) (l : list pos) : list pos :=
  match l with
  | [] => [p]
  | x :: r => if pos_leb p x then p :: l else x :: insert_pos p r
  end.
Definition sort_pos (l : list pos) : list pos := fold_right insert_pos [] l.
Fixpoint pos_list_eqb (a b : list pos) : bool :=
  match a, b with
  | [], [] => true
  | x :: a', y :: b' => pos_eqb x y && pos_list_eqb a' b'
  | _, _ => false
  end.
Definition run_locs (r : run) : list pos :=
  match r with RReject errs => sort_pos (List.concat errs) | _ => [] end.

Definition outcome_verdict (o : outcome) : N :=
  match o with Done [] => 0 | Done _ => 1 | Panic _ => 2 | OutOfFuel => 3 end.
Definition outcome_locs (o : outcome) : list pos :=
  match o with Done errs => sort_pos (flat_map e_locs errs) | _ => [] end.

Definition in_text (lines : list N) (p : pos) : bool :=
  match fst p with
  | 0%N => false
  | l => match nth_error lines (N.to_nat (l - 1)) with
         | Some len => N.leb 1 (snd p) && N.leb (snd p) len
         | None => false
         end
  end.

Definition check (c : sexp) : sexp :=
  match tagged "case" c with
  | None => v_bad "shape"
  | Some l =>
      match field "syntax" l with
      | Some _ => v_bad "generated-document-does-not-parse"
      | None =>
      match field1 "features" l, field "schema" l, field "doc" l, field1 "runs" l, field1 "lines" l with
      | Some fs, Some sch, Some dc, Some (SL rs), Some ls =>
          match as_list_of as_bytes fs, dec_schema (SL (SSym "schema" :: sch)), dec_doc (SL (SSym "doc" :: dc)),
                map_opt dec_run rs, as_list_of as_N ls with
          | Some F, Some Sc, Some D, Some (r0 :: runs), Some lines =>
              let m1 := validate_model repaired id_order Sc F D in
              let m2 := validate_model repaired rev_order Sc F D in
              let stable := pos_list_eqb (outcome_locs m1) (outcome_locs m2) in
              if negb (N.eqb (outcome_verdict m1) (outcome_verdict m2)) then
                v_mismatch "model-verdict-depends-on-map-order" []
              else if negb (forallb (fun r => N.eqb (run_verdict r) (run_verdict r0)) runs) then
                v_oracle_fail "verdict-varies-between-runs" []
              else if negb (N.eqb (run_verdict r0) (outcome_verdict m1)) then
                v_mismatch "verdict" [SZ (Z.of_N (outcome_verdict m1)); SZ (Z.of_N (run_verdict r0))]
              else if stable && negb (forallb (fun r => pos_list_eqb (run_locs r) (run_locs r0)) runs) then
                v_oracle_fail "locations-vary-between-runs" []
              else
                v_ok ((if N.eqb (run_verdict r0) 0 then ["accept"] else ["reject"])
                      ++ (if stable then [] else ["order-sensitive-locations"]))
          | _, _, _, _, _ => v_bad "decode"
          end
      | _, _, _, _, _ => v_bad "fields"
      end
      end
  end.
