(** * Vld/ProofsSecondaryMerge.v — secondary_never_alone for addFieldSelections and the
    overlapping-fields pass: when every spread written in the document has a target, every selection
    set has a parent type and every field selection a definition, these report primary errors only
    (apart from the depth error, which ProofsDepthRule excludes separately). *)
From Coq Require Import List NArith Arith Bool Lia.
From ApiFu Require Import Base.Sexp Vld.Ast Vld.AstInd Vld.Inspect Vld.InspectProofs Vld.TypeInfoModel Vld.TypeInfoPure Vld.Enumerate
     Vld.ValidatorModel Vld.ValidSpec Vld.ProofsCommon Vld.ProofsCycles Vld.ProofsOrder Vld.ProofsTotal Vld.ProofsFields
     Vld.ProofsMemo Vld.ProofsDepth Vld.ProofsOperations Vld.ProofsSecondary Vld.ProofsDepthRule.
Import ListNotations.

Definition nosec (r : mres) : Prop := match r with MErr e => e_sec e = false \/ e_kind e = EDepth | _ => True end.

Lemma first_err_nosec {A} (f : A -> mres) l : (forall x, In x l -> nosec (f x)) -> nosec (first_err f l).
Proof.
  induction l as [|x l IH]; intros H; [exact I |]. simpl.
  pose proof (H x (or_introl eq_refl)) as Hx. destruct (f x); try exact Hx; try exact I.
  apply IH. intros y Hy. apply H. right. exact Hy.
Qed.
Lemma pairs_first_nosec {A} (f : A -> A -> mres) l :
  (forall x y, In x l -> In y l -> nosec (f x y)) -> nosec (pairs_first f l).
Proof.
  induction l as [|x l IH]; intros H; [exact I |]. simpl.
  assert (nosec (first_err (f x) l)) as Hx by (apply first_err_nosec; intros y Hy; apply H; [left; reflexivity | right; exact Hy]).
  destruct (first_err (f x) l); try exact Hx; try exact I.
  apply IH. intros y z Hy Hz. apply H; right; assumption.
Qed.

Definition sfine (s : selection) : Prop :=
  match s with SField fa _ n _ _ _ _ => name_eqb n n_typename = true \/ fa <> None | _ => False end.
Definition ffine (s : selection) : Prop := match s with SField _ _ _ _ _ _ _ => sfine s | _ => True end.

Definition tame (r : mres) : Prop := match r with MErr e => e_sec e = false | _ => True end.

Lemma first_err_m_tame {X} (f : X -> memo -> mres * memo) l :
  (forall x mm, In x l -> tame (fst (f x mm))) -> forall mm, tame (fst (first_err_m f l mm)).
Proof.
  induction l as [|x l IH]; intros H mm; [exact I |]. cbn [first_err_m].
  pose proof (H x mm (or_introl eq_refl)) as Hx. destruct (f x mm) as [[| e | s0 |] mm']; cbn [fst] in *; try exact Hx; try exact I.
  apply IH. intros y mm0 Hy. apply H. right. exact Hy.
Qed.
Lemma pairs_first_m_tame {X} (f : X -> X -> memo -> mres * memo) l :
  (forall x y mm, In x l -> In y l -> tame (fst (f x y mm))) -> forall mm, tame (fst (pairs_first_m f l mm)).
Proof.
  induction l as [|x l IH]; intros H mm; [exact I |]. cbn [pairs_first_m].
  assert (tame (fst (first_err_m (f x) l mm))) as Hx by (apply first_err_m_tame; intros y mm0 Hy; apply H; [left; reflexivity | right; exact Hy]).
  destruct (first_err_m (f x) l mm) as [[| e | s0 |] mm']; cbn [fst] in *; try exact Hx; try exact I.
  apply IH. intros y z mm0 Hy Hz. apply H; right; assumption.
Qed.

Section Merge.
  Variable pi : order.
  Hypothesis Hpi : order_ok pi.
  Variable S : schema.
  Variable A : document.
  Hypothesis spreads_defined : forall a sels p n np dirs e,
      In (SelSet a sels p) (all_subs A) -> In (SSpread n np dirs e) sels -> frag_last A n <> None.
  Hypothesis sets_fine : forall a sels p fa al n np args dirs sub,
      In (SelSet a sels p) (all_subs A) -> In (SField fa al n np args dirs sub) sels ->
      a <> None /\ (name_eqb n n_typename = true \/ fa <> None).

  (** what is known of a collected field *)
  Definition P (x : fp) : Prop := snd (fst x) <> None /\ sfine (fst3 x) /\ field_ok A (fst3 x).
  Definition fmP (m : fmap) : Prop := forall k l x, In (k, l) m -> In x l -> P x.

  Lemma fmap_add_P k x m : fmP m -> P x -> fmP (fmap_add k x m).
  Proof.
    intros Hm Hx. induction m as [|[k' l] r IH]; simpl.
    - intros k0 l0 y [H | []] Hy. injection H as <- <-. destruct Hy as [<- | []]. exact Hx.
    - destruct (name_eqb k k').
      + intros k0 l0 y [H | H] Hy.
        * injection H as <- <-. apply in_app_or in Hy as [Hy | [<- | []]]; [apply (Hm k' l y); [left; reflexivity | exact Hy] | exact Hx].
        * apply (Hm k0 l0 y); [right; exact H | exact Hy].
      + intros k0 l0 y [H | H] Hy.
        * injection H as <- <-. apply (Hm k' l y); [left; reflexivity | exact Hy].
        * apply IH with (k := k0) (l := l0); [| exact H | exact Hy]. intros k1 l1 z Hz Hz'. apply (Hm k1 l1 z); [right; exact Hz | exact Hz'].
  Qed.

  Definition cres_fine (r : cres) : Prop := match r with COk m' _ => fmP m' | CErr _ => False | CFuel => True end.

  Lemma collect_fine fuel : forall m visited ss, In ss (all_subs A) -> fmP m -> cres_fine (collect repaired A fuel m visited ss).
  Proof.
    induction fuel as [|fuel IH]; intros m visited ss Hss Hm; rewrite collect_unfold; [exact I |].
    destruct ss as [a sels p]. destruct (pmem p visited); [exact Hm |].
    assert (forall l m0 v, (forall s, In s l -> In s sels) -> fmP m0 -> cres_fine (collect_go A (collect repaired A fuel) a p l m0 v)) as Hgo.
    { induction l as [|s r IHl]; intros m0 v Hl Hm0; [exact Hm0 |]. cbn [collect_go].
      assert (forall s', In s' r -> In s' sels) as Hr by (intros s' Hs'; apply Hl; right; exact Hs').
      assert (In s sels) as Hs by (apply Hl; left; reflexivity).
      assert (forall sub, In sub (all_subs A) ->
                          cres_fine match collect repaired A fuel m0 v sub with
                                    | COk m' v' => collect_go A (collect repaired A fuel) a p r m' v'
                                    | CErr e => CErr e
                                    | CFuel => CFuel
                                    end) as Hrec.
      { intros sub Hin. pose proof (IH m0 v sub Hin Hm0) as Hc. destruct (collect repaired A fuel m0 v sub) as [m' v' | e0 |]; [apply (IHl m' v' Hr Hc) | exact Hc | exact I]. }
      destruct s as [a0 al n np args dirs sub | n np dirs e | cond dirs sub e].
      - destruct (sets_fine a sels p a0 al n np args dirs sub Hss Hs) as [Ha Hf].
        apply (IHl _ _ Hr). apply fmap_add_P; [exact Hm0 |]. split; [exact Ha |]. split; [exact Hf |].
        intros ss Hsub. cbn in Hsub. apply (subs_closed A a sels p _ ss Hss Hs). exact Hsub.
      - destruct (frag_last A n) as [d|] eqn:Ed; [| exfalso; apply (spreads_defined a sels p n np dirs e Hss Hs Ed)].
        pose proof (Hrec (def_sub d) (frag_sub_in A n d Ed)) as H.
        destruct (collect repaired A fuel m0 v (def_sub d)); exact H.
      - pose proof (Hrec sub (subs_closed A a sels p _ sub Hss Hs eq_refl)) as H.
        destruct (collect repaired A fuel m0 v sub); exact H. }
    apply (Hgo sels m (p :: visited) (fun s H => H) Hm).
  Qed.

  Lemma add_selections_fine m sub :
    (forall ss, sub = Some ss -> In ss (all_subs A)) -> fmP m -> cres_fine (add_selections repaired A m sub).
  Proof. intros Hsub Hm. unfold add_selections. destruct sub as [ss|]; [apply collect_fine; [apply Hsub; reflexivity | exact Hm] | exact Hm]. Qed.

  Lemma fmP_nil : fmP [].
  Proof. intros k l x []. Qed.

  Lemma shape_type_fine Z : sfine Z -> exists t, shape_type Z = inl t.
  Proof.
    intros HZ. unfold shape_type. destruct (name_eqb (sel_name Z) n_typename) eqn:En; [eexists; reflexivity |].
    destruct Z as [fa al n np args dirs sub | |]; cbn [sel_name sel_fann sfine] in *; try destruct HZ.
    - congruence.
    - destruct fa; [eexists; reflexivity | congruence].
  Qed.

  Lemma merged_fine X Y m1 v1 m2 v2 :
    field_ok A X -> field_ok A Y ->
    add_selections repaired A [] (sel_sub X) = COk m1 v1 -> add_selections repaired A m1 (sel_sub Y) = COk m2 v2 -> fmP m2.
  Proof.
    intros HX HY E1 E2. pose proof (add_selections_fine [] (sel_sub X) HX fmP_nil) as H1. rewrite E1 in H1.
    pose proof (add_selections_fine m1 (sel_sub Y) HY H1) as H2. rewrite E2 in H2. exact H2.
  Qed.

  Lemma same_shape_nosec d : forall X Y, sfine X -> field_ok A X -> sfine Y -> field_ok A Y -> nosec (same_shape repaired pi S A d X Y).
  Proof.
    induction d as [|d IH]; intros X Y HX HXo HY HYo; cbn [same_shape]; [right; reflexivity |].
    destruct (shape_type_fine X HX) as [tA ->]. destruct (shape_type_fine Y HY) as [tB ->].
    destruct (shape_loop tA tB) as [[a b] | k]; [| left; reflexivity].
    destruct (is_leaf_sty S a || is_leaf_sty S b); [destruct (sty_eqb a b); [exact I | left; reflexivity] |].
    pose proof (add_selections_fine [] (sel_sub X) HXo fmP_nil) as H1.
    destruct (add_selections repaired A [] (sel_sub X)) as [m1 v1 | e |] eqn:E1; [| destruct H1 | exact I].
    pose proof (add_selections_fine m1 (sel_sub Y) HYo H1) as H2.
    destruct (add_selections repaired A m1 (sel_sub Y)) as [m2 v2 | e |] eqn:E2; [| destruct H2 | exact I].
    apply first_err_nosec. intros [k l] Hg. apply (proj1 (order_in pi Hpi _ _)) in Hg. cbn [snd].
    apply pairs_first_nosec. intros x y Hx Hy.
    destruct (H2 k l x Hg Hx) as [_ [Fx Ox]]. destruct (H2 k l y Hg Hy) as [_ [Fy Oy]]. apply IH; assumption.
  Qed.

  Lemma args_check_nosec X Y : nosec (args_check repaired X Y).
  Proof.
    unfold args_check. destruct (negb _); [left; reflexivity |]. apply first_err_nosec. intros argB _.
    destruct (arg_last (a_name argB) (sel_args X)); [destruct (values_identical _ _); [exact I | left; reflexivity] | left; reflexivity].
  Qed.

  Lemma can_merge_nosec d : forall m, fmP m -> nosec (can_merge repaired pi S A d m).
  Proof.
    induction d as [|d IH]; intros m Hm; cbn [can_merge];
      (apply first_err_nosec; intros [k l] Hg; apply (proj1 (order_in pi Hpi _ _)) in Hg; cbn [snd];
       apply pairs_first_nosec; intros x y Hx Hy;
       destruct (Hm k l x Hg Hx) as [Ax [Fx Ox]]; destruct (Hm k l y Hg Hy) as [Ay [Fy Oy]]; unfold pair_check).
    - cbn [same_shape]. right. reflexivity.
    - pose proof (same_shape_nosec (Datatypes.S d) (fst3 x) (fst3 y) Fx Ox Fy Oy) as Hs.
      destruct (same_shape repaired pi S A (Datatypes.S d) (fst3 x) (fst3 y)); try exact Hs; try exact I.
      destruct (snd (fst x)); [| congruence]. destruct (snd (fst y)); [| congruence].
      destruct (name_eqb _ _ || _ || _); [| exact I].
      destruct (negb _); [left; reflexivity |].
      pose proof (args_check_nosec (fst3 x) (fst3 y)) as Ha.
      destruct (args_check repaired (fst3 x) (fst3 y)); try exact Ha; try exact I.
      pose proof (add_selections_fine [] (sel_sub (fst3 x)) Ox fmP_nil) as H1.
      destruct (add_selections repaired A [] (sel_sub (fst3 x))) as [m1 v1 | e |]; [| destruct H1 | exact I].
      pose proof (add_selections_fine m1 (sel_sub (fst3 y)) Oy H1) as H2.
      destruct (add_selections repaired A m1 (sel_sub (fst3 y))) as [m2 v2 | e |]; [| destruct H2 | exact I].
      apply IH. exact H2.
  Qed.

  (** ** the two rule groups that call addFieldSelections *)
  Lemma ops_step_primary acc d :
    In d A -> all_primary (r_errs (snd acc)) -> all_primary (r_errs (snd (ops_step repaired A acc d))).
  Proof.
    intros Hd. destruct acc as [[anon seen] st]. destruct d as [ot n vars dirs sub | kw n np cond dirs sub]; [| exact (fun H => H)].
    intros H. cbn [ops_step snd] in *.
    destruct (match n with None => (Datatypes.S anon, seen, st) | Some (nm, p) => if mem nm seen then (anon, seen, add_errs st [err EOpDupName p]) else (anon, nm :: seen, st) end)
      as [[anon1 seen1] st1] eqn:E1.
    assert (all_primary (r_errs st1)) as H1.
    { destruct n as [[nm p]|]; [destruct (mem nm seen) |]; inversion E1; subst; try exact H.
      cbn [r_errs add_errs]. apply all_primary_app; [exact H | intros e [<- | []]; reflexivity]. }
    cbn [snd].
    assert (all_primary (r_errs (match ss_ann sub with None => add_errs st1 [err EOpUnsupported (def_pos (DOp ot n vars dirs sub))] | Some _ => st1 end))) as H2.
    { destruct (ss_ann sub); [exact H1 |]. cbn [r_errs add_errs]. apply all_primary_app; [exact H1 | intros e [<- | []]; reflexivity]. }
    destruct (is_subscription ot); [| exact H2].
    assert (In sub (all_subs A)) as Hsub by (unfold all_subs; apply in_flat_map; exists (DOp ot n vars dirs sub); split; [exact Hd | apply subs_self]).
    pose proof (add_selections_fine [] (Some sub) (fun ss E => ltac:(inversion E; subst; exact Hsub)) fmP_nil) as Hc.
    destruct (add_selections repaired A [] (Some sub)) as [m v | e0 |]; [| destruct Hc | exact H2].
    destruct (Nat.eqb (length m) 1); [exact H2 |]. cbn [r_errs add_errs]. apply all_primary_app; [exact H2 | intros e [<- | []]; reflexivity].
  Qed.

  Theorem rule_operations_primary errs : rule_operations repaired A = Done errs -> all_primary errs.
  Proof.
    unfold rule_operations. intros H.
    assert (forall l acc, incl l A -> all_primary (r_errs (snd acc)) -> all_primary (r_errs (snd (fold_left (ops_step repaired A) l acc)))) as Hfold.
    { induction l as [|d l IH]; intros acc Hl Hacc; [exact Hacc |]. cbn [fold_left]. apply IH; [intros x Hx; apply Hl; right; exact Hx |].
      apply ops_step_primary; [apply Hl; left; reflexivity | exact Hacc]. }
    specialize (Hfold A (O, [], rst0) (incl_refl A) (fun e H => match H with end)).
    destruct (fold_left (ops_step repaired A) A (O, [], rst0)) as [[anon seen] st]. cbn [snd] in Hfold.
    apply finish_done_inv in H. rewrite <- H. destruct (Nat.ltb 0 anon); [| exact Hfold].
    destruct (filter is_op A) as [|d1 [|d2 r]]; [exact Hfold | exact Hfold |]. cbn [r_errs add_errs]. apply all_primary_app; [exact Hfold | intros e [<- | []]; reflexivity].
  Qed.

  Definition mild (st : rst) : Prop := forall e, In e (r_errs st) -> e_sec e = false \/ e_kind e = EDepth.

  Theorem merge_pass_mild st :
    mild st -> mild (inspect (merge_enter repaired pi S A) (fun s => s) (tree_doc A) st).
  Proof.
    apply (inspect_inv mild). intros n Hn st0 Hst. unfold merge_enter. destruct n; try exact Hst.
    pose proof (add_selections_fine [] (Some s) (fun ss E => ltac:(inversion E; subst; apply (selset_nodes_doc A _ Hn))) fmP_nil) as Hc.
    destruct (add_selections repaired A [] (Some s)) as [m v | e0 |]; [| destruct Hc | exact Hst].
    pose proof (can_merge_nosec (max_depth A) m Hc) as Hk.
    destruct (can_merge repaired pi S A (max_depth A) m) as [| e1 | s1 |]; try exact Hst.
    intros e He. cbn [fst r_errs add_errs] in He. apply in_app_or in He as [He | [<- | []]]; [apply Hst; exact He | exact Hk].
  Qed.

  (** ** the same for the pass with the checked-pairs memo *)
  Lemma args_check_tame X Y : tame (args_check repaired X Y).
  Proof.
    unfold args_check. destruct (negb _); [reflexivity |].
    assert (forall l, tame (first_err (fun argB => match arg_last (a_name argB) (sel_args X) with
                                                    | None => MErr (err2 EMergeArgs (sel_pos X) (sel_pos Y))
                                                    | Some argA => if values_identical (a_value argA) (a_value argB) then MOk else MErr (err2 EMergeArgs (a_pos argA) (a_pos argB))
                                                    end) l)) as H.
    { induction l as [|b l IH]; [exact I |]. cbn [first_err]. destruct (arg_last (a_name b) (sel_args X)); [| reflexivity].
      destruct (values_identical _ _); [exact IH | reflexivity]. }
    apply H.
  Qed.

  Lemma same_shape_m_tame d : forall X Y mm,
    sfine X -> field_ok A X -> sfine Y -> field_ok A Y -> Hle A d X -> Hle A d Y ->
    tame (fst (same_shape_m repaired pi S A d X Y mm)).
  Proof.
    induction d as [|d IH]; intros X Y mm HX HXo HY HYo LX LY; [destruct LX |]. cbn [same_shape_m].
    destruct (already (snd mm) X Y) as [seen ss']. destruct seen; [exact I |].
    destruct (shape_type_fine X HX) as [tA ->]. destruct (shape_type_fine Y HY) as [tB ->].
    destruct (shape_loop tA tB) as [[a b] | k]; [| reflexivity].
    destruct (is_leaf_sty S a || is_leaf_sty S b); [destruct (sty_eqb a b); [exact I | reflexivity] |].
    pose proof (add_selections_fine [] (sel_sub X) HXo fmP_nil) as H1.
    destruct (add_selections repaired A [] (sel_sub X)) as [m1 v1 | e |] eqn:E1; [| destruct H1 | exact I].
    pose proof (add_selections_fine m1 (sel_sub Y) HYo H1) as H2.
    destruct (add_selections repaired A m1 (sel_sub Y)) as [m2 v2 | e |] eqn:E2; [| destruct H2 | exact I].
    apply first_err_m_tame. intros [k l] mm0 Hg. apply (proj1 (order_in pi Hpi _ _)) in Hg. cbn [snd].
    apply pairs_first_m_tame. intros x y mm1 Hx Hy.
    destruct (H2 k l x Hg Hx) as [_ [Fx Ox]]. destruct (H2 k l y Hg Hy) as [_ [Fy Oy]].
    apply IH; try assumption; apply (merged_Hle repaired A d X Y m1 v1 m2 v2 LX LY E1 E2 k l); assumption.
  Qed.

  Lemma can_merge_m_tame d : forall m mm, fmP m -> fm_Hle A d m -> tame (fst (can_merge_m repaired pi S A d m mm)).
  Proof.
    induction d as [|d IH]; intros m mm Hm Lm; cbn [can_merge_m];
      (apply first_err_m_tame; intros [k l] mm0 Hg; apply (proj1 (order_in pi Hpi _ _)) in Hg; cbn [snd];
       apply pairs_first_m_tame; intros x y mm1 Hx Hy;
       destruct (Hm k l x Hg Hx) as [Ax [Fx Ox]]; destruct (Hm k l y Hg Hy) as [Ay [Fy Oy]];
       pose proof (Lm k l x Hg Hx) as LX; pose proof (Lm k l y Hg Hy) as LY).
    - destruct LX.
    - unfold pair_check_m. destruct (already (fst mm1) (fst3 x) (fst3 y)) as [seen cm']. destruct seen; [exact I |].
      pose proof (same_shape_m_tame (Datatypes.S d) (fst3 x) (fst3 y) (cm', snd mm1) Fx Ox Fy Oy LX LY) as Hs.
      destruct (same_shape_m repaired pi S A (Datatypes.S d) (fst3 x) (fst3 y) (cm', snd mm1)) as [[| e | s0 |] mm2]; cbn [fst] in *; try exact Hs; try exact I.
      destruct (snd (fst x)); [| congruence]. destruct (snd (fst y)); [| congruence].
      destruct (name_eqb _ _ || _ || _); [| exact I].
      destruct (negb _); [reflexivity |].
      pose proof (args_check_tame (fst3 x) (fst3 y)) as Ha.
      destruct (args_check repaired (fst3 x) (fst3 y)); cbn [fst]; try exact Ha; try exact I.
      pose proof (add_selections_fine [] (sel_sub (fst3 x)) Ox fmP_nil) as H1.
      destruct (add_selections repaired A [] (sel_sub (fst3 x))) as [m1 v1 | e |] eqn:E1; [| destruct H1 | exact I].
      pose proof (add_selections_fine m1 (sel_sub (fst3 y)) Oy H1) as H2.
      destruct (add_selections repaired A m1 (sel_sub (fst3 y))) as [m2 v2 | e |] eqn:E2; [| destruct H2 | exact I].
      apply IH; [exact H2 |]. intros k' l' z Hk' Hz. apply (merged_Hle repaired A d (fst3 x) (fst3 y) m1 v1 m2 v2 LX LY E1 E2 k' l' z Hk' Hz).
  Qed.

  Hypothesis names_unique : NoDup (frag_names A).
  Hypothesis acyclic : forall n, In n (frag_names A) -> ~ exists x, reach A n x /\ edge A x n.

  Theorem merge_pass_m_primary st :
    all_primary (r_errs (fst st)) -> all_primary (r_errs (fst (inspect (merge_enter_m repaired pi S A) (fun s => s) (tree_doc A) st))).
  Proof.
    apply (inspect_inv (fun st : rst * memo => all_primary (r_errs (fst st)))). intros n Hn st0 Hst. unfold merge_enter_m. destruct n; try exact Hst.
    pose proof (selset_nodes_doc A _ Hn) as Hss.
    pose proof (add_selections_fine [] (Some s) (fun ss E => ltac:(inversion E; subst; exact Hss)) fmP_nil) as Hc.
    destruct (add_selections repaired A [] (Some s)) as [m v | e0 |] eqn:Ec; [| destruct Hc | exact Hst].
    pose proof (can_merge_m_tame (max_depth A) m (snd st0) Hc (collected_Hle A names_unique acyclic s m v Hss Ec)) as Hk.
    destruct (can_merge_m repaired pi S A (max_depth A) m (snd st0)) as [[| e1 | s1 |] mm]; cbn [fst] in *; try exact Hst.
    cbn [r_errs add_errs]. apply all_primary_app; [exact Hst | intros e [<- | []]; exact Hk].
  Qed.
End Merge.
