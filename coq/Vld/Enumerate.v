(** * Vld/Enumerate.v — which nodes the traversal of a TypeInfo-annotated document meets:
    every selection with the scope TypeInfo had when it annotated it, and what hangs off it. *)
From Coq Require Import List NArith Bool.
From ApiFu Require Import Base.Sexp Vld.Ast Vld.AstInd Vld.Inspect Vld.InspectProofs Vld.TypeInfoModel Vld.TypeInfoPure.
Import ListNotations.

Section Enum.
  Variable qo : bool.
  Variable S : schema.
  Variable F : features.

  Notation pti_sel := (pti_sel qo S F).
  Notation pti_ss := (pti_ss qo S F).
  Notation field_scope := (field_scope S F).
  Notation inline_scope := (inline_scope S F).

  (** every selection beneath a selection set, with the scope on top of TypeInfo's stack when the
      selection is visited *)
  Fixpoint ssels_sel (top : scope) (s : selection) : list (scope * selection) :=
    (top, s) ::
    match s with
    | SField _ _ n _ _ _ (Some ss) => ssels_ss (field_scope top n) ss
    | SField _ _ _ _ _ _ None => []
    | SSpread _ _ _ _ => []
    | SInline cond _ ss _ => ssels_ss (inline_scope top cond) ss
    end
  with ssels_ss (top : scope) (ss : selset) : list (scope * selection) :=
    match ss with SelSet _ sels _ => flat_map (ssels_sel top) sels end.

  (** every selection set, with its scope *)
  Fixpoint ssets_sel (top : scope) (s : selection) : list (scope * selset) :=
    match s with
    | SField _ _ n _ _ _ (Some ss) => ssets_ss (field_scope top n) ss
    | SField _ _ _ _ _ _ None => []
    | SSpread _ _ _ _ => []
    | SInline cond _ ss _ => ssets_ss (inline_scope top cond) ss
    end
  with ssets_ss (top : scope) (ss : selset) : list (scope * selset) :=
    (top, ss) :: match ss with SelSet _ sels _ => flat_map (ssets_sel top) sels end.

  Lemma ssels_ss_eq top a sels p : ssels_ss top (SelSet a sels p) = flat_map (ssels_sel top) sels.
  Proof. reflexivity. Qed.
  Lemma ssets_ss_eq top a sels p :
    ssets_ss top (SelSet a sels p) = (top, SelSet a sels p) :: flat_map (ssets_sel top) sels.
  Proof. reflexivity. Qed.

  (** ** nodes of the pieces that contain no selection *)
  (** the nodes that carry structure: documents, definitions, selections, selection sets *)
  Definition is_sel_node (n : node) : bool := match n with NSel _ | NSelSet _ | NDoc _ | NDef _ => true | _ => false end.

  Lemma tree_value_no_sel v n : In n (tree_nodes (tree_value v)) -> is_sel_node n = false.
  Proof.
    revert n. induction v using value_ind'; intros m; simpl;
      try (intros [<- | []]; reflexivity);
      try (intros [<- | [<- | []]]; reflexivity).
    - intros [<- | Hm]; [reflexivity |].
      apply in_flat_map in Hm as [t [Ht Hm]]. apply in_map_iff in Ht as [x [<- Hx]].
      rewrite Forall_forall in H. eapply H; eassumption.
    - intros [<- | Hm]; [reflexivity |].
      apply in_flat_map in Hm as [t [Ht Hm]]. apply in_map_iff in Ht as [[[fn fp] x] [<- Hx]].
      simpl in Hm. destruct Hm as [<- | [<- | Hm]]; try reflexivity.
      rewrite app_nil_r in Hm. rewrite Forall_forall in H. apply (H _ Hx). exact Hm.
  Qed.

  Lemma tree_arg_no_sel a n : In n (tree_nodes (tree_arg a)) -> is_sel_node n = false.
  Proof.
    simpl. intros [<- | [<- | Hm]]; try reflexivity.
    rewrite app_nil_r in Hm. eapply tree_value_no_sel; eassumption.
  Qed.

  Lemma tree_dir_no_sel d n : In n (tree_nodes (tree_dir d)) -> is_sel_node n = false.
  Proof.
    simpl. intros [<- | [<- | Hm]]; try reflexivity.
    apply in_flat_map in Hm as [t [Ht Hm]]. apply in_map_iff in Ht as [a [<- Ha]].
    eapply tree_arg_no_sel; eassumption.
  Qed.

  (** ** unfolding the tree of a selection *)
  Lemma tree_sel_field_eq a al n np args dirs sub :
    tree_sel (SField a al n np args dirs sub) =
    T (NSel (SField a al n np args dirs sub))
      (opt_tree name_tree al ++ [name_tree (n, np)] ++ map tree_arg args ++ map tree_dir dirs ++ opt_tree tree_ss sub).
  Proof. reflexivity. Qed.
  Lemma tree_sel_spread_eq n np dirs e :
    tree_sel (SSpread n np dirs e) = T (NSel (SSpread n np dirs e)) (name_tree (n, np) :: map tree_dir dirs).
  Proof. reflexivity. Qed.
  Lemma tree_sel_inline_eq cond dirs sub e :
    tree_sel (SInline cond dirs sub e) =
    T (NSel (SInline cond dirs sub e)) (opt_tree tree_named_type cond ++ map tree_dir dirs ++ [tree_ss sub]).
  Proof. reflexivity. Qed.
  Lemma tree_ss_eq a sels p : tree_ss (SelSet a sels p) = T (NSelSet (SelSet a sels p)) (map tree_sel sels).
  Proof. reflexivity. Qed.

  Lemma pti_sel_field_eq top a al n np args dirs sub :
    pti_sel top (SField a al n np args dirs sub) =
    SField (field_of_scope S F top n) al n np (field_args qo S F top n args) (map (ti_dir qo S) dirs)
           (match sub with Some ss => Some (pti_ss (field_scope top n) ss) | None => None end).
  Proof. reflexivity. Qed.
  Lemma pti_sel_inline_eq top cond dirs sub e :
    pti_sel top (SInline cond dirs sub e) = SInline cond (map (ti_dir qo S) dirs) (pti_ss (inline_scope top cond) sub) e.
  Proof. reflexivity. Qed.

  Lemma in_flat_map_nodes {A} (f : A -> tree) (l : list A) n :
    In n (flat_map tree_nodes (map f l)) <-> exists x, In x l /\ In n (tree_nodes (f x)).
  Proof.
    rewrite in_flat_map. split.
    - intros [t [Ht Hn]]. apply in_map_iff in Ht as [x [<- Hx]]. eauto.
    - intros [x [Hx Hn]]. exists (f x). split; [apply in_map; assumption | assumption].
  Qed.

  Lemma no_sel_alias (al : option (name * pos)) n : In n (flat_map tree_nodes (opt_tree name_tree al)) -> is_sel_node n = false.
  Proof. destruct al as [[an ap]|]; simpl; [intros [<- | []]; reflexivity | intros []]. Qed.
  Lemma no_sel_cond (c : option (name * pos)) n : In n (flat_map tree_nodes (opt_tree tree_named_type c)) -> is_sel_node n = false.
  Proof. destruct c as [[an ap]|]; simpl; [intros [<- | [<- | []]]; reflexivity | intros []]. Qed.
  Lemma no_sel_args (args : list argument) n : In n (flat_map tree_nodes (map tree_arg args)) -> is_sel_node n = false.
  Proof. intros H. apply in_flat_map_nodes in H as [a [_ H]]. eapply tree_arg_no_sel; eassumption. Qed.
  Lemma no_sel_dirs (dirs : list directive) n : In n (flat_map tree_nodes (map tree_dir dirs)) -> is_sel_node n = false.
  Proof. intros H. apply in_flat_map_nodes in H as [a [_ H]]. eapply tree_dir_no_sel; eassumption. Qed.

  (** the nodes of an annotated field / spread / inline fragment, by part *)
  Lemma field_nodes a al n np args dirs sub m :
    In m (tree_nodes (tree_sel (SField a al n np args dirs sub))) <->
    m = NSel (SField a al n np args dirs sub) \/
    In m (flat_map tree_nodes (opt_tree name_tree al)) \/ m = NName n np \/
    In m (flat_map tree_nodes (map tree_arg args)) \/ In m (flat_map tree_nodes (map tree_dir dirs)) \/
    (exists ss, sub = Some ss /\ In m (tree_nodes (tree_ss ss))).
  Proof.
    rewrite tree_sel_field_eq. cbn [tree_nodes In]. rewrite !flat_map_app, !in_app_iff. simpl.
    split.
    - intros [H | [H | [[H | []] | [H | [H | H]]]]]; auto 10.
      destruct sub as [ss|]; simpl in H; [| destruct H]. rewrite app_nil_r in H. right; right; right; right; right. eauto.
    - intros [H | [H | [H | [H | [H | [ss [-> H]]]]]]]; auto 10.
      right; right; right; right; right. simpl. rewrite app_nil_r. exact H.
  Qed.
  Lemma spread_nodes n np dirs e m :
    In m (tree_nodes (tree_sel (SSpread n np dirs e))) <->
    m = NSel (SSpread n np dirs e) \/ m = NName n np \/ In m (flat_map tree_nodes (map tree_dir dirs)).
  Proof. rewrite tree_sel_spread_eq. cbn [tree_nodes flat_map name_tree]. simpl. intuition. Qed.
  Lemma inline_nodes cond dirs sub e m :
    In m (tree_nodes (tree_sel (SInline cond dirs sub e))) <->
    m = NSel (SInline cond dirs sub e) \/
    In m (flat_map tree_nodes (opt_tree tree_named_type cond)) \/
    In m (flat_map tree_nodes (map tree_dir dirs)) \/ In m (tree_nodes (tree_ss sub)).
  Proof.
    rewrite tree_sel_inline_eq. cbn [tree_nodes In]. rewrite !flat_map_app, !in_app_iff. simpl. rewrite app_nil_r.
    intuition.
  Qed.
  Lemma ss_nodes a sels p m :
    In m (tree_nodes (tree_ss (SelSet a sels p))) <->
    m = NSelSet (SelSet a sels p) \/ exists s, In s sels /\ In m (tree_nodes (tree_sel s)).
  Proof.
    rewrite tree_ss_eq. cbn [tree_nodes In]. rewrite in_flat_map_nodes. intuition.
  Qed.

  (** ** the selection nodes of an annotated selection set *)
  Lemma sel_nodes :
    (forall s top x, In (NSel x) (tree_nodes (tree_sel (pti_sel top s))) <->
                     exists sc s0, In (sc, s0) (ssels_sel top s) /\ x = pti_sel sc s0) /\
    (forall ss top x, In (NSel x) (tree_nodes (tree_ss (pti_ss top ss))) <->
                      exists sc s0, In (sc, s0) (ssels_ss top ss) /\ x = pti_sel sc s0).
  Proof.
    apply sel_ss_ind.
    - (* field *)
      intros a al n np args dirs sub IH top x.
      rewrite pti_sel_field_eq, field_nodes. split.
      + intros [Hx | [Hx | [Hx | [Hx | [Hx | [ss' [Hs Hx]]]]]]].
        * inversion Hx; subst x. exists top, (SField a al n np args dirs sub). split; [left; reflexivity |].
          symmetry. apply pti_sel_field_eq.
        * apply no_sel_alias in Hx. discriminate.
        * discriminate.
        * apply no_sel_args in Hx. discriminate.
        * apply no_sel_dirs in Hx. discriminate.
        * destruct sub as [ss|]; [| discriminate]. inversion Hs; subst ss'.
          apply (IH ss eq_refl) in Hx as [sc [s0 [Hin ->]]].
          exists sc, s0. split; [right; exact Hin | reflexivity].
      + intros [sc [s0 [[Heq | Hin] ->]]].
        * inversion Heq; subst sc s0. left. reflexivity.
        * do 5 right. destruct sub as [ss|]; [| destruct Hin].
          eexists. split; [reflexivity |]. apply (IH ss eq_refl). exists sc, s0. split; [exact Hin | reflexivity].
    - (* spread *)
      intros n np dirs e top x. change (pti_sel top (SSpread n np dirs e)) with (SSpread n np (map (ti_dir qo S) dirs) e).
      rewrite spread_nodes. split.
      + intros [Hx | [Hx | Hx]]; try discriminate.
        * inversion Hx; subst x. exists top, (SSpread n np dirs e). split; [left; reflexivity | reflexivity].
        * apply no_sel_dirs in Hx. discriminate.
      + intros [sc [s0 [[Heq | []] ->]]]. inversion Heq; subst. left. reflexivity.
    - (* inline *)
      intros cond dirs sub e IH top x.
      rewrite pti_sel_inline_eq, inline_nodes. split.
      + intros [Hx | [Hx | [Hx | Hx]]].
        * inversion Hx; subst x. exists top, (SInline cond dirs sub e). split; [left; reflexivity | apply eq_sym, pti_sel_inline_eq].
        * apply no_sel_cond in Hx. discriminate.
        * apply no_sel_dirs in Hx. discriminate.
        * apply IH in Hx as [sc [s0 [Hin ->]]]. exists sc, s0. split; [right; exact Hin | reflexivity].
      + intros [sc [s0 [[Heq | Hin] ->]]].
        * inversion Heq; subst sc s0. left. reflexivity.
        * do 3 right. apply IH. exists sc, s0. split; [exact Hin | reflexivity].
    - (* selection set *)
      intros a sels p IH top x. rewrite pti_ss_eq, ss_nodes, ssels_ss_eq. split.
      + intros [Hx | [s' [Hs' Hx]]]; [discriminate |].
        apply in_map_iff in Hs' as [s [<- Hs]].
        rewrite Forall_forall in IH. apply (IH s Hs) in Hx as [sc [s0 [Hin ->]]].
        exists sc, s0. split; [| reflexivity]. apply in_flat_map. exists s. split; assumption.
      + intros [sc [s0 [Hin ->]]]. right. apply in_flat_map in Hin as [s [Hs Hin]].
        exists (pti_sel top s). split; [apply in_map; assumption |].
        rewrite Forall_forall in IH. apply (IH s Hs). exists sc, s0. split; [assumption | reflexivity].
  Qed.

  (** ** master characterisation: every node of an annotated selection set is a selection set with
      its scope, or belongs to a selection (with its scope) without being beneath its sub-selection *)
  Definition own_nodes (x : selection) : list node :=
    NSel x ::
    match x with
    | SField _ al n np args dirs _ =>
        flat_map tree_nodes (opt_tree name_tree al) ++ NName n np ::
        flat_map tree_nodes (map tree_arg args) ++ flat_map tree_nodes (map tree_dir dirs)
    | SSpread n np dirs _ => NName n np :: flat_map tree_nodes (map tree_dir dirs)
    | SInline cond dirs _ _ =>
        flat_map tree_nodes (opt_tree tree_named_type cond) ++ flat_map tree_nodes (map tree_dir dirs)
    end.

  Definition set_or_own (top : scope) (ss : selset) (m : node) : Prop :=
    (exists sc ss0, In (sc, ss0) (ssets_ss top ss) /\ m = NSelSet (pti_ss sc ss0)) \/
    (exists sc s0, In (sc, s0) (ssels_ss top ss) /\ In m (own_nodes (pti_sel sc s0))).
  Definition set_or_own_sel (top : scope) (s : selection) (m : node) : Prop :=
    (exists sc ss0, In (sc, ss0) (ssets_sel top s) /\ m = NSelSet (pti_ss sc ss0)) \/
    (exists sc s0, In (sc, s0) (ssels_sel top s) /\ In m (own_nodes (pti_sel sc s0))).

  Lemma all_nodes :
    (forall s top m, In m (tree_nodes (tree_sel (pti_sel top s))) <-> set_or_own_sel top s m) /\
    (forall ss top m, In m (tree_nodes (tree_ss (pti_ss top ss))) <-> set_or_own top ss m).
  Proof.
    apply sel_ss_ind.
    - (* field *)
      intros a al n np args dirs sub IH top m. unfold set_or_own_sel.
      rewrite pti_sel_field_eq, field_nodes. split.
      + intros [Hx | [Hx | [Hx | [Hx | [Hx | [ss' [Hs Hx]]]]]]].
        * right. exists top, (SField a al n np args dirs sub). split; [left; reflexivity |]. left. symmetry. exact Hx.
        * right. exists top, (SField a al n np args dirs sub). split; [left; reflexivity |].
          right. rewrite pti_sel_field_eq. apply in_or_app. left. exact Hx.
        * right. exists top, (SField a al n np args dirs sub). split; [left; reflexivity |].
          right. rewrite pti_sel_field_eq. apply in_or_app. right. left. symmetry. exact Hx.
        * right. exists top, (SField a al n np args dirs sub). split; [left; reflexivity |].
          right. rewrite pti_sel_field_eq. apply in_or_app. right. right. apply in_or_app. left. exact Hx.
        * right. exists top, (SField a al n np args dirs sub). split; [left; reflexivity |].
          right. rewrite pti_sel_field_eq. apply in_or_app. right. right. apply in_or_app. right. exact Hx.
        * destruct sub as [ss|]; [| discriminate]. inversion Hs; subst ss'.
          apply (IH ss eq_refl) in Hx as [[sc [ss0 [Hin ->]]] | [sc [s0 [Hin Hm]]]].
          -- left. exists sc, ss0. split; [exact Hin | reflexivity].
          -- right. exists sc, s0. split; [right; exact Hin | exact Hm].
      + intros [[sc [ss0 [Hin ->]]] | [sc [s0 [[Heq | Hin] Hm]]]].
        * destruct sub as [ss|]; [| destruct Hin]. do 5 right. eexists. split; [reflexivity |].
          apply (IH ss eq_refl). left. exists sc, ss0. split; [exact Hin | reflexivity].
        * inversion Heq; subst sc s0. rewrite pti_sel_field_eq in Hm. destruct Hm as [Hm | Hm]; [left; symmetry; exact Hm |].
          apply in_app_or in Hm as [Hm | Hm]; [right; left; exact Hm |].
          destruct Hm as [Hm | Hm]; [right; right; left; symmetry; exact Hm |].
          apply in_app_or in Hm as [Hm | Hm]; [right; right; right; left; exact Hm | right; right; right; right; left; exact Hm].
        * destruct sub as [ss|]; [| destruct Hin]. do 5 right. eexists. split; [reflexivity |].
          apply (IH ss eq_refl). right. exists sc, s0. split; [exact Hin | exact Hm].
    - (* spread *)
      intros n np dirs e top m. unfold set_or_own_sel.
      change (pti_sel top (SSpread n np dirs e)) with (SSpread n np (map (ti_dir qo S) dirs) e).
      rewrite spread_nodes. split.
      + intros H. right. exists top, (SSpread n np dirs e). split; [left; reflexivity |].
        change (pti_sel top (SSpread n np dirs e)) with (SSpread n np (map (ti_dir qo S) dirs) e).
        simpl. destruct H as [-> | [-> | H]]; auto.
      + intros [[sc [ss0 [[] _]]] | [sc [s0 [[Heq | []] Hm]]]]. inversion Heq; subst sc s0.
        change (pti_sel top (SSpread n np dirs e)) with (SSpread n np (map (ti_dir qo S) dirs) e) in Hm.
        simpl in Hm. destruct Hm as [<- | [<- | Hm]]; auto.
    - (* inline *)
      intros cond dirs sub e IH top m. unfold set_or_own_sel.
      rewrite pti_sel_inline_eq, inline_nodes. split.
      + intros [Hx | [Hx | [Hx | Hx]]].
        * right. exists top, (SInline cond dirs sub e). split; [left; reflexivity |]. left. symmetry. exact Hx.
        * right. exists top, (SInline cond dirs sub e). split; [left; reflexivity |].
          right. rewrite pti_sel_inline_eq. apply in_or_app. left. exact Hx.
        * right. exists top, (SInline cond dirs sub e). split; [left; reflexivity |].
          right. rewrite pti_sel_inline_eq. apply in_or_app. right. exact Hx.
        * apply IH in Hx as [[sc [ss0 [Hin ->]]] | [sc [s0 [Hin Hm]]]].
          -- left. exists sc, ss0. split; [exact Hin | reflexivity].
          -- right. exists sc, s0. split; [right; exact Hin | exact Hm].
      + intros [[sc [ss0 [Hin ->]]] | [sc [s0 [[Heq | Hin] Hm]]]].
        * do 3 right. apply IH. left. exists sc, ss0. split; [exact Hin | reflexivity].
        * inversion Heq; subst sc s0. rewrite pti_sel_inline_eq in Hm. destruct Hm as [Hm | Hm]; [left; symmetry; exact Hm |].
          apply in_app_or in Hm as [Hm | Hm]; [right; left; exact Hm | right; right; left; exact Hm].
        * do 3 right. apply IH. right. exists sc, s0. split; [exact Hin | exact Hm].
    - (* selection set *)
      intros a sels p IH top m. unfold set_or_own. rewrite pti_ss_eq, ss_nodes, ssels_ss_eq, ssets_ss_eq.
      rewrite Forall_forall in IH. split.
      + intros [Hx | [s' [Hs' Hx]]].
        * left. exists top, (SelSet a sels p). split; [left; reflexivity |]. rewrite pti_ss_eq. exact Hx.
        * apply in_map_iff in Hs' as [s [<- Hs]].
          apply (IH s Hs) in Hx as [[sc [ss0 [Hin ->]]] | [sc [s0 [Hin Hm]]]].
          -- left. exists sc, ss0. split; [| reflexivity]. right. apply in_flat_map. exists s. split; assumption.
          -- right. exists sc, s0. split; [| exact Hm]. apply in_flat_map. exists s. split; assumption.
      + intros [[sc [ss0 [[Heq | Hin] ->]]] | [sc [s0 [Hin Hm]]]].
        * inversion Heq; subst sc ss0. left. rewrite pti_ss_eq. reflexivity.
        * right. apply in_flat_map in Hin as [s [Hs Hin]]. exists (pti_sel top s). split; [apply in_map; assumption |].
          apply (IH s Hs). left. exists sc, ss0. split; [assumption | reflexivity].
        * right. apply in_flat_map in Hin as [s [Hs Hin]]. exists (pti_sel top s). split; [apply in_map; assumption |].
          apply (IH s Hs). right. exists sc, s0. split; assumption.
  Qed.

  Lemma tree_ty_no_sel t n : In n (tree_nodes (tree_ty t)) -> is_sel_node n = false.
  Proof.
    revert n. induction t as [tn p | t IH p | t IH]; intros m; simpl.
    - intros [<- | [<- | []]]; reflexivity.
    - rewrite app_nil_r. intros [<- | H]; [reflexivity | apply IH; exact H].
    - rewrite app_nil_r. intros [<- | H]; [reflexivity | apply IH; exact H].
  Qed.
  Lemma tree_vardef_no_sel v n : In n (tree_nodes (tree_vardef v)) -> is_sel_node n = false.
  Proof.
    unfold tree_vardef. cbn [tree_nodes In]. rewrite !flat_map_app, !in_app_iff. simpl. rewrite !app_nil_r.
    intros [<- | [[<- | [<- | H]] | H]]; try reflexivity.
    - eapply tree_ty_no_sel; eassumption.
    - destruct (vd_default v) as [x|]; simpl in H; [| destruct H]. rewrite app_nil_r in H.
      eapply tree_value_no_sel; eassumption.
  Qed.

  Lemma own_nodes_minor x m : In m (own_nodes x) -> m = NSel x \/ is_sel_node m = false.
  Proof.
    unfold own_nodes. intros [<- | H]; [left; reflexivity | right].
    destruct x as [a al n np args dirs sub | n np dirs e | cond dirs sub e].
    - apply in_app_or in H as [H | [<- | H]]; [eapply no_sel_alias; eassumption | reflexivity |].
      apply in_app_or in H as [H | H]; [eapply no_sel_args | eapply no_sel_dirs]; eassumption.
    - destruct H as [<- | H]; [reflexivity | eapply no_sel_dirs; eassumption].
    - apply in_app_or in H as [H | H]; [eapply no_sel_cond | eapply no_sel_dirs]; eassumption.
  Qed.

  (** ** documents *)
  Notation pti_def := (pti_def qo S F).
  Notation pti_doc := (pti_doc qo S F).

  Definition model_def_scope (d : definition) : scope :=
    match d with
    | DOp ot _ _ _ _ => op_scope S ot
    | DFrag _ _ _ cond _ _ => frag_scope S F cond
    end.

  (** the nodes of a definition that are not beneath its selection set *)
  Definition def_own_nodes (x : definition) : list node :=
    NDef x ::
    match x with
    | DOp ot n vars dirs _ =>
        flat_map tree_nodes (opt_tree (fun x => T (NOpType (fst x) (snd x)) []) ot)
        ++ flat_map tree_nodes (opt_tree name_tree n)
        ++ flat_map tree_nodes (map tree_vardef vars) ++ flat_map tree_nodes (map tree_dir dirs)
    | DFrag _ n np _ dirs _ => NName n np :: flat_map tree_nodes (map tree_dir dirs)
    end.

  Lemma def_nodes d m :
    In m (tree_nodes (tree_def d)) <-> In m (def_own_nodes d) \/ In m (tree_nodes (tree_ss (def_sub d))).
  Proof.
    destruct d as [ot n vars dirs sub | kw n np cond dirs sub]; unfold tree_def, def_own_nodes, def_sub;
      cbn [tree_nodes In]; rewrite ?flat_map_app, ?in_app_iff; simpl; rewrite ?app_nil_r, ?in_app_iff; try solve [intuition].
    rewrite flat_map_app, in_app_iff. simpl. rewrite app_nil_r. intuition.
  Qed.

  Lemma pti_def_sub d : def_sub (pti_def d) = pti_ss (model_def_scope d) (def_sub d).
  Proof. destruct d; reflexivity. Qed.

  Lemma doc_nodes D m :
    In m (tree_nodes (tree_doc (pti_doc D))) <->
    m = NDoc (pti_doc D) \/
    exists d, In d D /\ (In m (def_own_nodes (pti_def d)) \/ set_or_own (model_def_scope d) (def_sub d) m).
  Proof.
    unfold tree_doc. cbn [tree_nodes In]. rewrite in_flat_map_nodes. unfold TypeInfoPure.pti_doc.
    split.
    - intros [H | [d' [Hd' H]]]; [left; symmetry; exact H |].
      apply in_map_iff in Hd' as [d [<- Hd]]. right. exists d. split; [assumption |].
      apply def_nodes in H as [H | H]; [left; exact H | right].
      rewrite pti_def_sub in H. apply (proj2 all_nodes). exact H.
    - intros [-> | [d [Hd H]]]; [left; reflexivity | right].
      exists (pti_def d). split; [apply in_map; assumption |].
      apply def_nodes. destruct H as [H | H]; [left; exact H | right].
      rewrite pti_def_sub. apply (proj2 all_nodes). exact H.
  Qed.

  Lemma def_own_nodes_minor x m : In m (def_own_nodes x) -> m = NDef x \/ is_sel_node m = false.
  Proof.
    unfold def_own_nodes. intros [<- | H]; [left; reflexivity | right].
    destruct x as [ot n vars dirs sub | kw n np cond dirs sub].
    - apply in_app_or in H as [H | H].
      { destruct ot as [[k p]|]; simpl in H; [destruct H as [<- | []]; reflexivity | destruct H]. }
      apply in_app_or in H as [H | H]; [eapply no_sel_alias; eassumption |].
      apply in_app_or in H as [H | H]; [| eapply no_sel_dirs; eassumption].
      apply in_flat_map_nodes in H as [v [_ H]]. eapply tree_vardef_no_sel; eassumption.
    - destruct H as [<- | H]; [reflexivity | eapply no_sel_dirs; eassumption].
  Qed.

  (** a visitor that only reacts to definitions and selections finds nothing iff it finds nothing
      at every definition and at every selection *)
  Lemma structural_visitor_nil {E} (f : node -> list E) D :
    (forall m, is_sel_node m = false -> f m = []) ->
    (forall x, f (NDoc x) = []) -> (forall x, f (NSelSet x) = []) ->
    ((forall m, In m (tree_nodes (tree_doc (pti_doc D))) -> f m = []) <->
     (forall d, In d D -> f (NDef (pti_def d)) = []) /\
     (forall d sc s0, In d D -> In (sc, s0) (ssels_ss (model_def_scope d) (def_sub d)) -> f (NSel (pti_sel sc s0)) = [])).
  Proof.
    intros Hminor Hdoc Hset. split.
    - intros H. split.
      + intros d Hd. apply H. apply doc_nodes. right. exists d. split; [assumption |]. left. left. reflexivity.
      + intros d sc s0 Hd Hin. apply H. apply doc_nodes. right. exists d. split; [assumption |]. right. right.
        exists sc, s0. split; [assumption | left; reflexivity].
    - intros [Hd Hs] m Hm. apply doc_nodes in Hm as [-> | [d [Hin [Hm | [[sc [ss0 [_ ->]]] | [sc [s0 [Hsel Hm]]]]]]]].
      + apply Hdoc.
      + apply def_own_nodes_minor in Hm as [-> | Hm]; [apply Hd; assumption | apply Hminor; assumption].
      + apply Hset.
      + apply own_nodes_minor in Hm as [-> | Hm]; [eapply Hs; eassumption | apply Hminor; assumption].
  Qed.

  (** ** the same with directives made visible *)
  Definition leafish (m : node) : bool :=
    match m with NName _ _ | NOpType _ _ | NType _ | NArgument _ | NValue _ | NObjField _ _ _ | NVarDef _ => true | _ => false end.

  Lemma tree_value_leafish v n : In n (tree_nodes (tree_value v)) -> leafish n = true.
  Proof.
    revert n. induction v using value_ind'; intros m; simpl;
      try (intros [<- | []]; reflexivity);
      try (intros [<- | [<- | []]]; reflexivity).
    - intros [<- | Hm]; [reflexivity |].
      apply in_flat_map in Hm as [t [Ht Hm]]. apply in_map_iff in Ht as [x [<- Hx]].
      rewrite Forall_forall in H. eapply H; eassumption.
    - intros [<- | Hm]; [reflexivity |].
      apply in_flat_map in Hm as [t [Ht Hm]]. apply in_map_iff in Ht as [[[fn fp] x] [<- Hx]].
      simpl in Hm. destruct Hm as [<- | [<- | Hm]]; try reflexivity.
      rewrite app_nil_r in Hm. rewrite Forall_forall in H. apply (H _ Hx). exact Hm.
  Qed.
  Lemma tree_arg_leafish a n : In n (tree_nodes (tree_arg a)) -> leafish n = true.
  Proof.
    simpl. intros [<- | [<- | Hm]]; try reflexivity.
    rewrite app_nil_r in Hm. eapply tree_value_leafish; eassumption.
  Qed.
  Lemma tree_dir_class d n : In n (tree_nodes (tree_dir d)) -> n = NDirective d \/ leafish n = true.
  Proof.
    simpl. intros [<- | [<- | Hm]]; auto. right.
    apply in_flat_map_nodes in Hm as [a [_ Hm]]. eapply tree_arg_leafish; eassumption.
  Qed.
  Lemma tree_ty_leafish t n : In n (tree_nodes (tree_ty t)) -> leafish n = true.
  Proof.
    revert n. induction t as [tn p | t IH p | t IH]; intros m; simpl.
    - intros [<- | [<- | []]]; reflexivity.
    - rewrite app_nil_r. intros [<- | H]; [reflexivity | apply IH; exact H].
    - rewrite app_nil_r. intros [<- | H]; [reflexivity | apply IH; exact H].
  Qed.
  Lemma tree_vardef_leafish v n : In n (tree_nodes (tree_vardef v)) -> leafish n = true.
  Proof.
    unfold tree_vardef. cbn [tree_nodes In]. rewrite !flat_map_app, !in_app_iff. simpl. rewrite !app_nil_r.
    intros [<- | [[<- | [<- | H]] | H]]; try reflexivity.
    - eapply tree_ty_leafish; eassumption.
    - destruct (vd_default v) as [x|]; simpl in H; [| destruct H]. rewrite app_nil_r in H.
      eapply tree_value_leafish; eassumption.
  Qed.

  Lemma dirs_class dirs m :
    In m (flat_map tree_nodes (map tree_dir dirs)) -> (exists d, In d dirs /\ m = NDirective d) \/ leafish m = true.
  Proof.
    intros H. apply in_flat_map_nodes in H as [d [Hd H]]. apply tree_dir_class in H as [-> | H]; eauto.
  Qed.
  Lemma dirs_class_conv dirs d : In d dirs -> In (NDirective d) (flat_map tree_nodes (map tree_dir dirs)).
  Proof. intros H. apply in_flat_map_nodes. exists d. split; [assumption | left; reflexivity]. Qed.

  Lemma own_nodes_class x m :
    In m (own_nodes x) -> m = NSel x \/ (exists d, In d (sel_dirs x) /\ m = NDirective d) \/ leafish m = true.
  Proof.
    unfold own_nodes. intros [<- | H]; [left; reflexivity | right].
    destruct x as [a al n np args dirs sub | n np dirs e | cond dirs sub e]; simpl sel_dirs.
    - apply in_app_or in H as [H | [<- | H]].
      + right. destruct al as [[an ap]|]; simpl in H; [destruct H as [<- | []]; reflexivity | destruct H].
      + right. reflexivity.
      + apply in_app_or in H as [H | H]; [right | apply dirs_class; exact H].
        apply in_flat_map_nodes in H as [x [_ H]]. eapply tree_arg_leafish; eassumption.
    - destruct H as [<- | H]; [right; reflexivity | apply dirs_class; exact H].
    - apply in_app_or in H as [H | H]; [right | apply dirs_class; exact H].
      destruct cond as [[an ap]|]; simpl in H; [destruct H as [<- | [<- | []]]; reflexivity | destruct H].
  Qed.
  Lemma own_nodes_dir x d : In d (sel_dirs x) -> In (NDirective d) (own_nodes x).
  Proof.
    intros H. unfold own_nodes. right. destruct x as [a al n np args dirs sub | n np dirs e | cond dirs sub e]; simpl in H.
    - apply in_or_app. right. right. apply in_or_app. right. apply dirs_class_conv. exact H.
    - right. apply dirs_class_conv. exact H.
    - apply in_or_app. right. apply dirs_class_conv. exact H.
  Qed.
  Lemma def_own_nodes_class x m :
    In m (def_own_nodes x) -> m = NDef x \/ (exists d, In d (def_dirs x) /\ m = NDirective d) \/ leafish m = true.
  Proof.
    unfold def_own_nodes. intros [<- | H]; [left; reflexivity | right].
    destruct x as [ot n vars dirs sub | kw n np cond dirs sub]; simpl def_dirs.
    - apply in_app_or in H as [H | H].
      { right. destruct ot as [[k p]|]; simpl in H; [destruct H as [<- | []]; reflexivity | destruct H]. }
      apply in_app_or in H as [H | H].
      { right. destruct n as [[an ap]|]; simpl in H; [destruct H as [<- | []]; reflexivity | destruct H]. }
      apply in_app_or in H as [H | H]; [right | apply dirs_class; exact H].
      apply in_flat_map_nodes in H as [v [_ H]]. eapply tree_vardef_leafish; eassumption.
    - destruct H as [<- | H]; [right; reflexivity | apply dirs_class; exact H].
  Qed.
  Lemma def_own_nodes_dir x d : In d (def_dirs x) -> In (NDirective d) (def_own_nodes x).
  Proof.
    intros H. unfold def_own_nodes. right. destruct x as [ot n vars dirs sub | kw n np cond dirs sub]; simpl in H.
    - apply in_or_app. right. apply in_or_app. right. apply in_or_app. right. apply dirs_class_conv. exact H.
    - right. apply dirs_class_conv. exact H.
  Qed.

  (** a visitor that only reacts to definitions, selections and directives *)
  Lemma directive_visitor_nil {E} (f : node -> list E) D :
    (forall m, leafish m = true -> f m = []) ->
    (forall x, f (NDoc x) = []) -> (forall x, f (NSelSet x) = []) ->
    ((forall m, In m (tree_nodes (tree_doc (pti_doc D))) -> f m = []) <->
     (forall d, In d D -> f (NDef (pti_def d)) = [] /\ forall dir, In dir (def_dirs (pti_def d)) -> f (NDirective dir) = []) /\
     (forall d sc s0, In d D -> In (sc, s0) (ssels_ss (model_def_scope d) (def_sub d)) ->
                      f (NSel (pti_sel sc s0)) = [] /\ forall dir, In dir (sel_dirs (pti_sel sc s0)) -> f (NDirective dir) = [])).
  Proof.
    intros Hleaf Hdoc Hset. split.
    - intros H. split.
      + intros d Hd. split.
        * apply H. apply doc_nodes. right. exists d. split; [assumption |]. left. left. reflexivity.
        * intros dir Hdir. apply H. apply doc_nodes. right. exists d. split; [assumption |]. left.
          apply def_own_nodes_dir. exact Hdir.
      + intros d sc s0 Hd Hin. split.
        * apply H. apply doc_nodes. right. exists d. split; [assumption |]. right. right.
          exists sc, s0. split; [assumption | left; reflexivity].
        * intros dir Hdir. apply H. apply doc_nodes. right. exists d. split; [assumption |]. right. right.
          exists sc, s0. split; [assumption | apply own_nodes_dir; exact Hdir].
    - intros [Hd Hs] m Hm. apply doc_nodes in Hm as [-> | [d [Hin [Hm | [[sc [ss0 [_ ->]]] | [sc [s0 [Hsel Hm]]]]]]]].
      + apply Hdoc.
      + apply def_own_nodes_class in Hm as [-> | [[dir [Hdir ->]] | Hm]].
        * apply (Hd d Hin).
        * apply (Hd d Hin). exact Hdir.
        * apply Hleaf; assumption.
      + apply Hset.
      + apply own_nodes_class in Hm as [-> | [[dir [Hdir ->]] | Hm]].
        * apply (Hs d sc s0 Hin Hsel).
        * apply (Hs d sc s0 Hin Hsel). exact Hdir.
        * apply Hleaf; assumption.
  Qed.
End Enum.
