(** * Vld/ValidatorProofs.v — proofs about the validator model (C04). *)
From Coq Require Import List NArith ZArith Bool Lia Permutation.
From ApiFu Require Import Base.Sexp Vld.Ast Vld.Inspect Vld.Literals Vld.TypeInfoModel Vld.TypeInfoPure Vld.ValidatorModel Vld.ValidSpec
     Vld.Hyps Vld.ProofsCommon Vld.ProofsDirectives Vld.ProofsArguments Vld.ProofsFragDecl Vld.ProofsValues Vld.ProofsOrder Vld.ProofsOperations Vld.ProofsTotal.
Import ListNotations.

(** ** the primary / secondary filter (validator.go:82-91) *)
Lemma filter_primary_nil errs : filter_primary errs = [] <-> errs = [].
Proof.
  unfold filter_primary. split.
  - destruct (filter (fun e => negb (e_sec e)) errs) eqn:E; [auto | discriminate].
  - intros ->. reflexivity.
Qed.

Lemma filter_primary_incl errs e : In e (filter_primary errs) -> In e errs.
Proof.
  unfold filter_primary.
  destruct (filter (fun e => negb (e_sec e)) errs) eqn:E; [auto |].
  intros H. rewrite <- E in H. apply filter_In in H. tauto.
Qed.

(** a secondary error is returned only when every error is secondary *)
Lemma filter_primary_secondary errs e :
  In e (filter_primary errs) -> e_sec e = true -> forall e', In e' errs -> e_sec e' = true.
Proof.
  unfold filter_primary.
  destruct (filter (fun e => negb (e_sec e)) errs) eqn:E.
  - intros _ _ e' He'. destruct (e_sec e') eqn:Es; [reflexivity |].
    assert (In e' (filter (fun e => negb (e_sec e)) errs)) as Hin
        by (apply filter_In; split; [assumption | rewrite Es; reflexivity]).
    rewrite E in Hin. destruct Hin.
  - intros H Hs. rewrite <- E in H. apply filter_In in H. destruct H as [_ H].
    rewrite Hs in H. discriminate.
Qed.

(** ** the pipeline accepts iff every rule group is silent *)
Lemma seq_outcome_nil a b : seq_outcome a b = Done [] <-> a = Done [] /\ b = Done [].
Proof.
  destruct a as [e1 | s1 |]; destruct b as [e2 | s2 |]; simpl;
    try (split; [discriminate | intros [H1 H2]; discriminate]).
  split.
  - intros H. inversion H as [H']. apply app_eq_nil in H' as [-> ->]. auto.
  - intros [H1 H2]. inversion H1; inversion H2; subst. reflexivity.
Qed.

Lemma all_rules_nil q pi S F A :
  all_rules q pi S F A = Done [] <->
  rule_operations q A = Done [] /\ rule_fields q pi S F A = Done [] /\ rule_arguments q pi S A = Done [] /\
  (rule_fragment_declarations pi S F A = [] /\ rule_fragment_spreads q pi S F A = Done []) /\
  rule_values q pi S A = Done [] /\ rule_directives q S A = Done [] /\ rule_variables pi S A = Done [].
Proof.
  unfold all_rules, rule_document, rule_fragments. cbn [fold_left]. rewrite !seq_outcome_nil, !Done_nil_iff. intuition.
Qed.

Lemma validate_model_nil q pi S F D :
  validate_model q pi S F D = Done [] <-> all_rules q pi S F (pti_doc (q_unwrap_obj q) S F D) = Done [].
Proof.
  unfold validate_model. rewrite type_info_pure.
  destruct (all_rules q pi S F (pti_doc (q_unwrap_obj q) S F D)) as [errs | s |].
  - rewrite !Done_nil_iff. apply filter_primary_nil.
  - tauto.
  - tauto.
Qed.

(** ** acceptance does not depend on the order in which Go ranges over its maps *)
Theorem validate_accept_order pi1 pi2 S F D :
  order_ok pi1 -> order_ok pi2 ->
  (validate_model repaired pi1 S F D = Done [] <-> validate_model repaired pi2 S F D = Done []).
Proof.
  intros H1 H2. rewrite !validate_model_nil, !all_rules_nil.
  set (A := pti_doc (q_unwrap_obj repaired) S F D).
  rewrite (rule_fields_order pi1 pi2 H1 H2 repaired S F A).
  rewrite (rule_arguments_order pi1 pi2 H1 H2 S A).
  rewrite (rule_fragment_declarations_order pi1 pi2 H1 H2 S F A).
  rewrite (rule_values_order pi1 pi2 H1 H2 S A).
  rewrite (rule_variables_order S A pi1 pi2 H1 H2).
  assert (rule_fragment_spreads repaired pi1 S F A = Done [] <-> rule_fragment_spreads repaired pi2 S F A = Done []) as Hs.
  { split; apply rule_fragment_spreads_half; try assumption.
    - apply (cycle_ok_order pi1 pi2 H1 H2).
    - apply (spreads_enter_order pi1 pi2 H1 H2).
    - intros n. symmetry. apply (cycle_ok_order pi1 pi2 H1 H2).
    - intros st n. symmetry. apply (spreads_enter_order pi1 pi2 H1 H2). }
  rewrite Hs. tauto.
Qed.

(** ** the decidable hypotheses mean what the rule proofs need *)
Lemma no_typename_assoc (fs : list (name * field_def)) : no_typename_fields fs = true -> assoc n_typename fs = None.
Proof.
  unfold no_typename_fields. intros H. apply negb_true_iff in H. revert H. induction fs as [|[k v] fs IH]; [intros _; reflexivity |]. cbn [existsb assoc fst].
  destruct (name_eqb n_typename k); [intros H; discriminate H | exact IH].
Qed.

Lemma schema_no_typename_spec S F :
  schema_no_typename S = true -> forall top, field_of_scope S F top n_typename = None.
Proof.
  unfold schema_no_typename. rewrite andb_true_iff, forallb_forall. intros [Ht Hm] [tn|]; [| reflexivity].
  unfold field_of_scope, raw_body, raw_type. destruct (assoc tn (s_types S)) as [d|] eqn:Ed; [| reflexivity].
  apply assoc_in in Ed. specialize (Ht _ Ed). simpl in Ht.
  destruct (t_body d) as [| | | fs ifs | fs |]; try reflexivity.
  - unfold get_field. rewrite (no_typename_assoc fs Ht). destruct (name_eqb tn (s_query S)); [apply no_typename_assoc; exact Hm | reflexivity].
  - unfold get_field. rewrite (no_typename_assoc fs Ht). reflexivity.
Qed.

Lemma input_styb_spec S t : input_styb S t = true <-> input_sty S t.
Proof. unfold input_styb, input_sty. destruct (raw_body S (unwrapped t)); [tauto | split; [discriminate | intros []]]. Qed.

Lemma schema_input_closed_spec S :
  schema_input_closed S = true ->
  forall tn defs, raw_body S tn = Some (TInput defs) -> forall nd, In nd defs -> input_sty S (in_type (snd nd)).
Proof.
  unfold schema_input_closed. rewrite forallb_forall. intros H tn defs Hb nd Hnd.
  unfold raw_body, raw_type in Hb. destruct (assoc tn (s_types S)) as [d|] eqn:Ed; [| discriminate].
  apply assoc_in in Ed. specialize (H _ Ed). simpl in H. inversion Hb as [Hb']. rewrite Hb' in H.
  rewrite forallb_forall in H. apply input_styb_spec, H, Hnd.
Qed.

Lemma fields_defined_spec S F D :
  fields_defined S F D = true -> forall o, In o (all_fields S F D) -> fo_def S F o <> None.
Proof.
  unfold fields_defined. rewrite forallb_forall. intros H o Ho. specialize (H o Ho).
  destruct (fo_def S F o); [discriminate | discriminate H].
Qed.

Lemma values_typed_input_spec S F D :
  values_typed_input S F D = true -> forall vt, In vt (typed_values S F D) -> input_sty S (snd vt).
Proof. unfold values_typed_input. rewrite forallb_forall. intros H vt Hvt. apply input_styb_spec, H, Hvt. Qed.

(** ** what acceptance guarantees, section by section (the part of "accepted -> Valid" proved so far) *)
Theorem accepted_rules_hold pi S F D :
  order_ok pi -> validate_model repaired pi S F D = Done [] ->
  valid_5_7 S D = true /\
  valid_5_5_1 S F D = true /\
  (schema_ok S = true -> fields_defined S F D = true -> valid_5_4 S F D = true) /\
  (schema_ok S = true -> values_typed_input S F D = true -> valid_5_6 S F D = true).
Proof.
  intros Hpi H. apply validate_model_nil, all_rules_nil in H as [_ [_ [Ha [[Hd _] [Hv [Hdir _]]]]]].
  assert (valid_5_7 S D = true) as H57 by (apply (rule_directives_iff S F D); exact Hdir).
  split; [exact H57 |]. split; [apply (rule_fragment_declarations_iff pi Hpi S F D); exact Hd |]. split.
  - intros Hs Hf. unfold schema_ok in Hs. apply andb_true_iff in Hs as [Hs1 Hs2].
    assert (valid_5_7_1 S D = true) as H571.
    { unfold valid_5_7 in H57. apply andb_true_iff in H57 as [H57 _]. apply andb_true_iff in H57 as [H57 _]. exact H57. }
    destruct (rule_arguments_iff pi Hpi S F D (fields_defined_spec S F D Hf) H571 (schema_no_typename_spec S F Hs1)) as [errs [E Hiff]].
    rewrite E in Ha. inversion Ha; subst errs. apply Hiff. reflexivity.
  - intros Hs Hf. unfold schema_ok in Hs. apply andb_true_iff in Hs as [Hs1 Hs2].
    destruct (rule_values_iff pi Hpi S F (schema_input_closed_spec S Hs2) (schema_no_typename_spec S F Hs1) D
                              (values_typed_input_spec S F D Hf)) as [errs [E Hiff]].
    rewrite E in Hv. inversion Hv; subst errs. apply Hiff. reflexivity.
Qed.

(** the other direction for the same sections: a violation of one of them makes the pipeline emit
    a primary error of the corresponding rule group, so the document is rejected *)
Theorem violation_rejected pi S F D :
  order_ok pi ->
  (valid_5_7 S D = false \/ valid_5_5_1 S F D = false \/
   (schema_ok S = true /\ fields_defined S F D = true /\ valid_5_4 S F D = false) \/
   (schema_ok S = true /\ values_typed_input S F D = true /\ valid_5_6 S F D = false)) ->
  validate_model repaired pi S F D <> Done [].
Proof.
  intros Hpi Hv Hacc. destruct (accepted_rules_hold pi S F D Hpi Hacc) as [H1 [H2 [H3 H4]]].
  destruct Hv as [Hv | [Hv | [[Hs [Hf Hv]] | [Hs [Hf Hv]]]]]; try congruence.
  - rewrite (H3 Hs Hf) in Hv. discriminate.
  - rewrite (H4 Hs Hf) in Hv. discriminate.
Qed.

(** the operation rules (5.2.1.1, 5.2.2.1, root types) also hold of an accepted document *)
Theorem accepted_operations_hold pi S F D :
  validate_model repaired pi S F D = Done [] ->
  valid_5_2_1_1 D = true /\ valid_5_2_2_1 D = true /\ valid_root S D = true.
Proof.
  intros H. apply validate_model_nil, all_rules_nil in H as [Ho _].
  apply (rule_operations_iff S F D) in Ho as [H1 [H2 [H3 _]]]. auto.
Qed.

(** with totality: under every order the outcome is a list of errors, empty under one order iff
    empty under the other — the verdict (accept / reject) is a function of schema, features, document *)
Theorem validate_verdict_order pi1 pi2 S F D :
  order_ok pi1 -> order_ok pi2 ->
  (validate_model repaired pi1 S F D = Done [] /\ validate_model repaired pi2 S F D = Done []) \/
  (exists e1 l1 e2 l2, validate_model repaired pi1 S F D = Done (e1 :: l1) /\ validate_model repaired pi2 S F D = Done (e2 :: l2)).
Proof.
  intros H1 H2. destruct (validate_no_panic pi1 S F D H1) as [errs1 E1]. destruct (validate_no_panic pi2 S F D H2) as [errs2 E2].
  pose proof (validate_accept_order pi1 pi2 S F D H1 H2) as Hiff. rewrite E1, E2 in *.
  destruct errs1 as [|e1 l1]; destruct errs2 as [|e2 l2].
  - left. auto.
  - destruct Hiff as [Hiff _]. specialize (Hiff eq_refl). discriminate.
  - destruct Hiff as [_ Hiff]. specialize (Hiff eq_refl). discriminate.
  - right. exists e1, l1, e2, l2. auto.
Qed.
