(** * Vld/ValidatorProofs.v — proofs about the validator model (C04). *)
From Coq Require Import List NArith ZArith Bool Lia Permutation.
From ApiFu Require Import Base.Sexp Vld.Ast Vld.Inspect Vld.InspectProofs Vld.Literals Vld.TypeInfoModel Vld.TypeInfoPure Vld.ValidatorModel Vld.ValidSpec
     Vld.Hyps Vld.ProofsCommon Vld.ProofsDirectives Vld.ProofsArguments Vld.ProofsFragDecl Vld.ProofsValues Vld.ProofsOrder Vld.ProofsOperations Vld.ProofsTotal Vld.Enumerate Vld.SpecEnum Vld.ProofsFields.
Import ListNotations.

(** ** the primary / secondary filter (validator.go:82-91) *)
Lemma filter_primary_nil errs : filter_primary errs = [] <-> errs = [].
Proof.
  unfold filter_primary. split.
  - destruct (filter (fun e => negb (e_sec e)) errs) eqn:E; [auto | discriminate].
  - intros ->. reflexivity.
Qed.

Lemma filter_primary_incl errs e : In e (filter_primary errs) -> In e errs.
Proof.
  unfold filter_primary.
  destruct (filter (fun e => negb (e_sec e)) errs) eqn:E; [auto |].
  intros H. rewrite <- E in H. apply filter_In in H. tauto.
Qed.

(** a secondary error is returned only when every error is secondary *)
Lemma filter_primary_secondary errs e :
  In e (filter_primary errs) -> e_sec e = true -> forall e', In e' errs -> e_sec e' = true.
Proof.
  unfold filter_primary.
  destruct (filter (fun e => negb (e_sec e)) errs) eqn:E.
  - intros _ _ e' He'. destruct (e_sec e') eqn:Es; [reflexivity |].
    assert (In e' (filter (fun e => negb (e_sec e)) errs)) as Hin
        by (apply filter_In; split; [assumption | rewrite Es; reflexivity]).
    rewrite E in Hin. destruct Hin.
  - intros H Hs. rewrite <- E in H. apply filter_In in H. destruct H as [_ H].
    rewrite Hs in H. discriminate.
Qed.

(** ** the pipeline accepts iff every rule group is silent *)
Lemma seq_outcome_nil a b : seq_outcome a b = Done [] <-> a = Done [] /\ b = Done [].
Proof.
  destruct a as [e1 | s1 |]; destruct b as [e2 | s2 |]; simpl;
    try (split; [discriminate | intros [H1 H2]; discriminate]).
  split.
  - intros H. inversion H as [H']. apply app_eq_nil in H' as [-> ->]. auto.
  - intros [H1 H2]. inversion H1; inversion H2; subst. reflexivity.
Qed.

Lemma all_rules_nil q pi S F A :
  all_rules q pi S F A = Done [] <->
  rule_operations q A = Done [] /\ rule_fields q pi S F A = Done [] /\ rule_arguments q pi S A = Done [] /\
  (rule_fragment_declarations pi S F A = [] /\ rule_fragment_spreads q pi S F A = Done []) /\
  rule_values q pi S A = Done [] /\ rule_directives q S A = Done [] /\ rule_variables pi S A = Done [].
Proof.
  unfold all_rules, rule_document, rule_fragments. cbn [fold_left]. rewrite !seq_outcome_nil, !Done_nil_iff. intuition.
Qed.

Lemma validate_model_nil q pi S F D :
  validate_model q pi S F D = Done [] <-> all_rules q pi S F (pti_doc (q_unwrap_obj q) S F D) = Done [].
Proof.
  unfold validate_model. rewrite type_info_pure.
  destruct (all_rules q pi S F (pti_doc (q_unwrap_obj q) S F D)) as [errs | s |].
  - rewrite !Done_nil_iff. apply filter_primary_nil.
  - tauto.
  - tauto.
Qed.

(** ** acceptance does not depend on the order in which Go ranges over its maps *)
Theorem validate_accept_order pi1 pi2 S F D :
  order_ok pi1 -> order_ok pi2 ->
  (validate_model repaired pi1 S F D = Done [] <-> validate_model repaired pi2 S F D = Done []).
Proof.
  intros H1 H2. rewrite !validate_model_nil, !all_rules_nil.
  set (A := pti_doc (q_unwrap_obj repaired) S F D).
  rewrite (rule_fields_order pi1 pi2 H1 H2 repaired S F A).
  rewrite (rule_arguments_order pi1 pi2 H1 H2 S A).
  rewrite (rule_fragment_declarations_order pi1 pi2 H1 H2 S F A).
  rewrite (rule_values_order pi1 pi2 H1 H2 S A).
  rewrite (rule_variables_order S A pi1 pi2 H1 H2).
  assert (rule_fragment_spreads repaired pi1 S F A = Done [] <-> rule_fragment_spreads repaired pi2 S F A = Done []) as Hs.
  { split; apply rule_fragment_spreads_half; try assumption.
    - apply (cycle_ok_order pi1 pi2 H1 H2).
    - apply (spreads_enter_order pi1 pi2 H1 H2).
    - intros n. symmetry. apply (cycle_ok_order pi1 pi2 H1 H2).
    - intros st n. symmetry. apply (spreads_enter_order pi1 pi2 H1 H2). }
  rewrite Hs. tauto.
Qed.

(** ** the decidable hypotheses mean what the rule proofs need *)
Lemma no_typename_assoc (fs : list (name * field_def)) : no_typename_fields fs = true -> assoc n_typename fs = None.
Proof.
  unfold no_typename_fields. intros H. apply negb_true_iff in H. revert H. induction fs as [|[k v] fs IH]; [intros _; reflexivity |]. cbn [existsb assoc fst].
  destruct (name_eqb n_typename k); [intros H; discriminate H | exact IH].
Qed.

Lemma schema_no_typename_spec S F :
  schema_no_typename S = true -> forall top, field_of_scope S F top n_typename = None.
Proof.
  unfold schema_no_typename. rewrite andb_true_iff, forallb_forall. intros [Ht Hm] [tn|]; [| reflexivity].
  unfold field_of_scope, raw_body, raw_type. destruct (assoc tn (s_types S)) as [d|] eqn:Ed; [| reflexivity].
  apply assoc_in in Ed. specialize (Ht _ Ed). simpl in Ht.
  destruct (t_body d) as [| | | fs ifs | fs |]; try reflexivity.
  - unfold get_field. rewrite (no_typename_assoc fs Ht). destruct (name_eqb tn (s_query S)); [apply no_typename_assoc; exact Hm | reflexivity].
  - unfold get_field. rewrite (no_typename_assoc fs Ht). reflexivity.
Qed.

Lemma input_styb_spec S t : input_styb S t = true <-> input_sty S t.
Proof. unfold input_styb, input_sty. destruct (raw_body S (unwrapped t)); [tauto | split; [discriminate | intros []]]. Qed.

Lemma schema_input_closed_spec S :
  schema_input_closed S = true ->
  forall tn defs, raw_body S tn = Some (TInput defs) -> forall nd, In nd defs -> input_sty S (in_type (snd nd)).
Proof.
  unfold schema_input_closed. rewrite forallb_forall. intros H tn defs Hb nd Hnd.
  unfold raw_body, raw_type in Hb. destruct (assoc tn (s_types S)) as [d|] eqn:Ed; [| discriminate].
  apply assoc_in in Ed. specialize (H _ Ed). simpl in H. inversion Hb as [Hb']. rewrite Hb' in H.
  rewrite forallb_forall in H. apply input_styb_spec, H, Hnd.
Qed.

Lemma fields_defined_spec S F D :
  fields_defined S F D = true -> forall o, In o (all_fields S F D) -> fo_def S F o <> None.
Proof.
  unfold fields_defined. rewrite forallb_forall. intros H o Ho. specialize (H o Ho).
  destruct (fo_def S F o); [discriminate | discriminate H].
Qed.

Lemma values_typed_input_spec S F D :
  values_typed_input S F D = true -> forall vt, In vt (typed_values S F D) -> input_sty S (snd vt).
Proof. unfold values_typed_input. rewrite forallb_forall. intros H vt Hvt. apply input_styb_spec, H, Hvt. Qed.

(** ** what the theorems about accepted documents need of the pipeline: every rule group other than
    the overlapping-fields pass is silent, and the first visitor of validateFields emitted nothing.
    Both the pipeline with the checked-pairs memo and the one without it provide this. *)
Definition rules_silent (pi : order) (S : schema) (F : features) (A : document) : Prop :=
  rule_operations repaired A = Done [] /\
  r_errs (inspect (fields_enter S F) pop (tree_doc A) rst0) = [] /\
  rule_arguments repaired pi S A = Done [] /\
  rule_fragment_declarations pi S F A = [] /\ rule_fragment_spreads repaired pi S F A = Done [] /\
  rule_values repaired pi S A = Done [] /\ rule_directives repaired S A = Done [] /\ rule_variables pi S A = Done [].

Lemma merge_enter_dirty q pi S D st n : ~ clean st -> ~ clean (fst (merge_enter q pi S D st n)).
Proof.
  intros H. unfold merge_enter. destruct n; try exact H.
  destruct (add_selections q D [] (Some s)) as [m v | e |]; [| apply add_errs_dirty; exact H | apply set_abort_dirty; exact H].
  destruct (can_merge q pi S D (max_depth D) m); cbn [fst]; [exact H | apply add_errs_dirty; exact H | apply set_abort_dirty; exact H | apply set_abort_dirty; exact H].
Qed.

Lemma plain_rules_silent pi S F A : all_rules repaired pi S F A = Done [] -> rules_silent pi S F A.
Proof.
  intros H. apply all_rules_nil in H as [Ho [Hf [Ha [[Hd Hs] [Hv [Hdir Hvar]]]]]].
  unfold rules_silent. repeat split; try assumption.
  unfold rule_fields in Hf. apply finish_clean in Hf.
  destruct (classic_clean (inspect (fields_enter S F) pop (tree_doc A) rst0)) as [[H _] | Hd']; [exact H |].
  exfalso. apply (inspect_dirty (fun st => ~ clean st) (merge_enter repaired pi S A) (fun s => s) (tree_doc A)
                                (merge_enter_dirty repaired pi S A) (fun st H => H) _ Hd'). exact Hf.
Qed.

Lemma accepted_silent pi S F D : validate_model repaired pi S F D = Done [] -> rules_silent pi S F (pti_doc (q_unwrap_obj repaired) S F D).
Proof. intros H. apply validate_model_nil in H. apply plain_rules_silent. exact H. Qed.

(** ** what acceptance guarantees, section by section (the part of "accepted -> Valid" proved so far) *)
Theorem silent_rules_hold pi S F D :
  order_ok pi -> rules_silent pi S F (pti_doc (q_unwrap_obj repaired) S F D) ->
  valid_5_7 S D = true /\
  valid_5_5_1 S F D = true /\
  (schema_ok S = true -> fields_defined S F D = true -> valid_5_4 S F D = true) /\
  (schema_ok S = true -> values_typed_input S F D = true -> valid_5_6 S F D = true).
Proof.
  intros Hpi H. destruct H as [_ [_ [Ha [Hd [_ [Hv [Hdir _]]]]]]].
  assert (valid_5_7 S D = true) as H57 by (apply (rule_directives_iff S F D); exact Hdir).
  split; [exact H57 |]. split; [apply (rule_fragment_declarations_iff pi Hpi S F D); exact Hd |]. split.
  - intros Hs Hf. unfold schema_ok in Hs. apply andb_true_iff in Hs as [Hs Hs3]. apply andb_true_iff in Hs as [Hs1 Hs2].
    assert (valid_5_7_1 S D = true) as H571.
    { unfold valid_5_7 in H57. apply andb_true_iff in H57 as [H57 _]. apply andb_true_iff in H57 as [H57 _]. exact H57. }
    destruct (rule_arguments_iff pi Hpi S F D (fields_defined_spec S F D Hf) H571 (schema_no_typename_spec S F Hs1)) as [errs [E Hiff]].
    rewrite E in Ha. inversion Ha; subst errs. apply Hiff. reflexivity.
  - intros Hs Hf. unfold schema_ok in Hs. apply andb_true_iff in Hs as [Hs Hs3]. apply andb_true_iff in Hs as [Hs1 Hs2].
    destruct (rule_values_iff pi Hpi S F (schema_input_closed_spec S Hs2) (schema_no_typename_spec S F Hs1) D
                              (values_typed_input_spec S F D Hf)) as [errs [E Hiff]].
    rewrite E in Hv. inversion Hv; subst errs. apply Hiff. reflexivity.
Qed.
Theorem accepted_rules_hold pi S F D :
  order_ok pi -> validate_model repaired pi S F D = Done [] ->
  valid_5_7 S D = true /\
  valid_5_5_1 S F D = true /\
  (schema_ok S = true -> fields_defined S F D = true -> valid_5_4 S F D = true) /\
  (schema_ok S = true -> values_typed_input S F D = true -> valid_5_6 S F D = true).
Proof. intros Hpi H. apply (silent_rules_hold pi S F D Hpi (accepted_silent pi S F D H)). Qed.

(** the other direction for the same sections: a violation of one of them makes the pipeline emit
    a primary error of the corresponding rule group, so the document is rejected *)
Theorem violation_rejected pi S F D :
  order_ok pi ->
  (valid_5_7 S D = false \/ valid_5_5_1 S F D = false \/
   (schema_ok S = true /\ fields_defined S F D = true /\ valid_5_4 S F D = false) \/
   (schema_ok S = true /\ values_typed_input S F D = true /\ valid_5_6 S F D = false)) ->
  validate_model repaired pi S F D <> Done [].
Proof.
  intros Hpi Hv Hacc. destruct (accepted_rules_hold pi S F D Hpi Hacc) as [H1 [H2 [H3 H4]]].
  destruct Hv as [Hv | [Hv | [[Hs [Hf Hv]] | [Hs [Hf Hv]]]]]; try congruence.
  - rewrite (H3 Hs Hf) in Hv. discriminate.
  - rewrite (H4 Hs Hf) in Hv. discriminate.
Qed.

(** the operation rules (5.2.1.1, 5.2.2.1, root types) also hold of an accepted document *)
Theorem silent_operations_hold pi S F D :
  rules_silent pi S F (pti_doc (q_unwrap_obj repaired) S F D) ->
  valid_5_2_1_1 D = true /\ valid_5_2_2_1 D = true /\ valid_root S D = true.
Proof.
  intros H. destruct H as [Ho _].
  apply (rule_operations_iff S F D) in Ho as [H1 [H2 [H3 _]]]. auto.
Qed.
Theorem accepted_operations_hold pi S F D :
  validate_model repaired pi S F D = Done [] ->
  valid_5_2_1_1 D = true /\ valid_5_2_2_1 D = true /\ valid_root S D = true.
Proof. intros H. apply (silent_operations_hold pi S F D (accepted_silent pi S F D H)). Qed.

(** with totality: under every order the outcome is a list of errors, empty under one order iff
    empty under the other — the verdict (accept / reject) is a function of schema, features, document *)
Theorem validate_verdict_order pi1 pi2 S F D :
  order_ok pi1 -> order_ok pi2 ->
  (validate_model repaired pi1 S F D = Done [] /\ validate_model repaired pi2 S F D = Done []) \/
  (exists e1 l1 e2 l2, validate_model repaired pi1 S F D = Done (e1 :: l1) /\ validate_model repaired pi2 S F D = Done (e2 :: l2)).
Proof.
  intros H1 H2. destruct (validate_no_panic pi1 S F D H1) as [errs1 E1]. destruct (validate_no_panic pi2 S F D H2) as [errs2 E2].
  pose proof (validate_accept_order pi1 pi2 S F D H1 H2) as Hiff. rewrite E1, E2 in *.
  destruct errs1 as [|e1 l1]; destruct errs2 as [|e2 l2].
  - left. auto.
  - destruct Hiff as [Hiff _]. specialize (Hiff eq_refl). discriminate.
  - destruct Hiff as [_ Hiff]. specialize (Hiff eq_refl). discriminate.
  - right. exists e1, l1, e2, l2. auto.
Qed.

(** ** accepted documents: every selection set has a composite parent type, every field is defined,
    5.3.1 and 5.3.3 hold — so the side condition [fields_defined] of the 5.4 clause is discharged *)

Lemma roots_composite S ot tn : schema_roots_ok S = true -> root_type S ot = Some tn -> composite_name S tn = true.
Proof.
  unfold schema_roots_ok. rewrite !andb_true_iff. intros [[[H1 H2] H3] _] Hr. unfold root_type in Hr.
  destruct ot as [[k p]|]; [| inversion Hr; subst; exact H1].
  destruct (name_eqb k s_query_kw); [inversion Hr; subst; exact H1 |].
  destruct (name_eqb k s_mutation_kw); [rewrite Hr in H2; exact H2 |].
  destruct (name_eqb k s_subscription_kw); [rewrite Hr in H3; exact H3 | discriminate].
Qed.

Theorem silent_fields_hold pi S F D :
  order_ok pi -> schema_ok S = true -> rules_silent pi S F (pti_doc (q_unwrap_obj repaired) S F D) ->
  fields_defined S F D = true /\ valid_5_3_1 S F D = true /\ valid_5_3_3 S F D = true.
Proof.
  intros Hpi Hs Hacc. set (qo := q_unwrap_obj repaired).
  destruct (silent_rules_hold pi S F D Hpi Hacc) as [_ [H551 _]].
  destruct (silent_operations_hold pi S F D Hacc) as [_ [_ Hroot]].
  unfold schema_ok in Hs. apply andb_true_iff in Hs as [Hs Hs3]. apply andb_true_iff in Hs as [Hs1 Hs2].
  pose proof (schema_no_typename_spec S F Hs1) as Hnt.
  assert (composite_name S n_String = false) as Hstr.
  { unfold schema_roots_ok in Hs3. rewrite !andb_true_iff in Hs3. destruct Hs3 as [_ H]. apply negb_true_iff in H. exact H. }
  (* the first visitor is silent *)
  assert (r_errs (inspect (fields_enter S F) pop (tree_doc (pti_doc qo S F D)) rst0) = []) as Hpass by (destruct Hacc as [_ [H _]]; exact H).
  rewrite fields_pass_errors in Hpass.
  assert (forall d o, In d D -> In o (ssels_ss S F (model_def_scope S F d) (def_sub d)) -> fe_ev1 S F (fst o) (pti_sel qo S F (fst o) (snd o)) = []) as Hsilent.
  { intros d o Hd Ho. rewrite flat_map_nil_iff in Hpass. specialize (Hpass d Hd). rewrite flat_map_nil_iff in Hpass. apply Hpass. exact Ho. }
  (* type conditions *)
  assert (forall c, In c (type_conditions D) -> exists b, named_type S F c = Some b /\ is_composite_body b = true) as Hcond.
  { unfold valid_5_5_1 in H551. rewrite !andb_true_iff in H551. destruct H551 as [[[_ H2] H3] _].
    unfold valid_5_5_1_2, valid_5_5_1_3 in *. rewrite forallb_forall in H2, H3. intros c Hc.
    specialize (H2 c Hc). specialize (H3 c Hc). unfold type_of in *. destruct (named_type S F c) as [b|]; [exists b; auto | discriminate]. }
  assert (forall d o, In d D -> In o (ssels_ss S F (model_def_scope S F d) (def_sub d)) -> occ_fine S F qo o) as Hfine.
  { intros d [sc s0] Hd Ho. split; [apply (Hsilent d _ Hd Ho) |]. simpl.
    destruct s0 as [| | [[c cp]|] dirs sub e]; try exact I. apply Hcond. rewrite type_conditions_split. apply in_or_app. right.
    apply in_flat_map. exists (SInline (Some (c, cp)) dirs sub e). split; [| left; reflexivity].
    apply (in_all_sels S F D). exists d, sc. auto. }
  assert (forall d, In d D -> good S (model_def_scope S F d)) as Hroots.
  { intros d Hd. destruct d as [ot n vars dirs sub | kw n np [c cp] dirs sub].
    - unfold valid_root in Hroot. rewrite forallb_forall in Hroot. specialize (Hroot _ Hd). simpl in Hroot.
      change (model_def_scope S F (DOp ot n vars dirs sub)) with (TypeInfoPure.op_scope S ot).
      pose proof (spec_def_scope_eq S F (DOp ot n vars dirs sub)) as E. simpl in E. rewrite <- E.
      destruct (root_type S ot) as [tn|] eqn:Er; [| discriminate]. exists tn. split; [reflexivity | apply (roots_composite S ot tn Hs3 Er)].
    - simpl. unfold TypeInfoPure.frag_scope. simpl.
      destruct (Hcond c) as [b [Hb Hc]].
      { rewrite type_conditions_split. apply in_or_app. left. unfold frag_conds. apply in_flat_map. exists (DFrag kw n np (c, cp) dirs sub). split; [exact Hd | left; reflexivity]. }
      rewrite Hb. exists c. split; [reflexivity |]. unfold composite_name. rewrite (named_type_raw S F c b Hb). exact Hc. }
  assert (forall d o, In d D -> In o (ssels_ss S F (model_def_scope S F d) (def_sub d)) -> good S (fst o)) as Hgood.
  { intros d o Hd Ho. apply (proj2 (scopes_good S F Hnt qo) (def_sub d) (model_def_scope S F d) (Hroots d Hd)); [| exact Ho].
    intros o' Ho'. apply (Hfine d o' Hd Ho'). }
  assert (forall o, In o (all_fields S F D) ->
                    exists d, fo_def S F o = Some d /\
                              match fo_field o with
                              | SField _ _ _ _ _ _ sub =>
                                  (if composite S (result_type d)
                                   then match sub with Some (SelSet _ (_ :: _) _) => true | _ => false end
                                   else match sub with None => true | Some _ => false end) = true
                              | _ => True
                              end) as Hocc.
  { intros o Ho. apply all_fields_enum in Ho as [d [sc [s0 [Hd [Hin [Hfld ->]]]]]].
    destruct s0 as [a al n np args dirs sub | |]; try discriminate.
    destruct (occ_defined S F Hnt Hstr qo sc a al n np args dirs sub (Hgood d _ Hd Hin) (Hsilent d _ Hd Hin)) as [def [E1 E2]].
    exists def. split; [exact E1 | exact E2]. }
  split; [| split].
  - unfold fields_defined. apply forallb_forall. intros o Ho. destruct (Hocc o Ho) as [d [E _]]. rewrite E. reflexivity.
  - unfold valid_5_3_1. apply forallb_forall. intros o Ho. destruct (Hocc o Ho) as [d [E _]]. rewrite E.
    destruct (fo_parent o); [destruct (composite S n); reflexivity | reflexivity].
  - unfold valid_5_3_3. apply forallb_forall. intros o Ho. destruct (Hocc o Ho) as [d [E H]]. rewrite E.
    destruct (fo_field o); try reflexivity. exact H.
Qed.

(** with it, the argument rules hold of every accepted document over a well-formed schema *)
Theorem silent_arguments_hold pi S F D :
  order_ok pi -> schema_ok S = true -> rules_silent pi S F (pti_doc (q_unwrap_obj repaired) S F D) -> valid_5_4 S F D = true.
Proof.
  intros Hpi Hs Hacc. destruct (silent_fields_hold pi S F D Hpi Hs Hacc) as [Hf _].
  destruct (silent_rules_hold pi S F D Hpi Hacc) as [_ [_ [H _]]]. apply H; assumption.
Qed.

(** the memo-free pipeline *)
Theorem accepted_fields_hold pi S F D :
  order_ok pi -> schema_ok S = true -> validate_model repaired pi S F D = Done [] ->
  fields_defined S F D = true /\ valid_5_3_1 S F D = true /\ valid_5_3_3 S F D = true.
Proof. intros Hpi Hs H. apply (silent_fields_hold pi S F D Hpi Hs (accepted_silent pi S F D H)). Qed.
Theorem accepted_arguments_hold pi S F D :
  order_ok pi -> schema_ok S = true -> validate_model repaired pi S F D = Done [] -> valid_5_4 S F D = true.
Proof. intros Hpi Hs H. apply (silent_arguments_hold pi S F D Hpi Hs (accepted_silent pi S F D H)). Qed.
