(** * Vld/ValidatorProofs.v — proofs about the validator model (C04). *)
From Coq Require Import List NArith ZArith Bool Lia Permutation.
From ApiFu Require Import Base.Sexp Vld.Ast Vld.Inspect Vld.Literals Vld.TypeInfoModel Vld.TypeInfoPure Vld.ValidatorModel Vld.ValidSpec
     Vld.ProofsCommon Vld.ProofsOrder.
Import ListNotations.

(** ** the primary / secondary filter (validator.go:82-91) *)
Lemma filter_primary_nil errs : filter_primary errs = [] <-> errs = [].
Proof.
  unfold filter_primary. split.
  - destruct (filter (fun e => negb (e_sec e)) errs) eqn:E; [auto | discriminate].
  - intros ->. reflexivity.
Qed.

Lemma filter_primary_incl errs e : In e (filter_primary errs) -> In e errs.
Proof.
  unfold filter_primary.
  destruct (filter (fun e => negb (e_sec e)) errs) eqn:E; [auto |].
  intros H. rewrite <- E in H. apply filter_In in H. tauto.
Qed.

(** a secondary error is returned only when every error is secondary *)
Lemma filter_primary_secondary errs e :
  In e (filter_primary errs) -> e_sec e = true -> forall e', In e' errs -> e_sec e' = true.
Proof.
  unfold filter_primary.
  destruct (filter (fun e => negb (e_sec e)) errs) eqn:E.
  - intros _ _ e' He'. destruct (e_sec e') eqn:Es; [reflexivity |].
    assert (In e' (filter (fun e => negb (e_sec e)) errs)) as Hin
        by (apply filter_In; split; [assumption | rewrite Es; reflexivity]).
    rewrite E in Hin. destruct Hin.
  - intros H Hs. rewrite <- E in H. apply filter_In in H. destruct H as [_ H].
    rewrite Hs in H. discriminate.
Qed.

(** ** the pipeline accepts iff every rule group is silent *)
Lemma seq_outcome_nil a b : seq_outcome a b = Done [] <-> a = Done [] /\ b = Done [].
Proof.
  destruct a as [e1 | s1 |]; destruct b as [e2 | s2 |]; simpl;
    try (split; [discriminate | intros [H1 H2]; discriminate]).
  split.
  - intros H. inversion H as [H']. apply app_eq_nil in H' as [-> ->]. auto.
  - intros [H1 H2]. inversion H1; inversion H2; subst. reflexivity.
Qed.

Lemma all_rules_nil q pi S F A :
  all_rules q pi S F A = Done [] <->
  rule_operations q A = Done [] /\ rule_fields q pi S F A = Done [] /\ rule_arguments q pi S A = Done [] /\
  (rule_fragment_declarations pi S F A = [] /\ rule_fragment_spreads q pi S F A = Done []) /\
  rule_values q pi S A = Done [] /\ rule_directives q S A = Done [] /\ rule_variables pi S A = Done [].
Proof.
  unfold all_rules, rule_document, rule_fragments. cbn [fold_left]. rewrite !seq_outcome_nil, !Done_nil_iff. intuition.
Qed.

Lemma validate_model_nil q pi S F D :
  validate_model q pi S F D = Done [] <-> all_rules q pi S F (pti_doc (q_unwrap_obj q) S F D) = Done [].
Proof.
  unfold validate_model. rewrite type_info_pure.
  destruct (all_rules q pi S F (pti_doc (q_unwrap_obj q) S F D)) as [errs | s |].
  - rewrite !Done_nil_iff. apply filter_primary_nil.
  - tauto.
  - tauto.
Qed.

(** ** acceptance does not depend on the order in which Go ranges over its maps *)
Theorem validate_accept_order pi1 pi2 S F D :
  order_ok pi1 -> order_ok pi2 ->
  (validate_model repaired pi1 S F D = Done [] <-> validate_model repaired pi2 S F D = Done []).
Proof.
  intros H1 H2. rewrite !validate_model_nil, !all_rules_nil.
  set (A := pti_doc (q_unwrap_obj repaired) S F D).
  rewrite (rule_fields_order pi1 pi2 H1 H2 repaired S F A).
  rewrite (rule_arguments_order pi1 pi2 H1 H2 S A).
  rewrite (rule_fragment_declarations_order pi1 pi2 H1 H2 S F A).
  rewrite (rule_values_order pi1 pi2 H1 H2 S A).
  rewrite (rule_variables_order S A pi1 pi2 H1 H2).
  assert (rule_fragment_spreads repaired pi1 S F A = Done [] <-> rule_fragment_spreads repaired pi2 S F A = Done []) as Hs.
  { split; apply rule_fragment_spreads_half; try assumption.
    - apply (cycle_ok_order pi1 pi2 H1 H2).
    - apply (spreads_enter_order pi1 pi2 H1 H2).
    - intros n. symmetry. apply (cycle_ok_order pi1 pi2 H1 H2).
    - intros st n. symmetry. apply (spreads_enter_order pi1 pi2 H1 H2). }
  rewrite Hs. tauto.
Qed.
