(** * Vld/ValidatorProofs.v — proofs about the validator model (C04). *)
From Coq Require Import List NArith ZArith Bool Lia Permutation.
From ApiFu Require Import Base.Sexp Vld.Ast Vld.Inspect Vld.Literals Vld.TypeInfoModel Vld.ValidatorModel Vld.ValidSpec.
Import ListNotations.

(** ** the primary / secondary filter (validator.go:82-91) *)
Lemma filter_primary_nil errs : filter_primary errs = [] <-> errs = [].
Proof.
  unfold filter_primary. split.
  - destruct (filter (fun e => negb (e_sec e)) errs) eqn:E; [auto | discriminate].
  - intros ->. reflexivity.
Qed.

Lemma filter_primary_incl errs e : In e (filter_primary errs) -> In e errs.
Proof.
  unfold filter_primary.
  destruct (filter (fun e => negb (e_sec e)) errs) eqn:E; [auto |].
  intros H. rewrite <- E in H. apply filter_In in H. tauto.
Qed.

(** a secondary error is returned only when every error is secondary *)
Lemma filter_primary_secondary errs e :
  In e (filter_primary errs) -> e_sec e = true -> forall e', In e' errs -> e_sec e' = true.
Proof.
  unfold filter_primary.
  destruct (filter (fun e => negb (e_sec e)) errs) eqn:E.
  - intros _ _ e' He'. destruct (e_sec e') eqn:Es; [reflexivity |].
    assert (In e' (filter (fun e => negb (e_sec e)) errs)) as Hin
        by (apply filter_In; split; [assumption | rewrite Es; reflexivity]).
    rewrite E in Hin. destruct Hin.
  - intros H Hs. rewrite <- E in H. apply filter_In in H. destruct H as [_ H].
    rewrite Hs in H. discriminate.
Qed.
