(** * Vld/Inspect.v — graphql/ast/inspect.go.
    [to_tree] lists, for every node, the children in the order [ast.Inspect] visits them;
    [inspect] is the traversal itself: call the visitor on the node; if it answers [false] return
    at once (no leave call); otherwise visit the children and then call the visitor with nil. *)
From Coq Require Import List NArith Bool.
From ApiFu Require Import Base.Sexp Vld.Ast.
Import ListNotations.

Inductive node :=
| NDoc (d : document)
| NDef (d : definition)                    (* *OperationDefinition / *FragmentDefinition *)
| NOpType (v : name) (p : pos)
| NName (n : name) (p : pos)
| NVarDef (v : vardef)
| NType (t : ty)                           (* *NamedType / *ListType / *NonNullType *)
| NDirective (d : directive)
| NSelSet (s : selset)
| NSel (s : selection)                     (* *Field / *FragmentSpread / *InlineFragment *)
| NArgument (a : argument)
| NValue (v : value)
| NObjField (n : name) (p : pos) (v : value).

Inductive tree := T (n : node) (cs : list tree).

Definition opt_tree {A} (f : A -> tree) (o : option A) : list tree :=
  match o with Some x => [f x] | None => [] end.
Definition name_tree (np : name * pos) : tree := T (NName (fst np) (snd np)) [].

Fixpoint tree_value (v : value) : tree :=
  T (NValue v)
    match v with
    | VVar _ n _ np => [name_tree (n, np)]
    | VList _ vs _ => map tree_value vs
    | VObject _ fs _ =>
        map (fun f => match f with (n, p, x) => T (NObjField n p x) [name_tree (n, p); tree_value x] end) fs
    | _ => []
    end.

Fixpoint tree_ty (t : ty) : tree :=
  T (NType t)
    match t with
    | TNamed n p => [name_tree (n, p)]
    | TList t' _ => [tree_ty t']
    | TNonNull t' => [tree_ty t']
    end.

Definition tree_arg (a : argument) : tree :=
  T (NArgument a) [name_tree (a_name a, a_pos a); tree_value (a_value a)].
Definition tree_dir (d : directive) : tree :=
  T (NDirective d) (name_tree (d_name d, d_npos d) :: map tree_arg (d_args d)).
Definition tree_named_type (np : name * pos) : tree :=
  T (NType (TNamed (fst np) (snd np))) [name_tree np].

Fixpoint tree_sel (s : selection) : tree :=
  T (NSel s)
    match s with
    | SField _ alias n np args dirs sub =>
        opt_tree name_tree alias ++ [name_tree (n, np)] ++ map tree_arg args ++ map tree_dir dirs
        ++ opt_tree tree_ss sub
    | SSpread n np dirs _ => name_tree (n, np) :: map tree_dir dirs
    | SInline cond dirs sub _ => opt_tree tree_named_type cond ++ map tree_dir dirs ++ [tree_ss sub]
    end
with tree_ss (s : selset) : tree :=
  T (NSelSet s) match s with SelSet _ sels _ => map tree_sel sels end.

Definition tree_vardef (v : vardef) : tree :=
  T (NVarDef v)
    ([tree_value (VVar no_vann (vd_name v) (vd_dollar v) (vd_npos v)); tree_ty (vd_type v)]
     ++ opt_tree tree_value (vd_default v)).

Definition tree_def (d : definition) : tree :=
  T (NDef d)
    match d with
    | DOp ot n vars dirs sub =>
        opt_tree (fun x => T (NOpType (fst x) (snd x)) []) ot ++ opt_tree name_tree n
        ++ map tree_vardef vars ++ map tree_dir dirs ++ [tree_ss sub]
    | DFrag _ n np _ dirs sub =>
        (* Inspect does not visit FragmentDefinition.TypeCondition *)
        name_tree (n, np) :: map tree_dir dirs ++ [tree_ss sub]
    end.

Definition tree_doc (D : document) : tree := T (NDoc D) (map tree_def D).

Section Inspect.
  Variable St : Type.
  Variable enter : St -> node -> St * bool.
  Variable leave : St -> St.
  Fixpoint inspect (t : tree) (s : St) : St :=
    match t with
    | T n cs =>
        match enter s n with
        | (s1, true) => leave (fold_left (fun acc c => inspect c acc) cs s1)
        | (s1, false) => s1
        end
    end.
End Inspect.
Arguments inspect {St} enter leave t s.

(** Node.Position() *)
Definition node_pos (n : node) : pos :=
  match n with
  | NDoc _ => (1%N, 1%N)
  | NDef d => def_pos d
  | NOpType _ p => p
  | NName _ p => p
  | NVarDef v => vd_dollar v
  | NType t => ty_pos t
  | NDirective d => d_at d
  | NSelSet s => ss_pos s
  | NSel s => sel_pos s
  | NArgument a => a_pos a
  | NValue v => v_pos v
  | NObjField _ p _ => p
  end.

Fixpoint tree_nodes (t : tree) : list node :=
  match t with T n cs => n :: flat_map tree_nodes cs end.
