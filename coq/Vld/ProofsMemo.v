(** * Vld/ProofsMemo.v — the checked-pairs memo of the overlapping-fields pass (repair 92e8fdd).
    [can_merge_m] / [same_shape_m] thread the two sets of checked pairs; [can_merge] / [same_shape]
    are the same algorithm without them.  Proved here: the memo never turns an accepted selection
    set into a rejected one (every check the memoised pass makes, the plain pass makes too), and the
    memoised pass is total like the plain one.  The converse (the memo never hides a conflict) is
    open: it needs the acyclicity of the fragment graph. *)
From Coq Require Import List NArith Arith Bool Lia.
From ApiFu Require Import Base.Sexp Vld.Ast Vld.Inspect Vld.InspectProofs Vld.TypeInfoModel Vld.TypeInfoPure
     Vld.ValidatorModel Vld.ProofsCommon Vld.ProofsValues Vld.ProofsOrder Vld.ProofsTotal.
Import ListNotations.

Lemma first_err_m_ok {A} (f : A -> mres) (g : A -> memo -> mres * memo) l :
  (forall x, In x l -> f x = MOk -> forall mm, exists mm', g x mm = (MOk, mm')) ->
  first_err f l = MOk -> forall mm, exists mm', first_err_m g l mm = (MOk, mm').
Proof.
  induction l as [|x l IH]; intros H Hf mm; [exists mm; reflexivity |]. simpl in *.
  destruct (f x) eqn:E; try discriminate.
  destruct (H x (or_introl eq_refl) E mm) as [mm1 E1]. rewrite E1.
  apply IH; [| exact Hf]. intros y Hy. apply H. right. exact Hy.
Qed.
Lemma pairs_first_m_ok {A} (f : A -> A -> mres) (g : A -> A -> memo -> mres * memo) l :
  (forall x y, f x y = MOk -> forall mm, exists mm', g x y mm = (MOk, mm')) ->
  pairs_first f l = MOk -> forall mm, exists mm', pairs_first_m g l mm = (MOk, mm').
Proof.
  intros H. induction l as [|x l IH]; intros Hf mm; [exists mm; reflexivity |]. simpl in *.
  destruct (first_err (f x) l) eqn:E; try discriminate.
  destruct (first_err_m_ok (f x) (g x) l (fun y _ => H x y) E mm) as [mm1 E1]. rewrite E1.
  apply IH. exact Hf.
Qed.

Section Memo.
  Variable q : quirks.
  Variable pi : order.
  Variable S : schema.
  Variable D : document.

  Lemma same_shape_m_ok depth : forall A B,
    same_shape q pi S D depth A B = MOk -> forall mm, exists mm', same_shape_m q pi S D depth A B mm = (MOk, mm').
  Proof.
    induction depth as [|d IH]; intros A B H mm.
    - simpl in H. destruct (q_depth q); discriminate.
    - cbn [same_shape_m]. destruct (already (snd mm) A B) as [seen ss']. destruct seen; [exists mm; reflexivity |].
      simpl in H.
      destruct (shape_type A) as [tA | e]; [| discriminate].
      destruct (shape_type B) as [tB | e]; [| discriminate].
      destruct (shape_loop tA tB) as [[a b] | k]; [| discriminate].
      destruct (is_leaf_sty S a || is_leaf_sty S b).
      + destruct (sty_eqb a b); [eexists; reflexivity | discriminate].
      + destruct (add_selections q D [] (sel_sub A)) as [m1 v1 | e |]; try discriminate.
        destruct (add_selections q D m1 (sel_sub B)) as [m2 v2 | e |]; try discriminate.
        apply (first_err_m_ok _ _ _ (fun g _ Hg => pairs_first_m_ok _ _ (snd g) (fun x y => IH (fst3 x) (fst3 y)) Hg) H).
  Qed.

  Lemma pair_check_m_ok r rm depth x y :
    (forall m, r m = MOk -> forall mm, exists mm', rm m mm = (MOk, mm')) ->
    pair_check q pi S D r depth x y = MOk -> forall mm, exists mm', pair_check_m q pi S D rm depth x y mm = (MOk, mm').
  Proof.
    intros Hr H mm. unfold pair_check_m. destruct (already (fst mm) (fst3 x) (fst3 y)) as [seen cm']. destruct seen; [exists mm; reflexivity |].
    unfold pair_check in H.
    destruct (same_shape q pi S D depth (fst3 x) (fst3 y)) eqn:Es; try discriminate.
    destruct (same_shape_m_ok depth _ _ Es (cm', snd mm)) as [mm2 E2]. rewrite E2.
    destruct (snd (fst x)); [| discriminate]. destruct (snd (fst y)); [| discriminate].
    destruct (name_eqb _ _ || _ || _); [| eexists; reflexivity].
    destruct (negb _); [discriminate |].
    destruct (args_check q (fst3 x) (fst3 y)); try discriminate.
    destruct (add_selections q D [] (sel_sub (fst3 x))) as [m1 v1 | e |]; try discriminate.
    destruct (add_selections q D m1 (sel_sub (fst3 y))) as [m2 v2 | e |]; try discriminate.
    apply Hr. exact H.
  Qed.

  Lemma can_merge_m_ok depth : forall m,
    can_merge q pi S D depth m = MOk -> forall mm, exists mm', can_merge_m q pi S D depth m mm = (MOk, mm').
  Proof.
    induction depth as [|d IH]; intros m H mm; cbn [can_merge can_merge_m] in *.
    - apply (first_err_m_ok _ _ _ (fun g _ Hg => pairs_first_m_ok _ _ (snd g)
               (fun x y => pair_check_m_ok _ _ 0 x y (fun m' _ mm0 => ex_intro _ mm0 eq_refl)) Hg) H).
    - apply (first_err_m_ok _ _ _ (fun g _ Hg => pairs_first_m_ok _ _ (snd g)
               (fun x y => pair_check_m_ok _ _ (Datatypes.S d) x y IH) Hg) H).
  Qed.

  (** a selection set the plain visitor passes, the memoised visitor passes *)
  Lemma merge_enter_m_ok st mm n :
    merge_ok q S D pi n = true -> exists mm', merge_enter_m q pi S D (st, mm) n = ((st, mm'), true).
  Proof.
    unfold merge_ok, merge_enter_m. destruct n; try (intros _; exists mm; reflexivity).
    destruct (add_selections q D [] (Some s)) as [m v | e |]; try discriminate.
    destruct (can_merge q pi S D (max_depth D) m) eqn:Ec; try discriminate. intros _.
    destruct (can_merge_m_ok _ m Ec mm) as [mm' E]. cbn [snd fst]. rewrite E. exists mm'. reflexivity.
  Qed.

  Lemma inspect_memo_ok t : forall st mm,
    (forall n, In n (tree_nodes t) -> merge_ok q S D pi n = true) ->
    exists mm', inspect (merge_enter_m q pi S D) (fun s => s) t (st, mm) = (st, mm').
  Proof.
    induction t as [n cs IH] using tree_ind'. intros st mm H. cbn [inspect].
    destruct (merge_enter_m_ok st mm n (H n (or_introl eq_refl))) as [mm1 E]. rewrite E.
    assert (forall c, In c cs -> forall m, In m (tree_nodes c) -> merge_ok q S D pi m = true) as Hcs.
    { intros c Hc m Hm. apply H. right. apply in_flat_map. exists c. split; assumption. }
    clear H E. revert mm1. induction IH as [|c cs' Hc _ IHcs]; intros mm1; [exists mm1; reflexivity |]. cbn [fold_left].
    destruct (Hc st mm1 (Hcs c (or_introl eq_refl))) as [mm2 E2]. rewrite E2.
    apply IHcs. intros c' Hc' m Hm. apply (Hcs c'); [right; exact Hc' | exact Hm].
  Qed.
End Memo.

(** ** the rule and the pipeline *)
Theorem rule_fields_memo_accepts q pi S F D :
  rule_fields q pi S F D = Done [] -> rule_fields_m q pi S F D = Done [].
Proof.
  unfold rule_fields, rule_fields_m. rewrite !finish_clean.
  rewrite (inspect_guard rst clean (merge_ok q S D pi) _ (merge_enter_ok q S D pi) (merge_enter_bad q S D pi)).
  intros [Hc Hn]. destruct (inspect_memo_ok q pi S D (tree_doc D) (inspect (fields_enter S F) pop (tree_doc D) rst0) memo0 Hn) as [mm' E]. rewrite E. exact Hc.
Qed.

Lemma all_rules_m_nil q pi S F A :
  all_rules_m q pi S F A = Done [] <->
  rule_operations q A = Done [] /\ rule_fields_m q pi S F A = Done [] /\ rule_arguments q pi S A = Done [] /\
  (rule_fragment_declarations pi S F A = [] /\ rule_fragment_spreads q pi S F A = Done []) /\
  rule_values q pi S A = Done [] /\ rule_directives q S A = Done [] /\ rule_variables pi S A = Done [].
Proof.
  unfold all_rules_m, rule_document, rule_fragments. cbn [fold_left].
  assert (forall a b, seq_outcome a b = Done [] <-> a = Done [] /\ b = Done []) as Hseq.
  { intros a b. destruct a as [e1 | s1 |]; destruct b as [e2 | s2 |]; simpl;
      try (split; [discriminate | intros [H1 H2]; discriminate]).
    split; [intros H; inversion H as [H']; apply app_eq_nil in H' as [-> ->]; auto | intros [H1 H2]; inversion H1; inversion H2; subst; reflexivity]. }
  rewrite !Hseq, !Done_nil_iff. intuition.
Qed.

Lemma ValidatorProofs_filter errs : filter_primary errs = [] -> errs = [].
Proof. unfold filter_primary. destruct (filter (fun e => negb (e_sec e)) errs) eqn:E; [auto | discriminate]. Qed.
Lemma all_rules_nil_local q pi S F A :
  all_rules q pi S F A = Done [] ->
  rule_operations q A = Done [] /\ rule_fields q pi S F A = Done [] /\ rule_arguments q pi S A = Done [] /\
  (rule_fragment_declarations pi S F A = [] /\ rule_fragment_spreads q pi S F A = Done []) /\
  rule_values q pi S A = Done [] /\ rule_directives q S A = Done [] /\ rule_variables pi S A = Done [].
Proof.
  unfold all_rules, rule_document, rule_fragments. cbn [fold_left].
  assert (forall a b, seq_outcome a b = Done [] <-> a = Done [] /\ b = Done []) as Hseq.
  { intros a b. destruct a as [e1 | s1 |]; destruct b as [e2 | s2 |]; simpl;
      try (split; [discriminate | intros [H1 H2]; discriminate]).
    split; [intros H; inversion H as [H']; apply app_eq_nil in H' as [-> ->]; auto | intros [H1 H2]; inversion H1; inversion H2; subst; reflexivity]. }
  rewrite !Hseq, !Done_nil_iff. intuition.
Qed.

Theorem validate_memo_accepts q pi S F D :
  validate_model q pi S F D = Done [] -> validate_model_memo q pi S F D = Done [].
Proof.
  unfold validate_model, validate_model_memo. rewrite type_info_pure.
  set (A := pti_doc (q_unwrap_obj q) S F D).
  destruct (all_rules q pi S F A) as [errs | s |] eqn:E; try discriminate.
  intros H. inversion H as [H']. apply ValidatorProofs_filter in H'. subst errs.
  assert (all_rules_m q pi S F A = Done []) as Em.
  { apply all_rules_m_nil. apply all_rules_nil_local in E. destruct E as [H1 [H2 H3]]. split; [exact H1 |]. split; [apply rule_fields_memo_accepts; exact H2 | exact H3]. }
  rewrite Em. reflexivity.
Qed.

(** ** the memoised pass is total *)
Definition safe_m (r : mres * memo) : Prop := safe (fst r).

Lemma first_err_m_safe {A} (g : A -> memo -> mres * memo) l :
  (forall x, In x l -> forall mm, safe_m (g x mm)) -> forall mm, safe_m (first_err_m g l mm).
Proof.
  induction l as [|x l IH]; intros H mm; [exact I |]. simpl.
  pose proof (H x (or_introl eq_refl) mm) as Hx. destruct (g x mm) as [[| e | s |] mm1]; try exact Hx.
  apply IH. intros y Hy. apply H. right. exact Hy.
Qed.
Lemma pairs_first_m_safe {A} (g : A -> A -> memo -> mres * memo) l :
  (forall x y, In x l -> In y l -> forall mm, safe_m (g x y mm)) -> forall mm, safe_m (pairs_first_m g l mm).
Proof.
  induction l as [|x l IH]; intros H mm; [exact I |]. simpl.
  assert (safe_m (first_err_m (g x) l mm)) as Hx by (apply first_err_m_safe; intros y Hy; apply H; [left; reflexivity | right; exact Hy]).
  destruct (first_err_m (g x) l mm) as [[| e | s |] mm1]; try exact Hx.
  apply IH. intros y z Hy Hz. apply H; right; assumption.
Qed.

Section MemoTotal.
  Variable pi : order.
  Hypothesis Hpi : order_ok pi.
  Variable q : quirks.
  Hypothesis q_depth_on : q_depth q = true.
  Hypothesis q_nil_arg_on : q_nil_arg q = true.
  Variable S : schema.
  Variable D : document.

  Lemma group_m_safe (g : fp -> fp -> memo -> mres * memo) m :
    fm_ok D m -> (forall x y, field_ok D (fst3 x) -> field_ok D (fst3 y) -> forall mm, safe_m (g x y mm)) ->
    forall mm, safe_m (first_err_m (fun gr => pairs_first_m g (snd gr)) (pi _ m) mm).
  Proof.
    intros Hm Hg. apply first_err_m_safe. intros [k l] Hin. apply (proj1 (order_in pi Hpi _ _)) in Hin. simpl.
    apply pairs_first_m_safe. intros x y Hx Hy. apply Hg; [apply (Hm k l x Hin Hx) | apply (Hm k l y Hin Hy)].
  Qed.

  Lemma same_shape_m_safe depth : forall A B, field_ok D A -> field_ok D B -> forall mm, safe_m (same_shape_m q pi S D depth A B mm).
  Proof.
    induction depth as [|d IH]; intros A B HA HB mm.
    - unfold safe_m. simpl. rewrite q_depth_on. exact I.
    - cbn [same_shape_m]. destruct (already (snd mm) A B) as [seen ss']. destruct seen; [exact I |].
      destruct (shape_type A) as [tA | e]; [| exact I].
      destruct (shape_type B) as [tB | e]; [| exact I].
      destruct (shape_loop tA tB) as [[a b] | k]; [| exact I].
      destruct (is_leaf_sty S a || is_leaf_sty S b); [destruct (sty_eqb a b); exact I |].
      pose proof (merged_subs q D A B (fun _ => True) HA HB) as Hm.
      destruct (add_selections q D [] (sel_sub A)) as [m1 v1 | e |]; [| exact I | exact Hm].
      destruct (add_selections q D m1 (sel_sub B)) as [m2 v2 | e |]; [| exact I | exact Hm].
      apply group_m_safe; [exact Hm |]. intros x y Hx Hy mm0. apply IH; assumption.
  Qed.

  Lemma pair_check_m_safe recur depth x y :
    (forall m, fm_ok D m -> forall mm, safe_m (recur m mm)) -> field_ok D (fst3 x) -> field_ok D (fst3 y) ->
    forall mm, safe_m (pair_check_m q pi S D recur depth x y mm).
  Proof.
    intros Hr Hx Hy mm. unfold pair_check_m. destruct (already (fst mm) (fst3 x) (fst3 y)) as [seen cm']. destruct seen; [exact I |].
    pose proof (same_shape_m_safe depth (fst3 x) (fst3 y) Hx Hy (cm', snd mm)) as Hs.
    destruct (same_shape_m q pi S D depth (fst3 x) (fst3 y) (cm', snd mm)) as [[| e | s |] mm2]; try exact Hs.
    destruct (snd (fst x)); [| exact I]. destruct (snd (fst y)); [| exact I].
    destruct (name_eqb _ _ || _ || _); [| exact I].
    destruct (negb _); [exact I |].
    pose proof (args_check_safe q q_nil_arg_on (fst3 x) (fst3 y)) as Ha.
    destruct (args_check q (fst3 x) (fst3 y)); try exact Ha; try exact I.
    pose proof (merged_subs q D (fst3 x) (fst3 y) (fun _ => True) Hx Hy) as Hm.
    destruct (add_selections q D [] (sel_sub (fst3 x))) as [m1 v1 | e |]; [| exact I | exact Hm].
    destruct (add_selections q D m1 (sel_sub (fst3 y))) as [m2 v2 | e |]; [| exact I | exact Hm].
    apply Hr, Hm.
  Qed.

  Lemma can_merge_m_safe depth : forall m, fm_ok D m -> forall mm, safe_m (can_merge_m q pi S D depth m mm).
  Proof.
    induction depth as [|d IH]; intros m Hm mm; cbn [can_merge_m]; (apply group_m_safe; [exact Hm |]);
      intros x y Hx Hy mm0; apply pair_check_m_safe; try assumption.
    intros m' _ mm1. exact I.
  Qed.
End MemoTotal.

Lemma inspect_inv {St} (P : St -> Prop) (enter : St -> node -> St * bool) t :
  (forall n, In n (tree_nodes t) -> forall st, P st -> P (fst (enter st n))) ->
  forall st, P st -> P (inspect enter (fun s => s) t st).
Proof.
  induction t as [n cs IH] using tree_ind'. intros H st Hst. cbn [inspect].
  pose proof (H n (or_introl eq_refl) st Hst) as Hn. destruct (enter st n) as [s1 b]. simpl in Hn. destruct b; [| exact Hn].
  assert (forall c, In c cs -> forall m, In m (tree_nodes c) -> forall st0, P st0 -> P (fst (enter st0 m))) as Hcs.
  { intros c Hc m Hm. apply H. right. apply in_flat_map. exists c. split; assumption. }
  clear H. revert s1 Hn. induction IH as [|c cs' Hc _ IHcs]; intros s1 Hs1; [exact Hs1 |]. simpl.
  apply IHcs.
  - intros c' Hc' m Hm. apply (Hcs c'); [right; exact Hc' | exact Hm].
  - apply Hc; [| exact Hs1]. intros m Hm. apply (Hcs c); [left; reflexivity | exact Hm].
Qed.

Lemma rule_fields_m_total pi (Hpi : order_ok pi) S F A : exists errs, rule_fields_m repaired pi S F A = Done errs.
Proof.
  unfold rule_fields_m. eexists. apply finish_done.
  apply (inspect_inv (fun st : rst * memo => r_abort (fst st) = None)).
  - intros n Hn [st mm] Hst. simpl in Hst. unfold merge_enter_m. destruct n; try exact Hst.
    pose proof (add_selections_total repaired A [] (Some s)) as Hc. cbn [fst snd].
    destruct (add_selections repaired A [] (Some s)) as [m v | e |].
    + assert (fm_ok A m) as Hm.
      { apply Hc; [| apply fm_ok_nil]. intros ss Hss. inversion Hss; subst ss. apply selset_nodes_doc. exact Hn. }
      pose proof (can_merge_m_safe pi Hpi repaired eq_refl eq_refl S A (max_depth A) m Hm mm) as Hs.
      destruct (can_merge_m repaired pi S A (max_depth A) m mm) as [[| e | s0 |] mm']; try exact Hst; destruct Hs.
    + exact Hst.
    + exfalso. apply Hc. intros ss Hss. inversion Hss; subst ss. apply selset_nodes_doc. exact Hn.
  - cbn [fst]. rewrite (inspect_doc_safe (fields_enter S F) (fields_enter_true S F) (fields_enter_push S F) (fields_enter_abort S F)). reflexivity.
Qed.

(** the validator as it is on the current tree never panics and never runs out of fuel *)
Theorem validate_memo_no_panic pi S F D :
  order_ok pi -> exists errs, validate_model_memo repaired pi S F D = Done errs.
Proof.
  intros Hpi. unfold validate_model_memo. rewrite type_info_pure.
  set (A := pti_doc (q_unwrap_obj repaired) S F D).
  assert (exists errs, all_rules_m repaired pi S F A = Done errs) as [errs ->]; [| eexists; reflexivity].
  unfold all_rules_m, rule_document, rule_fragments, rule_arguments, rule_directives. cbn [fold_left].
  destruct (rule_operations_total A) as [e1 ->]. destruct (rule_fields_m_total pi Hpi S F A) as [e2 ->].
  destruct (rule_fragment_spreads_total pi Hpi S F A) as [e4 ->]. rewrite rule_values_eq.
  destruct (rule_variables_total pi Hpi S A) as [e7 ->]. simpl. eexists. reflexivity.
Qed.
