(** * Vld/ProofsMergeLocal.v — the local checks of the overlapping-fields pass against the Spec's:
    valuesAreIdentical = [same_value]; the argument comparison = [same_args] when argument names are
    unique (5.4.2); the unwrapping loop of validateSameResponseShape = [strip_shape] on types without
    a non-null directly inside a non-null. *)
From Coq Require Import List NArith Arith Bool Lia.
From ApiFu Require Import Base.Sexp Vld.Ast Vld.AstInd Vld.TypeInfoModel Vld.ValidatorModel Vld.ValidSpec Vld.ProofsCommon Vld.ProofsOrder.
Import ListNotations.

(** ** values *)
Lemma values_identical_spec v w : values_identical v w = same_value v w.
Proof.
  revert w. induction v as [an n dl np | | | | | | | an vs p IH | an fs p IH] using value_ind'; intros w; destruct w; reflexivity.
Qed.

(** ** arguments *)
Lemma arg_last_some n l x : arg_last n l = Some x -> In x l /\ a_name x = n.
Proof.
  induction l as [|a r IH]; [discriminate |]. cbn [arg_last]. destruct (arg_last n r) as [y|].
  - intros H. inversion H; subst y. destruct (IH eq_refl) as [H1 H2]. split; [right; exact H1 | exact H2].
  - destruct (name_eqb n (a_name a)) eqn:E; [| discriminate]. intros H. inversion H; subst. apply name_eqb_eq in E. split; [left; reflexivity | symmetry; exact E].
Qed.
Lemma arg_last_unique n l x : NoDup (map a_name l) -> In x l -> a_name x = n -> arg_last n l = Some x.
Proof.
  induction l as [|a r IH]; intros Hnd Hin Hn; [destruct Hin |]. cbn [map] in Hnd. inversion Hnd as [| ? ? Hni Hnd']; subst. cbn [arg_last].
  destruct Hin as [-> | Hin].
  - destruct (arg_last (a_name x) r) as [y|] eqn:E; [| rewrite name_eqb_refl; reflexivity].
    exfalso. apply arg_last_some in E as [E1 E2]. apply Hni. rewrite <- E2. apply in_map. exact E1.
  - rewrite (IH Hnd' Hin eq_refl). reflexivity.
Qed.

Theorem args_check_same_args X Y :
  NoDup (map a_name (sel_args X)) -> NoDup (map a_name (sel_args Y)) ->
  (args_check repaired X Y = MOk <-> same_args (sel_args X) (sel_args Y) = true).
Proof.
  intros Ha Hb. unfold args_check, same_args. set (a := sel_args X) in *. set (b := sel_args Y) in *.
  destruct (Nat.eqb (length a) (length b)) eqn:El; cbn [negb andb]; [| split; discriminate].
  apply Nat.eqb_eq in El. rewrite first_err_ok, andb_true_iff, !forallb_forall.
  assert ((forall y, In y b -> match arg_last (a_name y) a with
                               | Some argA => if values_identical (a_value argA) (a_value y) then MOk else MErr (err2 EMergeArgs (a_pos argA) (a_pos y))
                               | None => MErr (err2 EMergeArgs (sel_pos X) (sel_pos Y))
                               end = MOk) <->
          (forall y, In y b -> exists x, In x a /\ a_name x = a_name y /\ same_value (a_value x) (a_value y) = true)) as Hmodel.
  { split; intros H y Hy; specialize (H y Hy).
    - destruct (arg_last (a_name y) a) as [x|] eqn:E; [| discriminate H]. destruct (arg_last_some _ _ _ E) as [E1 E2].
      exists x. split; [exact E1 |]. split; [exact E2 |]. rewrite <- values_identical_spec. destruct (values_identical (a_value x) (a_value y)); [reflexivity | discriminate H].
    - destruct H as [x [Hx [Hn Hv]]]. rewrite (arg_last_unique _ a x Ha Hx Hn), values_identical_spec, Hv. reflexivity. }
  cbn [q_nil_arg repaired]. rewrite Hmodel. clear Hmodel. split.
  - intros H. split.
    + (* every argument of X has its counterpart: the names of Y are all the names of X *)
      assert (incl (map a_name a) (map a_name b)) as Hincl.
      { apply NoDup_length_incl; [exact Hb | rewrite !map_length; lia |].
        intros n Hn. apply in_map_iff in Hn as [y [<- Hy]]. destruct (H y Hy) as [x [Hx [Hxn _]]]. rewrite <- Hxn. apply in_map. exact Hx. }
      intros x Hx. apply existsb_exists. assert (In (a_name x) (map a_name b)) as Hn by (apply Hincl; apply in_map; exact Hx).
      apply in_map_iff in Hn as [y [Hyn Hy]]. exists y. split; [exact Hy |].
      destruct (H y Hy) as [x' [Hx' [Hxn Hv]]].
      assert (x' = x) as ->.
      { assert (arg_last (a_name y) a = Some x') as E1 by (apply (arg_last_unique _ a x' Ha Hx' Hxn)).
        assert (arg_last (a_name y) a = Some x) as E2 by (apply (arg_last_unique _ a x Ha Hx); symmetry; exact Hyn). congruence. }
      rewrite Hv, andb_true_r. apply name_eqb_eq. symmetry. exact Hyn.
    + intros y Hy. apply existsb_exists. destruct (H y Hy) as [x [Hx [Hxn Hv]]]. exists x. split; [exact Hx |]. rewrite Hv, andb_true_r. apply name_eqb_eq. exact Hxn.
  - intros [_ H2] y Hy. specialize (H2 y Hy). apply existsb_exists in H2 as [x [Hx Hxy]]. apply andb_true_iff in Hxy as [Hn Hv]. apply name_eqb_eq in Hn.
    exists x. auto.
Qed.

(** ** the unwrapping loop *)
Fixpoint wf_sty (t : sty) : bool :=
  match t with
  | StNamed _ => true
  | StList t' => wf_sty t'
  | StNonNull t' => match t' with StNonNull _ => false | _ => wf_sty t' end
  end.

Definition loop_result (r : (sty * sty) + ekind) : option (sty * sty) := match r with inl p => Some p | inr _ => None end.

Lemma shape_loop_strip_gen t :
  (forall tB, wf_sty t = true -> wf_sty tB = true -> loop_result (shape_loop t tB) = strip_shape t tB) /\
  (forall tB, wf_sty (StNonNull t) = true -> wf_sty tB = true -> loop_result (shape_loop (StNonNull t) tB) = strip_shape (StNonNull t) tB).
Proof.
  induction t as [n | a' IH | t' IH].
  - split; intros tB _ HB.
    + destruct tB as [m | b | b]; reflexivity.
    + destruct tB as [m | b | b]; try reflexivity. cbn [wf_sty] in HB. destruct b as [m | b' | b']; try reflexivity. discriminate HB.
  - destruct IH as [IH1 _]. split; intros tB HA HB.
    + destruct tB as [m | b' | b]; try reflexivity. cbn [shape_loop is_nonnull strip_shape]. apply IH1; [exact HA | exact HB].
    + destruct tB as [m | b | b]; try reflexivity. cbn [wf_sty] in HA, HB.
      destruct b as [m | b' | b']; try reflexivity. cbn [shape_loop strip_shape]. apply IH1; [exact HA | exact HB].
  - destruct IH as [_ IH2]. split; intros tB HA HB.
    + apply IH2; assumption.
    + cbn [wf_sty] in HA. discriminate HA.
Qed.

Theorem shape_loop_strip tA tB a b :
  wf_sty tA = true -> wf_sty tB = true -> (shape_loop tA tB = inl (a, b) <-> strip_shape tA tB = Some (a, b)).
Proof.
  intros HA HB. rewrite <- (proj1 (shape_loop_strip_gen tA) tB HA HB). destruct (shape_loop tA tB) as [p | k]; cbn [loop_result].
  - split; intros H; inversion H; reflexivity.
  - split; discriminate.
Qed.

(** leaf types: the same test *)
Lemma is_leaf_sty_spec S t : is_leaf_sty S t = leaf_sty S t.
Proof. reflexivity. Qed.
