(** * Vld/ProofsMergeSound.v — soundness of the overlapping-fields pass (5.3.2), declaratively.
    On an accepted document, for every selection set, the fields addFieldSelections files under one
    response key are pairwise fine: their types have compatible shapes ([ShapeOK], recursively through
    the merged sub-selections), and when their parent types are the same or one of them is not an
    object type they name the same field, have identical arguments, and the merged sub-selections
    are fine again ([MergeOK]). *)
From Coq Require Import List NArith Arith Bool Lia.
From ApiFu Require Import Base.Sexp Vld.Ast Vld.AstInd Vld.Inspect Vld.InspectProofs Vld.TypeInfoModel Vld.TypeInfoPure Vld.Enumerate
     Vld.ValidatorModel Vld.ValidSpec Vld.Hyps Vld.ProofsCommon Vld.ProofsOrder Vld.ProofsTotal Vld.ProofsMemo Vld.ProofsMemoConverse
     Vld.ValidatorProofs Vld.MemoEquiv.
Import ListNotations.

Lemma pairs_first_FOP {X} (f : X -> X -> mres) (P : X -> X -> Prop) l :
  (forall x y, In x l -> In y l -> f x y = MOk -> P x y) -> pairs_first f l = MOk -> ForallOrdPairs P l.
Proof.
  induction l as [|x r IH]; intros H Hp; [constructor |]. cbn [pairs_first] in Hp.
  destruct (first_err (f x) r) eqn:E; try discriminate Hp. constructor.
  - apply Forall_forall. intros y Hy. apply H; [left; reflexivity | right; exact Hy |]. apply (proj1 (first_err_ok (f x) r) E y Hy).
  - apply IH; [| exact Hp]. intros a b Ha Hb. apply H; right; assumption.
Qed.

Section Sound.
  Variable pi : order.
  Hypothesis Hpi : order_ok pi.
  Variable S : schema.
  Variable A : document.
  Notation addsel := (add_selections repaired A).

  (** SameResponseShape *)
  Inductive ShapeOK : selection -> selection -> Prop :=
  | ShapeOK_intro X Y tX tY a b :
      shape_type X = inl tX -> shape_type Y = inl tY -> shape_loop tX tY = inl (a, b) ->
      (is_leaf_sty S a || is_leaf_sty S b = true -> sty_eqb a b = true) ->
      (is_leaf_sty S a || is_leaf_sty S b = false ->
       exists m1 v1 m2 v2, addsel [] (sel_sub X) = COk m1 v1 /\ addsel m1 (sel_sub Y) = COk m2 v2 /\
                           forall k l, In (k, l) m2 -> ForallOrdPairs (fun x y => ShapeOK (fst3 x) (fst3 y)) l) ->
      ShapeOK X Y.

  (** the parent types of two fields overlap as far as the validator can tell: the same type, or one
      of them is not an object type *)
  Definition may_overlap (pa pb : name) : bool := name_eqb pa pb || negb (is_object_name S pa) || negb (is_object_name S pb).

  (** FieldsInSetCanMerge *)
  Inductive MergeOK : fmap -> Prop :=
  | MergeOK_intro m :
      (forall k l, In (k, l) m ->
                   ForallOrdPairs (fun x y =>
                     ShapeOK (fst3 x) (fst3 y) /\
                     exists pa pb, snd (fst x) = Some pa /\ snd (fst y) = Some pb /\
                       (may_overlap pa pb = true ->
                        name_eqb (sel_name (fst3 x)) (sel_name (fst3 y)) = true /\
                        args_check repaired (fst3 x) (fst3 y) = MOk /\
                        exists m1 v1 m2 v2, addsel [] (sel_sub (fst3 x)) = COk m1 v1 /\ addsel m1 (sel_sub (fst3 y)) = COk m2 v2 /\ MergeOK m2)) l) ->
      MergeOK m.

  Lemma same_shape_sound d : forall X Y, same_shape repaired pi S A d X Y = MOk -> ShapeOK X Y.
  Proof.
    induction d as [|d IH]; intros X Y H; cbn [same_shape] in H; [discriminate H |].
    destruct (shape_type X) as [tX | e] eqn:EX; [| discriminate H]. destruct (shape_type Y) as [tY | e] eqn:EY; [| discriminate H].
    destruct (shape_loop tX tY) as [[a b] | k] eqn:El; [| discriminate H].
    apply (ShapeOK_intro X Y tX tY a b EX EY El).
    - intros Hl. rewrite Hl in H. destruct (sty_eqb a b); [reflexivity | discriminate H].
    - intros Hl. rewrite Hl in H.
      destruct (addsel [] (sel_sub X)) as [m1 v1 | e |] eqn:E1; try discriminate H.
      destruct (addsel m1 (sel_sub Y)) as [m2 v2 | e |] eqn:E2; try discriminate H.
      exists m1, v1, m2, v2. split; [first [exact E1 | reflexivity] |]. split; [first [exact E2 | reflexivity] |].
      intros k l Hkl. pose proof (proj1 (first_err_ok_order pi Hpi _ m2) H (k, l) Hkl) as Hp. cbn [snd] in Hp.
      apply (pairs_first_FOP _ _ l (fun x y _ _ Hxy => IH (fst3 x) (fst3 y) Hxy) Hp).
  Qed.

  Lemma can_merge_sound d : forall m, can_merge repaired pi S A d m = MOk -> MergeOK m.
  Proof.
    induction d as [|d IH]; intros m H; cbn [can_merge] in H; constructor; intros k l Hkl;
      pose proof (proj1 (first_err_ok_order pi Hpi _ m) H (k, l) Hkl) as Hp; cbn [snd] in Hp.
    - eapply pairs_first_FOP; [| exact Hp]. intros x y _ _ Hxy. unfold pair_check in Hxy. cbn [same_shape] in Hxy. discriminate Hxy.
    - eapply pairs_first_FOP; [| exact Hp]. intros x y _ _ Hxy. unfold pair_check in Hxy.
      destruct (same_shape repaired pi S A (Datatypes.S d) (fst3 x) (fst3 y)) eqn:Es; try discriminate Hxy.
      split; [apply (same_shape_sound _ _ _ Es) |].
      destruct (snd (fst x)) as [pa|]; [| discriminate Hxy]. destruct (snd (fst y)) as [pb|]; [| discriminate Hxy].
      exists pa, pb. split; [reflexivity |]. split; [reflexivity |]. unfold may_overlap. intros Ho. rewrite Ho in Hxy.
      destruct (name_eqb (sel_name (fst3 x)) (sel_name (fst3 y))); cbn [negb] in Hxy; [| discriminate Hxy]. split; [reflexivity |].
      destruct (args_check repaired (fst3 x) (fst3 y)); try discriminate Hxy. split; [reflexivity |].
      destruct (addsel [] (sel_sub (fst3 x))) as [m1 v1 | e |] eqn:E1; try discriminate Hxy.
      destruct (addsel m1 (sel_sub (fst3 y))) as [m2 v2 | e |] eqn:E2; try discriminate Hxy.
      exists m1, v1, m2, v2. split; [first [exact E1 | reflexivity] |]. split; [first [exact E2 | reflexivity] |]. apply IH. exact Hxy.
  Qed.
End Sound.

(** the two predicates, unfolded once *)
Lemma merge_ok_unfold S A m : MergeOK S A m ->
  forall k l, In (k, l) m ->
  ForallOrdPairs (fun x y =>
    ShapeOK S A (fst3 x) (fst3 y) /\
    exists pa pb, snd (fst x) = Some pa /\ snd (fst y) = Some pb /\
      (may_overlap S pa pb = true ->
       name_eqb (sel_name (fst3 x)) (sel_name (fst3 y)) = true /\
       args_check repaired (fst3 x) (fst3 y) = MOk /\
       exists m1 v1 m2 v2, add_selections repaired A [] (sel_sub (fst3 x)) = COk m1 v1 /\
                           add_selections repaired A m1 (sel_sub (fst3 y)) = COk m2 v2 /\ MergeOK S A m2)) l.
Proof. intros H. inversion H; assumption. Qed.
Lemma shape_ok_unfold S A X Y : ShapeOK S A X Y ->
  exists tX tY a b, shape_type X = inl tX /\ shape_type Y = inl tY /\ shape_loop tX tY = inl (a, b) /\
    (is_leaf_sty S a || is_leaf_sty S b = true -> sty_eqb a b = true) /\
    (is_leaf_sty S a || is_leaf_sty S b = false ->
     exists m1 v1 m2 v2, add_selections repaired A [] (sel_sub X) = COk m1 v1 /\ add_selections repaired A m1 (sel_sub Y) = COk m2 v2 /\
                         forall k l, In (k, l) m2 -> ForallOrdPairs (fun x y => ShapeOK S A (fst3 x) (fst3 y)) l).
Proof. intros H. inversion H; subst. exists tX, tY, a, b. auto. Qed.

(** the selection sets of a document are nodes of its tree *)
Lemma selset_nodes_conv :
  (forall s x, In x (subs_sel s) -> In (NSelSet x) (tree_nodes (tree_sel s))) /\
  (forall ss x, In x (subs_ss ss) -> In (NSelSet x) (tree_nodes (tree_ss ss))).
Proof.
  apply AstInd.sel_ss_ind.
  - intros a al n np args dirs sub IH x Hx. destruct sub as [ss|]; [| destruct Hx]. apply field_nodes. do 5 right. exists ss. split; [reflexivity | apply (IH ss eq_refl x Hx)].
  - intros n np dirs e x [].
  - intros cond dirs sub e IH x Hx. apply inline_nodes. do 3 right. apply (IH x Hx).
  - intros a sels p IH x Hx. rewrite subs_ss_eq in Hx. apply ss_nodes. destruct Hx as [<- | Hx]; [left; reflexivity | right].
    apply in_flat_map in Hx as [s [Hs Hx]]. exists s. split; [exact Hs |]. rewrite Forall_forall in IH. apply (IH s Hs x Hx).
Qed.
Lemma selset_nodes_doc_conv A x : In x (all_subs A) -> In (NSelSet x) (tree_nodes (tree_doc A)).
Proof.
  unfold all_subs, tree_doc. intros H. apply in_flat_map in H as [d [Hd H]]. cbn [tree_nodes]. right.
  apply in_flat_map. exists (tree_def d). split; [apply in_map; exact Hd |]. apply def_nodes. right. apply (proj2 selset_nodes_conv). exact H.
Qed.

(** ** accepted documents *)
Theorem rule_fields_silent_merge_sound pi S F A :
  order_ok pi -> rule_fields repaired pi S F A = Done [] ->
  forall ss, In ss (all_subs A) -> exists m v, add_selections repaired A [] (Some ss) = COk m v /\ MergeOK S A m.
Proof.
  intros Hpi H ss Hss. unfold rule_fields in H. apply finish_clean in H.
  apply (inspect_guard rst clean (merge_ok repaired S A pi) _ (merge_enter_ok repaired S A pi) (merge_enter_bad repaired S A pi)) in H as [_ H].
  specialize (H (NSelSet ss) (selset_nodes_doc_conv A ss Hss)). unfold merge_ok in H.
  destruct (add_selections repaired A [] (Some ss)) as [m v | e |]; try discriminate H.
  exists m, v. split; [reflexivity |].
  destruct (can_merge repaired pi S A (max_depth A) m) eqn:Ec; try discriminate H. apply (can_merge_sound pi Hpi S A _ m Ec).
Qed.

Theorem accepted_merge_sound pi S F D :
  order_ok pi -> validate_model repaired pi S F D = Done [] ->
  forall ss, In ss (all_subs (pti_doc (q_unwrap_obj repaired) S F D)) ->
  exists m v, add_selections repaired (pti_doc (q_unwrap_obj repaired) S F D) [] (Some ss) = COk m v /\ MergeOK S (pti_doc (q_unwrap_obj repaired) S F D) m.
Proof.
  intros Hpi H. apply validate_model_nil, all_rules_nil in H as [_ [Hf _]]. apply (rule_fields_silent_merge_sound pi S F _ Hpi Hf).
Qed.

(** the pipeline as it is (with the memo) accepts the same documents when field selections sit at
    pairwise distinct positions *)
Theorem memo_accepted_merge_sound pi S F D :
  order_ok pi -> doc_field_positions_distinct D -> validate_model_memo repaired pi S F D = Done [] ->
  forall ss, In ss (all_subs (pti_doc (q_unwrap_obj repaired) S F D)) ->
  exists m v, add_selections repaired (pti_doc (q_unwrap_obj repaired) S F D) [] (Some ss) = COk m v /\ MergeOK S (pti_doc (q_unwrap_obj repaired) S F D) m.
Proof.
  intros Hpi Hd H. apply (accepted_merge_sound pi S F D Hpi). apply (validate_memo_iff_parsed pi S F D Hpi Hd). exact H.
Qed.
