(** * Vld/Hyps.v — the hypotheses of the C04 rule theorems as decidable checks (executable, no
    proofs): well-formedness of the schema as schema.New guarantees it, and the two conditions on a
    document under which validateArguments / validateValues "can do their job".  The correspondence
    check evaluates the schema checks on every generated schema. *)
From Coq Require Import List NArith Bool.
From ApiFu Require Import Base.Sexp Vld.Ast Vld.TypeInfoModel Vld.ValidSpec.
Import ListNotations.

(** no object or interface type (and no introspection meta field) declares a field "__typename":
    names starting with "__" are reserved *)
Definition no_typename_fields (fs : list (name * field_def)) : bool :=
  negb (existsb (fun f => name_eqb n_typename (fst f)) fs).
Definition schema_no_typename (S : schema) : bool :=
  forallb (fun nt => match t_body (snd nt) with
                     | TObject fs _ => no_typename_fields fs
                     | TInterface fs => no_typename_fields fs
                     | _ => true
                     end) (s_types S)
  && no_typename_fields (s_meta S).

(** the type is a (wrapped) scalar, enum or input object type of the schema *)
Definition input_styb (S : schema) (t : sty) : bool :=
  match raw_body S (unwrapped t) with Some b => is_input_body b | None => false end.
(** the fields of input object types have input types *)
Definition schema_input_closed (S : schema) : bool :=
  forallb (fun nt => match t_body (snd nt) with
                     | TInput defs => forallb (fun nd => input_styb S (in_type (snd nd))) defs
                     | _ => true
                     end) (s_types S).

(** the root operation types are object types of the schema, and "String" (the type of __typename)
    is not a composite type *)
Definition composite_name (S : schema) (n : name) : bool :=
  match raw_body S n with Some b => is_composite_body b | None => false end.
Definition schema_roots_ok (S : schema) : bool :=
  composite_name S (s_query S)
  && match s_mutation S with Some n => composite_name S n | None => true end
  && match s_subscription S with Some n => composite_name S n | None => true end
  && negb (composite_name S n_String).

Definition schema_ok (S : schema) : bool := schema_no_typename S && schema_input_closed S && schema_roots_ok S.

(** argument definitions (of fields, of the introspection meta fields, of directives): names are
    distinct (they are the keys of a Go map) and types are input types (schema.New checks this) *)
Definition args_ok (S : schema) (args : list (name * input_def)) : bool :=
  nodupb (map fst args) && forallb (fun nd => input_styb S (in_type (snd nd))) args.
Definition fields_args_ok (S : schema) (fs : list (name * field_def)) : bool :=
  forallb (fun nf => args_ok S (f_args (snd nf))) fs.
Definition schema_args_ok (S : schema) : bool :=
  forallb (fun nt => match t_body (snd nt) with
                     | TObject fs _ => fields_args_ok S fs
                     | TInterface fs => fields_args_ok S fs
                     | _ => true
                     end) (s_types S)
  && fields_args_ok S (s_meta S)
  && forallb (fun nd => args_ok S (dd_args (snd nd))) (s_directives S).

(** Schema.InterfaceImplementations agrees with the interfaces the object types declare, and type
    names are the keys of a map *)
Definition impls_of (S : schema) (n : name) : list name :=
  match assoc n (s_impls S) with Some l => l | None => [] end.
Definition schema_impls_ok (S : schema) : bool :=
  nodupb (map fst (s_types S)) &&
  forallb (fun nt => match t_body (snd nt) with
                     | TInterface _ =>
                         forallb (fun x => match raw_body S x with Some (TObject _ ifs) => mem (fst nt) ifs | _ => false end)
                                 (impls_of S (fst nt))
                         && forallb (fun nt' => match t_body (snd nt') with
                                                | TObject _ ifs => if mem (fst nt) ifs then mem (fst nt') (impls_of S (fst nt)) else true
                                                | _ => true
                                                end) (s_types S)
                     | _ => true
                     end) (s_types S).

(** a non-null input (directive argument, input object field) has no [null] default: for these two
    kinds of location TypeInfo records "has a default" only for a default other than null, the
    specification for any default; they differ on nothing else *)
Definition default_ok (d : input_def) : bool :=
  negb (is_nonnull (in_type d)) || match in_default d with DNull => false | _ => true end.
Definition schema_defaults_ok (S : schema) : bool :=
  forallb (fun nt => match t_body (snd nt) with
                     | TInput defs => forallb (fun nd => default_ok (snd nd)) defs
                     | _ => true
                     end) (s_types S)
  && forallb (fun nd => forallb (fun a => default_ok (snd a)) (dd_args (snd nd))) (s_directives S).

(** an object type has the fields of the interfaces it declares, requiring no more features than the
    interface's field does (ObjectType.satisfyInterface), and the members of a union are object types *)
Definition implements_ok (S : schema) (ofs : list (name * field_def)) (i : name) : bool :=
  match raw_body S i with
  | Some (TInterface ifs) =>
      forallb (fun nf => match assoc (fst nf) ofs with
                         | Some fd' => subset (f_req fd') (f_req (snd nf))
                         | None => false
                         end) ifs
  | _ => true
  end.
Definition schema_ifaces_ok (S : schema) : bool :=
  forallb (fun nt => match t_body (snd nt) with
                     | TObject ofs ifs => forallb (implements_ok S ofs) ifs
                     | TUnion ms => forallb (fun m => match raw_body S m with Some (TObject _ _) => true | _ => false end) ms
                     | _ => true
                     end) (s_types S).

(** positions, as the parser assigns them: the selection sets of the document sit at pairwise
    distinct positions, and so do its field selections (addFieldSelections identifies a selection set
    by where it opens, the checked-pairs memo a field by where it starts) *)
Fixpoint h_subs_sel (s : selection) : list selset :=
  match s with
  | SField _ _ _ _ _ _ (Some ss) => h_subs_ss ss
  | SField _ _ _ _ _ _ None => []
  | SSpread _ _ _ _ => []
  | SInline _ _ ss _ => h_subs_ss ss
  end
with h_subs_ss (ss : selset) : list selset :=
  ss :: match ss with SelSet _ sels _ => flat_map h_subs_sel sels end.
Definition h_all_subs (D : document) : list selset := flat_map (fun d => h_subs_ss (def_sub d)) D.
Definition h_is_field (s : selection) : bool := match s with SField _ _ _ _ _ _ _ => true | _ => false end.
Definition h_field_positions (D : document) : list pos :=
  flat_map (fun ss => map sel_pos (filter h_is_field (ss_sels ss))) (h_all_subs D).
Fixpoint pnodupb (l : list pos) : bool :=
  match l with [] => true | x :: r => negb (pmem x r) && pnodupb r end.
Definition doc_positions_ok (D : document) : bool :=
  pnodupb (map ss_pos (h_all_subs D)) && pnodupb (h_field_positions D).

(** field types have no non-null directly inside a non-null (NewNonNullType of a non-null type is
    not a type schema.New accepts) *)
Fixpoint wf_styb (t : sty) : bool :=
  match t with
  | StNamed _ => true
  | StList t' => wf_styb t'
  | StNonNull t' => match t' with StNonNull _ => false | _ => wf_styb t' end
  end.
Definition fields_types_wf (fs : list (name * field_def)) : bool := forallb (fun nf => wf_styb (f_type (snd nf))) fs.
Definition schema_types_wf (S : schema) : bool :=
  forallb (fun nt => match t_body (snd nt) with
                     | TObject fs _ => fields_types_wf fs
                     | TInterface fs => fields_types_wf fs
                     | _ => true
                     end) (s_types S)
  && fields_types_wf (s_meta S).

(** every field selection of the document has a definition (5.3.1 holds and every selection set has
    a known parent type) *)
Definition fields_defined (S : schema) (F : features) (D : document) : bool :=
  forallb (fun o => match fo_def S F o with Some _ => true | None => false end) (all_fields S F D).
(** every literal with an expected type is expected to be of an input type (arguments always are in
    a well-formed schema; a variable's default value is when 5.8.2 holds for that variable) *)
Definition values_typed_input (S : schema) (F : features) (D : document) : bool :=
  forallb (fun vt => input_styb S (snd vt)) (typed_values S F D).
