(** * Vld/MemoTransfer.v — the theorems about accepted documents, for the pipeline as it is on the
    current tree ([validate_model_memo], with the checked-pairs memo): they need of the pipeline only
    that the rule groups other than the overlapping-fields pass are silent and that the first visitor
    of validateFields emitted nothing ([rules_silent]), which the memoised pipeline provides too. *)
From Coq Require Import List NArith Arith Bool Lia.
From ApiFu Require Import Base.Sexp Vld.Ast Vld.Inspect Vld.InspectProofs Vld.TypeInfoModel Vld.TypeInfoPure
     Vld.ValidatorModel Vld.ValidSpec Vld.Hyps Vld.ProofsCommon Vld.ProofsDirectives Vld.ProofsArguments Vld.ProofsFragDecl Vld.ProofsValues
     Vld.ProofsOrder Vld.ProofsTotal Vld.ProofsMemo Vld.ProofsSpreads Vld.ValidatorProofs Vld.ProofsSpecReach Vld.ProofsVarsSpec Vld.ProofsSecondaryRules Vld.ProofsSpreadsSpec.
Import ListNotations.

Lemma validate_memo_nil q pi S F D :
  validate_model_memo q pi S F D = Done [] <-> all_rules_m q pi S F (pti_doc (q_unwrap_obj q) S F D) = Done [].
Proof.
  unfold validate_model_memo. rewrite type_info_pure.
  destruct (all_rules_m q pi S F (pti_doc (q_unwrap_obj q) S F D)) as [errs | s |]; [| tauto | tauto].
  rewrite !Done_nil_iff. apply filter_primary_nil.
Qed.

Lemma merge_enter_m_dirty q pi S D st n :
  ~ clean (fst st) -> ~ clean (fst (fst (merge_enter_m q pi S D st n))).
Proof.
  intros H. unfold merge_enter_m. destruct n; try exact H.
  destruct (add_selections q D [] (Some s)) as [m v | e |]; [| apply add_errs_dirty; exact H | apply set_abort_dirty; exact H].
  destruct (can_merge_m q pi S D (max_depth D) m (snd st)) as [[| e | s0 |] mm]; cbn [fst];
    [exact H | apply add_errs_dirty; exact H | apply set_abort_dirty; exact H | apply set_abort_dirty; exact H].
Qed.

Lemma memo_rules_silent pi S F A : all_rules_m repaired pi S F A = Done [] -> rules_silent pi S F A.
Proof.
  intros H. apply all_rules_m_nil in H as [Ho [Hf [Ha [[Hd Hs] [Hv [Hdir Hvar]]]]]].
  unfold rules_silent. repeat split; try assumption.
  unfold rule_fields_m in Hf. apply finish_clean in Hf.
  destruct (classic_clean (inspect (fields_enter S F) pop (tree_doc A) rst0)) as [[H _] | Hd']; [exact H |].
  exfalso.
  apply (inspect_dirty (fun st : rst * memo => ~ clean (fst st)) (merge_enter_m repaired pi S A) (fun s => s) (tree_doc A)
                       (merge_enter_m_dirty repaired pi S A) (fun st H => H) (inspect (fields_enter S F) pop (tree_doc A) rst0, memo0) Hd'). exact Hf.
Qed.

Lemma memo_accepted_silent pi S F D :
  validate_model_memo repaired pi S F D = Done [] -> rules_silent pi S F (pti_doc (q_unwrap_obj repaired) S F D).
Proof. intros H. apply validate_memo_nil in H. apply memo_rules_silent. exact H. Qed.

(** what acceptance by the validator as it is guarantees *)
Theorem memo_accepted_valid pi S F D :
  order_ok pi -> schema_ok S = true -> validate_model_memo repaired pi S F D = Done [] ->
  valid_5_2_1_1 D = true /\ valid_5_2_2_1 D = true /\ valid_root S D = true /\
  valid_5_3_1 S F D = true /\ valid_5_3_3 S F D = true /\ fields_defined S F D = true /\
  valid_5_4 S F D = true /\
  valid_5_5_1 S F D = true /\ valid_5_5_2_1 D = true /\
  (values_typed_input S F D = true -> valid_5_6 S F D = true) /\
  valid_5_7 S D = true.
Proof.
  intros Hpi Hs H. pose proof (memo_accepted_silent pi S F D H) as Hsil.
  destruct (silent_operations_hold pi S F D Hsil) as [O1 [O2 O3]].
  destruct (silent_fields_hold pi S F D Hpi Hs Hsil) as [F1 [F2 F3]].
  destruct (silent_rules_hold pi S F D Hpi Hsil) as [R1 [R2 [_ R4]]].
  pose proof (silent_arguments_hold pi S F D Hpi Hs Hsil) as A1.
  assert (valid_5_5_2_1 D = true) as S1.
  { destruct Hsil as [_ [_ [_ [_ [Hsp _]]]]]. apply (spreads_silent_defined pi Hpi S F D Hsp). }
  repeat split; try assumption. intros Hv. apply (R4 Hs Hv).
Qed.

(** what C01's [doc_ok] needs from validation, conjunct by conjunct (C01 Properties header, items
    (a), (b) literal half, (c), (f)); the other items are C01's own or come from [schema_ok] / C05 *)
Theorem accepted_doc_ok_conjuncts pi S F D :
  order_ok pi -> schema_ok S = true -> validate_model_memo repaired pi S F D = Done [] ->
  valid_5_5_1 S F D = true /\
  (valid_5_7 S D = true /\ (values_typed_input S F D = true -> valid_5_6 S F D = true)) /\
  valid_root S D = true /\
  (fields_defined S F D = true /\ valid_5_3_1 S F D = true).
Proof.
  intros Hpi Hs H. destruct (memo_accepted_valid pi S F D Hpi Hs H) as [_ [_ [R [F1 [_ [FD [_ [C [_ [V D7]]]]]]]]]].
  repeat split; assumption.
Qed.

(** 5.5.2.2 (no fragment reaches itself) and 5.8.1 - 5.8.5 (variables) in the Spec's own formulation *)
Theorem silent_cycles_variables_hold pi S F D :
  order_ok pi -> schema_ok S = true -> rules_silent pi S F (pti_doc (q_unwrap_obj repaired) S F D) ->
  valid_5_5_2_2 D = true /\
  valid_5_8_1 D = true /\ valid_5_8_2 S F D = true /\ valid_5_8_3 S F D = true /\ valid_5_8_4 S F D = true /\ valid_5_8_5 S F D = true.
Proof.
  intros Hpi Hs Hsil. destruct (silent_rules_hold pi S F D Hpi Hsil) as [_ [H551 _]].
  unfold valid_5_5_1 in H551. rewrite !andb_true_iff in H551. destruct H551 as [[[Hnd _] _] _].
  destruct Hsil as [_ [_ [_ [_ [Hsp [_ [_ Hvar]]]]]]].
  unfold schema_ok in Hs. apply andb_true_iff in Hs as [Hs _]. apply andb_true_iff in Hs as [Hs1 _].
  pose proof (schema_no_typename_spec S F Hs1) as Hnt.
  destruct (variables_silent_5_8 pi S F D Hpi Hnt Hnd Hvar) as [V1 [V2 [V3 V5]]].
  split; [apply (spreads_silent_5_5_2_2 pi S F D Hpi Hnd Hsp) |].
  repeat split; try assumption. apply (variables_silent_5_8_4 pi S F D Hpi Hnd Hvar).
Qed.

Theorem memo_accepted_cycles_variables pi S F D :
  order_ok pi -> schema_ok S = true -> validate_model_memo repaired pi S F D = Done [] ->
  valid_5_5_2_2 D = true /\
  valid_5_8_1 D = true /\ valid_5_8_2 S F D = true /\ valid_5_8_3 S F D = true /\ valid_5_8_4 S F D = true /\ valid_5_8_5 S F D = true.
Proof. intros Hpi Hs H. apply (silent_cycles_variables_hold pi S F D Hpi Hs (memo_accepted_silent pi S F D H)). Qed.

(** every use of a variable the Spec attributes to an operation of an accepted document: the variable
    is declared by that operation, its declared type exists, and the use is allowed at its position *)
Theorem memo_accepted_usages_allowed pi S F D :
  order_ok pi -> schema_ok S = true -> validate_model_memo repaired pi S F D = Done [] ->
  forall ot n vars dirs sub, In (DOp ot n vars dirs sub) D ->
  forall u, In u (op_usages S F D (DOp ot n vars dirs sub)) ->
  exists vd, find_var (u_name u) vars = Some vd /\
  exists vt, declared_type S F (vd_type vd) = Some vt /\
  forall lt, u_type u = Some lt -> usage_allowed vd vt lt (u_default u) = true.
Proof.
  intros Hpi Hs H ot n vars dirs sub Hd u Hu. pose proof (memo_accepted_silent pi S F D H) as Hsil.
  destruct (silent_rules_hold pi S F D Hpi Hsil) as [_ [H551 _]].
  unfold valid_5_5_1 in H551. rewrite !andb_true_iff in H551. destruct H551 as [[[Hnd _] _] _]. apply nodupb_NoDup in Hnd.
  destruct Hsil as [_ [_ [_ [_ [_ [_ [_ Hvar]]]]]]].
  unfold schema_ok in Hs. apply andb_true_iff in Hs as [Hs _]. apply andb_true_iff in Hs as [Hs1 _].
  pose proof (schema_no_typename_spec S F Hs1) as Hnt.
  apply (op_usages_ok S F D Hnd Hnt ot n vars dirs sub); [| exact Hu].
  apply (proj1 (rule_variables_fine S _ pi Hpi) Hvar). unfold pti_doc. apply in_map. exact Hd.
Qed.

(** [validate_ok_doc_ok], the part that is validation's: every conjunct of C01's [doc_ok] that rests
    on a validation rule, for a document the validator (as it is, with the memo) accepts *)
Theorem validate_ok_doc_ok_partial pi S F D :
  order_ok pi -> schema_ok S = true -> validate_model_memo repaired pi S F D = Done [] ->
  (* (a) type conditions *) valid_5_5_1 S F D = true /\
  (* (b) directives, literal half *) (valid_5_7 S D = true /\ (values_typed_input S F D = true -> valid_5_6 S F D = true)) /\
  (* (b) directives, variable half *)
  (forall ot n vars dirs sub, In (DOp ot n vars dirs sub) D ->
   forall u, In u (op_usages S F D (DOp ot n vars dirs sub)) ->
   exists vd, find_var (u_name u) vars = Some vd /\
   exists vt, declared_type S F (vd_type vd) = Some vt /\
   forall lt, u_type u = Some lt -> usage_allowed vd vt lt (u_default u) = true) /\
  (* (c) root types *) valid_root S D = true /\
  (* (f) fields defined on the parent type *) (fields_defined S F D = true /\ valid_5_3_1 S F D = true).
Proof.
  intros Hpi Hs H. destruct (accepted_doc_ok_conjuncts pi S F D Hpi Hs H) as [Ha [Hb [Hc Hf]]].
  split; [exact Ha |]. split; [exact Hb |]. split; [apply (memo_accepted_usages_allowed pi S F D Hpi Hs H) |]. split; assumption.
Qed.

(** every section of chapter 5 for which "accepted => holds" is proved, without side condition *)
Theorem memo_accepted_valid_sections pi S F D :
  order_ok pi -> schema_ok S = true -> schema_args_ok S = true -> validate_model_memo repaired pi S F D = Done [] ->
  valid_5_2_1_1 D = true /\ valid_5_2_2_1 D = true /\ valid_root S D = true /\
  valid_5_3_1 S F D = true /\ valid_5_3_3 S F D = true /\
  valid_5_4 S F D = true /\
  valid_5_5_1 S F D = true /\ valid_5_5_2_1 D = true /\ valid_5_5_2_2 D = true /\
  valid_5_6 S F D = true /\
  valid_5_7 S D = true /\
  valid_5_8_1 D = true /\ valid_5_8_2 S F D = true /\ valid_5_8_3 S F D = true /\ valid_5_8_4 S F D = true /\ valid_5_8_5 S F D = true.
Proof.
  intros Hpi Hs Hargs H.
  destruct (memo_accepted_valid pi S F D Hpi Hs H) as [A1 [A2 [A3 [A4 [A5 [A6 [A7 [A8 [A9 [A10 A11]]]]]]]]]].
  destruct (memo_accepted_cycles_variables pi S F D Hpi Hs H) as [B1 [B2 [B3 [B4 [B5 B6]]]]].
  assert (valid_5_6 S F D = true) as H56.
  { apply A10. apply (values_typed_input_holds S F D Hargs (fields_defined_spec S F D A6)); [| exact B3].
    unfold valid_5_7 in A11. rewrite !andb_true_iff in A11. tauto. }
  repeat split; assumption.
Qed.

(** 5.5.2.3 (every spread is possible) in the Spec's formulation *)
Theorem memo_accepted_spreads_possible pi S F D :
  order_ok pi -> schema_impls_ok S = true -> validate_model_memo repaired pi S F D = Done [] -> valid_5_5_2_3 S F D = true.
Proof.
  intros Hpi Himpl H. pose proof (memo_accepted_silent pi S F D H) as Hsil.
  destruct (silent_rules_hold pi S F D Hpi Hsil) as [_ [H551 _]].
  unfold valid_5_5_1 in H551. rewrite !andb_true_iff in H551. destruct H551 as [[[Hnd _] _] _].
  destruct Hsil as [_ [_ [_ [_ [Hsp _]]]]]. apply (spreads_silent_5_5_2_3 pi S F D Hpi Himpl Hnd Hsp).
Qed.

(** acyclicity in the shape C01 uses *)
Theorem memo_accepted_acyclic_spreads pi S F D :
  order_ok pi -> validate_model_memo repaired pi S F D = Done [] -> acyclic_spreads D.
Proof.
  intros Hpi H. pose proof (memo_accepted_silent pi S F D H) as Hsil.
  destruct (silent_rules_hold pi S F D Hpi Hsil) as [_ [H551 _]].
  unfold valid_5_5_1 in H551. rewrite !andb_true_iff in H551. destruct H551 as [[[Hnd _] _] _].
  destruct Hsil as [_ [_ [_ [_ [Hsp _]]]]]. apply (spreads_silent_acyclic_spreads pi S F D Hpi Hnd Hsp).
Qed.
